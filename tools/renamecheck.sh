#!/bin/bash
# usage: renamecheck.sh name1 name2 ...  — renames an unexported identifier in a scratch copy of /repo (gofmt -r), builds,
# runs every quick check on the copy and prints the checks that alarm. Behaviour cannot change, so every alarm is a false alarm.
export GOFLAGS=-mod=mod GOPROXY=off GOSUMDB=off GOTOOLCHAIN=local
one() {
  n=$1
  d=/tmp/rn_$n
  rm -rf $d; cp -r /repo $d; rm -rf $d/.git
  (cd $d && gofmt -r "$n -> ${n}Rn" -w *.go internal/fp/*.go 2>/dev/null && go build ./... 2>&1 | head -3 | sed "s/^/[$n] build: /")
  res=""
  for p in $(/verif/bin/rjverif list | cut -d' ' -f1); do
    out=$(VERIF_REPO=$d VERIF_DIR=$d/_out timeout 600 /verif/bin/rjverif check $p 2>&1)
    if echo "$out" | grep -q "^VIOLATION"; then
      res="$res $p"
      echo "$out" | grep -E "^  (VIOLATION|UNDECIDED)" | head -2 | cut -c1-220 | sed "s/^/[$n] $p /"
    fi
  done
  echo "[$n] ALARMS:$res"
  rm -rf $d
}
export -f one
printf "%s\n" "$@" | xargs -P 6 -I{} bash -c 'one {}'
