#!/usr/bin/env python3
"""Mutation campaign (development aid): generate small mutants of the library, keep those that still build and pass the
pinned suite ("survivors"), run every quick check on each survivor (scratch copies under /tmp, removed afterwards) and
report the survivors no check reports. An unreported survivor is either an equivalent mutant (or one that breaks no
listed property) or a gap in the checker — to be judged by reading.
usage: mutcampaign.py <outdir> <n_handwritten> <n_generated> [seed]"""
import os, re, sys, random, subprocess, shutil, json, concurrent.futures as cf
out, nh, ng = sys.argv[1], int(sys.argv[2]), int(sys.argv[3])
seed = int(sys.argv[4]) if len(sys.argv) > 4 else 1
random.seed(seed)
REPO = '/repo'
ENV = dict(os.environ, GOFLAGS='-mod=mod', GOPROXY='off', GOSUMDB='off', GOTOOLCHAIN='local')
hand = ['simple_readers.go', 'rjson.go', 'complex_readers.go', 'decode.go', 'token.go', 'machine_helpers.go',
        'internal/fp/fp.go', 'internal/fp/decimal.go', 'internal/fp/eisel_lemire.go']
gen = ['skip_machine.rl.go', 'object_handler_machine.rl.go', 'array_handler_machine.rl.go', 'read_machines.rl.go', 'misc_machines.rl.go']
SUBS = [(r' < ', ' <= '), (r' <= ', ' < '), (r' > ', ' >= '), (r' >= ', ' > '), (r' == ', ' != '), (r' != ', ' == '),
        (r' && ', ' || '), (r' \|\| ', ' && '), (r'\+ 1\b', '+ 2'), (r'- 1\b', '- 2'), (r'\+1\b', '+2'), (r'-1\b', '-2'),
        (r'\btrue\b', 'false'), (r'\bfalse\b', 'true'), (r'\+\+', '--'), (r' \+ ', ' - '), (r' - ', ' + ')]
def num_mut(m):
    v = int(m.group(0)); return str(v + random.choice([-1, 1]))
def candidates(path, generated):
    lines = open(os.path.join(REPO, path)).read().split('\n')
    c = []
    for i, ln in enumerate(lines):
        s = ln.strip()
        if not s or s.startswith('//') or s.startswith('import') or s.startswith('package') or '"' in s and generated:
            continue
        if generated:
            if re.search(r'case \d+|data\[p\] [<>=!]+ \d+|<= data\[p\]|goto (st|tr)\d+', s):
                c.append(i)
        else:
            if MODE == 'ident':
                if ln.startswith('\t') and not s.startswith('func ') and 'Errorf' not in s and not s.startswith('}') and not s.startswith('case ') and not s.startswith("'"):
                    c.append(i)
            elif re.search(r'[<>=!]=?|&&|\|\||\+\+|\b\d+\b', s) and not s.startswith('func ') and 'Errorf' not in s:
                c.append(i)
    return lines, c
KEYWORDS = set("break case chan const continue default defer else fallthrough for func go goto if import interface map package range return select struct switch type var nil true false len cap append make copy byte int uint uint64 int64 int32 uint32 string error bool rune float64".split())
MODE = os.environ.get('MUTOPS', 'token')  # token | ident (swap an identifier for a nearby one, or delete a simple statement)
def ident_mutate(lines, i):
    full = lines[i]
    ci = full.find('//')
    ln, tail = (full, '') if ci < 0 else (full[:ci], full[ci:])
    opts = []
    near = set()
    for j in range(max(0, i - 14), min(len(lines), i + 15)):
        cj = lines[j].find('//')
        code = lines[j] if cj < 0 else lines[j][:cj]
        if '"' in code or '`' in code:
            continue
        for m in re.finditer(r'(?<![\w.])[A-Za-z_]\w*(?:\.[A-Za-z_]\w*)?', code):
            w = m.group(0)
            if w.split('.')[0] not in KEYWORDS:
                near.add(w)
    if '"' not in ln and '`' not in ln:
        for m in re.finditer(r'(?<![\w.])[A-Za-z_]\w*(?:\.[A-Za-z_]\w*)?', ln):
            w = m.group(0)
            if w.split('.')[0] in KEYWORDS or ln[m.end():m.end() + 1] == '(':
                continue
            for o in near:
                if o != w:
                    opts.append(ln[:m.start()] + o + ln[m.end():] + tail)
    st = ln.strip()
    if re.match(r'^[\w.\[\]]+ (=|\+=|-=|\*=) [^{]*$', st) or re.match(r'^[\w.\[\]]+(\+\+|--)$', st):
        indent = ln[:len(ln) - len(ln.lstrip())]
        opts += [indent + '// deleted'] * 6
    return random.choice(opts) if opts else None

def mutate_line(full, generated):
    # only the code part of the line is mutated
    ci = full.find('//')
    ln, tail = (full, '') if ci < 0 else (full[:ci], full[ci:])
    r = mutate_code(ln, generated)
    return None if r is None else r + tail

def mutate_code(ln, generated):
    opts = []
    if generated:
        for m in re.finditer(r'\b\d+\b', ln):
            v = int(m.group(0))
            for nv in (v - 1, v + 1):
                if nv >= 0:
                    opts.append(ln[:m.start()] + str(nv) + ln[m.end():])
        for a, b in SUBS[:6]:
            for m in re.finditer(a, ln):
                opts.append(ln[:m.start()] + b + ln[m.end():])
    else:
        for a, b in SUBS:
            for m in re.finditer(a, ln):
                opts.append(ln[:m.start()] + b + ln[m.end():])
        for m in re.finditer(r'(?<![\w.])\d+(?![\w.])', ln):
            v = int(m.group(0))
            for nv in (v - 1, v + 1):
                if nv >= 0:
                    opts.append(ln[:m.start()] + str(nv) + ln[m.end():])
    opts = [o for o in opts if o != ln]
    return random.choice(opts) if opts else None
muts = []
for files, n, g in ((hand, nh, False), (gen, ng, True)):
    pool = []
    for f in files:
        lines, c = candidates(f, g)
        for i in c:
            pool.append((f, i))
    random.shuffle(pool)
    for f, i in pool:
        if len([m for m in muts if m['gen'] == g]) >= n:
            break
        lines = open(os.path.join(REPO, f)).read().split('\n')
        nl = ident_mutate(lines, i) if (MODE == 'ident' and not g) else mutate_line(lines[i], g)
        if nl is None:
            continue
        muts.append({'file': f, 'line': i + 1, 'old': lines[i].strip(), 'new': nl.strip(), 'newline': nl, 'gen': g})
os.makedirs(out, exist_ok=True)
props = subprocess.run(['/verif/bin/rjverif', 'list'], capture_output=True, text=True, errors='replace').stdout.split('\n')
props = [p.split()[0] for p in props if p.strip()]
def run(k):
    m = muts[k]
    d = f'/tmp/mutc_{seed}_{k}'
    shutil.rmtree(d, ignore_errors=True)
    shutil.copytree(REPO, d, ignore=shutil.ignore_patterns('.git'))
    p = os.path.join(d, m['file'])
    lines = open(p).read().split('\n')
    lines[m['line'] - 1] = m['newline']
    open(p, 'w').write('\n'.join(lines))
    res = dict(m); res.pop('newline')
    try:
        b = subprocess.run(['go', 'build', './...'], cwd=d, env=ENV, capture_output=True, text=True, errors='replace', timeout=300)
        if b.returncode != 0:
            res['status'] = 'nobuild'; return res
        t = subprocess.run(['go', 'test', '-vet=off', '-count=1', './...'], cwd=d, env=ENV, capture_output=True, text=True, errors='replace', timeout=900)
        if t.returncode != 0:
            res['status'] = 'killed-by-tests'; return res
        res['status'] = 'survivor'
        det = []
        for pid in props:
            e = dict(ENV, VERIF_REPO=d, VERIF_DIR=d + '/_out')
            c = subprocess.run(['/verif/bin/rjverif', 'check', pid], env=e, capture_output=True, text=True, errors='replace', timeout=900)
            if 'OK property=' not in c.stdout:
                det.append(pid)
        res['detected_by'] = det
        return res
    except subprocess.TimeoutExpired:
        res['status'] = 'timeout'; return res
    finally:
        shutil.rmtree(d, ignore_errors=True)
results = []
with cf.ThreadPoolExecutor(max_workers=6) as ex:
    for r in ex.map(run, range(len(muts))):
        results.append(r)
        print(r['status'], r['file'], r['line'], '|', r['old'][:60], '=>', r['new'][:60], '|', ','.join(r.get('detected_by', [])), flush=True)
json.dump(results, open(os.path.join(out, f'results_{seed}.json'), 'w'), indent=1)
surv = [r for r in results if r['status'] == 'survivor']
und = [r for r in surv if not r['detected_by']]
print(f"\n{len(results)} mutants: {len(surv)} survive the suite, {len(surv)-len(und)} of them reported, {len(und)} unreported")
for r in und:
    print('UNREPORTED', r['file'], r['line'], '|', r['old'], '=>', r['new'])
