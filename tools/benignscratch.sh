#!/bin/bash
# usage: benignscratch.sh <dir with patch_*.diff> — like benigncheck.sh but on scratch copies of /repo (never touches /repo)
export GOFLAGS=-mod=mod GOPROXY=off GOSUMDB=off GOTOOLCHAIN=local
one() {
  pf=$1
  n=$(basename $(dirname $pf))_$(basename $pf .diff)
  d=/tmp/bs_$n
  rm -rf $d; cp -r /repo $d; rm -rf $d/.git
  (cd $d && patch -p1 -s -f -i $pf >/dev/null 2>&1) || { echo "=== $pf: patch failed"; rm -rf $d; return; }
  (cd $d && go build ./... >/dev/null 2>&1) || { echo "=== $pf: does not build"; rm -rf $d; return; }
  msg="=== $pf"
  for p in $(/verif/bin/rjverif list | cut -d' ' -f1); do
    out=$(VERIF_REPO=$d VERIF_DIR=$d/_out timeout 600 /verif/bin/rjverif check $p 2>&1)
    if ! echo "$out" | grep -q "^OK property"; then
      msg="$msg
  ALARM $p
$(echo "$out" | grep -E "^  (VIOLATION|UNDECIDED)" | head -3 | cut -c1-300)"
    fi
  done
  echo "$msg"
  rm -rf $d
}
export -f one
ls $1/patch_*.diff | xargs -P 4 -I{} bash -c "one {}"
