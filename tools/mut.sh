#!/bin/bash
# usage: mut.sh <file> <python-replace-old> <new> <props...>
set -e
rm -rf /tmp/rjm && cp -r /repo /tmp/rjm && rm -rf /tmp/rjm/.git
python3 - "$1" "$2" "$3" <<'PY'
import sys
f,old,new=sys.argv[1:4]
p='/tmp/rjm/'+f
s=open(p).read()
assert s.count(old)>=1, "pattern not found"
s=s.replace(old,new,1)
open(p,'w').write(s)
PY
shift 3
for id in "$@"; do
  VERIF_REPO=/tmp/rjm VERIF_DIR=/tmp/rjm_out VERIF_SELFTEST=/verif/selftest /verif/bin/rjverif check $id | grep -E "VIOLATION|OK prop|VIOLAT|UNDECIDED|  VIOL" | cut -c1-330 | head -6
done
