#!/bin/bash
# usage: benigncheck.sh <dir with patch_*.diff>  — applies each behaviour-preserving patch to /repo, runs every check, reverts.
export GOFLAGS=-mod=mod GOPROXY=off GOSUMDB=off GOTOOLCHAIN=local
cd /repo || exit 1
if ! git diff --quiet; then echo "/repo dirty"; exit 1; fi
for pf in $1/patch_*.diff; do
  echo "=== $pf"
  git apply $pf || { echo "  does not apply"; continue; }
  go build ./... || { echo "  does not build"; git checkout -- .; continue; }
  for p in $(/verif/bin/rjverif list | cut -d' ' -f1); do
    out=$(VERIF_DIR=/tmp/benign_out timeout 600 /verif/bin/rjverif check $p 2>&1)
    if echo "$out" | grep -q "^VIOLATION"; then
      echo "  ALARM $p"; echo "$out" | grep -E "^  (VIOLATION|UNDECIDED)" | head -3 | cut -c1-280
    fi
  done
  git checkout -- .
done
rm -rf /tmp/benign_out
