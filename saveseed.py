#!/usr/bin/env python3
# usage: saveseed.py <Cxx> <name> "<needs>" "<detected by>"
import sys, os, shutil, json, glob
pid, name, needs, det = sys.argv[1:5]
also = sys.argv[5].split(",") if len(sys.argv) > 5 and sys.argv[5] else []
import os as _os
src = _os.environ.get("SEEDSRC", f"/tmp/seed_{pid}")
dst = f"/verif/seeded/{name}"
os.makedirs(dst, exist_ok=True)
shutil.copy(f"{src}/patch.diff", dst)
for f in glob.glob(f"{src}/*seed_demo*") + glob.glob(f"{src}/notes.md"):
    shutil.copy(f, dst)
meta = {"property": pid, "needs_to_manifest": needs,
        "confirmed": "in a scratch worktree of /repo: go build ok; existing suite (go test -vet=off -count=1 ./...) passes with the change and the demo set aside; demo test fails with the change and passes with the change reverted (git apply -R)",
        "ran": f"/verif/seedcheck.sh {pid} verify  (applies patch.diff to /repo, runs every registered check, git checkout -- .)",
        "detected_by": det, "also_detected_by": also}
json.dump(meta, open(f"{dst}/meta.json", "w"), indent=1)
print("saved", dst)
