// Package remainder is a positive control for rule R20b: an allocation sized by the unconsumed remainder of the input.
package remainder

func grow(b []byte, size int) []byte {
	if cap(b) >= size {
		return b
	}
	return append(b[:cap(b)], make([]byte, size-cap(b))...)[:len(b)]
}

// ReadThing reads one small token from the front of data but sizes its scratch by everything that follows.
func ReadThing(data []byte, dst []byte) []byte {
	dst = grow(dst, len(dst)+len(data))
	return append(dst, data[0])
}

// ReadTail does the same through a sub-slice.
func ReadTail(data []byte) []byte {
	rest := data[1:]
	return make([]byte, 0, len(rest))
}

// ReadKey sizes by a bounded sub-slice: fine.
func ReadKey(data []byte) []byte {
	key := data[1:4]
	return make([]byte, 0, len(key))
}
