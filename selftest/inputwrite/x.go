// Package inputwrite is a positive control for rule R16a/R16b: it writes through / keeps aliases of its input.
package inputwrite

type Keeper struct{ last []byte }

func Overwrite(data []byte) { data[0] = 0 }

func AppendTo(data []byte) []byte { return append(data[:1], 'x') }

func helper(dst, src []byte) { copy(dst, src) }

func CopyInto(data []byte) { helper(data[2:], []byte("ab")) }

func (k *Keeper) Keep(data []byte) { k.last = data[1:] }

func Alias(data []byte) []byte { return data[1:3] }

func Fine(data []byte) string { return string(data[1:]) }
