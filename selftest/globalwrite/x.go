// Package globalwrite is a positive control for rule R18a: it writes package-level state in three ways.
package globalwrite

var counter int
var table = []int{1, 2, 3}
var scratch [8]byte

func Direct() { counter++ }

func ThroughSlice(i int) { table[i] = 0 }

func helper(p *[8]byte) { p[0] = 1 }

func ThroughPointer() { helper(&scratch) }

func ReadOnly() int { return table[0] + counter }
