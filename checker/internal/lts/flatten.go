package lts

import "fmt"

// Flatten replaces CallM terminators by the transition systems of the summarised machines: the machine runs
// from the byte under the cursor; where it succeeds (at a byte it does not consume, or at end of input) the
// scanner continues in the CallM's To state on that very byte; where it fails the scanner continues in Fail.
func Flatten(l *LTS, machines map[string]*LTS) (*LTS, []string) {
	var probs []string
	out := New(l.Name + "(flat)")
	out.Start = l.Start
	maxID := 0
	for id := range l.States {
		if id > maxID {
			maxID = id
		}
	}
	type ik struct {
		mach           string
		ms, then, fail int
	}
	ids := map[ik]int{}
	idOf := func(k ik) int {
		if id, ok := ids[k]; ok {
			return id
		}
		maxID++
		ids[k] = maxID
		return maxID
	}
	built := map[int]bool{}
	building := map[int]bool{}
	var buildScanner func(id int) *State
	var buildInst func(k ik) *State
	// behaviour of state `from` restricted to bytes set, appended to dst with extra leading prims
	copyEdges := func(dst *State, from *State, set ByteSet, lead []Prim) {
		for _, e := range from.Edges {
			s := e.Bytes.And(set)
			if s.Empty() {
				continue
			}
			pr := append(append([]Prim(nil), lead...), e.Prims...)
			dst.Edges = append(dst.Edges, Edge{Bytes: s, Prims: pr, Term: e.Term, Pos: e.Pos})
		}
	}
	copyEOF := func(dst *State, from *State, lead []Prim) {
		for _, o := range from.EOF {
			o2 := o
			o2.Prims = append(append([]Prim(nil), lead...), o.Prims...)
			dst.EOF = append(dst.EOF, o2)
		}
	}
	buildScanner = func(id int) *State {
		ns := out.State(id)
		if built[id] {
			return ns
		}
		if building[id] {
			probs = append(probs, fmt.Sprintf("state %d: machine continuation refers back to itself without consuming input", id))
			return ns
		}
		building[id] = true
		s := l.States[id]
		if s == nil {
			probs = append(probs, fmt.Sprintf("state %d missing", id))
			built[id] = true
			return ns
		}
		ns.Name, ns.Pos = s.Name, s.Pos
		for _, e := range s.Edges {
			if e.Term.Kind == CallM {
				m := machines[e.Term.Name]
				if m == nil {
					probs = append(probs, "no model for machine "+e.Term.Name)
					ns.Edges = append(ns.Edges, Edge{Bytes: e.Bytes, Term: Term{Kind: Exit, Err: "no machine model"}, Pos: e.Pos})
					continue
				}
				inst := buildInst(ik{e.Term.Name, m.Start, e.Term.To, e.Term.Fail})
				copyEdges(ns, inst, e.Bytes, e.Prims)
				continue
			}
			ns.Edges = append(ns.Edges, e)
		}
		for _, o := range s.EOF {
			if o.Term != nil && o.Term.Kind == CallM {
				m := machines[o.Term.Name]
				if m == nil {
					probs = append(probs, "no model for machine "+o.Term.Name)
					continue
				}
				inst := buildInst(ik{o.Term.Name, m.Start, o.Term.To, o.Term.Fail})
				copyEOF(ns, inst, o.Prims)
				continue
			}
			if o.Term != nil {
				probs = append(probs, fmt.Sprintf("state %d: non-exit outcome at end of input (%s)", id, o.Term))
				continue
			}
			ns.EOF = append(ns.EOF, o)
		}
		built[id] = true
		building[id] = false
		return ns
	}
	buildInst = func(k ik) *State {
		id := idOf(k)
		ns := out.State(id)
		if built[id] {
			return ns
		}
		if building[id] {
			return ns
		}
		building[id] = true
		m := machines[k.mach]
		ms := m.States[k.ms]
		if ms == nil {
			probs = append(probs, fmt.Sprintf("machine %s has no state %d", k.mach, k.ms))
			built[id] = true
			return ns
		}
		ns.Name = fmt.Sprintf("%s.%s", k.mach, ms.Name)
		ns.Pos = ms.Pos
		for _, e := range ms.Edges {
			t := e.Term
			switch t.Kind {
			case Move:
				t.To = idOf(ik{k.mach, t.To, k.then, k.fail})
				ns.Edges = append(ns.Edges, Edge{Bytes: e.Bytes, Prims: e.Prims, Term: t, Pos: e.Pos})
			case Call:
				t.To = idOf(ik{k.mach, t.To, k.then, k.fail})
				t.Ret = idOf(ik{k.mach, t.Ret, k.then, k.fail})
				ns.Edges = append(ns.Edges, Edge{Bytes: e.Bytes, Prims: e.Prims, Term: t, Pos: e.Pos})
			case Ret:
				ns.Edges = append(ns.Edges, e)
			case Exit:
				switch {
				case t.OK && t.Delta == 0:
					copyEdges(ns, buildScanner(k.then), e.Bytes, e.Prims)
				case t.OK:
					probs = append(probs, fmt.Sprintf("machine %s succeeds at offset %+d: cannot be continued", k.mach, t.Delta))
					ns.Edges = append(ns.Edges, Edge{Bytes: e.Bytes, Term: Term{Kind: Exit, Err: "uncomposable"}, Pos: e.Pos})
				default:
					copyEdges(ns, buildScanner(k.fail), e.Bytes, e.Prims)
				}
			default:
				probs = append(probs, "nested machine call inside a machine")
			}
		}
		for _, o := range ms.EOF {
			if o.OK {
				copyEOF(ns, buildScanner(k.then), o.Prims)
			} else {
				copyEOF(ns, buildScanner(k.fail), o.Prims)
			}
		}
		built[id] = true
		building[id] = false
		return ns
	}
	for id := range l.States {
		buildScanner(id)
	}
	// instance states referenced by id but not yet built
	for changed := true; changed; {
		changed = false
		for k, id := range ids {
			if !built[id] {
				buildInst(k)
				changed = true
			}
		}
	}
	return out, probs
}
