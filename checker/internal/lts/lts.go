// Package lts defines the labelled transition systems that the machine extractor (E1), the scanner
// abstract interpreter (E2) and the reference recognisers produce, and that the product checker (E3) compares.
package lts

import (
	"fmt"
	"math/bits"
	"sort"
	"strings"
)

// ByteSet is a subset of {0..255}.
type ByteSet [4]uint64

func Full() ByteSet { return ByteSet{^uint64(0), ^uint64(0), ^uint64(0), ^uint64(0)} }

func Of(bs ...byte) ByteSet {
	var s ByteSet
	for _, b := range bs {
		s[b>>6] |= 1 << (b & 63)
	}
	return s
}

func Range(lo, hi int) ByteSet {
	var s ByteSet
	for b := lo; b <= hi && b <= 255; b++ {
		if b >= 0 {
			s[b>>6] |= 1 << (uint(b) & 63)
		}
	}
	return s
}

func OfString(str string) ByteSet {
	var s ByteSet
	for i := 0; i < len(str); i++ {
		b := str[i]
		s[b>>6] |= 1 << (b & 63)
	}
	return s
}

func (s ByteSet) Has(b byte) bool { return s[b>>6]&(1<<(b&63)) != 0 }
func (s ByteSet) Empty() bool     { return s[0]|s[1]|s[2]|s[3] == 0 }
func (s ByteSet) IsFull() bool    { return s == Full() }
func (s ByteSet) And(o ByteSet) ByteSet {
	return ByteSet{s[0] & o[0], s[1] & o[1], s[2] & o[2], s[3] & o[3]}
}
func (s ByteSet) Or(o ByteSet) ByteSet {
	return ByteSet{s[0] | o[0], s[1] | o[1], s[2] | o[2], s[3] | o[3]}
}
func (s ByteSet) Minus(o ByteSet) ByteSet {
	return ByteSet{s[0] &^ o[0], s[1] &^ o[1], s[2] &^ o[2], s[3] &^ o[3]}
}
func (s ByteSet) Not() ByteSet { return Full().Minus(s) }
func (s ByteSet) Count() int {
	return bits.OnesCount64(s[0]) + bits.OnesCount64(s[1]) + bits.OnesCount64(s[2]) + bits.OnesCount64(s[3])
}

// Min returns the smallest member (ok=false if empty).
func (s ByteSet) Min() (byte, bool) {
	for i := 0; i < 4; i++ {
		if s[i] != 0 {
			return byte(i*64 + bits.TrailingZeros64(s[i])), true
		}
	}
	return 0, false
}

// Pick returns a "nice" representative (printable if possible).
func (s ByteSet) Pick() byte {
	for _, pref := range []ByteSet{Range('a', 'z'), Range('0', '9'), Range(0x21, 0x7e), Full()} {
		if m, ok := s.And(pref).Min(); ok {
			return m
		}
	}
	return 0
}

func (s ByteSet) String() string {
	if s.Empty() {
		return "{}"
	}
	if s.IsFull() {
		return "{any}"
	}
	var parts []string
	i := 0
	for i < 256 {
		if !s.Has(byte(i)) {
			i++
			continue
		}
		j := i
		for j+1 < 256 && s.Has(byte(j+1)) {
			j++
		}
		if i == j {
			parts = append(parts, bstr(i))
		} else {
			parts = append(parts, bstr(i)+"-"+bstr(j))
		}
		i = j + 1
	}
	return "{" + strings.Join(parts, ",") + "}"
}

func bstr(b int) string {
	if b > 0x20 && b < 0x7f && b != ',' && b != '-' {
		return fmt.Sprintf("'%c'", b)
	}
	return fmt.Sprintf("0x%02x", b)
}

// TermKind is what happens after the primitives of an edge.
type TermKind int

const (
	Move  TermKind = iota // consume the byte, continue in state To
	Call                  // consume the byte, push Ret, continue in state To (region entry)
	Ret                   // consume the byte, pop, continue in the popped state
	Exit                  // leave the function
	CallM                 // run the summarised machine Name from this byte (not consumed); continue in To at its end offset on success, in Fail on error
)

func (k TermKind) String() string { return [...]string{"move", "call", "ret", "exit", "callm"}[k] }

// Prim is a primitive action/mark attached to an edge. Kind is one of the names below; the remaining
// fields are kind-specific and compared by the product checker where a rule says so.
type Prim struct {
	Kind string // H, KS, KE, MARK, EMIT_CONST, EMIT_SEG, UNESC_U, SETVAL, SPLICE, HANDLER_SIMPLE, HANDLER_FULL
	Arg  string // e.g. constant emitted, helper name, marked variable role
	Ref  int    // index into machine-specific side table (handler sites, splice sites), or -1
}

func (p Prim) String() string {
	if p.Arg != "" {
		return p.Kind + "(" + p.Arg + ")"
	}
	return p.Kind
}

// Term is the terminator of an edge or the outcome at end of input.
type Term struct {
	Kind  TermKind
	To    int    // Move/Call: next state
	Ret   int    // Call: state pushed
	Limit int    // Call: depth limit K (0 = none)
	OK    bool   // Exit: success?
	Delta int    // Exit OK: returned offset minus index of the byte under the cursor (0 = that byte is the first one not consumed)
	Err   string // Exit !OK: description of the error value (informational)
	VDep  bool   // exit taken under a value-dependent (⊤) branch
	Name  string // CallM: machine name
	Fail  int    // CallM: state continued in when the machine fails
	Extra string // Exit OK: an additional result (token type, …) rendered as text
}

func (t Term) String() string {
	switch t.Kind {
	case Move:
		return fmt.Sprintf("->%d", t.To)
	case Call:
		return fmt.Sprintf("call %d ret %d", t.To, t.Ret)
	case Ret:
		return "ret"
	case CallM:
		return fmt.Sprintf("machine %s then %d else %d", t.Name, t.To, t.Fail)
	}
	if t.OK {
		return fmt.Sprintf("accept%+d", t.Delta)
	}
	return "reject(" + t.Err + ")"
}

// Edge: for every byte in Bytes, do Prims, then Term.
type Edge struct {
	Bytes ByteSet
	Prims []Prim
	Term  Term
	Pos   string // source position of the construct, for reports
}

// State of an LTS. Edges may overlap (nondeterminism, E2 only); their union must be all 256 bytes.
type State struct {
	ID    int
	Name  string
	Edges []Edge
	EOF   []EOFOutcome // outcomes at end of input (len>1 only for nondeterministic models)
	Pos   string
}

// EOFOutcome: primitives executed at end of input and whether the function then succeeds (offset = len).
type EOFOutcome struct {
	Prims []Prim
	OK    bool
	Delta int // OK: returned offset minus len(data) (0 for entry points; -1 for the number-tail helpers)
	Err   string
	VDep  bool
	Term  *Term // non-nil: not an exit but a machine call performed before looking at the input
}

type LTS struct {
	Name    string
	States  map[int]*State
	Start   int
	Entries map[string]int // named entry points (regions)
}

func New(name string) *LTS {
	return &LTS{Name: name, States: map[int]*State{}, Entries: map[string]int{}}
}

func (l *LTS) State(id int) *State {
	s := l.States[id]
	if s == nil {
		s = &State{ID: id}
		l.States[id] = s
	}
	return s
}

func (l *LTS) IDs() []int {
	ids := make([]int, 0, len(l.States))
	for id := range l.States {
		ids = append(ids, id)
	}
	sort.Ints(ids)
	return ids
}

// NumEdges counts byte-set edges.
func (l *LTS) NumEdges() int {
	n := 0
	for _, s := range l.States {
		n += len(s.Edges)
	}
	return n
}

// EdgesFor returns the edges of s that contain byte b.
func (s *State) EdgesFor(b byte) []*Edge {
	var out []*Edge
	for i := range s.Edges {
		if s.Edges[i].Bytes.Has(b) {
			out = append(out, &s.Edges[i])
		}
	}
	return out
}

// CheckTotal verifies that the edges of every state cover all 256 bytes.
func (l *LTS) CheckTotal() error {
	for _, id := range l.IDs() {
		s := l.States[id]
		var u ByteSet
		for _, e := range s.Edges {
			u = u.Or(e.Bytes)
		}
		if !u.IsFull() {
			return fmt.Errorf("%s state %d (%s): bytes %s have no edge", l.Name, id, s.Name, u.Not())
		}
		if len(s.EOF) == 0 {
			return fmt.Errorf("%s state %d (%s): no end-of-input outcome", l.Name, id, s.Name)
		}
	}
	return nil
}

// Dump renders the LTS for debugging.
func (l *LTS) Dump() string {
	var sb strings.Builder
	fmt.Fprintf(&sb, "LTS %s start=%d entries=%v states=%d\n", l.Name, l.Start, l.Entries, len(l.States))
	for _, id := range l.IDs() {
		s := l.States[id]
		fmt.Fprintf(&sb, " state %d %s\n", id, s.Name)
		for _, e := range s.Edges {
			fmt.Fprintf(&sb, "   %s %v %s\n", e.Bytes, e.Prims, e.Term)
		}
		for _, o := range s.EOF {
			fmt.Fprintf(&sb, "   EOF %v ok=%v %s\n", o.Prims, o.OK, o.Err)
		}
	}
	return sb.String()
}
