// Package product is engine E3: it compares an extracted LTS with a reference LTS over the reachable
// product, byte by byte, including end of input, calls and returns, outcomes (verdict and offset) and marks.
package product

import (
	"fmt"
	"sort"
	"strconv"

	"rjverif/internal/lts"
)

// Options configure one comparison.
type Options struct {
	// Marks projects the primitives of an edge to the mark names that must agree (nil = none compared).
	ImplMarks func(e *lts.Edge) []string
	RefMarks  func(e *lts.Edge) []string
	// IgnoreVDepErr: error exits of the implementation taken under a value-dependent branch are allowed
	// wherever the reference continues (range errors on well-formed integers).
	IgnoreVDepErr bool
	// RefDriven: bytes on which the reference rejects are not followed (inclusion on reference-accepted input).
	RefDriven bool
	// OnMatch is called for every matched pair of non-exit edges (extra, rule-specific obligations).
	// It may return messages (mismatches) and extra (impl, ref) pairs to explore, each reached by the given extra bytes.
	OnMatch func(si, sr int, b byte, ei, er *lts.Edge) ([]string, []Extra)
	// EOFPrims compares primitives executed at end of input (nil = ignored).
	ImplEOFMarks func(o *lts.EOFOutcome) []string
	MaxPairs     int
	// CompareExtra: the additional result carried by successful exits must agree.
	CompareExtra bool
}

// Extra is an additional product pair requested by a rule-specific hook.
type Extra struct {
	Impl, Ref int
	Bytes     []byte
}

// Mismatch is one cell on which model and reference differ.
type Mismatch struct {
	Impl, Ref int
	Byte      int // -1 = end of input
	Msg       string
	Witness   []byte
	ImplPos   string
	ImplName  string
	RefName   string
}

func (m Mismatch) Key() string {
	b := "EOF"
	if m.Byte >= 0 {
		b = fmt.Sprintf("0x%02x", m.Byte)
	}
	return fmt.Sprintf("ref=%s byte=%s", m.RefName, b)
}

func (m Mismatch) String() string {
	return fmt.Sprintf("impl state %s / reference phase %s on %s: %s (witness %s)", m.ImplName, m.RefName, byteName(m.Byte), m.Msg, strconv.Quote(string(m.Witness)))
}

func byteName(b int) string {
	if b < 0 {
		return "end of input"
	}
	return fmt.Sprintf("byte %s", strconv.QuoteRune(rune(b)))
}

// Stats of one comparison.
type Stats struct {
	Pairs      int
	Cells      int
	RefStates  map[int]bool
	ImplStates map[int]bool
}

type pair struct{ i, r int }

type parent struct {
	from  pair
	bytes []byte
	root  bool
}

// Bisim explores the product from (startI, startR).
func Bisim(impl, ref *lts.LTS, startI, startR int, o Options) (Stats, []Mismatch) {
	st := Stats{RefStates: map[int]bool{}, ImplStates: map[int]bool{}}
	var out []Mismatch
	par := map[pair]parent{}
	queue := []pair{{startI, startR}}
	par[queue[0]] = parent{root: true}
	witness := func(p pair, extra ...byte) []byte {
		var rev [][]byte
		for {
			pp := par[p]
			if pp.root {
				break
			}
			rev = append(rev, pp.bytes)
			p = pp.from
		}
		var w []byte
		for i := len(rev) - 1; i >= 0; i-- {
			w = append(w, rev[i]...)
		}
		return append(w, extra...)
	}
	enqueue := func(from pair, bytes []byte, to pair) {
		if _, ok := par[to]; ok {
			return
		}
		par[to] = parent{from: from, bytes: bytes}
		queue = append(queue, to)
	}
	retCache := map[int][]byte{}
	for len(queue) > 0 {
		p := queue[0]
		queue = queue[1:]
		si, sr := impl.States[p.i], ref.States[p.r]
		if si == nil || sr == nil {
			out = append(out, Mismatch{Impl: p.i, Ref: p.r, Byte: -1, Msg: "product reached a state that does not exist in the model", Witness: witness(p)})
			continue
		}
		st.Pairs++
		st.RefStates[p.r] = true
		st.ImplStates[p.i] = true
		mm := func(b int, msg string, pos string, extra ...byte) {
			out = append(out, Mismatch{Impl: p.i, Ref: p.r, Byte: b, Msg: msg, Witness: witness(p, extra...), ImplPos: pos, ImplName: si.Name, RefName: sr.Name})
		}
		// end of input
		st.Cells++
		if len(sr.EOF) != 1 {
			mm(-1, "reference has no unique end-of-input outcome", si.Pos)
		} else {
			for k := range si.EOF {
				io := &si.EOF[k]
				if io.VDep && !io.OK && o.IgnoreVDepErr {
					continue
				}
				if o.RefDriven && !sr.EOF[0].OK {
					continue
				}
				if io.OK != sr.EOF[0].OK {
					mm(-1, fmt.Sprintf("at end of input the implementation %s but the reference %s", okStr(io.OK, io.Err), okStr(sr.EOF[0].OK, sr.EOF[0].Err)), si.Pos)
				}
			}
			if len(si.EOF) == 0 {
				mm(-1, "implementation model has no end-of-input outcome", si.Pos)
			}
		}
		for b := 0; b < 256; b++ {
			st.Cells++
			ers := sr.EdgesFor(byte(b))
			if len(ers) != 1 {
				mm(b, "reference is not deterministic/total here", si.Pos, byte(b))
				continue
			}
			er := ers[0]
			if o.RefDriven && er.Term.Kind == lts.Exit && !er.Term.OK {
				continue
			}
			eis := si.EdgesFor(byte(b))
			if len(eis) == 0 {
				mm(b, "implementation model has no edge", si.Pos, byte(b))
				continue
			}
			for _, ei := range eis {
				ti, tr := ei.Term, er.Term
				if ti.Kind == lts.Exit && !ti.OK && ti.VDep && o.IgnoreVDepErr {
					continue
				}
				switch {
				case ti.Kind == lts.Exit && tr.Kind == lts.Exit:
					if ti.OK != tr.OK {
						mm(b, fmt.Sprintf("implementation %s but reference %s", okStr(ti.OK, ti.Err), okStr(tr.OK, tr.Err)), ei.Pos, byte(b))
					} else if ti.OK && ti.Delta != tr.Delta {
						mm(b, fmt.Sprintf("both succeed but the implementation reports offset %+d relative to this byte, the reference %+d", ti.Delta, tr.Delta), ei.Pos, byte(b))
					} else if ti.OK && o.CompareExtra && ti.Extra != tr.Extra {
						mm(b, fmt.Sprintf("both succeed but the implementation's result is %s, the reference's %s", ti.Extra, tr.Extra), ei.Pos, byte(b))
					}
				case ti.Kind == lts.Exit && ti.OK && ti.Delta == 1 && tr.Kind == lts.Move:
					// implementation consumed the byte and returned without looking further: the reference must
					// accept unconditionally from its next phase
					if !acceptsAll(ref, tr.To) {
						mm(b, "implementation succeeds right after this byte, the reference still needs to look at what follows", ei.Pos, byte(b))
					}
				case ti.Kind == lts.Exit:
					mm(b, fmt.Sprintf("implementation %s but the reference continues (%s)", okStr(ti.OK, ti.Err), tr), ei.Pos, byte(b))
				case tr.Kind == lts.Exit:
					mm(b, fmt.Sprintf("implementation continues (%s) but the reference %s", ti, okStr(tr.OK, tr.Err)), ei.Pos, byte(b))
				case ti.Kind != tr.Kind:
					mm(b, fmt.Sprintf("implementation does %s, reference does %s", ti.Kind, tr.Kind), ei.Pos, byte(b))
				default:
					if o.ImplMarks != nil && o.RefMarks != nil {
						a, c := o.ImplMarks(ei), o.RefMarks(er)
						if !sameStrings(a, c) {
							mm(b, fmt.Sprintf("marks differ: implementation %v, reference %v", a, c), ei.Pos, byte(b))
						}
					}
					if o.OnMatch != nil {
						msgs, extra := o.OnMatch(p.i, p.r, byte(b), ei, er)
						for _, msg := range msgs {
							mm(b, msg, ei.Pos, byte(b))
						}
						for _, ex := range extra {
							enqueue(p, append([]byte{byte(b)}, ex.Bytes...), pair{ex.Impl, ex.Ref})
						}
					}
					switch ti.Kind {
					case lts.Move:
						enqueue(p, []byte{byte(b)}, pair{ti.To, tr.To})
					case lts.Call:
						enqueue(p, []byte{byte(b)}, pair{ti.To, tr.To})
						rb, ok := retCache[tr.To]
						if !ok {
							rb = shortestReturn(ref, tr.To)
							retCache[tr.To] = rb
						}
						enqueue(p, append([]byte{byte(b)}, rb...), pair{ti.Ret, tr.Ret})
					case lts.Ret:
					}
				}
			}
		}
		if o.MaxPairs > 0 && st.Pairs > o.MaxPairs {
			out = append(out, Mismatch{Impl: p.i, Ref: p.r, Byte: -1, Msg: "product exceeds the pair budget"})
			break
		}
	}
	sort.SliceStable(out, func(i, j int) bool { return len(out[i].Witness) < len(out[j].Witness) })
	return st, out
}

func okStr(ok bool, err string) string {
	if ok {
		return "succeeds"
	}
	if err == "" {
		return "fails"
	}
	return "fails (" + err + ")"
}

func sameStrings(a, b []string) bool {
	if len(a) != len(b) {
		return false
	}
	for i := range a {
		if a[i] != b[i] {
			return false
		}
	}
	return true
}

// acceptsAll: state accepts here on every byte and at end of input.
func acceptsAll(l *lts.LTS, id int) bool {
	s := l.States[id]
	if s == nil || len(s.EOF) != 1 || !s.EOF[0].OK {
		return false
	}
	var u lts.ByteSet
	for _, e := range s.Edges {
		if e.Term.Kind != lts.Exit || !e.Term.OK || e.Term.Delta != 0 {
			return false
		}
		u = u.Or(e.Bytes)
	}
	return u.IsFull()
}

// shortestReturn finds a shortest byte string that leads from a region entry to a Ret edge (inclusive),
// following Move edges only.
func shortestReturn(l *lts.LTS, entry int) []byte {
	type node struct {
		s    int
		path []byte
	}
	seen := map[int]bool{entry: true}
	q := []node{{entry, nil}}
	for len(q) > 0 {
		n := q[0]
		q = q[1:]
		s := l.States[n.s]
		if s == nil {
			continue
		}
		for _, e := range s.Edges {
			if e.Term.Kind == lts.Ret {
				return append(append([]byte(nil), n.path...), e.Bytes.Pick())
			}
		}
		for _, e := range s.Edges {
			if e.Term.Kind == lts.Move && !seen[e.Term.To] {
				seen[e.Term.To] = true
				q = append(q, node{e.Term.To, append(append([]byte(nil), n.path...), e.Bytes.Pick())})
			}
		}
	}
	return nil
}

// ReachableRef lists the states of l reachable from start (through moves, calls and returns).
func ReachableRef(l *lts.LTS, start int) map[int]bool {
	seen := map[int]bool{start: true}
	st := []int{start}
	for len(st) > 0 {
		id := st[len(st)-1]
		st = st[:len(st)-1]
		s := l.States[id]
		if s == nil {
			continue
		}
		for _, e := range s.Edges {
			var nx []int
			switch e.Term.Kind {
			case lts.Move:
				nx = []int{e.Term.To}
			case lts.Call:
				nx = []int{e.Term.To, e.Term.Ret}
			}
			for _, n := range nx {
				if !seen[n] {
					seen[n] = true
					st = append(st, n)
				}
			}
		}
	}
	return seen
}
