package product

import (
	"fmt"
	"sort"

	"rjverif/internal/lts"
)

// Inclusion decides: for every input on which A succeeds at offset k, B succeeds at offset k — where A pushes
// on every bracket and B only on brackets of the kind of its current region (E3.4). The walk is driven by A
// (only moves A does not reject are followed); per nested A-region a summary "entry pair -> B states at A's
// return" is computed by saturation, so nesting depth is not bounded.
type sumKey struct {
	aEntry, b int
	called    bool
}

const retOK = -1 // marker in a called-mode summary: B returns exactly when A returns

type inclusion struct {
	A, B     *lts.LTS
	sums     map[sumKey]map[int]bool
	entryWit map[sumKey][]byte
	out      []Mismatch
	seenMM   map[string]bool
	pairs    int
	cells    int
	changed  bool
	retCache map[int][]byte
	liveA    map[int]bool
}

// Inclusion runs the check; returns statistics and mismatches.
func Inclusion(A, B *lts.LTS) (Stats, []Mismatch) {
	in := &inclusion{A: A, B: B, sums: map[sumKey]map[int]bool{}, entryWit: map[sumKey][]byte{}, seenMM: map[string]bool{}, retCache: map[int][]byte{}}
	in.liveA = liveStates(A)
	for iter := 0; iter < 50; iter++ {
		in.changed = false
		in.out = nil
		in.seenMM = map[string]bool{}
		in.pairs, in.cells = 0, 0
		in.explore(nil, A.Start, B.Start, nil)
		keys := make([]sumKey, 0, len(in.sums))
		for k := range in.sums {
			keys = append(keys, k)
		}
		sort.Slice(keys, func(i, j int) bool {
			if keys[i].aEntry != keys[j].aEntry {
				return keys[i].aEntry < keys[j].aEntry
			}
			if keys[i].b != keys[j].b {
				return keys[i].b < keys[j].b
			}
			return !keys[i].called && keys[j].called
		})
		for _, k := range keys {
			kk := k
			in.explore(&kk, k.aEntry, k.b, in.entryWit[k])
		}
		if !in.changed {
			break
		}
	}
	st := Stats{Pairs: in.pairs, Cells: in.cells, RefStates: map[int]bool{}, ImplStates: map[int]bool{}}
	return st, in.out
}

// liveStates: states of A from which a successful exit or a return is reachable.
func liveStates(l *lts.LTS) map[int]bool {
	live := map[int]bool{}
	for changed := true; changed; {
		changed = false
		for id, s := range l.States {
			if live[id] {
				continue
			}
			ok := false
			for _, o := range s.EOF {
				if o.OK {
					ok = true
				}
			}
			for _, e := range s.Edges {
				switch e.Term.Kind {
				case lts.Exit:
					ok = ok || e.Term.OK
				case lts.Ret:
					ok = true
				case lts.Move:
					ok = ok || live[e.Term.To]
				case lts.Call:
					ok = ok || (live[e.Term.To] && live[e.Term.Ret])
				}
			}
			if ok {
				live[id] = true
				changed = true
			}
		}
	}
	return live
}

func (in *inclusion) mismatch(a, b int, c int, msg string, wit []byte, pos string) {
	k := fmt.Sprintf("%d/%d/%d/%s", a, b, c, msg)
	if in.seenMM[k] {
		return
	}
	in.seenMM[k] = true
	an, bn := fmt.Sprint(a), fmt.Sprint(b)
	if s := in.A.States[a]; s != nil {
		an = s.Name
	}
	if s := in.B.States[b]; s != nil {
		bn = s.Name
	}
	in.out = append(in.out, Mismatch{Impl: b, Ref: a, Byte: c, Msg: msg, Witness: wit, ImplPos: pos, ImplName: bn, RefName: an})
}

func (in *inclusion) addSum(k sumKey, v int) {
	m := in.sums[k]
	if m == nil {
		m = map[int]bool{}
		in.sums[k] = m
	}
	if !m[v] {
		m[v] = true
		in.changed = true
	}
}

// explore walks the pairs of one region (key == nil: the main region).
func (in *inclusion) explore(key *sumKey, a0, b0 int, wit0 []byte) {
	type pr struct{ a, b int }
	par := map[pr]struct {
		from  pr
		bytes []byte
		root  bool
	}{}
	start := pr{a0, b0}
	par[start] = struct {
		from  pr
		bytes []byte
		root  bool
	}{root: true}
	queue := []pr{start}
	witness := func(p pr, extra ...byte) []byte {
		var rev [][]byte
		for {
			pp := par[p]
			if pp.root {
				break
			}
			rev = append(rev, pp.bytes)
			p = pp.from
		}
		w := append([]byte(nil), wit0...)
		for i := len(rev) - 1; i >= 0; i-- {
			w = append(w, rev[i]...)
		}
		return append(w, extra...)
	}
	enqueue := func(from pr, bytes []byte, to pr) {
		if _, ok := par[to]; ok {
			return
		}
		par[to] = struct {
			from  pr
			bytes []byte
			root  bool
		}{from: from, bytes: bytes}
		queue = append(queue, to)
	}
	for len(queue) > 0 {
		p := queue[0]
		queue = queue[1:]
		sa, sb := in.A.States[p.a], in.B.States[p.b]
		if sa == nil || sb == nil {
			in.mismatch(p.a, p.b, -1, "state missing in a model", witness(p), "")
			continue
		}
		in.pairs++
		// end of input
		in.cells++
		for _, oa := range sa.EOF {
			if !oa.OK {
				continue
			}
			for _, ob := range sb.EOF {
				if !ob.OK {
					in.mismatch(p.a, p.b, -1, "at end of input the validating machine succeeds but the fast machine fails ("+ob.Err+")", witness(p), sb.Pos)
				}
			}
		}
		for c := 0; c < 256; c++ {
			in.cells++
			for _, ea := range sa.EdgesFor(byte(c)) {
				ta := ea.Term
				if ta.Kind == lts.Exit && !ta.OK {
					continue
				}
				if ta.Kind == lts.Move && !in.liveA[ta.To] {
					continue
				}
				ebs := sb.EdgesFor(byte(c))
				if len(ebs) == 0 {
					in.mismatch(p.a, p.b, c, "fast machine has no edge", witness(p, byte(c)), sb.Pos)
					continue
				}
				for _, eb := range ebs {
					tb := eb.Term
					switch ta.Kind {
					case lts.Exit: // success of A at this byte
						if tb.Kind != lts.Exit || !tb.OK || tb.Delta != ta.Delta {
							in.mismatch(p.a, p.b, c, fmt.Sprintf("the validating machine succeeds here (offset %+d) but the fast machine does %s", ta.Delta, tb), witness(p, byte(c)), eb.Pos)
						}
					case lts.Move:
						if tb.Kind != lts.Move {
							in.mismatch(p.a, p.b, c, fmt.Sprintf("the validating machine continues but the fast machine does %s", tb), witness(p, byte(c)), eb.Pos)
							continue
						}
						enqueue(p, []byte{byte(c)}, pr{ta.To, tb.To})
					case lts.Call:
						var k sumKey
						var after func(v int) (pr, bool)
						switch tb.Kind {
						case lts.Call:
							k = sumKey{ta.To, tb.To, true}
							after = func(v int) (pr, bool) { return pr{ta.Ret, tb.Ret}, v == retOK }
						case lts.Move:
							k = sumKey{ta.To, tb.To, false}
							after = func(v int) (pr, bool) { return pr{ta.Ret, v}, v != retOK }
						default:
							in.mismatch(p.a, p.b, c, fmt.Sprintf("the validating machine enters a nested value but the fast machine does %s", tb), witness(p, byte(c)), eb.Pos)
							continue
						}
						if _, ok := in.sums[k]; !ok {
							in.sums[k] = map[int]bool{}
							in.entryWit[k] = witness(p, byte(c))
							in.changed = true
						}
						rb, ok := in.retCache[ta.To]
						if !ok {
							rb = shortestReturn(in.A, ta.To)
							in.retCache[ta.To] = rb
						}
						for v := range in.sums[k] {
							if np, ok := after(v); ok {
								enqueue(p, append([]byte{byte(c)}, rb...), np)
							}
						}
					case lts.Ret:
						if key == nil {
							in.mismatch(p.a, p.b, c, "the validating machine returns at depth 0", witness(p, byte(c)), ea.Pos)
							continue
						}
						if key.called {
							if tb.Kind != lts.Ret {
								in.mismatch(p.a, p.b, c, fmt.Sprintf("the nested value ends here but the fast machine does %s instead of returning", tb), witness(p, byte(c)), eb.Pos)
								continue
							}
							in.addSum(*key, retOK)
						} else {
							if tb.Kind != lts.Move {
								in.mismatch(p.a, p.b, c, fmt.Sprintf("a nested value of the other bracket kind ends here; the fast machine should step over the byte but does %s", tb), witness(p, byte(c)), eb.Pos)
								continue
							}
							in.addSum(*key, tb.To)
						}
					}
				}
			}
		}
	}
}
