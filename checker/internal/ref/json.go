// Package ref holds the reference recognisers (the oracle of the automaton rules). They are written here
// from RFC 8259 §2–§7 and from the property statements; the repository's .rl grammar files are never read.
// Each reference is a deterministic, total lts.LTS with named phases.
package ref

import (
	"fmt"

	"rjverif/internal/lts"
)

var (
	WS     = lts.Of(0x20, 0x09, 0x0A, 0x0D)
	Digits = lts.Range('0', '9')
	D19    = lts.Range('1', '9')
	Hex    = lts.Range('0', '9').Or(lts.Range('a', 'f')).Or(lts.Range('A', 'F'))
	Esc    = lts.OfString(`"\/bfnrt`)
	Ctl    = lts.Range(0, 0x1f)
)

// B builds a reference LTS.
type B struct {
	L    *lts.LTS
	next int
	byNm map[string]int
}

func NewB(name string) *B { return &B{L: lts.New(name), next: 1, byNm: map[string]int{}} }

// S returns (allocating on first use) the state with the given phase name.
func (b *B) S(name string) int {
	if id, ok := b.byNm[name]; ok {
		return id
	}
	id := b.next
	b.next++
	b.byNm[name] = id
	st := b.L.State(id)
	st.Name = name
	return id
}

func (b *B) st(id int) *lts.State { return b.L.States[id] }

// on adds an edge; bytes already covered by earlier edges are removed (first match wins).
func (b *B) on(id int, set lts.ByteSet, t lts.Term, prims ...lts.Prim) {
	s := b.st(id)
	for _, e := range s.Edges {
		set = set.Minus(e.Bytes)
	}
	if set.Empty() {
		return
	}
	s.Edges = append(s.Edges, lts.Edge{Bytes: set, Term: t, Prims: prims})
}

func (b *B) move(id int, set lts.ByteSet, to int, prims ...lts.Prim) {
	b.on(id, set, lts.Term{Kind: lts.Move, To: to}, prims...)
}

// rest: everything not yet covered rejects.
func (b *B) rest(id int, why string) {
	b.on(id, lts.Full(), lts.Term{Kind: lts.Exit, OK: false, Err: why})
}

func (b *B) eof(id int, ok bool) {
	s := b.st(id)
	if len(s.EOF) == 0 {
		s.EOF = []lts.EOFOutcome{{OK: ok, Err: "unexpected end"}}
	}
}

// copyRest copies, for every byte not yet covered in state id, the behaviour of state from (used for
// numbers: the byte that cannot extend a number is interpreted in the container's after-value phase).
func (b *B) copyRest(id, from int) {
	var covered lts.ByteSet
	for _, e := range b.st(id).Edges {
		covered = covered.Or(e.Bytes)
	}
	for _, e := range b.st(from).Edges {
		set := e.Bytes.Minus(covered)
		if set.Empty() {
			continue
		}
		b.st(id).Edges = append(b.st(id).Edges, lts.Edge{Bytes: set, Term: e.Term, Prims: append([]lts.Prim(nil), e.Prims...)})
	}
	if len(b.st(id).EOF) == 0 {
		b.st(id).EOF = append([]lts.EOFOutcome(nil), b.st(from).EOF...)
	}
}

// Ctx is a value context: where control goes after a value.
type Ctx struct {
	Name  string
	After int        // state after a delimited value
	Marks []lts.Prim // marks on the edge consuming the first byte of a value in this context (H for handled members)
	Arr   int        // entry state of the nested array region
	Obj   int        // entry state of the nested object region
}

// stringStates builds the in-string phases; returns the state entered after the opening quote.
// next is the state entered after the closing quote.
func (b *B) stringStates(prefix string, next int) int {
	body := b.S(prefix + "/STR_BODY")
	if len(b.st(body).Edges) > 0 {
		return body
	}
	esc := b.S(prefix + "/STR_ESC")
	u := []int{b.S(prefix + "/STR_U1"), b.S(prefix + "/STR_U2"), b.S(prefix + "/STR_U3"), b.S(prefix + "/STR_U4")}
	b.move(body, lts.Of('"'), next)
	b.move(body, lts.Of('\\'), esc)
	b.on(body, Ctl, lts.Term{Kind: lts.Exit, OK: false, Err: "control byte in string"})
	b.move(body, lts.Full(), body)
	b.eof(body, false)
	b.move(esc, Esc, body)
	b.move(esc, lts.Of('u'), u[0])
	b.rest(esc, "bad escape")
	b.eof(esc, false)
	for i := 0; i < 4; i++ {
		nx := body
		if i < 3 {
			nx = u[i+1]
		}
		b.move(u[i], Hex, nx)
		b.rest(u[i], "bad hex digit")
		b.eof(u[i], false)
	}
	return body
}

// valueEdges adds to state id the edges for the first byte of a value in context c.
func (b *B) valueEdges(id int, c *Ctx) {
	p := c.Name
	// string
	b.move(id, lts.Of('"'), b.stringStates(p, c.After), c.Marks...)
	// numbers
	minus, zero, intg := b.S(p+"/NUM_MINUS"), b.S(p+"/NUM_ZERO"), b.S(p+"/NUM_INT")
	dot, frac := b.S(p+"/NUM_DOT"), b.S(p+"/NUM_FRAC")
	e, esign, exp := b.S(p+"/NUM_E"), b.S(p+"/NUM_ESIGN"), b.S(p+"/NUM_EXP")
	b.move(id, lts.Of('-'), minus, c.Marks...)
	b.move(id, lts.Of('0'), zero, c.Marks...)
	b.move(id, D19, intg, c.Marks...)
	if len(b.st(minus).Edges) == 0 {
		b.move(minus, lts.Of('0'), zero)
		b.move(minus, D19, intg)
		b.rest(minus, "digit expected after '-'")
		b.eof(minus, false)
		b.move(zero, lts.Of('.'), dot)
		b.move(zero, lts.OfString("eE"), e)
		b.copyRest(zero, c.After)
		b.move(intg, Digits, intg)
		b.move(intg, lts.Of('.'), dot)
		b.move(intg, lts.OfString("eE"), e)
		b.copyRest(intg, c.After)
		b.move(dot, Digits, frac)
		b.rest(dot, "digit expected after '.'")
		b.eof(dot, false)
		b.move(frac, Digits, frac)
		b.move(frac, lts.OfString("eE"), e)
		b.copyRest(frac, c.After)
		b.move(e, lts.OfString("+-"), esign)
		b.move(e, Digits, exp)
		b.rest(e, "digit or sign expected in exponent")
		b.eof(e, false)
		b.move(esign, Digits, exp)
		b.rest(esign, "digit expected in exponent")
		b.eof(esign, false)
		b.move(exp, Digits, exp)
		b.copyRest(exp, c.After)
	}
	// literals
	for _, w := range []string{"true", "false", "null"} {
		prev := -1
		for i := 1; i < len(w); i++ {
			s := b.S(fmt.Sprintf("%s/LIT_%s_%d", p, w, i))
			if i == 1 {
				b.move(id, lts.Of(w[0]), s, c.Marks...)
			}
			_ = prev
			if len(b.st(s).Edges) == 0 {
				nx := c.After
				if i+1 < len(w) {
					nx = b.S(fmt.Sprintf("%s/LIT_%s_%d", p, w, i+1))
				}
				b.move(s, lts.Of(w[i]), nx)
				b.rest(s, "bad literal")
				b.eof(s, false)
			}
			prev = s
		}
	}
	// containers
	b.on(id, lts.Of('['), lts.Term{Kind: lts.Call, To: c.Arr, Ret: c.After}, c.Marks...)
	b.on(id, lts.Of('{'), lts.Term{Kind: lts.Call, To: c.Obj, Ret: c.After}, c.Marks...)
}

// nested builds the validating array and object regions (entered by Call, left by Ret).
func (b *B) nested() (arr, obj int) {
	arr = b.S("ARR/OPEN")
	obj = b.S("OBJ/OPEN")
	if len(b.st(arr).Edges) > 0 {
		return
	}
	arrAfter, arrComma := b.S("ARR/AFTER_VALUE"), b.S("ARR/AFTER_COMMA")
	ac := &Ctx{Name: "ARR", After: arrAfter, Arr: arr, Obj: obj}
	// after-value first (numbers copy it)
	b.move(arrAfter, WS, arrAfter)
	b.move(arrAfter, lts.Of(','), arrComma)
	b.on(arrAfter, lts.Of(']'), lts.Term{Kind: lts.Ret})
	b.rest(arrAfter, "',' or ']' expected")
	b.eof(arrAfter, false)

	objAfter, objComma := b.S("OBJ/AFTER_VALUE"), b.S("OBJ/AFTER_COMMA")
	objAfterKey, objColon := b.S("OBJ/AFTER_KEY"), b.S("OBJ/AFTER_COLON")
	oc := &Ctx{Name: "OBJ", After: objAfter, Arr: arr, Obj: obj}
	b.move(objAfter, WS, objAfter)
	b.move(objAfter, lts.Of(','), objComma)
	b.on(objAfter, lts.Of('}'), lts.Term{Kind: lts.Ret})
	b.rest(objAfter, "',' or '}' expected")
	b.eof(objAfter, false)

	b.move(arr, WS, arr)
	b.on(arr, lts.Of(']'), lts.Term{Kind: lts.Ret})
	b.valueEdges(arr, ac)
	b.rest(arr, "value or ']' expected")
	b.eof(arr, false)
	b.move(arrComma, WS, arrComma)
	b.valueEdges(arrComma, ac)
	b.rest(arrComma, "value expected after ','")
	b.eof(arrComma, false)

	key := b.stringStates("OBJ/KEY", objAfterKey)
	b.move(obj, WS, obj)
	b.on(obj, lts.Of('}'), lts.Term{Kind: lts.Ret})
	b.move(obj, lts.Of('"'), key)
	b.rest(obj, "key or '}' expected")
	b.eof(obj, false)
	b.move(objAfterKey, WS, objAfterKey)
	b.move(objAfterKey, lts.Of(':'), objColon)
	b.rest(objAfterKey, "':' expected")
	b.eof(objAfterKey, false)
	b.move(objColon, WS, objColon)
	b.valueEdges(objColon, oc)
	b.rest(objColon, "value expected after ':'")
	b.eof(objColon, false)
	b.move(objComma, WS, objComma)
	b.move(objComma, lts.Of('"'), key)
	b.rest(objComma, "key expected after ','")
	b.eof(objComma, false)
	return
}

// done builds the accepting sink: accept here on any byte, accept at end of input.
func (b *B) done(name string) int {
	d := b.S(name)
	if len(b.st(d).Edges) == 0 {
		b.on(d, lts.Full(), lts.Term{Kind: lts.Exit, OK: true, Delta: 0})
		b.eof(d, true)
	}
	return d
}

// SkipValue: ws* value, success at the first byte after the value (maximal munch), whatever follows.
func SkipValue() *lts.LTS {
	b := NewB("R-json(skip)")
	arr, obj := b.nested()
	d := b.done("TOP/DONE")
	top := b.S("TOP/START")
	c := &Ctx{Name: "TOP", After: d, Arr: arr, Obj: obj}
	b.move(top, WS, top)
	b.valueEdges(top, c)
	b.rest(top, "no value")
	b.eof(top, false)
	b.L.Start = top
	b.L.Entries["array"] = arr
	b.L.Entries["object"] = obj
	return b.L
}

// Document: ws* value ws* and nothing else (the language of Valid).
func Document() *lts.LTS {
	b := NewB("R-json(document)")
	arr, obj := b.nested()
	trail := b.S("TOP/TRAILING_WS")
	b.move(trail, WS, trail)
	b.rest(trail, "trailing garbage")
	b.eof(trail, true)
	top := b.S("TOP/START")
	c := &Ctx{Name: "TOP", After: trail, Arr: arr, Obj: obj}
	b.move(top, WS, top)
	b.valueEdges(top, c)
	b.rest(top, "no value")
	b.eof(top, false)
	b.L.Start = top
	b.L.Entries["array"] = arr
	b.L.Entries["object"] = obj
	return b.L
}

var (
	MarkH  = lts.Prim{Kind: "H", Ref: -1}
	MarkKS = lts.Prim{Kind: "KS", Ref: -1}
	MarkKE = lts.Prim{Kind: "KE", Ref: -1}
)

// HandleArray: ws* (null | '[' members ']'), mark H on the first byte of every member value.
func HandleArray() *lts.LTS {
	b := NewB("R-json-marked(array)")
	arr, obj := b.nested()
	d := b.done("TOP/DONE")
	top := b.S("TOP/START")
	open, after, comma := b.S("HARR/OPEN"), b.S("HARR/AFTER_VALUE"), b.S("HARR/AFTER_COMMA")
	b.move(top, WS, top)
	b.move(top, lts.Of('['), open)
	// null
	n1, n2, n3 := b.S("TOP/null_1"), b.S("TOP/null_2"), b.S("TOP/null_3")
	b.move(top, lts.Of('n'), n1)
	b.move(n1, lts.Of('u'), n2)
	b.move(n2, lts.Of('l'), n3)
	b.move(n3, lts.Of('l'), d)
	for _, s := range []int{n1, n2, n3} {
		b.rest(s, "bad literal")
		b.eof(s, false)
	}
	b.rest(top, "array or null expected")
	b.eof(top, false)
	c := &Ctx{Name: "HARR", After: after, Marks: []lts.Prim{MarkH}, Arr: arr, Obj: obj}
	b.move(after, WS, after)
	b.move(after, lts.Of(','), comma)
	b.move(after, lts.Of(']'), d)
	b.rest(after, "',' or ']' expected")
	b.eof(after, false)
	b.move(open, WS, open)
	b.move(open, lts.Of(']'), d)
	b.valueEdges(open, c)
	b.rest(open, "value or ']' expected")
	b.eof(open, false)
	b.move(comma, WS, comma)
	b.valueEdges(comma, c)
	b.rest(comma, "value expected")
	b.eof(comma, false)
	b.L.Start = top
	b.L.Entries["array"] = arr
	b.L.Entries["object"] = obj
	return b.L
}

// HandleObject: ws* (null | '{' members '}'); KS on a member key's opening quote, KE on the first byte after
// its closing quote, H on the first byte of the member's value.
func HandleObject() *lts.LTS {
	b := NewB("R-json-marked(object)")
	arr, obj := b.nested()
	d := b.done("TOP/DONE")
	top := b.S("TOP/START")
	open, after, comma := b.S("HOBJ/OPEN"), b.S("HOBJ/AFTER_VALUE"), b.S("HOBJ/AFTER_COMMA")
	keyEnd, afterKey, colon := b.S("HOBJ/KEY_END"), b.S("HOBJ/AFTER_KEY"), b.S("HOBJ/AFTER_COLON")
	b.move(top, WS, top)
	b.move(top, lts.Of('{'), open)
	n1, n2, n3 := b.S("TOP/null_1"), b.S("TOP/null_2"), b.S("TOP/null_3")
	b.move(top, lts.Of('n'), n1)
	b.move(n1, lts.Of('u'), n2)
	b.move(n2, lts.Of('l'), n3)
	b.move(n3, lts.Of('l'), d)
	for _, s := range []int{n1, n2, n3} {
		b.rest(s, "bad literal")
		b.eof(s, false)
	}
	b.rest(top, "object or null expected")
	b.eof(top, false)
	c := &Ctx{Name: "HOBJ", After: after, Marks: []lts.Prim{MarkH}, Arr: arr, Obj: obj}
	b.move(after, WS, after)
	b.move(after, lts.Of(','), comma)
	b.move(after, lts.Of('}'), d)
	b.rest(after, "',' or '}' expected")
	b.eof(after, false)
	key := b.stringStates("HOBJ/KEY", keyEnd)
	b.move(open, WS, open)
	b.move(open, lts.Of('}'), d)
	b.move(open, lts.Of('"'), key, MarkKS)
	b.rest(open, "key or '}' expected")
	b.eof(open, false)
	// first byte after the closing quote carries KE
	b.move(keyEnd, WS, afterKey, MarkKE)
	b.move(keyEnd, lts.Of(':'), colon, MarkKE)
	b.rest(keyEnd, "':' expected")
	b.eof(keyEnd, false)
	b.move(afterKey, WS, afterKey)
	b.move(afterKey, lts.Of(':'), colon)
	b.rest(afterKey, "':' expected")
	b.eof(afterKey, false)
	b.move(colon, WS, colon)
	b.valueEdges(colon, c)
	b.rest(colon, "value expected")
	b.eof(colon, false)
	b.move(comma, WS, comma)
	b.move(comma, lts.Of('"'), key, MarkKS)
	b.rest(comma, "key expected")
	b.eof(comma, false)
	b.L.Start = top
	b.L.Entries["array"] = arr
	b.L.Entries["object"] = obj
	return b.L
}

// Literal: ws* word, accept just after the word. vals gives SETVAL marks on the last byte (may be nil).
func Literal(name string, words map[string]string) *lts.LTS {
	b := NewB(name)
	d := b.done("DONE")
	top := b.S("START")
	b.move(top, WS, top)
	for w, val := range words {
		for i := 1; i < len(w); i++ {
			s := b.S(fmt.Sprintf("LIT_%s_%d", w, i))
			if i == 1 {
				b.move(top, lts.Of(w[0]), s)
			}
			nx := d
			var prims []lts.Prim
			if i+1 < len(w) {
				nx = b.S(fmt.Sprintf("LIT_%s_%d", w, i+1))
			} else if val != "" {
				prims = []lts.Prim{{Kind: "SETVAL", Arg: val, Ref: -1}}
			}
			b.move(s, lts.Of(w[i]), nx, prims...)
			b.rest(s, "bad literal")
			b.eof(s, false)
		}
	}
	b.rest(top, "literal expected")
	b.eof(top, false)
	b.L.Start = top
	return b.L
}

// WSStar: ws*, accept-here on the first non-whitespace byte and at end of input (countWhitespace).
func WSStar() *lts.LTS {
	b := NewB("R-ws*")
	s := b.S("WS")
	b.move(s, WS, s)
	b.on(s, lts.Full(), lts.Term{Kind: lts.Exit, OK: true, Delta: 0})
	b.eof(s, true)
	b.L.Start = s
	return b.L
}

// ExpTail: the part of a number after 'e'/'E': [+-]? digit+ ; stops at the first byte that is not a digit.
// Convention of the hand-written helpers: the reported index is that of the last byte consumed (Delta -1).
func ExpTail() *lts.LTS {
	b := NewB("R-exp-tail")
	b.expTail("")
	b.L.Start = b.S("EXP/START")
	return b.L
}

func (b *B) expTail(_ string) int {
	e0, e1, e2 := b.S("EXP/START"), b.S("EXP/SIGNED"), b.S("EXP/DIGITS")
	if len(b.st(e0).Edges) > 0 {
		return e0
	}
	b.move(e0, lts.OfString("+-"), e1)
	b.move(e0, Digits, e2)
	b.rest(e0, "digit or sign expected in exponent")
	b.eof(e0, false)
	b.move(e1, Digits, e2)
	b.rest(e1, "digit expected in exponent")
	b.eof(e1, false)
	b.move(e2, Digits, e2)
	b.on(e2, lts.Full(), lts.Term{Kind: lts.Exit, OK: true, Delta: -1})
	b.st(e2).EOF = []lts.EOFOutcome{{OK: true, Delta: -1}}
	return e0
}

// FracTail: the part of a number after '.': digit+ ([eE] exp-tail)?
func FracTail() *lts.LTS {
	b := NewB("R-frac-tail")
	f0, f1 := b.S("FRAC/START"), b.S("FRAC/DIGITS")
	e0 := b.expTail("")
	b.move(f0, Digits, f1)
	b.rest(f0, "digit expected after '.'")
	b.eof(f0, false)
	b.move(f1, Digits, f1)
	b.move(f1, lts.OfString("eE"), e0)
	b.on(f1, lts.Full(), lts.Term{Kind: lts.Exit, OK: true, Delta: -1})
	b.st(f1).EOF = []lts.EOFOutcome{{OK: true, Delta: -1}}
	b.L.Start = f0
	return b.L
}

// Integer: ws* -? (0 | [1-9][0-9]*) not followed by '.', 'e' or 'E'; success offset just after the last digit.
// signed=false rejects '-'. A '-' must be followed directly by a digit.
func Integer(signed bool) *lts.LTS {
	name := "R-int(unsigned)"
	if signed {
		name = "R-int(signed)"
	}
	b := NewB(name)
	start, zero, intg := b.S("INT/START"), b.S("INT/ZERO"), b.S("INT/DIGITS")
	b.move(start, WS, start)
	b.move(start, lts.Of('0'), zero)
	b.move(start, D19, intg)
	if signed {
		minus := b.S("INT/MINUS")
		b.move(start, lts.Of('-'), minus)
		b.move(minus, lts.Of('0'), zero)
		b.move(minus, D19, intg)
		b.rest(minus, "digit expected after '-'")
		b.eof(minus, false)
	}
	b.rest(start, "not an integer")
	b.eof(start, false)
	b.on(zero, lts.OfString(".eE"), lts.Term{Kind: lts.Exit, OK: false, Err: "fraction or exponent"})
	b.on(zero, lts.Full(), lts.Term{Kind: lts.Exit, OK: true, Delta: 0})
	b.eof(zero, true)
	b.move(intg, Digits, intg)
	b.on(intg, lts.OfString(".eE"), lts.Term{Kind: lts.Exit, OK: false, Err: "fraction or exponent"})
	b.on(intg, lts.Full(), lts.Term{Kind: lts.Exit, OK: true, Delta: 0})
	b.eof(intg, true)
	b.L.Start = start
	return b.L
}

// StringToken: ws* '"' chars '"'; success offset just after the closing quote.
func StringToken() *lts.LTS {
	b := NewB("R-string(token)")
	d := b.done("DONE")
	start := b.S("STR/START")
	body := b.stringStates("STR", d)
	b.move(start, WS, start)
	b.move(start, lts.Of('"'), body)
	b.rest(start, "not a string")
	b.eof(start, false)
	b.L.Start = start
	return b.L
}

// Number: ws* number (RFC 8259), success at the first byte that cannot extend it.
func Number() *lts.LTS {
	b := NewB("R-number")
	d := b.done("DONE")
	start := b.S("NUMTOP/START")
	c := &Ctx{Name: "NUMTOP", After: d}
	b.move(start, WS, start)
	// only the number part of valueEdges
	full := NewB("tmp")
	_ = full
	b.numberEdges(start, c)
	b.rest(start, "not a number")
	b.eof(start, false)
	b.L.Start = start
	return b.L
}

func (b *B) numberEdges(id int, c *Ctx) {
	p := c.Name
	minus, zero, intg := b.S(p+"/NUM_MINUS"), b.S(p+"/NUM_ZERO"), b.S(p+"/NUM_INT")
	dot, frac := b.S(p+"/NUM_DOT"), b.S(p+"/NUM_FRAC")
	e, esign, exp := b.S(p+"/NUM_E"), b.S(p+"/NUM_ESIGN"), b.S(p+"/NUM_EXP")
	b.move(id, lts.Of('-'), minus)
	b.move(id, lts.Of('0'), zero)
	b.move(id, D19, intg)
	b.move(minus, lts.Of('0'), zero)
	b.move(minus, D19, intg)
	b.rest(minus, "digit expected after '-'")
	b.eof(minus, false)
	b.move(zero, lts.Of('.'), dot)
	b.move(zero, lts.OfString("eE"), e)
	b.copyRest(zero, c.After)
	b.move(intg, Digits, intg)
	b.move(intg, lts.Of('.'), dot)
	b.move(intg, lts.OfString("eE"), e)
	b.copyRest(intg, c.After)
	b.move(dot, Digits, frac)
	b.rest(dot, "digit expected after '.'")
	b.eof(dot, false)
	b.move(frac, Digits, frac)
	b.move(frac, lts.OfString("eE"), e)
	b.copyRest(frac, c.After)
	b.move(e, lts.OfString("+-"), esign)
	b.move(e, Digits, exp)
	b.rest(e, "digit or sign expected in exponent")
	b.eof(e, false)
	b.move(esign, Digits, exp)
	b.rest(esign, "digit expected in exponent")
	b.eof(esign, false)
	b.move(exp, Digits, exp)
	b.copyRest(exp, c.After)
}

// Token: ws* then one byte classified by the JSON token table; offset = its index + 1; end of input (also after
// whitespace only) is an error. Extra carries the class name.
func Token(classOf func(b byte) string, rejectInvalid bool) *lts.LTS {
	b := NewB("R-token")
	s := b.S("TOK/START")
	b.move(s, WS, s)
	byClass := map[string]lts.ByteSet{}
	for i := 0; i < 256; i++ {
		if WS.Has(byte(i)) {
			continue
		}
		cl := classOf(byte(i))
		byClass[cl] = byClass[cl].Or(lts.Of(byte(i)))
	}
	for cl, set := range byClass {
		if rejectInvalid && cl == "InvalidType" {
			b.on(s, set, lts.Term{Kind: lts.Exit, OK: false, Err: "no valid token"})
			continue
		}
		b.on(s, set, lts.Term{Kind: lts.Exit, OK: true, Delta: 1, Extra: cl})
	}
	b.eof(s, false)
	b.L.Start = s
	return b.L
}

// NumberExact: exactly one RFC 8259 number and nothing else (the input handed to the decimal fallback).
func NumberExact() *lts.LTS {
	b := NewB("R-number(exact)")
	end := b.S("NUMX/END")
	b.rest(end, "trailing byte")
	b.eof(end, true)
	start := b.S("NUMX/START")
	c := &Ctx{Name: "NUMX", After: end}
	b.numberEdges(start, c)
	b.rest(start, "not a number")
	b.eof(start, false)
	b.L.Start = start
	return b.L
}

// StringContent: the bytes between the quotes of a well-formed string token: (raw | escape)*, accepted at end of input only.
func StringContent() *lts.LTS {
	b := NewB("R-string(content)")
	body := b.S("CONTENT/BODY")
	esc := b.S("CONTENT/ESC")
	u := []int{b.S("CONTENT/U1"), b.S("CONTENT/U2"), b.S("CONTENT/U3"), b.S("CONTENT/U4")}
	b.on(body, lts.Of('"'), lts.Term{Kind: lts.Exit, OK: false, Err: "unescaped quote inside content"})
	b.move(body, lts.Of('\\'), esc)
	b.on(body, Ctl, lts.Term{Kind: lts.Exit, OK: false, Err: "control byte in string"})
	b.move(body, lts.Full(), body)
	b.eof(body, true)
	b.move(esc, Esc, body)
	b.move(esc, lts.Of('u'), u[0])
	b.rest(esc, "bad escape")
	b.eof(esc, false)
	for i := 0; i < 4; i++ {
		nx := body
		if i < 3 {
			nx = u[i+1]
		}
		b.move(u[i], Hex, nx)
		b.rest(u[i], "bad hex digit")
		b.eof(u[i], false)
	}
	b.L.Start = body
	return b.L
}
