// Package ssarules is engine E4: small analyses over go/ssa shared by several properties.
package ssarules

import (
	"go/token"
	"go/types"

	"golang.org/x/tools/go/callgraph"
	"golang.org/x/tools/go/ssa"
)

// Taint is a flow-insensitive, field-sensitive (object-insensitive), inter-procedural may-alias closure:
// "which SSA values may hold (a pointer into) memory that a source value points to".
type Taint struct {
	Funcs    map[*ssa.Function]bool // analysed scope (bodies are followed only inside it)
	CG       *callgraph.Graph       // resolves interface calls (may be nil: static callees only)
	IsSource func(v ssa.Value) bool
	// ThroughLoad: does a load (*p) of this type keep the taint? (default: reference-like types only)
	ThroughLoad func(t types.Type) bool
	// Arith: also follow integer arithmetic (value flow of numbers instead of aliases).
	Arith bool
	// SliceHighBreaks: x[a:b] with an explicit upper bound does not propagate (used for "unconsumed remainder" aliases).
	SliceHighBreaks bool
	Tainted         map[ssa.Value]bool
	fields          map[fieldKey]bool  // struct fields that may hold a tainted value
	cells           map[ssa.Value]bool // addresses (allocs, …) into which a tainted value was stored
	why             map[ssa.Value]ssa.Value
}

type fieldKey struct {
	t   *types.Struct
	idx int
}

// RefLike: values of this type can alias memory.
func RefLike(t types.Type) bool {
	switch u := t.Underlying().(type) {
	case *types.Pointer, *types.Slice, *types.Map, *types.Chan, *types.Interface, *types.Signature:
		return true
	case *types.Struct:
		for i := 0; i < u.NumFields(); i++ {
			if RefLike(u.Field(i).Type()) {
				return true
			}
		}
	case *types.Array:
		return RefLike(u.Elem())
	case *types.Tuple:
		for i := 0; i < u.Len(); i++ {
			if RefLike(u.At(i).Type()) {
				return true
			}
		}
	}
	return false
}

func structOf(t types.Type) *types.Struct {
	if p, ok := t.Underlying().(*types.Pointer); ok {
		t = p.Elem()
	}
	s, _ := t.Underlying().(*types.Struct)
	return s
}

func (t *Taint) mark(v, from ssa.Value) bool {
	if v == nil || t.Tainted[v] {
		return false
	}
	t.Tainted[v] = true
	if t.why != nil {
		t.why[v] = from
	}
	return true
}

// callees of a call instruction inside the scope.
func (t *Taint) callees(c ssa.CallInstruction) []*ssa.Function {
	if f := c.Common().StaticCallee(); f != nil {
		if t.Funcs[f] {
			return []*ssa.Function{f}
		}
		return nil
	}
	var out []*ssa.Function
	if t.CG != nil {
		if n := t.CG.Nodes[c.Parent()]; n != nil {
			for _, e := range n.Out {
				if e.Site == c && e.Callee.Func != nil && t.Funcs[e.Callee.Func] {
					out = append(out, e.Callee.Func)
				}
			}
		}
	}
	return out
}

// Run computes the closure.
func (t *Taint) Run() {
	t.Tainted = map[ssa.Value]bool{}
	t.fields = map[fieldKey]bool{}
	t.cells = map[ssa.Value]bool{}
	t.why = map[ssa.Value]ssa.Value{}
	if t.ThroughLoad == nil {
		t.ThroughLoad = RefLike
	}
	for changed := true; changed; {
		changed = false
		for fn := range t.Funcs {
			for _, p := range fn.Params {
				if t.IsSource(p) && t.mark(p, nil) {
					changed = true
				}
			}
			for _, fv := range fn.FreeVars {
				_ = fv
			}
			for _, b := range fn.Blocks {
				for _, ins := range b.Instrs {
					if t.step(fn, ins) {
						changed = true
					}
				}
			}
		}
	}
}

func (t *Taint) step(fn *ssa.Function, ins ssa.Instruction) bool {
	ch := false
	if v, ok := ins.(ssa.Value); ok && t.IsSource(v) {
		ch = t.mark(v, nil) || ch
	}
	for _, op := range ins.Operands(nil) {
		if *op != nil && !t.Tainted[*op] && t.IsSource(*op) {
			ch = t.mark(*op, nil) || ch
		}
	}
	switch ins := ins.(type) {
	case *ssa.FieldAddr:
		if t.Tainted[ins.X] {
			ch = t.mark(ins, ins.X) || ch
		}
	case *ssa.Field:
		if t.Tainted[ins.X] && RefLike(ins.Type()) {
			ch = t.mark(ins, ins.X) || ch
		}
	case *ssa.IndexAddr:
		if t.Tainted[ins.X] {
			ch = t.mark(ins, ins.X) || ch
		}
	case *ssa.Index:
		if t.Tainted[ins.X] && RefLike(ins.Type()) {
			ch = t.mark(ins, ins.X) || ch
		}
	case *ssa.Lookup:
		if t.Tainted[ins.X] && RefLike(ins.Type()) {
			ch = t.mark(ins, ins.X) || ch
		}
	case *ssa.Slice:
		if t.Tainted[ins.X] && !(t.SliceHighBreaks && ins.High != nil) {
			ch = t.mark(ins, ins.X) || ch
		}
	case *ssa.BinOp:
		if t.Arith && (t.Tainted[ins.X] || t.Tainted[ins.Y]) {
			switch ins.Op {
			case token.EQL, token.NEQ, token.LSS, token.LEQ, token.GTR, token.GEQ:
			default:
				from := ins.X
				if !t.Tainted[from] {
					from = ins.Y
				}
				ch = t.mark(ins, from) || ch
			}
		}
	case *ssa.Phi:
		for _, e := range ins.Edges {
			if t.Tainted[e] {
				ch = t.mark(ins, e) || ch
			}
		}
	case *ssa.ChangeType:
		if t.Tainted[ins.X] {
			ch = t.mark(ins, ins.X) || ch
		}
	case *ssa.ChangeInterface:
		if t.Tainted[ins.X] {
			ch = t.mark(ins, ins.X) || ch
		}
	case *ssa.MakeInterface:
		if t.Tainted[ins.X] {
			ch = t.mark(ins, ins.X) || ch
		}
	case *ssa.TypeAssert:
		if t.Tainted[ins.X] {
			ch = t.mark(ins, ins.X) || ch
		}
	case *ssa.Extract:
		if t.Tainted[ins.Tuple] && RefLike(ins.Type()) {
			// refined below for calls (per-index); for non-call tuples keep
			if _, isCall := ins.Tuple.(*ssa.Call); !isCall {
				ch = t.mark(ins, ins.Tuple) || ch
			}
		}
		if call, ok := ins.Tuple.(*ssa.Call); ok {
			for _, callee := range t.callees(call) {
				if t.returnsTainted(callee, ins.Index) {
					ch = t.mark(ins, call) || ch
				}
			}
			if b, ok := call.Call.Value.(*ssa.Builtin); ok {
				_ = b
			}
		}
	case *ssa.Convert:
		// conversions between string and []byte / []rune copy; pointer/unsafe conversions alias
		if t.Tainted[ins.X] {
			fromStr := isStringT(ins.X.Type())
			toStr := isStringT(ins.Type())
			_, fromSl := ins.X.Type().Underlying().(*types.Slice)
			_, toSl := ins.Type().Underlying().(*types.Slice)
			copies := (fromStr && toSl) || (fromSl && toStr) || (fromStr && toStr)
			if !copies && (RefLike(ins.Type()) || t.Arith) {
				ch = t.mark(ins, ins.X) || ch
			}
		}
	case *ssa.UnOp:
		if ins.Op == token.MUL {
			if t.Tainted[ins.X] && t.ThroughLoad(ins.Type()) {
				ch = t.mark(ins, ins.X) || ch
			}
			// loads from a cell / field that holds a tainted value
			if t.cells[ins.X] && (t.Arith || RefLike(ins.Type())) {
				ch = t.mark(ins, ins.X) || ch
			}
			if fa, ok := ins.X.(*ssa.FieldAddr); ok {
				if s := structOf(fa.X.Type()); s != nil && t.fields[fieldKey{s, fa.Field}] && (t.Arith || RefLike(ins.Type())) {
					ch = t.mark(ins, fa) || ch
				}
			}
		} else if t.Arith && t.Tainted[ins.X] {
			ch = t.mark(ins, ins.X) || ch
		}
	case *ssa.Store:
		if t.Tainted[ins.Val] {
			if fa, ok := ins.Addr.(*ssa.FieldAddr); ok {
				if s := structOf(fa.X.Type()); s != nil {
					k := fieldKey{s, fa.Field}
					if !t.fields[k] {
						t.fields[k] = true
						ch = true
					}
				}
			} else if !t.cells[ins.Addr] {
				t.cells[ins.Addr] = true
				ch = true
			}
		}
	case *ssa.MakeClosure:
		for i, b := range ins.Bindings {
			if t.Tainted[b] {
				if f, ok := ins.Fn.(*ssa.Function); ok && i < len(f.FreeVars) {
					ch = t.mark(f.FreeVars[i], b) || ch
				}
				ch = t.mark(ins, b) || ch
			}
		}
	case ssa.CallInstruction:
		cc := ins.Common()
		if b, ok := cc.Value.(*ssa.Builtin); ok {
			if v, isV := ins.(ssa.Value); isV {
				switch b.Name() {
				case "append":
					if len(cc.Args) > 0 && t.Tainted[cc.Args[0]] {
						ch = t.mark(v, cc.Args[0]) || ch
					}
					// appending reference-like elements keeps their aliases
					if len(cc.Args) > 1 && t.Tainted[cc.Args[1]] {
						if sl, ok := cc.Args[1].Type().Underlying().(*types.Slice); ok && RefLike(sl.Elem()) {
							ch = t.mark(v, cc.Args[1]) || ch
						}
					}
				}
			}
			return ch
		}
		callees := t.callees(ins)
		for _, callee := range callees {
			args := cc.Args
			params := callee.Params
			if cc.IsInvoke() {
				// receiver is params[0]
				if len(params) > 0 && t.Tainted[cc.Value] {
					ch = t.mark(params[0], cc.Value) || ch
				}
				params = params[min(1, len(params)):]
			}
			for i, a := range args {
				if i < len(params) && t.Tainted[a] {
					ch = t.mark(params[i], a) || ch
				}
			}
			if v, isV := ins.(ssa.Value); isV && callee.Signature.Results().Len() == 1 && t.returnsTainted(callee, 0) {
				ch = t.mark(v, nil) || ch
			}
		}
	}
	return ch
}

func (t *Taint) returnsTainted(fn *ssa.Function, idx int) bool {
	for _, b := range fn.Blocks {
		if ret, ok := b.Instrs[len(b.Instrs)-1].(*ssa.Return); ok && idx < len(ret.Results) && t.Tainted[ret.Results[idx]] {
			return true
		}
	}
	return false
}

// FieldTainted reports whether a struct field may hold a tainted value.
func (t *Taint) FieldTainted(s *types.Struct, idx int) bool { return t.fields[fieldKey{s, idx}] }

// Why returns the chain of values through which v became tainted (for reports).
func (t *Taint) Why(v ssa.Value) []ssa.Value {
	var out []ssa.Value
	for i := 0; v != nil && i < 12; i++ {
		out = append(out, v)
		v = t.why[v]
	}
	return out
}

func isStringT(t types.Type) bool {
	b, ok := t.Underlying().(*types.Basic)
	return ok && b.Info()&types.IsString != 0
}
