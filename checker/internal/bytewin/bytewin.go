// Package bytewin decides small pure functions that look at a fixed window of a byte-slice parameter
// (getu4: six bytes). It is a path-sensitive abstract interpreter over go/ssa whose domain is exact for such
// functions:
//
//   - an integer is a separable sum  Σ_k T_k[data[k]] + K  of per-position byte tables (a constant has no
//     table; data[k] itself is the identity table at k);
//   - a boolean is a constant, membership of one data[k] in a byte set, or a comparison of len(data) with a
//     constant;
//   - the path condition is one byte set per position and an interval for len(data).
//
// Branches on non-constant booleans split the path condition into complementary parts, so the outcomes
// partition the input space; loops are followed while their conditions are decided by constants (fixed trip
// counts), under a step budget. Anything outside the domain is Top, and a branch on Top aborts the analysis
// (the caller reports "undecided"). No input is ever run: every outcome stands for the whole set of inputs its
// path condition describes.
package bytewin

import (
	"fmt"
	"go/constant"
	"go/token"
	"go/types"
	"sort"

	"golang.org/x/tools/go/ssa"

	"rjverif/internal/lts"
)

// Val is an abstract value.
type Val interface{}

type (
	// Sum is Σ_k T[k][data[k]] + K.
	Sum struct {
		T map[int]*[256]int64
		K int64
	}
	// Bool is a known truth value.
	Bool struct{ B bool }
	// In is true iff data[Pos] ∈ Set.
	In struct {
		Pos int
		Set lts.ByteSet
	}
	// LenCmp is true iff len(data) Op K.
	LenCmp struct {
		Op token.Token
		K  int64
	}
	// Len is len(data).
	Len struct{}
	// Slice is data[Lo:Hi] (Hi < 0: to the end).
	Slice struct{ Lo, Hi int }
	// Ptr is &data[Pos].
	Ptr struct{ Pos int }
	// Tuple is the result of a helper with several results.
	Tuple struct{ Vals []Val }
	// Top is any value.
	Top struct{}
)

func konst(k int64) Sum { return Sum{K: k} }

// Outcome is one class of inputs and what the function returns for it.
type Outcome struct {
	Sets           map[int]lts.ByteSet // per position; absent = any byte
	LenMin, LenMax int                 // len(data) in [LenMin, LenMax]; LenMax < 0 = unbounded
	Results        []Val
	Ret            *ssa.Return
}

func (o *Outcome) SetAt(k int) lts.ByteSet {
	if s, ok := o.Sets[k]; ok {
		return s
	}
	return lts.Full()
}

type state struct {
	sets           map[int]lts.ByteSet
	lenMin, lenMax int
	env            map[ssa.Value]Val
}

func (s *state) clone() *state {
	n := &state{sets: map[int]lts.ByteSet{}, lenMin: s.lenMin, lenMax: s.lenMax, env: map[ssa.Value]Val{}}
	for k, v := range s.sets {
		n.sets[k] = v
	}
	for k, v := range s.env {
		n.env[k] = v
	}
	return n
}

func (s *state) setAt(k int) lts.ByteSet {
	if v, ok := s.sets[k]; ok {
		return v
	}
	return lts.Full()
}

// Explorer holds the function under analysis.
type Explorer struct {
	Fn     *ssa.Function
	Data   *ssa.Parameter
	Budget int
	// Table resolves a package-level [256]T variable indexed by a byte to its constant entries (optional).
	Table func(g *ssa.Global) *[256]int64
	// Params binds parameters of a helper evaluated on constants (see evalHelper).
	Params map[*ssa.Parameter]Val
	out    []Outcome
	err    error
	steps  int
	depth  int
}

// Explore returns the outcomes of fn, whose parameter number dataParam is the byte slice.
func Explore(fn *ssa.Function, dataParam int, table func(g *ssa.Global) *[256]int64) ([]Outcome, error) {
	if dataParam >= len(fn.Params) {
		return nil, fmt.Errorf("no parameter %d", dataParam)
	}
	e := &Explorer{Fn: fn, Data: fn.Params[dataParam], Budget: 200000, Table: table}
	st := &state{sets: map[int]lts.ByteSet{}, lenMin: 0, lenMax: -1, env: map[ssa.Value]Val{}}
	if len(fn.Blocks) == 0 {
		return nil, fmt.Errorf("no body")
	}
	e.run(st, fn.Blocks[0], nil)
	return e.out, e.err
}

func (e *Explorer) fail(format string, a ...interface{}) {
	if e.err == nil {
		e.err = fmt.Errorf(format, a...)
	}
}

func (e *Explorer) val(st *state, v ssa.Value) Val {
	switch t := v.(type) {
	case *ssa.Const:
		if t.Value == nil {
			return Top{}
		}
		switch t.Value.Kind() {
		case constant.Bool:
			return Bool{constant.BoolVal(t.Value)}
		case constant.Int:
			if k, ok := constant.Int64Val(t.Value); ok {
				return konst(k)
			}
		}
		return Top{}
	case *ssa.Parameter:
		if t == e.Data {
			return Slice{0, -1}
		}
		if v, ok := e.Params[t]; ok {
			return v
		}
		return Top{}
	}
	if r, ok := st.env[v]; ok {
		return r
	}
	return Top{}
}

func (e *Explorer) run(st *state, b, prev *ssa.BasicBlock) {
	for e.err == nil {
		e.steps++
		if e.steps > e.Budget {
			e.fail("step budget exhausted (a loop whose trip count is not fixed?)")
			return
		}
		// phis first, simultaneously
		if prev != nil {
			idx := -1
			for i, p := range b.Preds {
				if p == prev {
					idx = i
				}
			}
			var phis []*ssa.Phi
			var vals []Val
			for _, ins := range b.Instrs {
				ph, ok := ins.(*ssa.Phi)
				if !ok {
					break
				}
				phis = append(phis, ph)
				vals = append(vals, e.val(st, ph.Edges[idx]))
			}
			for i, ph := range phis {
				st.env[ph] = vals[i]
			}
		}
		for _, ins := range b.Instrs {
			switch t := ins.(type) {
			case *ssa.Phi, *ssa.DebugRef:
			case *ssa.If:
				c := e.val(st, t.Cond)
				switch cv := c.(type) {
				case Bool:
					prev = b
					if cv.B {
						b = b.Succs[0]
					} else {
						b = b.Succs[1]
					}
				case In:
					cur := st.setAt(cv.Pos)
					ts, fs := cur.And(cv.Set), cur.Minus(cv.Set)
					if !ts.Empty() {
						n := st.clone()
						n.sets[cv.Pos] = ts
						e.run(n, b.Succs[0], b)
					}
					if !fs.Empty() {
						n := st.clone()
						n.sets[cv.Pos] = fs
						e.run(n, b.Succs[1], b)
					}
					return
				case LenCmp:
					tlo, thi, flo, fhi, ok := splitLen(st.lenMin, st.lenMax, cv)
					if !ok {
						e.fail("%s: unsupported length comparison", e.Fn.Prog.Fset.Position(t.Cond.Pos()))
						return
					}
					if nonEmpty(tlo, thi) {
						n := st.clone()
						n.lenMin, n.lenMax = tlo, thi
						e.run(n, b.Succs[0], b)
					}
					if nonEmpty(flo, fhi) {
						n := st.clone()
						n.lenMin, n.lenMax = flo, fhi
						e.run(n, b.Succs[1], b)
					}
					return
				default:
					e.fail("%s: branch on a value outside the byte-window domain", e.Fn.Prog.Fset.Position(t.Cond.Pos()))
					return
				}
			case *ssa.Jump:
				prev = b
				b = b.Succs[0]
			case *ssa.Return:
				o := Outcome{Sets: st.sets, LenMin: st.lenMin, LenMax: st.lenMax, Ret: t}
				for _, r := range t.Results {
					o.Results = append(o.Results, e.val(st, r))
				}
				e.out = append(e.out, o)
				return
			case *ssa.Panic:
				e.fail("%s: explicit panic", e.Fn.Prog.Fset.Position(t.Pos()))
				return
			case ssa.Value:
				st.env[t] = e.eval(st, t)
			default:
				// stores, defers … are outside the domain of a pure window function
				e.fail("%s: instruction %T is outside the byte-window domain", e.Fn.Prog.Fset.Position(ins.Pos()), ins)
				return
			}
		}
	}
}

func nonEmpty(lo, hi int) bool { return hi < 0 || lo <= hi }

// splitLen splits the interval [lo,hi] (hi<0 = ∞) by `len op k`; an empty part is returned as (1,0).
func splitLen(lo, hi int, c LenCmp) (tlo, thi, flo, fhi int, ok bool) {
	k := int(c.K)
	type rng struct {
		lo, hi int
		inf    bool
	}
	var t, f rng
	switch c.Op {
	case token.LSS:
		t, f = rng{0, k - 1, false}, rng{k, 0, true}
	case token.LEQ:
		t, f = rng{0, k, false}, rng{k + 1, 0, true}
	case token.GTR:
		t, f = rng{k + 1, 0, true}, rng{0, k, false}
	case token.GEQ:
		t, f = rng{k, 0, true}, rng{0, k - 1, false}
	default:
		return 0, 0, 0, 0, false
	}
	inter := func(r rng) (int, int) {
		l := lo
		if r.lo > l {
			l = r.lo
		}
		switch {
		case r.inf && hi < 0:
			return l, -1
		case r.inf:
			if l > hi {
				return 1, 0
			}
			return l, hi
		default:
			h := r.hi
			if hi >= 0 && hi < h {
				h = hi
			}
			if h < 0 || l > h {
				return 1, 0
			}
			return l, h
		}
	}
	tlo, thi = inter(t)
	flo, fhi = inter(f)
	return tlo, thi, flo, fhi, true
}

func intType(t types.Type) (bits int, signed bool, ok bool) {
	b, isB := t.Underlying().(*types.Basic)
	if !isB || b.Info()&types.IsInteger == 0 {
		return 0, false, false
	}
	switch b.Kind() {
	case types.Int8:
		return 8, true, true
	case types.Int16:
		return 16, true, true
	case types.Int32:
		return 32, true, true
	case types.Int64, types.Int:
		return 64, true, true
	case types.Uint8:
		return 8, false, true
	case types.Uint16:
		return 16, false, true
	case types.Uint32:
		return 32, false, true
	case types.Uint64, types.Uint, types.Uintptr:
		return 64, false, true
	}
	return 0, false, false
}

func wrap(v int64, bits int, signed bool) int64 {
	if bits >= 64 {
		return v
	}
	m := int64(1) << uint(bits)
	v &= m - 1
	if signed && v >= m>>1 {
		v -= m
	}
	return v
}

// norm brings a sum into the value range of type t: exact for a sum over at most one position (wrap per entry);
// for several positions the value must provably fit, otherwise Top.
func (e *Explorer) norm(st *state, s Sum, t types.Type) Val {
	bits, signed, ok := intType(t)
	if !ok {
		return Top{}
	}
	if bits == 64 && !signed {
		// uint64 arithmetic beyond int64 is not modelled; values used here stay far below
		bits = 63
		signed = false
	}
	switch len(s.T) {
	case 0:
		return konst(wrap(s.K, bits, signed))
	case 1:
		for k, tab := range s.T {
			var n [256]int64
			for b := 0; b < 256; b++ {
				n[b] = wrap(tab[b]+s.K, bits, signed)
			}
			return Sum{T: map[int]*[256]int64{k: &n}}
		}
	}
	lo, hi := s.K, s.K
	for k, tab := range s.T {
		set := st.setAt(k)
		first := true
		var mn, mx int64
		for b := 0; b < 256; b++ {
			if !set.Has(byte(b)) {
				continue
			}
			if first || tab[b] < mn {
				mn = tab[b]
			}
			if first || tab[b] > mx {
				mx = tab[b]
			}
			first = false
		}
		lo += mn
		hi += mx
	}
	var tlo, thi int64
	if signed {
		tlo, thi = -(int64(1) << uint(bits-1)), int64(1)<<uint(bits-1)-1
	} else {
		tlo, thi = 0, int64(1)<<uint(bits)-1
	}
	if lo < tlo || hi > thi {
		return Top{}
	}
	return s
}

func addSum(a, b Sum, sign int64) Sum {
	out := Sum{T: map[int]*[256]int64{}, K: a.K + sign*b.K}
	for k, t := range a.T {
		c := *t
		out.T[k] = &c
	}
	for k, t := range b.T {
		if cur, ok := out.T[k]; ok {
			for i := range cur {
				cur[i] += sign * t[i]
			}
		} else {
			var c [256]int64
			for i := range c {
				c[i] = sign * t[i]
			}
			out.T[k] = &c
		}
	}
	return out
}

func scaleSum(a Sum, k int64) Sum {
	out := Sum{T: map[int]*[256]int64{}, K: a.K * k}
	for p, t := range a.T {
		var c [256]int64
		for i := range c {
			c[i] = t[i] * k
		}
		out.T[p] = &c
	}
	return out
}

// pointwise applies f to two sums that involve at most one common position.
func pointwise(a, b Sum, f func(x, y int64) (int64, bool)) (Sum, bool) {
	pos := -1
	for k := range a.T {
		pos = k
	}
	for k := range b.T {
		if pos >= 0 && k != pos {
			return Sum{}, false
		}
		pos = k
	}
	if len(a.T) > 1 || len(b.T) > 1 {
		return Sum{}, false
	}
	if pos < 0 {
		v, ok := f(a.K, b.K)
		return konst(v), ok
	}
	var n [256]int64
	for i := 0; i < 256; i++ {
		x, y := a.K, b.K
		if t, ok := a.T[pos]; ok {
			x += t[i]
		}
		if t, ok := b.T[pos]; ok {
			y += t[i]
		}
		v, ok := f(x, y)
		if !ok {
			return Sum{}, false
		}
		n[i] = v
	}
	return Sum{T: map[int]*[256]int64{pos: &n}}, true
}

func cmp(op token.Token, x, y int64) bool {
	switch op {
	case token.EQL:
		return x == y
	case token.NEQ:
		return x != y
	case token.LSS:
		return x < y
	case token.LEQ:
		return x <= y
	case token.GTR:
		return x > y
	case token.GEQ:
		return x >= y
	}
	return false
}

func flip(op token.Token) token.Token {
	switch op {
	case token.LSS:
		return token.GTR
	case token.LEQ:
		return token.GEQ
	case token.GTR:
		return token.LSS
	case token.GEQ:
		return token.LEQ
	}
	return op
}

func (e *Explorer) eval(st *state, v ssa.Value) Val {
	switch t := v.(type) {
	case *ssa.Extract:
		if tup, ok := e.val(st, t.Tuple).(Tuple); ok && t.Index < len(tup.Vals) {
			return tup.Vals[t.Index]
		}
		return Top{}
	case *ssa.Call:
		if bi, ok := t.Call.Value.(*ssa.Builtin); ok && bi.Name() == "len" && len(t.Call.Args) == 1 {
			switch a := e.val(st, t.Call.Args[0]).(type) {
			case Slice:
				if a.Hi >= 0 {
					return konst(int64(a.Hi - a.Lo))
				}
				if a.Lo == 0 {
					return Len{}
				}
			}
		}
		if _, isB := t.Call.Value.(*ssa.Builtin); !isB {
			return e.evalHelper(st, t)
		}
		return Top{}
	case *ssa.Slice:
		base, ok := e.val(st, t.X).(Slice)
		if !ok || t.Max != nil {
			return Top{}
		}
		lo, hi := 0, -1
		if t.Low != nil {
			s, ok := e.val(st, t.Low).(Sum)
			if !ok || len(s.T) != 0 || s.K < 0 {
				return Top{}
			}
			lo = int(s.K)
		}
		if t.High != nil {
			s, ok := e.val(st, t.High).(Sum)
			if !ok || len(s.T) != 0 || s.K < int64(lo) {
				return Top{}
			}
			hi = int(s.K)
		}
		out := Slice{Lo: base.Lo + lo, Hi: -1}
		if hi >= 0 {
			out.Hi = base.Lo + hi
		} else if base.Hi >= 0 {
			out.Hi = base.Hi
		}
		return out
	case *ssa.IndexAddr:
		if g, ok := t.X.(*ssa.Global); ok && e.Table != nil {
			// &table[byte]: resolved at the load
			_ = g
			return Top{}
		}
		base, ok := e.val(st, t.X).(Slice)
		if !ok {
			return Top{}
		}
		idx, ok := e.val(st, t.Index).(Sum)
		if !ok || len(idx.T) != 0 || idx.K < 0 {
			return Top{}
		}
		return Ptr{base.Lo + int(idx.K)}
	case *ssa.UnOp:
		switch t.Op {
		case token.MUL:
			if p, ok := e.val(st, t.X).(Ptr); ok {
				var id [256]int64
				for i := range id {
					id[i] = int64(i)
				}
				return Sum{T: map[int]*[256]int64{p.Pos: &id}}
			}
			// table lookup: *(&global[idx]) with idx a function of one byte
			if ia, ok := t.X.(*ssa.IndexAddr); ok && e.Table != nil {
				if g, ok := ia.X.(*ssa.Global); ok {
					tab := e.Table(g)
					idx, okI := e.val(st, ia.Index).(Sum)
					if tab != nil && okI && len(idx.T) <= 1 {
						res, ok := pointwise(idx, konst(0), func(x, _ int64) (int64, bool) {
							if x < 0 || x > 255 {
								return 0, false
							}
							return tab[x], true
						})
						if ok {
							if b, isB := t.Type().Underlying().(*types.Basic); isB && b.Info()&types.IsBoolean != 0 {
								return sumToBool(st, res)
							}
							return res
						}
					}
				}
			}
			return Top{}
		case token.NOT:
			switch c := e.val(st, t.X).(type) {
			case Bool:
				return Bool{!c.B}
			case In:
				return In{c.Pos, c.Set.Not()}
			case LenCmp:
				neg := map[token.Token]token.Token{token.LSS: token.GEQ, token.GEQ: token.LSS, token.LEQ: token.GTR, token.GTR: token.LEQ}
				if n, ok := neg[c.Op]; ok {
					return LenCmp{n, c.K}
				}
			}
			return Top{}
		case token.SUB:
			if s, ok := e.val(st, t.X).(Sum); ok {
				return e.norm(st, scaleSum(s, -1), t.Type())
			}
		}
		return Top{}
	case *ssa.Convert:
		s, ok := e.val(st, t.X).(Sum)
		if !ok {
			return Top{}
		}
		return e.norm(st, s, t.Type())
	case *ssa.ChangeType:
		return e.val(st, t.X)
	case *ssa.BinOp:
		x, y := e.val(st, t.X), e.val(st, t.Y)
		switch t.Op {
		case token.EQL, token.NEQ, token.LSS, token.LEQ, token.GTR, token.GEQ:
			if _, isLen := x.(Len); isLen {
				if k, ok := y.(Sum); ok && len(k.T) == 0 {
					return lenCmp(t.Op, k.K)
				}
				return Top{}
			}
			if _, isLen := y.(Len); isLen {
				if k, ok := x.(Sum); ok && len(k.T) == 0 {
					return lenCmp(flip(t.Op), k.K)
				}
				return Top{}
			}
			if bx, ok := x.(Bool); ok {
				if by, ok := y.(Bool); ok && (t.Op == token.EQL || t.Op == token.NEQ) {
					return Bool{(bx.B == by.B) == (t.Op == token.EQL)}
				}
				return Top{}
			}
			sx, ok1 := x.(Sum)
			sy, ok2 := y.(Sum)
			if !ok1 || !ok2 {
				return Top{}
			}
			res, ok := pointwise(sx, sy, func(a, b int64) (int64, bool) {
				if cmp(t.Op, a, b) {
					return 1, true
				}
				return 0, true
			})
			if !ok {
				return Top{}
			}
			return sumToBool(st, res)
		case token.ADD, token.SUB:
			sx, ok1 := x.(Sum)
			sy, ok2 := y.(Sum)
			if !ok1 || !ok2 {
				return Top{}
			}
			sign := int64(1)
			if t.Op == token.SUB {
				sign = -1
			}
			return e.norm(st, addSum(sx, sy, sign), t.Type())
		case token.MUL:
			sx, ok1 := x.(Sum)
			sy, ok2 := y.(Sum)
			if !ok1 || !ok2 {
				return Top{}
			}
			if len(sy.T) == 0 {
				return e.norm(st, scaleSum(sx, sy.K), t.Type())
			}
			if len(sx.T) == 0 {
				return e.norm(st, scaleSum(sy, sx.K), t.Type())
			}
			if r, ok := pointwise(sx, sy, func(a, b int64) (int64, bool) { return a * b, true }); ok {
				return e.norm(st, r, t.Type())
			}
			return Top{}
		case token.SHL:
			sx, ok1 := x.(Sum)
			sy, ok2 := y.(Sum)
			if !ok1 || !ok2 || len(sy.T) != 0 || sy.K < 0 || sy.K > 62 {
				return Top{}
			}
			return e.norm(st, scaleSum(sx, int64(1)<<uint(sy.K)), t.Type())
		case token.OR, token.AND, token.XOR, token.SHR, token.QUO, token.REM, token.AND_NOT:
			sx, ok1 := x.(Sum)
			sy, ok2 := y.(Sum)
			if !ok1 || !ok2 {
				return Top{}
			}
			if r, ok := pointwise(sx, sy, func(a, b int64) (int64, bool) {
				switch t.Op {
				case token.OR:
					return a | b, true
				case token.AND:
					return a & b, true
				case token.XOR:
					return a ^ b, true
				case token.AND_NOT:
					return a &^ b, true
				case token.SHR:
					if b < 0 || b > 63 {
						return 0, false
					}
					return a >> uint(b), true
				case token.QUO:
					if b == 0 {
						return 0, false
					}
					return a / b, true
				case token.REM:
					if b == 0 {
						return 0, false
					}
					return a % b, true
				}
				return 0, false
			}); ok {
				return e.norm(st, r, t.Type())
			}
			// x | y over different positions is x + y when the bits cannot overlap
			if t.Op == token.OR {
				if r, ok := e.disjointOr(st, sx, sy); ok {
					return e.norm(st, r, t.Type())
				}
			}
			return Top{}
		}
		return Top{}
	}
	return Top{}
}

func lenCmp(op token.Token, k int64) Val {
	switch op {
	case token.EQL, token.NEQ:
		return Top{}
	}
	return LenCmp{op, k}
}

// sumToBool turns a 0/1 sum over at most one position into a boolean value.
func sumToBool(st *state, s Sum) Val {
	if len(s.T) == 0 {
		return Bool{s.K != 0}
	}
	for k, tab := range s.T {
		var set lts.ByteSet
		for b := 0; b < 256; b++ {
			if tab[b]+s.K != 0 {
				set = set.Or(lts.Of(byte(b)))
			}
		}
		cur := st.setAt(k)
		if cur.And(set) == cur {
			return Bool{true}
		}
		if cur.And(set).Empty() {
			return Bool{false}
		}
		return In{k, set}
	}
	return Top{}
}

// disjointOr: a | b == a + b when every possible value of a is a multiple of 2^n and b lies in [0, 2^n).
func (e *Explorer) disjointOr(st *state, a, b Sum) (Sum, bool) {
	try := func(hi, lo Sum) (Sum, bool) {
		var mx int64 = lo.K
		mn := lo.K
		for k, tab := range lo.T {
			set := st.setAt(k)
			first := true
			var tmn, tmx int64
			for i := 0; i < 256; i++ {
				if !set.Has(byte(i)) {
					continue
				}
				if first || tab[i] < tmn {
					tmn = tab[i]
				}
				if first || tab[i] > tmx {
					tmx = tab[i]
				}
				first = false
			}
			mn += tmn
			mx += tmx
		}
		if mn < 0 {
			return Sum{}, false
		}
		n := uint(0)
		for (int64(1) << n) <= mx {
			n++
		}
		m := int64(1)<<n - 1
		if hi.K&m != 0 || hi.K < 0 {
			return Sum{}, false
		}
		for k, tab := range hi.T {
			set := st.setAt(k)
			for i := 0; i < 256; i++ {
				if set.Has(byte(i)) && (tab[i]&m != 0 || tab[i] < 0) {
					return Sum{}, false
				}
			}
		}
		return addSum(hi, lo, 1), true
	}
	if r, ok := try(a, b); ok {
		return r, true
	}
	return try(b, a)
}

// Describe renders an outcome's path condition.
func (o *Outcome) Describe() string {
	var ks []int
	for k := range o.Sets {
		ks = append(ks, k)
	}
	sort.Ints(ks)
	s := fmt.Sprintf("len in [%d,", o.LenMin)
	if o.LenMax < 0 {
		s += "inf)"
	} else {
		s += fmt.Sprintf("%d]", o.LenMax)
	}
	for _, k := range ks {
		s += fmt.Sprintf(" data[%d] in %s", k, o.Sets[k])
	}
	return s
}

// evalHelper: a call of an unexported function of the same package whose parameters and single result are integers
// (hexDigitValue(c byte) rune), with arguments that depend on at most one input position: the helper is interpreted
// once per byte value that position can still have on this path, with constant arguments — the interpreter is exact
// on constants — and the results form the per-position table of the call's value.
func (e *Explorer) evalHelper(st *state, c *ssa.Call) Val {
	callee := c.Call.StaticCallee()
	if callee == nil || callee.Pkg == nil || callee.Pkg != e.Fn.Pkg || len(callee.Blocks) == 0 || e.depth >= 2 {
		return Top{}
	}
	if obj := callee.Object(); obj == nil || obj.Exported() {
		return Top{}
	}
	res := callee.Signature.Results()
	if res.Len() < 1 || res.Len() > 3 || len(callee.Params) != len(c.Call.Args) {
		return Top{}
	}
	isBool := make([]bool, res.Len())
	for i := 0; i < res.Len(); i++ {
		if b, ok := res.At(i).Type().Underlying().(*types.Basic); ok && b.Kind() == types.Bool {
			isBool[i] = true
		} else if _, _, ok := intType(res.At(i).Type()); !ok {
			return Top{}
		}
	}
	pos := -1
	args := make([]Sum, len(c.Call.Args))
	for i, a := range c.Call.Args {
		if _, _, ok := intType(callee.Params[i].Type()); !ok {
			return Top{}
		}
		sv, ok := e.val(st, a).(Sum)
		if !ok {
			return Top{}
		}
		for k := range sv.T {
			if pos >= 0 && pos != k {
				return Top{}
			}
			pos = k
		}
		args[i] = sv
	}
	// one evaluation on constants: the integer results and the boolean results
	evalAt := func(b int) ([]int64, []bool, bool) {
		sub := &Explorer{Fn: callee, Budget: 20000, Table: e.Table, Params: map[*ssa.Parameter]Val{}, depth: e.depth + 1}
		for i, p := range callee.Params {
			k := args[i].K
			if tab, ok := args[i].T[pos]; ok && b >= 0 {
				k += tab[b]
			}
			sub.Params[p] = konst(k)
		}
		sub.run(&state{sets: map[int]lts.ByteSet{}, lenMin: 0, lenMax: -1, env: map[ssa.Value]Val{}}, callee.Blocks[0], nil)
		if sub.err != nil || len(sub.out) != 1 || len(sub.out[0].Results) != res.Len() {
			return nil, nil, false
		}
		ints, bools := make([]int64, res.Len()), make([]bool, res.Len())
		for i, rv := range sub.out[0].Results {
			if isBool[i] {
				bv, ok := rv.(Bool)
				if !ok {
					return nil, nil, false
				}
				bools[i] = bv.B
			} else {
				sv, ok := rv.(Sum)
				if !ok || len(sv.T) != 0 {
					return nil, nil, false
				}
				ints[i] = sv.K
			}
		}
		return ints, bools, true
	}
	vals := make([]Val, res.Len())
	if pos < 0 {
		ints, bools, ok := evalAt(-1)
		if !ok {
			return Top{}
		}
		for i := range vals {
			if isBool[i] {
				vals[i] = Bool{bools[i]}
			} else {
				vals[i] = konst(ints[i])
			}
		}
	} else {
		tabs := make([]*[256]int64, res.Len())
		sets := make([]lts.ByteSet, res.Len())
		for i := range tabs {
			tabs[i] = &[256]int64{}
		}
		cur := st.setAt(pos)
		for b := 0; b < 256; b++ {
			if !cur.Has(byte(b)) {
				continue
			}
			ints, bools, ok := evalAt(b)
			if !ok {
				return Top{}
			}
			for i := range vals {
				if isBool[i] {
					if bools[i] {
						sets[i] = sets[i].Or(lts.Of(byte(b)))
					}
				} else {
					tabs[i][b] = ints[i]
				}
			}
		}
		for i := range vals {
			if isBool[i] {
				vals[i] = In{Pos: pos, Set: sets[i]}
			} else {
				vals[i] = Sum{T: map[int]*[256]int64{pos: tabs[i]}}
			}
		}
	}
	if res.Len() == 1 {
		return vals[0]
	}
	return Tuple{Vals: vals}
}
