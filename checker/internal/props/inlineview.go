package props

import (
	"go/constant"
	"go/token"

	"golang.org/x/tools/go/ssa"
)

// RX is an expression resolved into the frame of the function under analysis: rules that ask "which value is stored
// into field f of object o" must give the same answer whether the store is written in the function itself or in a
// private helper it calls (`x.reset(h.depth + 1)` with `func (h *T) reset(d int) { h.depth = d }`).
type RX struct {
	V     ssa.Value // leaf: a value (of the analysed function, or an opaque value of a helper) or a constant
	Op    token.Token
	X, Y  *RX       // binary operation
	Load  *RX       // load of Field through the pointer Load
	Field string    // with Load
	Call  *ssa.Call // result number Idx (-1: the only result) of a call, arguments resolved in Args
	Idx   int
	Args  []*RX
}

func (r *RX) isLeaf(v ssa.Value) bool {
	if r == nil || r.Load != nil || r.X != nil {
		return false
	}
	if r.Call != nil {
		if ex, ok := v.(*ssa.Extract); ok {
			return ex.Tuple == ssa.Value(r.Call) && ex.Index == r.Idx
		}
		return r.Idx == -1 && ssa.Value(r.Call) == v
	}
	return r.V == v
}

func (r *RX) constInt() (int64, bool) {
	if r == nil || r.Load != nil || r.X != nil || r.Call != nil {
		return 0, false
	}
	c, ok := r.V.(*ssa.Const)
	if !ok || c.Value == nil || c.Value.Kind() != constant.Int {
		return 0, false
	}
	return constant.Int64Val(c.Value)
}

// isFieldLoad: r is `base.field` for the given base leaf.
func (r *RX) isFieldLoad(base ssa.Value, field string) bool {
	return r != nil && r.Load != nil && r.Field == field && r.Load.isLeaf(base)
}

// unspill: a load of a local cell that is written exactly once (a parameter spilled because a closure captures it)
// denotes the value stored there.
func unspill(v ssa.Value) ssa.Value {
	ld, ok := v.(*ssa.UnOp)
	if !ok || ld.Op != token.MUL {
		return v
	}
	al, ok := ld.X.(*ssa.Alloc)
	if !ok {
		return v
	}
	var val ssa.Value
	n := 0
	for _, ref := range *al.Referrers() {
		if st, ok := ref.(*ssa.Store); ok && st.Addr == ssa.Value(al) {
			n++
			val = st.Val
		}
	}
	if n == 1 {
		return val
	}
	return v
}

func resolveRX(v ssa.Value, bind map[ssa.Value]*RX) *RX {
	v = unspill(v)
	if b, ok := bind[v]; ok {
		return b
	}
	callRX := func(c *ssa.Call, idx int) *RX {
		r := &RX{Call: c, Idx: idx}
		for _, a := range c.Call.Args {
			r.Args = append(r.Args, resolveRX(a, bind))
		}
		return r
	}
	switch t := v.(type) {
	case *ssa.Extract:
		if c, ok := t.Tuple.(*ssa.Call); ok {
			return callRX(c, t.Index)
		}
	case *ssa.Call:
		if _, isB := t.Call.Value.(*ssa.Builtin); !isB {
			return callRX(t, -1)
		}
	case *ssa.BinOp:
		return &RX{Op: t.Op, X: resolveRX(t.X, bind), Y: resolveRX(t.Y, bind)}
	case *ssa.UnOp:
		if t.Op == token.MUL {
			if fa, ok := t.X.(*ssa.FieldAddr); ok {
				if st := structOfType(fa.X.Type()); st != nil {
					return &RX{Load: resolveRX(fa.X, bind), Field: st.Field(fa.Field).Name()}
				}
			}
		}
	}
	return &RX{V: v}
}

// FieldStore is one store `Base.Field = Val` that takes effect when control passes instruction Idx of block At of the
// analysed function (the store itself, or the call of the helper that performs it).
type FieldStore struct {
	At     *ssa.BasicBlock
	Idx    int
	Base   *RX
	Field  string
	Val    *RX
	Always bool // performed on every path through the helper(s) it sits in
	Store  *ssa.Store
}

// fieldStores lists the field stores of fn and, transitively, of the private helpers it calls statically, resolved
// into fn's frame.
func (x *Ctx) fieldStores(fn *ssa.Function) []FieldStore {
	var out []FieldStore
	var walk func(f *ssa.Function, bind map[ssa.Value]*RX, at *ssa.BasicBlock, idx int, always bool, depth int, seen map[*ssa.Function]bool)
	walk = func(f *ssa.Function, bind map[ssa.Value]*RX, at *ssa.BasicBlock, idx int, always bool, depth int, seen map[*ssa.Function]bool) {
		var rets []*ssa.BasicBlock
		for _, b := range f.Blocks {
			if _, ok := b.Instrs[len(b.Instrs)-1].(*ssa.Return); ok {
				rets = append(rets, b)
			}
		}
		onEveryPath := func(b *ssa.BasicBlock) bool {
			for _, rb := range rets {
				if !(b == rb || b.Dominates(rb)) {
					return false
				}
			}
			return true
		}
		for _, b := range f.Blocks {
			for i, ins := range b.Instrs {
				a, k := at, idx
				if depth == 0 {
					a, k = b, i
				}
				switch t := ins.(type) {
				case *ssa.Store:
					fa, ok := t.Addr.(*ssa.FieldAddr)
					if !ok {
						continue
					}
					st := structOfType(fa.X.Type())
					if st == nil {
						continue
					}
					out = append(out, FieldStore{At: a, Idx: k, Base: resolveRX(fa.X, bind), Field: st.Field(fa.Field).Name(),
						Val: resolveRX(t.Val, bind), Always: always && (depth == 0 || onEveryPath(b)), Store: t})
				case *ssa.Call:
					callee := t.Call.StaticCallee()
					if !x.isPrivateHelper(callee) || seen[callee] || depth >= 8 {
						continue
					}
					nb := map[ssa.Value]*RX{}
					for pi, p := range callee.Params {
						if pi < len(t.Call.Args) {
							nb[p] = resolveRX(t.Call.Args[pi], bind)
						}
					}
					// the object a single-result helper returns is, in the caller's frame, the result of this call
					if callee.Signature.Results().Len() == 1 {
						var rv ssa.Value
						same := true
						for _, cb := range callee.Blocks {
							if ret, ok := cb.Instrs[len(cb.Instrs)-1].(*ssa.Return); ok {
								if rv == nil {
									rv = ret.Results[0]
								} else if rv != ret.Results[0] {
									same = false
								}
							}
						}
						if _, isC := rv.(*ssa.Const); rv != nil && same && !isC {
							if _, bound := nb[rv]; !bound {
								nb[rv] = &RX{Call: t, Idx: -1}
							}
						}
					}
					seen[callee] = true
					walk(callee, nb, a, k, always && (depth == 0 || onEveryPath(b)), depth+1, seen)
					delete(seen, callee)
				}
			}
		}
	}
	walk(fn, map[ssa.Value]*RX{}, nil, 0, true, 0, map[*ssa.Function]bool{fn: true})
	return out
}

// NilCond: on this path the (error) value V was found nil / non-nil by a test.
type NilCond struct {
	V      *RX
	NonNil bool
}

// RetCase is one way a function returns: the nil-tests known to hold and the results, resolved into the frame of the
// analysed function. A `return helper(…)` tail call of a private helper is replaced by the helper's own cases.
type RetCase struct {
	Conds   []NilCond
	Results []*RX
	Ret     *ssa.Return
	Via     []*ssa.Function // helpers looked through
}

func sameRX(a, b *RX) bool {
	if a == nil || b == nil {
		return a == b
	}
	if a.Call != nil || b.Call != nil {
		return a.Call == b.Call && a.Idx == b.Idx
	}
	if a.Load != nil || b.Load != nil {
		return a.Field == b.Field && sameRX(a.Load, b.Load)
	}
	if a.X != nil || b.X != nil {
		return a.Op == b.Op && sameRX(a.X, b.X) && sameRX(a.Y, b.Y)
	}
	return a.V == b.V
}

// nilTestsAt: the error-typed values tested against nil on the dominator chain of block b, with the outcome that
// holds in b.
func nilTestsAt(b *ssa.BasicBlock, bind map[ssa.Value]*RX) []NilCond {
	var out []NilCond
	for d := b; d != nil; d = d.Idom() {
		dom := d.Idom()
		if dom == nil {
			break
		}
		iff, ok := dom.Instrs[len(dom.Instrs)-1].(*ssa.If)
		if !ok {
			continue
		}
		be, ok := iff.Cond.(*ssa.BinOp)
		if !ok || (be.Op != token.EQL && be.Op != token.NEQ) {
			continue
		}
		v := be.X
		if isNilConst(be.X) {
			v = be.Y
		} else if !isNilConst(be.Y) {
			continue
		}
		if !isErrT(v.Type()) {
			continue
		}
		for i, s := range dom.Succs {
			if (s == d || s.Dominates(d)) && len(s.Preds) == 1 {
				nonNil := (be.Op == token.NEQ) == (i == 0)
				out = append(out, NilCond{resolveRX(v, bind), nonNil})
			}
		}
	}
	return out
}

// stop(call, args) tells that the tail call is a rule's own anchor and must not be looked through.
func (x *Ctx) returnCases(fn *ssa.Function, bind map[ssa.Value]*RX, depth int, stop func(c *ssa.Call, args []*RX) bool) []RetCase {
	var out []RetCase
	for _, b := range fn.Blocks {
		ret, ok := b.Instrs[len(b.Instrs)-1].(*ssa.Return)
		if !ok {
			continue
		}
		for _, rc := range splitReturn(ret) {
			c := RetCase{Conds: nilTestsAt(rc.at, bind), Ret: ret}
			for _, v := range rc.vals {
				c.Results = append(c.Results, resolveRX(v, bind))
			}
			// tail call of a private helper: all results are the results, in order, of one call
			var call *ssa.Call
			tail := len(c.Results) > 0
			for i, rx := range c.Results {
				if rx.Call == nil || (call != nil && rx.Call != call) || (rx.Idx != i && !(rx.Idx == -1 && len(c.Results) == 1)) {
					tail = false
					break
				}
				call = rx.Call
			}
			if tail && depth < 2 && !(stop != nil && stop(call, c.Results[0].Args)) {
				h := call.Call.StaticCallee()
				if x.isPrivateHelper(h) && h.Signature.Results().Len() == len(c.Results) && h != fn {
					nb := map[ssa.Value]*RX{}
					for i, p := range h.Params {
						if i < len(call.Call.Args) {
							nb[p] = resolveRX(call.Call.Args[i], bind)
						}
					}
					sub := x.returnCases(h, nb, depth+1, stop)
					if len(sub) > 0 {
						for _, sc := range sub {
							out = append(out, RetCase{Conds: append(append([]NilCond(nil), c.Conds...), sc.Conds...), Results: sc.Results, Ret: ret, Via: append([]*ssa.Function{h}, sc.Via...)})
						}
						continue
					}
				}
			}
			out = append(out, c)
		}
	}
	return out
}

// cellValue: for a load of a local cell (a named result spilled because a deferred closure captures it) the value
// most recently stored into it in the same block, with no call in between (a call could run a closure that writes
// the cell); otherwise v itself.
func cellValue(v ssa.Value) ssa.Value {
	ld, ok := v.(*ssa.UnOp)
	if !ok || ld.Op != token.MUL {
		return v
	}
	al, ok := ld.X.(*ssa.Alloc)
	if !ok {
		return v
	}
	instrs := ld.Block().Instrs
	for i := len(instrs) - 1; i >= 0; i-- {
		if instrs[i] != ssa.Instruction(ld) {
			continue
		}
		for j := i - 1; j >= 0; j-- {
			switch t := instrs[j].(type) {
			case *ssa.Store:
				if t.Addr == ssa.Value(al) {
					return t.Val
				}
			case *ssa.Call:
				if _, isB := t.Call.Value.(*ssa.Builtin); !isB {
					return v
				}
			case *ssa.Defer, *ssa.Go, *ssa.RunDefers:
				return v
			}
		}
	}
	return v
}
