package props

import (
	"fmt"

	"rjverif/internal/core"
)

var stackMachines = []string{"skipValue", "skipValueFast", "handleArrayValues", "handleObjectValues"}
var bufferWrappers = []string{"SkipValue", "SkipValueFast", "Valid", "HandleArrayValues", "HandleObjectValues"}

// stackRules: R10c / R20c on every push site.
func (x *Ctx) stackRules(r *core.Result, rs *core.RuleStat, wantExact bool) {
	for _, n := range stackMachines {
		m := x.Machine(n)
		if m == nil {
			r.Undecided(rs, n, "-", "machine not found")
			continue
		}
		for _, fc := range m.FCalls {
			rs.Instances++
			key := fmt.Sprintf("%s:fcall(ret=%d,entry=%d)", n, fc.Ret, fc.Entry)
			rep := m.AnalyseFCall(fc)
			for _, p := range rep.Problems {
				r.Fail(rs, key, x.W.Pos(fc.Pos), p)
			}
			if wantExact && !rep.Exact {
				r.Fail(rs, key+":size", x.W.Pos(fc.Pos), "the stack may grow to more than twice the depth reached (plus a constant): its size is not bounded by the nesting depth")
			}
			if len(rep.Problems) == 0 && (!wantExact || rep.Exact) {
				rs.OK(1)
			}
		}
	}
}

// C14 — a reused Buffer never changes results.
func C14(x *Ctx, r *core.Result) {
	r.Trusted = append(r.Trusted, "Go-subset semantics of the E1 extractor; Go slice semantics (a callee's append cannot change the caller's slice header)")
	a := r.Rule("R14a-c", "in every machine that takes a stack: top is 0 before the first dispatch; the only read of a stack slot is the pop, which happens only in states reachable solely through a push of the same call; handlers are invoked only while the machine's own stack is empty")
	x.bufferRules(r, a, stackMachines...)
	r.CheckFloor(a, 4)
	b := r.Rule("R14b'", "push/pop pairing: each push stores at stack[top] after making that index valid, then increments top; the pop decrements top and reads stack[top]")
	x.stackRules(r, b, false)
	r.CheckFloor(b, 30)
	d := r.Rule("R14d", "the five exported functions that take a *Buffer call the same function with the same arguments whether or not a buffer is given, use the results identically, pass buffer.stackBuf and store the returned slice back")
	x.wrapperSymmetry(r, d, bufferWrappers...)
	r.CheckFloor(d, 5)
	r.Exhaustive = true
	r.Explain = "since no slot is read before it is written in the same call and len(stack) is used only to decide growth, prior contents and length of the buffer cannot influence any result; since handlers run only at depth 0, a re-entrant call that overwrites the shared backing array cannot be observed"
}

func init() { Registry["C14"] = Prop{"proof", C14} }
