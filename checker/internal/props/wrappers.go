package props

import (
	"fmt"

	"golang.org/x/tools/go/ssa"

	"rjverif/internal/core"
)

// wrapperPassThrough: every return of the wrapper returns (phi of) the inner call's results by identity.
func (x *Ctx) wrapperPassThrough(r *core.Result, rs *core.RuleStat, names ...string) {
	for _, n := range names {
		fn := x.Func(n)
		if fn == nil {
			r.Undecided(rs, n, "-", "function not found")
			continue
		}
		rs.Instances++
		bad := false
		nres := fn.Signature.Results().Len()
		for _, b := range fn.Blocks {
			ret, ok := b.Instrs[len(b.Instrs)-1].(*ssa.Return)
			if !ok {
				continue
			}
			for i, res := range ret.Results {
				if !x.isExtractOfMachineCall(res, map[ssa.Value]bool{}) {
					r.Fail(rs, fmt.Sprintf("%s:return[%d]", n, i), x.W.Pos(ret.Pos()), "a result is not the inner function's result unchanged")
					bad = true
				}
			}
			if len(ret.Results) != nres {
				bad = true
			}
		}
		if !bad {
			rs.OK(1)
		}
	}
}

// isExtractOfMachineCall: v is a result of the machine call itself, a phi of such values, or the result of a private
// helper that hands back — on every one of its returns — a parameter bound to such a value (a helper that may
// substitute another error or offset on some path is not a pass-through).
func (x *Ctx) isExtractOfMachineCall(v ssa.Value, seen map[ssa.Value]bool) bool {
	return x.passThrough(v, nil, seen, 0)
}

func (x *Ctx) passThrough(v ssa.Value, bind map[ssa.Value]ssa.Value, seen map[ssa.Value]bool, depth int) bool {
	if b, ok := bind[v]; ok {
		return x.passThrough(b, nil, seen, depth) // the caller's frame (one level of binding at a time)
	}
	if seen[v] {
		return true
	}
	seen[v] = true
	viaCall := func(c *ssa.Call, idx int) bool {
		callee := c.Call.StaticCallee()
		if callee == nil || !x.W.InLib(callee) {
			return false
		}
		if x.Machine(callee.Name()) != nil {
			return true
		}
		if !x.isPrivateHelper(callee) || callee.Blocks == nil || depth >= 3 || len(callee.Params) != len(c.Call.Args) {
			return false
		}
		nb := map[ssa.Value]ssa.Value{}
		for i, p := range callee.Params {
			a := c.Call.Args[i]
			if ba, ok := bind[a]; ok {
				a = ba
			}
			nb[p] = a
		}
		n := 0
		for _, blk := range callee.Blocks {
			ret, ok := blk.Instrs[len(blk.Instrs)-1].(*ssa.Return)
			if !ok || idx >= len(ret.Results) {
				continue
			}
			n++
			res := ret.Results[idx]
			if _, isParam := res.(*ssa.Parameter); !isParam {
				if _, isPhi := res.(*ssa.Phi); !isPhi {
					return false
				}
			}
			if !x.passThroughIn(res, nb, map[ssa.Value]bool{}, depth+1) {
				return false
			}
		}
		return n > 0
	}
	switch t := v.(type) {
	case *ssa.Extract:
		if c, ok := t.Tuple.(*ssa.Call); ok {
			return viaCall(c, t.Index)
		}
	case *ssa.Call:
		return viaCall(t, 0)
	case *ssa.Phi:
		for _, e := range t.Edges {
			if !x.passThrough(e, bind, seen, depth) {
				return false
			}
		}
		return true
	}
	return false
}

// passThroughIn: inside a helper, v must be a parameter (bound to the caller's value) or a phi of parameters.
func (x *Ctx) passThroughIn(v ssa.Value, bind map[ssa.Value]ssa.Value, seen map[ssa.Value]bool, depth int) bool {
	if seen[v] {
		return true
	}
	seen[v] = true
	switch t := v.(type) {
	case *ssa.Parameter:
		b, ok := bind[t]
		return ok && x.passThrough(b, nil, map[ssa.Value]bool{}, depth)
	case *ssa.Phi:
		for _, e := range t.Edges {
			if !x.passThroughIn(e, bind, seen, depth) {
				return false
			}
		}
		return true
	}
	return false
}
