package props

import (
	"fmt"

	"golang.org/x/tools/go/ssa"

	"rjverif/internal/core"
)

// wrapperPassThrough: every return of the wrapper returns (phi of) the inner call's results by identity.
func (x *Ctx) wrapperPassThrough(r *core.Result, rs *core.RuleStat, names ...string) {
	for _, n := range names {
		fn := x.Func(n)
		if fn == nil {
			r.Undecided(rs, n, "-", "function not found")
			continue
		}
		rs.Instances++
		bad := false
		nres := fn.Signature.Results().Len()
		for _, b := range fn.Blocks {
			ret, ok := b.Instrs[len(b.Instrs)-1].(*ssa.Return)
			if !ok {
				continue
			}
			for i, res := range ret.Results {
				if !x.isExtractOfMachineCall(res, map[ssa.Value]bool{}) {
					r.Fail(rs, fmt.Sprintf("%s:return[%d]", n, i), x.W.Pos(ret.Pos()), "a result is not the inner function's result unchanged")
					bad = true
				}
			}
			if len(ret.Results) != nres {
				bad = true
			}
		}
		if !bad {
			rs.OK(1)
		}
	}
}

// isExtractOfMachineCall: v is an Extract of a call to an in-library function, or a phi of such values.
func (x *Ctx) isExtractOfMachineCall(v ssa.Value, seen map[ssa.Value]bool) bool {
	if seen[v] {
		return true
	}
	seen[v] = true
	switch v := v.(type) {
	case *ssa.Extract:
		if c, ok := v.Tuple.(*ssa.Call); ok {
			if callee := c.Call.StaticCallee(); callee != nil && x.W.InLib(callee) {
				return true
			}
		}
	case *ssa.Phi:
		for _, e := range v.Edges {
			if !x.isExtractOfMachineCall(e, seen) {
				return false
			}
		}
		return true
	}
	return false
}
