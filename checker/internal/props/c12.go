package props

import (
	"fmt"
	"go/token"
	"go/types"
	"strings"

	"golang.org/x/tools/go/ssa"

	"rjverif/internal/core"
)

// reachable blocks from b, not entering blocks for which stop() is true (stop blocks are included but not expanded).
func reachBlocks(from *ssa.BasicBlock, stop func(b *ssa.BasicBlock) bool) map[*ssa.BasicBlock]bool {
	seen := map[*ssa.BasicBlock]bool{}
	var st []*ssa.BasicBlock
	seen[from] = true
	st = append(st, from)
	for len(st) > 0 {
		b := st[len(st)-1]
		st = st[:len(st)-1]
		if stop != nil && stop(b) {
			continue
		}
		for _, s := range b.Succs {
			if !seen[s] {
				seen[s] = true
				st = append(st, s)
			}
		}
	}
	return seen
}

func storesTo(b *ssa.BasicBlock, target ssa.Value) []*ssa.Store {
	var out []*ssa.Store
	for _, ins := range b.Instrs {
		if st, ok := ins.(*ssa.Store); ok && st.Addr == target {
			out = append(out, st)
		}
	}
	return out
}

func extractOf(call *ssa.Call, idx int) *ssa.Extract {
	for _, ref := range *call.Referrers() {
		if ex, ok := ref.(*ssa.Extract); ok && ex.Index == idx {
			return ex
		}
	}
	return nil
}

// errTest finds the If that tests ex against nil; returns the block and the successors for nil / non-nil.
func errTest(fn *ssa.Function, ex ssa.Value) (blk *ssa.BasicBlock, nilSucc, nonNilSucc *ssa.BasicBlock) {
	for _, b := range fn.Blocks {
		iff, ok := b.Instrs[len(b.Instrs)-1].(*ssa.If)
		if !ok {
			continue
		}
		be, ok := iff.Cond.(*ssa.BinOp)
		if !ok || (be.Op != token.NEQ && be.Op != token.EQL) {
			continue
		}
		if !((be.X == ex && isNilConst(be.Y)) || (be.Y == ex && isNilConst(be.X))) {
			continue
		}
		if be.Op == token.NEQ {
			return b, b.Succs[1], b.Succs[0]
		}
		return b, b.Succs[0], b.Succs[1]
	}
	return nil, nil, nil
}

// C12 — Decode functions write the target only on success and leave it alone on null.
func C12(x *Ctx, r *core.Result) {
	r.Trusted = append(r.Trusted, "go/ssa dominance; the readers' own behaviour is decided by C04-C06, C13")
	a := r.Rule("R12a", "every store through the target pointer stores the reader's value result and is reachable only through the reader's err==nil edge; every path from that edge to a return passes such a store")
	b := r.Rule("R12b", "from the reader's err!=nil edge no store through the target is reachable and the function returns exactly the results of the null fallback applied to the same data and that error")
	d := r.Rule("R12d", "the reader called has the target's element type as its value result, is given the function's own data, and on success the returned offset is the reader's")
	var decs []*ssa.Function
	for _, fn := range x.W.APIRoots() {
		if strings.HasPrefix(fn.Name(), "Decode") && fn.Signature.Recv() == nil {
			decs = append(decs, fn)
		}
	}
	var fallback *ssa.Function
	for _, fn := range decs {
		key := fn.Name()
		a.Instances++
		// target: pointer parameter whose element type is a basic type
		var target *ssa.Parameter
		var data *ssa.Parameter
		for _, p := range fn.Params {
			if pt, ok := p.Type().(*types.Pointer); ok {
				if _, isB := pt.Elem().Underlying().(*types.Basic); isB && target == nil {
					target = p
				}
			}
			if isByteSliceT(p.Type()) && data == nil {
				data = p
			}
		}
		if target == nil || data == nil {
			r.Undecided(a, key, x.W.Pos(fn.Pos()), "cannot identify the target pointer / data parameter")
			continue
		}
		// reader call: static in-library callee with results (T, int, error)
		var reader *ssa.Call
		var others []*ssa.Call
		for _, blk := range fn.Blocks {
			for _, ins := range blk.Instrs {
				if c, ok := ins.(*ssa.Call); ok {
					callee := c.Call.StaticCallee()
					if callee != nil && x.W.InLib(callee) && callee.Signature.Results().Len() == 3 && isErrT(callee.Signature.Results().At(2).Type()) {
						if reader == nil {
							reader = c
							continue
						}
					}
					others = append(others, c)
				}
			}
		}
		if reader == nil {
			r.Undecided(a, key, x.W.Pos(fn.Pos()), "no reader call found")
			continue
		}
		valEx, offEx, errEx := extractOf(reader, 0), extractOf(reader, 1), extractOf(reader, 2)
		if errEx == nil {
			r.Fail(a, key+":err", x.W.Pos(reader.Pos()), "the reader's error is discarded")
			continue
		}
		blk, nilSucc, nonNil := errTest(fn, errEx)
		if blk == nil {
			r.Fail(a, key+":errtest", x.W.Pos(reader.Pos()), "the reader's error is never tested against nil")
			continue
		}
		// R12d
		d.Instances++
		okD := true
		rt := reader.Call.StaticCallee().Signature.Results().At(0).Type()
		if !types.Identical(rt, target.Type().(*types.Pointer).Elem()) {
			r.Fail(d, key+":reader", x.W.Pos(reader.Pos()), fmt.Sprintf("reader %s yields %s but the target is %s", reader.Call.StaticCallee().Name(), rt, target.Type()))
			okD = false
		}
		if len(reader.Call.Args) == 0 || reader.Call.Args[0] != ssa.Value(data) {
			r.Fail(d, key+":reader-arg", x.W.Pos(reader.Pos()), "the reader is not given the function's own data")
			okD = false
		}
		// R12a
		allStores := 0
		okA := true
		for _, bb := range fn.Blocks {
			for _, st := range storesTo(bb, target) {
				allStores++
				if valEx == nil || st.Val != ssa.Value(valEx) {
					r.Fail(a, key+":store-value", x.W.Pos(st.Pos()), "the value stored through the target is not the reader's value result")
					okA = false
				}
			}
		}
		// stores must be unreachable except through nilSucc: reachable from entry without passing the err test's nil edge?
		// compute blocks reachable from entry when the nil edge is removed
		noNil := map[*ssa.BasicBlock]bool{}
		{
			var stck []*ssa.BasicBlock
			noNil[fn.Blocks[0]] = true
			stck = append(stck, fn.Blocks[0])
			for len(stck) > 0 {
				c := stck[len(stck)-1]
				stck = stck[:len(stck)-1]
				for _, s := range c.Succs {
					if c == blk && s == nilSucc && nilSucc != nonNil {
						continue
					}
					if !noNil[s] {
						noNil[s] = true
						stck = append(stck, s)
					}
				}
			}
		}
		for bb := range noNil {
			for _, st := range storesTo(bb, target) {
				// stores in the test block before the test, or reachable without success
				r.Fail(a, key+":store-dominance", x.W.Pos(st.Pos()), "the target is written on a path that does not pass the reader's err==nil edge (e.g. before the error check)")
				okA = false
			}
		}
		if allStores == 0 {
			r.Fail(a, key+":no-store", x.W.Pos(fn.Pos()), "the target is never written")
			okA = false
		}
		// success always stores: from nilSucc, reach a return without passing a store?
		succ := reachBlocks(nilSucc, func(bb *ssa.BasicBlock) bool { return len(storesTo(bb, target)) > 0 })
		for bb := range succ {
			if len(storesTo(bb, target)) > 0 {
				continue
			}
			if _, isRet := bb.Instrs[len(bb.Instrs)-1].(*ssa.Return); isRet {
				r.Fail(a, key+":success-without-store", x.W.Pos(bb.Instrs[len(bb.Instrs)-1].Pos()), "a success path returns without storing the value")
				okA = false
			}
		}
		// what is returned, case by case (a `return helper(…)` tail call is replaced by the helper's own returns)
		cases := x.returnCases(fn, map[ssa.Value]*RX{}, 0, func(c *ssa.Call, args []*RX) bool {
			// the null fallback itself: called with exactly (data, the reader's error)
			return len(args) == 2 && ((args[0].isLeaf(data) && args[1].isLeaf(errEx)) || (args[1].isLeaf(data) && args[0].isLeaf(errEx)))
		})
		okB := true
		helpers := map[*ssa.Function]bool{}
		for _, rc := range cases {
			for _, h := range rc.Via {
				helpers[h] = true
			}
			errNil, errNonNil := false, false
			for _, c := range rc.Conds {
				if c.V.isLeaf(errEx) {
					if c.NonNil {
						errNonNil = true
					} else {
						errNil = true
					}
				}
			}
			switch {
			case len(rc.Results) != 2:
				r.Fail(d, key+":results", x.W.Pos(rc.Ret.Pos()), "unexpected result count")
				okD = false
			case errNil && !errNonNil:
				if offEx == nil || !rc.Results[0].isLeaf(offEx) {
					r.Fail(d, key+":success-offset", x.W.Pos(rc.Ret.Pos()), "on success the returned offset is not the reader's")
					okD = false
				} else if !(isNilConst(rc.Results[1].V) && rc.Results[1].Call == nil && rc.Results[1].X == nil && rc.Results[1].Load == nil) && !rc.Results[1].isLeaf(errEx) {
					r.Fail(d, key+":success-error", x.W.Pos(rc.Ret.Pos()), "on success a non-nil error may be returned")
					okD = false
				}
			case errNonNil && !errNil:
				// must be results 0 and 1 of fallback(data, that error)
				r0, r1 := rc.Results[0], rc.Results[1]
				good := r0.Call != nil && r0.Call == r1.Call && r0.Idx == 0 && r1.Idx == 1 && r0.Call.Call.StaticCallee() != nil &&
					x.W.InLib(r0.Call.Call.StaticCallee()) && len(r0.Args) == 2 && ((r0.Args[0].isLeaf(data) && r0.Args[1].isLeaf(errEx)) || (r0.Args[1].isLeaf(data) && r0.Args[0].isLeaf(errEx)))
				if !good {
					r.Fail(b, key+":fallback", x.W.Pos(rc.Ret.Pos()), "on a reader error the function does not return the null fallback's results for (data, that error)")
					okB = false
				} else if fallback == nil {
					fallback = r0.Call.Call.StaticCallee()
				} else if fallback != r0.Call.Call.StaticCallee() {
					r.Fail(b, key+":fallback", x.W.Pos(rc.Ret.Pos()), "Decode functions use different null fallbacks")
					okB = false
				}
			default:
				r.Fail(b, key+":untested-return", x.W.Pos(rc.Ret.Pos()), "a return is not under a test of the reader's error: it cannot be right both when the read succeeded and when it failed")
				okB = false
			}
		}
		if len(cases) == 0 {
			r.Fail(b, key+":returns", x.W.Pos(fn.Pos()), "no return found")
			okB = false
		}
		if okA {
			a.OK(1)
			a.Sample(key + ": store of " + reader.Call.StaticCallee().Name() + "'s value only behind err==nil, always on success")
		}
		if okD {
			d.OK(1)
		}
		// no other in-library call besides reader and fallback
		for _, c := range others {
			callee := c.Call.StaticCallee()
			if callee != nil && fallback != nil && callee == fallback {
				continue
			}
			// a private helper whose returns were looked through above and that itself only calls the fallback
			if callee != nil && helpers[callee] && x.onlyCalls(callee, fallback, helpers) {
				continue
			}
			r.Fail(b, key+":extra-call", x.W.Pos(c.Pos()), "unexpected additional call in a Decode function")
			okB = false
		}
		if okB {
			b.OK(1)
		}
	}
	r.CheckFloor(a, 9)
	b.Instances = a.Instances
	r.CheckFloor(d, 9)
	c := r.Rule("R12c", "the null fallback returns (p, nil) with ReadNull's own p when ReadNull(data) succeeds and otherwise (anything, the original error by identity); it has no other effect")
	if fallback == nil {
		r.Undecided(c, "fallback", "-", "no null fallback identified")
	} else {
		c.Instances++
		x.checkFallback(r, c, fallback)
	}
	r.CheckFloor(c, 1)
	r.Exhaustive = true
	r.Explain = "dominance, reachability and value identity on the SSA of each Decode function"
}

func init() { Registry["C12"] = Prop{"proof", C12} }

func isByteSliceT(t types.Type) bool {
	s, ok := t.Underlying().(*types.Slice)
	if !ok {
		return false
	}
	b, ok := s.Elem().Underlying().(*types.Basic)
	return ok && b.Kind() == types.Uint8
}

func (x *Ctx) checkFallback(r *core.Result, rs *core.RuleStat, fn *ssa.Function) {
	key := fn.Name()
	if len(fn.Params) != 2 {
		r.Fail(rs, key, x.W.Pos(fn.Pos()), "fallback does not take (data, origErr)")
		return
	}
	// (data, origErr) in either order: the parameters are told apart by type
	data, orig := fn.Params[0], fn.Params[1]
	if isErrT(data.Type()) && isByteSliceT(orig.Type()) {
		data, orig = orig, data
	}
	if !isByteSliceT(data.Type()) || !isErrT(orig.Type()) {
		r.Fail(rs, key, x.W.Pos(fn.Pos()), "fallback does not take (data, origErr)")
		return
	}
	var call *ssa.Call
	for _, b := range fn.Blocks {
		for _, ins := range b.Instrs {
			switch ins := ins.(type) {
			case *ssa.Call:
				if x.isFreshNonNilError(ins) {
					continue
				}
				if call != nil {
					r.Fail(rs, key+":calls", x.W.Pos(ins.Pos()), "fallback makes more than one call")
					return
				}
				call = ins
			case *ssa.Store, *ssa.MapUpdate, *ssa.Go, *ssa.Defer, *ssa.Send:
				r.Fail(rs, key+":effect", x.W.Pos(ins.Pos()), "fallback has a side effect")
				return
			}
		}
	}
	if call == nil || call.Call.StaticCallee() == nil || call.Call.StaticCallee().Name() != "ReadNull" || len(call.Call.Args) != 1 || call.Call.Args[0] != ssa.Value(data) {
		r.Fail(rs, key+":readnull", x.W.Pos(fn.Pos()), "fallback does not call ReadNull(data)")
		return
	}
	pEx, eEx := extractOf(call, 0), extractOf(call, 1)
	if eEx == nil {
		r.Fail(rs, key+":err", x.W.Pos(call.Pos()), "ReadNull's error is discarded")
		return
	}
	blk, nilSucc, nonNil := errTest(fn, eEx)
	if blk == nil {
		r.Fail(rs, key+":errtest", x.W.Pos(call.Pos()), "ReadNull's error is not tested")
		return
	}
	ok := true
	checkRet := func(b *ssa.BasicBlock, success bool) {
		ret, isRet := b.Instrs[len(b.Instrs)-1].(*ssa.Return)
		if !isRet || len(ret.Results) != 2 {
			r.Fail(rs, key+":shape", x.W.Pos(b.Instrs[0].Pos()), "fallback branch does not return directly")
			ok = false
			return
		}
		if success {
			if pEx == nil || ret.Results[0] != ssa.Value(pEx) || !isNilConst(ret.Results[1]) {
				r.Fail(rs, key+":null-success", x.W.Pos(ret.Pos()), "when the input is null the fallback must return (ReadNull's offset, nil)")
				ok = false
			}
		} else if !(ret.Results[1] == ssa.Value(orig) || ret.Results[1] == ssa.Value(eEx) || x.isFreshNonNilError(ret.Results[1])) {
			r.Fail(rs, key+":orig-error", x.W.Pos(ret.Pos()), "when the input is not null the fallback must return a non-nil error (the original error, ReadNull's error or a sentinel)")
			ok = false
		}
	}
	checkRet(nilSucc, true)
	checkRet(nonNil, false)
	if ok {
		rs.OK(1)
		rs.Sample(key + ": ReadNull(data) ok -> (p, nil); else -> (_, origErr)")
	}
}

// isFreshNonNilError: a load of a package-level error sentinel of the library or a call of fmt.Errorf / errors.New.
func (x *Ctx) isFreshNonNilError(v ssa.Value) bool {
	switch v := v.(type) {
	case *ssa.UnOp:
		if g, ok := v.X.(*ssa.Global); ok && v.Op == token.MUL && isErrT(v.Type()) && g.Pkg != nil && (g.Pkg == x.W.SRoot || g.Pkg == x.W.SFP) {
			return true
		}
	case *ssa.Call:
		if c := v.Call.StaticCallee(); c != nil && c.Pkg != nil {
			n := c.Pkg.Pkg.Path() + "." + c.Name()
			return n == "fmt.Errorf" || n == "errors.New"
		}
	}
	return false
}

// onlyCalls: fn has no effect of its own — no stores — and calls nothing but `allowed` (and other looked-through helpers).
func (x *Ctx) onlyCalls(fn, allowed *ssa.Function, helpers map[*ssa.Function]bool) bool {
	for _, b := range fn.Blocks {
		for _, ins := range b.Instrs {
			switch t := ins.(type) {
			case *ssa.Call:
				c := t.Call.StaticCallee()
				if _, isB := t.Call.Value.(*ssa.Builtin); isB {
					continue
				}
				if c == nil || !(c == allowed || (helpers[c] && c != fn)) {
					return false
				}
			case *ssa.Store, *ssa.MapUpdate, *ssa.Go, *ssa.Defer, *ssa.Send:
				return false
			}
		}
	}
	return true
}
