package props

import (
	"fmt"

	"golang.org/x/tools/go/ssa"

	"rjverif/internal/scan"
)

// Debug dumps models (development aid).
func Debug(x *Ctx, args []string) {
	if len(args) < 2 {
		return
	}
	switch args[0] {
	case "machine":
		m := x.Machine(args[1])
		fmt.Print(m.LTS.Dump())
	case "composed":
		l, p := x.Composed(args[1])
		fmt.Print(l.Dump())
		fmt.Println(p)
	case "sibling":
		rep, err := x.Sibling()
		if err != nil {
			fmt.Println("ERR", err)
			return
		}
		for _, p := range rep.Pairs {
			fmt.Printf("%-26s comparable=%v absent=%v events=%d paths=%d diffs=%d %s %s\n", p.Name, p.Comparable, p.Absent, p.Events, p.Paths, len(p.Diffs), p.WhyPos, p.Why)
			for _, d := range p.Diffs {
				fmt.Println("    DIFF", x.W.Pos(d.PosA), d.What)
			}
		}
	case "scanlast":
		res := x.Scan(args[1], func(fn *ssa.Function) *scan.Spec {
			sp := scan.FuncSpec(fn, 0, 1, -1, -1)
			sp.Entry = scan.LastSliceEntry
			return sp
		})
		for _, p := range res.Problems {
			fmt.Println("PROBLEM", p.Key, x.W.Pos(p.Pos), p.Msg)
		}
		for _, p := range res.Unsafe {
			fmt.Println("UNSAFE", p.Key, x.W.Pos(p.Pos), p.Msg)
		}
		fmt.Println("states", len(res.LTS.States))
	case "scan":
		off, errI, boolI, extra := -1, -1, -1, -1
		fmt.Sscan(args[2], &off)
		fmt.Sscan(args[3], &errI)
		fmt.Sscan(args[4], &boolI)
		fmt.Sscan(args[5], &extra)
		res := x.Scan(args[1], func(fn *ssa.Function) *scan.Spec { return scan.FuncSpec(fn, off, errI, boolI, extra) })
		fmt.Print(res.LTS.Dump())
		for _, p := range res.Problems {
			fmt.Println("PROBLEM", p.Key, x.W.Pos(p.Pos), p.Msg)
		}
		for _, p := range res.Unsafe {
			fmt.Println("UNSAFE", p.Key, x.W.Pos(p.Pos), p.Msg)
		}
	}
}
