package props

import (
	"bufio"
	"bytes"
	"fmt"
	"go/token"
	"go/types"
	"os"
	"os/exec"
	"path/filepath"
	"sort"
	"strings"

	"go/constant"

	"golang.org/x/tools/go/callgraph"
	"golang.org/x/tools/go/ssa"

	"rjverif/internal/bytewin"
	"rjverif/internal/core"
	"rjverif/internal/linarith"
	"rjverif/internal/lts"
	"rjverif/internal/scan"
)

// unprovenBounds runs the compiler's own bounds-check elimination report (-d=ssa/check_bce) on the two packages:
// the positions listed are the index / slice expressions whose range check the compiler could NOT remove. Every
// other index expression is in range by the compiler's prove pass.
func (x *Ctx) unprovenBounds() (map[string]bool, error) {
	dir := x.W.Dir
	cmd := exec.Command("go", "build", "-gcflags=-d=ssa/check_bce/debug=1", ".", "./internal/fp")
	cmd.Dir = dir
	env := []string{}
	for _, e := range os.Environ() {
		if strings.HasPrefix(e, "GOFLAGS=") || strings.HasPrefix(e, "GOWORK=") {
			continue
		}
		env = append(env, e)
	}
	cmd.Env = append(env, "GOFLAGS=-mod=mod", "GOWORK=off", "GOPROXY=off", "GOSUMDB=off", "GOTOOLCHAIN=local", "CGO_ENABLED=0")
	if x.W.GOARCH != "" {
		cmd.Env = append(cmd.Env, "GOARCH="+x.W.GOARCH)
	}
	var out bytes.Buffer
	cmd.Stderr = &out
	cmd.Stdout = &out
	err := cmd.Run()
	res := map[string]bool{}
	sc := bufio.NewScanner(&out)
	sc.Buffer(make([]byte, 1<<20), 1<<24)
	n := 0
	for sc.Scan() {
		m := reDiag.FindStringSubmatch(sc.Text())
		if m == nil || !strings.HasPrefix(m[4], "Found Is") {
			continue
		}
		n++
		f := m[1]
		if !filepath.IsAbs(f) {
			f = filepath.Join(dir, f)
		}
		res[fmt.Sprintf("%s:%s:%s", filepath.Clean(f), m[2], m[3])] = true
	}
	if err != nil && n == 0 {
		return nil, fmt.Errorf("go build -gcflags=-d=ssa/check_bce failed: %v: %s", err, firstLine(out.String()))
	}
	if n == 0 {
		return nil, fmt.Errorf("the compiler printed no bounds-check report")
	}
	return res, nil
}

// indexSite is one index / slice expression of the library.
type indexSite struct {
	fn  *ssa.Function
	ins ssa.Instruction
	pos token.Pos
}

// boundsAccounting: R10i. Every index and slice expression in a library function reachable from the API is accounted
// for by exactly one of: the machine rules (E1: R10b-d), the scanner interpreter (E2: R10g/h judged that very
// expression), the compiler's bounds-check elimination (the expression is absent from its list of unproven checks),
// or the local linear argument of proveSite. Anything else is reported: no indexing is outside all analyses.
func (x *Ctx) boundsAccounting(r *core.Result, rs *core.RuleStat) {
	w := x.W
	unproven, err := x.unprovenBounds()
	if err != nil {
		r.Undecided(rs, "compiler", "-", err.Error())
		return
	}
	reach := w.Reachable(w.APIRoots(), func(e *callgraph.Edge) bool { return w.InLib(e.Caller.Func) })
	var fns []*ssa.Function
	for fn := range reach {
		if w.InLib(fn) && len(fn.Blocks) > 0 {
			fns = append(fns, fn)
		}
	}
	sort.Slice(fns, func(i, j int) bool { return fns[i].String() < fns[j].String() })
	checked := x.Engine().Checked
	counts := map[string]int{}
	// functions of the float port that agree with GOROOT's strconv at every position (R04f): their indexing is strconv's
	sibClean := map[*ssa.Function]string{}
	if rep, err := x.Sibling(); err == nil {
		for _, p := range rep.Pairs {
			if p.Comparable && len(p.Diffs) == 0 && p.Here != nil {
				sibClean[p.Here] = rep.GoVersion
				for _, h := range p.SteppedA {
					sibClean[h] = rep.GoVersion
				}
			}
		}
	}
	boundsOnly := map[*ssa.Function]map[token.Pos]bool{}
	for _, fn := range fns {
		isMachine := x.Machine(fn.Name()) != nil && fn.Signature.Recv() == nil
		for _, b := range fn.Blocks {
			for _, ins := range b.Instrs {
				var pos token.Pos
				switch t := ins.(type) {
				case *ssa.IndexAddr:
					pos = t.Pos()
				case *ssa.Index:
					pos = t.Pos()
				case *ssa.Slice:
					pos = t.Pos()
				default:
					continue
				}
				rs.Instances++
				p := w.Fset.Position(pos)
				key := fmt.Sprintf("%s:%d:%d", filepath.Clean(p.Filename), p.Line, p.Column)
				if os.Getenv("VERIF_TRACE_BOUNDS") != "" && !isMachine {
					fmt.Println("SITE", key, fn.Name(), siteText(ins), "checked:", checked[pos], "unproven:", unproven[key])
				}
				switch {
				case isMachine:
					counts["machine rules (R10b-d)"]++
					rs.OK(1)
				case pos.IsValid() && checked[pos]:
					counts["scanner interpreter (R10g/h)"]++
					rs.OK(1)
				case !pos.IsValid() || !unproven[key]:
					counts["compiler bounds-check elimination"]++
					rs.OK(1)
				default:
					if why := x.proveSite(fn, ins); why != "" {
						counts["local argument"]++
						rs.OK(1)
						rs.Sample(fmt.Sprintf("%s:%d %s", filepath.Base(p.Filename), p.Line, why))
						continue
					}
					if _, done := boundsOnly[fn]; !done {
						boundsOnly[fn] = x.scanBoundsOnly(fn)
					}
					if boundsOnly[fn][pos] {
						counts["scanner interpreter, bounds only"]++
						rs.OK(1)
						continue
					}
					if ver, ok := sibClean[fn]; ok {
						counts["identical to strconv ("+ver+")"]++
						rs.OK(1)
					} else {
						r.Fail(rs, fnKey(fn)+":"+siteText(ins), w.Pos(pos), "this index / slice expression is not proved in range by any analysis (machine rules, scanner interpreter, compiler, local argument): it may panic")
					}
				}
			}
		}
	}
	var ks []string
	for k, n := range counts {
		ks = append(ks, fmt.Sprintf("%s: %d", k, n))
	}
	sort.Strings(ks)
	rs.Sample("index/slice expressions by discharging analysis — " + strings.Join(ks, "; "))
}

func siteText(ins ssa.Instruction) string {
	switch t := ins.(type) {
	case *ssa.IndexAddr:
		return "index " + t.X.Name() + "[" + t.Index.Name() + "]"
	case *ssa.Index:
		return "index " + t.X.Name() + "[" + t.Index.Name() + "]"
	case *ssa.Slice:
		lo, hi := "", ""
		if t.Low != nil {
			lo = t.Low.Name()
		}
		if t.High != nil {
			hi = t.High.Name()
		}
		return "slice " + t.X.Name() + "[" + lo + ":" + hi + "]"
	}
	return "?"
}

// ---- the local linear argument ---------------------------------------------------------------------------------------
//
// Facts are linear (in)equalities over: the integer SSA values of the function, and len(s) / cap(s) of its slice and
// string values. They come from (a) the definitions of values (x+y, len, cap, s[a:b], append, make, widening
// conversions), (b) the comparisons on the dominating edges of the site, (c) summaries of callees: postconditions of
// private helpers proved by this same prover (len(ret) == len(param), cap(ret) >= intParam), byte-window facts
// (getu4(s) >= 0 implies len(s) >= 6) and a short table of trusted standard-library facts. The goal (0 <= i < len,
// 0 <= lo <= hi <= cap) is proved by refutation with Fourier-Motzkin over the facts in the goal's cone of influence.
// Arithmetic is assumed not to wrap: every term is a length, a capacity or a small constant away from one (lengths
// are bounded by the address space, far below the int range) — stated under Trusted.

type linFact struct {
	in   linarith.Ineq
	syms map[string]bool
	at   ssa.Instruction // the instruction whose execution makes the fact true (nil: always true / a path fact)
}

type boundsProver struct {
	x     *Ctx
	fn    *ssa.Function
	facts []linFact
	depth int
	cur   ssa.Instruction   // origin of the facts being added
	site  ssa.Instruction   // the instruction being proved: only facts established strictly before it may be used
	alt   []ssa.Instruction // case split on a phi: facts established before the end of the predecessor taken are usable too
	vals  map[string]ssa.Value
}

func symsOf(f linarith.Form) map[string]bool {
	m := map[string]bool{}
	for k := range f.Coef {
		m[k] = true
	}
	return m
}

func (bp *boundsProver) add(ins ...linarith.Ineq) {
	for _, in := range ins {
		bp.facts = append(bp.facts, linFact{in, symsOf(in.F), bp.cur})
	}
}

func isIntKind(t types.Type) bool {
	b, ok := t.Underlying().(*types.Basic)
	return ok && b.Info()&types.IsInteger != 0
}

func (bp *boundsProver) sym(prefix string, v ssa.Value) string {
	k := fmt.Sprintf("%s:%s@%p", prefix, v.Name(), v)
	if bp.vals == nil {
		bp.vals = map[string]ssa.Value{}
	}
	bp.vals[k] = v
	return k
}

func (bp *boundsProver) intForm(v ssa.Value) (linarith.Form, bool) {
	if !isIntKind(v.Type()) {
		return linarith.Form{}, false
	}
	if c, ok := constBig(v); ok {
		return linarith.ConstBig(c), true
	}
	if knownZeroLoad(v) {
		return linarith.Const(0), true
	}
	return linarith.Var(bp.sym("i", v)), true
}

// lenForm / capForm of a slice, string or pointer-to-array value.
func (bp *boundsProver) lenForm(v ssa.Value) (linarith.Form, bool) {
	switch t := v.Type().Underlying().(type) {
	case *types.Slice:
		return linarith.Var(bp.sym("len", v)), true
	case *types.Basic:
		if t.Info()&types.IsString != 0 {
			if c, ok := v.(*ssa.Const); ok && c.Value != nil {
				return linarith.Const(int64(len(constantString(c)))), true
			}
			return linarith.Var(bp.sym("len", v)), true
		}
	case *types.Pointer:
		if a, ok := t.Elem().Underlying().(*types.Array); ok {
			return linarith.Const(a.Len()), true
		}
	case *types.Array:
		return linarith.Const(t.Len()), true
	}
	return linarith.Form{}, false
}

func (bp *boundsProver) capForm(v ssa.Value) (linarith.Form, bool) {
	switch v.Type().Underlying().(type) {
	case *types.Slice:
		return linarith.Var(bp.sym("cap", v)), true
	}
	return bp.lenForm(v)
}

func constantString(c *ssa.Const) string {
	if c.Value.Kind() == constant.String {
		return constant.StringVal(c.Value)
	}
	return ""
}

// collect builds the definitional facts of every instruction of the function.
func (bp *boundsProver) collect() {
	fn := bp.fn
	sliceSeen := map[ssa.Value]bool{}
	noteSlice := func(v ssa.Value) {
		if sliceSeen[v] {
			return
		}
		sliceSeen[v] = true
		l, ok1 := bp.lenForm(v)
		c, ok2 := bp.capForm(v)
		if ok1 {
			bp.add(linarith.GE(l, linarith.Const(0)))
		}
		if ok1 && ok2 {
			bp.add(linarith.LE(l, c))
		}
	}
	bp.cur = nil
	for _, p := range fn.Params {
		noteSlice(p)
	}
	for _, b := range fn.Blocks {
		for _, ins := range b.Instrs {
			v, isVal := ins.(ssa.Value)
			if !isVal {
				continue
			}
			bp.cur = ins
			noteSlice(v)
			switch t := ins.(type) {
			case *ssa.BinOp:
				vf, ok := bp.intForm(t)
				xf, ok1 := bp.intForm(t.X)
				yf, ok2 := bp.intForm(t.Y)
				if !ok || !ok1 || !ok2 {
					continue
				}
				switch t.Op {
				case token.ADD:
					bp.add(linarith.EQ(vf, xf.Add(yf))...)
				case token.SUB:
					bp.add(linarith.EQ(vf, xf.Sub(yf))...)
				case token.MUL:
					if yf.IsConst() && yf.K.IsInt64() {
						bp.add(linarith.EQ(vf, xf.Scale(yf.K.Int64()))...)
					} else if xf.IsConst() && xf.K.IsInt64() {
						bp.add(linarith.EQ(vf, yf.Scale(xf.K.Int64()))...)
					}
				}
			case *ssa.Convert:
				vf, ok := bp.intForm(t)
				xf, ok1 := bp.intForm(t.X)
				if !ok || !ok1 {
					continue
				}
				sb, _ := t.X.Type().Underlying().(*types.Basic)
				db, _ := t.Type().Underlying().(*types.Basic)
				if sb == nil || db == nil {
					continue
				}
				ss, ds := bp.x.W.Root.TypesSizes.Sizeof(sb), bp.x.W.Root.TypesSizes.Sizeof(db)
				sUns, dUns := sb.Info()&types.IsUnsigned != 0, db.Info()&types.IsUnsigned != 0
				// value-preserving: same signedness and not narrowing, or unsigned into a strictly wider signed type
				if (sUns == dUns && ds >= ss) || (sUns && !dUns && ds > ss) {
					bp.add(linarith.EQ(vf, xf)...)
				}
				if sUns {
					bp.add(linarith.GE(xf, linarith.Const(0)))
					if ss == 1 {
						bp.add(linarith.LE(xf, linarith.Const(255)))
					}
				}
			case *ssa.Slice:
				xl, okl := bp.lenForm(t.X)
				xc, okc := bp.capForm(t.X)
				vl, okv := bp.lenForm(t)
				if !okl || !okv {
					continue
				}
				noteSlice(t.X)
				lo, hi := linarith.Const(0), xl
				if t.Low != nil {
					if f, ok := bp.intForm(t.Low); ok {
						lo = f
					} else {
						continue
					}
				}
				if t.High != nil {
					if f, ok := bp.intForm(t.High); ok {
						hi = f
					} else {
						continue
					}
				}
				bp.add(linarith.EQ(vl, hi.Sub(lo))...)
				if vc, ok := bp.capForm(t); ok && okc {
					if t.Max != nil {
						if f, ok := bp.intForm(t.Max); ok {
							bp.add(linarith.EQ(vc, f.Sub(lo))...)
						}
					} else if _, isSl := t.Type().Underlying().(*types.Slice); isSl {
						bp.add(linarith.EQ(vc, xc.Sub(lo))...)
					}
				}
			case *ssa.MakeSlice:
				if l, ok := bp.intForm(t.Len); ok {
					vl, _ := bp.lenForm(t)
					bp.add(linarith.EQ(vl, l)...)
				}
				if c, ok := bp.intForm(t.Cap); ok {
					vc, _ := bp.capForm(t)
					bp.add(linarith.EQ(vc, c)...)
				}
			case *ssa.Call:
				bp.callFacts(t)
			case *ssa.UnOp:
				bp.loadFacts(t)
			case *ssa.Extract:
				if c, ok := t.Tuple.(*ssa.Call); ok {
					bp.extractFacts(t, c)
				}
			}
		}
	}
}

// usable: the fact's origin has certainly executed (without panicking) whenever control reaches the site.
func (bp *boundsProver) usable(f linFact) bool {
	if f.at == nil || bp.site == nil {
		return true
	}
	before := func(site ssa.Instruction) bool {
		fb, sb := f.at.Block(), site.Block()
		if fb == sb {
			return instrIndex(f.at) < instrIndex(site)
		}
		return fb.Dominates(sb)
	}
	if before(bp.site) {
		return true
	}
	for _, a := range bp.alt {
		if before(a) {
			return true
		}
	}
	return false
}

// proveSplit: prove directly, or by cases on a phi the goal mentions: for each predecessor the phi is its incoming
// value, and what was established on the way through that predecessor may be used.
func (bp *boundsProver) proveSplit(depth int, goals ...linarith.Ineq) bool {
	if bp.prove(goals...) {
		return true
	}
	if depth >= 2 || bp.site == nil {
		return false
	}
	seen := map[*ssa.Phi]bool{}
	var phis []*ssa.Phi
	note := func(sy string) {
		if ph, ok := bp.vals[sy].(*ssa.Phi); ok && !seen[ph] {
			sb := bp.site.Block()
			if ph.Block() == sb || ph.Block().Dominates(sb) {
				seen[ph] = true
				phis = append(phis, ph)
			}
		}
	}
	for _, g := range goals {
		for sy := range symsOf(g.F) {
			note(sy)
		}
	}
	sort.Slice(phis, func(i, j int) bool { return phis[i].Name() < phis[j].Name() })
	// then the phis the goal depends on through the facts (a capacity that is a phi of two sizes)
	direct := len(phis)
	want := map[string]bool{}
	for _, g := range goals {
		for sy := range symsOf(g.F) {
			want[sy] = true
		}
	}
	for round := 0; round < 3; round++ {
		for _, f := range bp.facts {
			if !bp.usable(f) {
				continue
			}
			hit := false
			for sy := range f.syms {
				if want[sy] {
					hit = true
				}
			}
			if hit {
				for sy := range f.syms {
					want[sy] = true
				}
			}
		}
	}
	var more []string
	for sy := range want {
		more = append(more, sy)
	}
	sort.Strings(more)
	for _, sy := range more {
		note(sy)
	}
	rest := phis[direct:]
	sort.Slice(rest, func(i, j int) bool { return rest[i].Name() < rest[j].Name() })
	if len(phis) > direct+4 {
		phis = phis[:direct+4]
	}
	for _, ph := range phis {
		all := true
		for i, e := range ph.Edges {
			pred := ph.Block().Preds[i]
			sub := &boundsProver{x: bp.x, fn: bp.fn, depth: bp.depth, site: bp.site, vals: bp.vals}
			sub.facts = append([]linFact(nil), bp.facts...)
			sub.alt = append(append([]ssa.Instruction(nil), bp.alt...), pred.Instrs[len(pred.Instrs)-1])
			sub.pathFacts(pred)
			if iff, ok := pred.Instrs[len(pred.Instrs)-1].(*ssa.If); ok && pred.Succs[0] != pred.Succs[1] {
				sub.condFacts(iff.Cond, pred.Succs[0] == ph.Block())
			}
			if pf, ok := sub.intForm(ph); ok {
				if ef, ok := sub.intForm(e); ok {
					sub.add(linarith.EQ(pf, ef)...)
				}
			} else {
				if pl, ok := sub.lenForm(ph); ok {
					if el, ok := sub.lenForm(e); ok {
						sub.add(linarith.EQ(pl, el)...)
					}
				}
				if pc, ok := sub.capForm(ph); ok {
					if ec, ok := sub.capForm(e); ok {
						sub.add(linarith.EQ(pc, ec)...)
					}
				}
			}
			if !sub.proveSplit(depth+1, goals...) {
				all = false
				break
			}
		}
		if all {
			return true
		}
	}
	return false
}

func (bp *boundsProver) callFacts(t *ssa.Call) {
	if bi, ok := t.Call.Value.(*ssa.Builtin); ok {
		switch bi.Name() {
		case "len":
			if vf, ok := bp.intForm(t); ok {
				if l, ok := bp.lenForm(t.Call.Args[0]); ok {
					bp.add(linarith.EQ(vf, l)...)
				}
			}
		case "cap":
			if vf, ok := bp.intForm(t); ok {
				if c, ok := bp.capForm(t.Call.Args[0]); ok {
					bp.add(linarith.EQ(vf, c)...)
				}
			}
		case "append":
			if len(t.Call.Args) == 2 {
				al, ok1 := bp.lenForm(t.Call.Args[0])
				ac, ok2 := bp.capForm(t.Call.Args[0])
				bl, ok3 := bp.lenForm(t.Call.Args[1])
				vl, ok4 := bp.lenForm(t)
				vc, ok5 := bp.capForm(t)
				if ok1 && ok3 && ok4 && ok5 {
					bp.add(linarith.EQ(vl, al.Add(bl))...)
					bp.add(linarith.GE(bl, linarith.Const(0)))
					if ok2 {
						bp.add(linarith.GE(vc, ac))
					}
				}
			}
		}
		return
	}
	callee := t.Call.StaticCallee()
	if callee == nil {
		return
	}
	full := ""
	if callee.Pkg != nil {
		full = callee.Pkg.Pkg.Path() + "." + callee.Name()
	}
	vf, isInt := bp.intForm(t)
	switch full {
	case "unicode/utf8.EncodeRune", "unicode/utf8.AppendRune":
		if isInt {
			bp.add(linarith.GE(vf, linarith.Const(1)), linarith.LE(vf, linarith.Const(4)))
		}
	case "bytes.IndexByte", "strings.IndexByte", "bytes.IndexRune", "strings.IndexRune", "bytes.Index", "strings.Index", "bytes.IndexAny", "strings.IndexAny",
		"bytes.LastIndexByte", "strings.LastIndexByte":
		if isInt && len(t.Call.Args) > 0 {
			bp.add(linarith.GE(vf, linarith.Const(-1)))
			if al, ok := bp.lenForm(t.Call.Args[0]); ok {
				bp.add(linarith.LT(vf, al.AddK(1))) // < len+1, and < len when len > 0: an index found is inside
				bp.add(linarith.LE(vf, al))
			}
		}
	case "unicode/utf8.RuneLen":
		if isInt {
			bp.add(linarith.GE(vf, linarith.Const(-1)), linarith.LE(vf, linarith.Const(4)))
			// utf16.DecodeRune yields a supplementary code point or U+FFFD: both encodable (3 or 4 bytes)
			if ac, ok := t.Call.Args[0].(*ssa.Call); ok && ac.Call.StaticCallee() != nil && ac.Call.StaticCallee().Pkg != nil &&
				ac.Call.StaticCallee().Pkg.Pkg.Path()+"."+ac.Call.StaticCallee().Name() == "unicode/utf16.DecodeRune" {
				bp.add(linarith.GE(vf, linarith.Const(3)))
			}
		}
	}
	// postconditions of a private helper returning one slice
	if bp.x.isPrivateHelper(callee) && bp.depth < 2 {
		for _, pc := range bp.x.slicePostconditions(callee, bp.depth) {
			rl, ok1 := bp.lenForm(t)
			rc, ok2 := bp.capForm(t)
			if !ok1 || !ok2 || pc.param >= len(t.Call.Args) {
				continue
			}
			arg := t.Call.Args[pc.param]
			switch pc.kind {
			case "len=len":
				if al, ok := bp.lenForm(arg); ok {
					bp.add(linarith.EQ(rl, al)...)
				}
			case "cap>=cap":
				if ac, ok := bp.capForm(arg); ok {
					bp.add(linarith.GE(rc, ac))
				}
			case "cap>=int":
				if af, ok := bp.intForm(arg); ok {
					bp.add(linarith.GE(rc, af))
				}
			}
		}
	}
}

func (bp *boundsProver) extractFacts(t *ssa.Extract, c *ssa.Call) {
	callee := c.Call.StaticCallee()
	if callee == nil || callee.Pkg == nil {
		return
	}
	full := callee.Pkg.Pkg.Path() + "." + callee.Name()
	switch full {
	case "unicode/utf8.DecodeRune", "unicode/utf8.DecodeRuneInString", "unicode/utf8.DecodeLastRune", "unicode/utf8.DecodeLastRuneInString":
		if t.Index == 1 {
			if vf, ok := bp.intForm(t); ok {
				bp.add(linarith.GE(vf, linarith.Const(0)), linarith.LE(vf, linarith.Const(4)))
				if al, ok := bp.lenForm(c.Call.Args[0]); ok {
					bp.add(linarith.LE(vf, al))
				}
			}
		}
	}
}

// pathFacts adds the comparisons that hold on the dominating edges of block b.
func (bp *boundsProver) pathFacts(b *ssa.BasicBlock) {
	bp.cur = nil
	for d := b; d != nil; d = d.Idom() {
		dom := d.Idom()
		if dom == nil {
			break
		}
		iff, ok := dom.Instrs[len(dom.Instrs)-1].(*ssa.If)
		if !ok {
			continue
		}
		for i, sc := range dom.Succs {
			if !((sc == d || sc.Dominates(d)) && len(sc.Preds) == 1 && dom.Succs[1-i] != sc) {
				continue
			}
			bp.condFacts(iff.Cond, i == 0)
		}
	}
}

func (bp *boundsProver) condFacts(cond ssa.Value, truth bool) {
	if u, ok := cond.(*ssa.UnOp); ok && u.Op == token.NOT {
		bp.condFacts(u.X, !truth)
		return
	}
	be, ok := cond.(*ssa.BinOp)
	if !ok {
		return
	}
	// err == nil after a call of a scanner the interpreter has a model of: its offset lies in [least, len(input)]
	if isErrT(be.X.Type()) && isNilConst(be.Y) && ((be.Op == token.EQL) == truth) && (be.Op == token.EQL || be.Op == token.NEQ) {
		if ex, ok := be.X.(*ssa.Extract); ok {
			if call, ok := ex.Tuple.(*ssa.Call); ok {
				bp.scannerFacts(call)
			}
		}
		return
	}
	xf, ok1 := bp.intForm(be.X)
	yf, ok2 := bp.intForm(be.Y)
	if !ok1 || !ok2 {
		return
	}
	op := be.Op
	if !truth {
		switch op {
		case token.LSS:
			op = token.GEQ
		case token.LEQ:
			op = token.GTR
		case token.GTR:
			op = token.LEQ
		case token.GEQ:
			op = token.LSS
		case token.EQL:
			op = token.NEQ
		case token.NEQ:
			op = token.EQL
		}
	}
	switch op {
	case token.LSS:
		bp.add(linarith.LT(xf, yf))
	case token.LEQ:
		bp.add(linarith.LE(xf, yf))
	case token.GTR:
		bp.add(linarith.GT(xf, yf))
	case token.GEQ:
		bp.add(linarith.GE(xf, yf))
	case token.EQL:
		bp.add(linarith.EQ(xf, yf)...)
	}
	// a non-negative result of a byte-window function tells how long its argument is (getu4(s) >= 0 => len(s) >= 6)
	if (op == token.GEQ || op == token.GTR) && yf.IsConst() && yf.K.Sign() >= 0 {
		if c, ok := be.X.(*ssa.Call); ok {
			if n, arg := bp.x.nonNegImpliesLen(c); n > 0 {
				if al, ok := bp.lenForm(arg); ok {
					bp.add(linarith.GE(al, linarith.Const(int64(n))))
				}
			}
		}
	}
}

// prove: facts in the cone of influence of the goals imply every goal.
func (bp *boundsProver) prove(goals ...linarith.Ineq) bool {
	for _, g := range goals {
		want := symsOf(g.F)
		used := make([]bool, len(bp.facts))
		var sys linarith.System
		for round := 0; round < 4; round++ {
			grew := false
			for i, f := range bp.facts {
				if used[i] || !bp.usable(f) {
					continue
				}
				hit := len(f.syms) == 0
				for sy := range f.syms {
					if want[sy] {
						hit = true
					}
				}
				if hit {
					used[i] = true
					sys = append(sys, f.in)
					for sy := range f.syms {
						if !want[sy] {
							want[sy] = true
							grew = true
						}
					}
				}
			}
			if !grew {
				break
			}
		}
		if len(sys) > 120 {
			return false
		}
		if !sys.Implies(g) {
			if os.Getenv("VERIF_TRACE_BOUNDS") != "" {
				fmt.Println("CANNOT PROVE", g, "in", bp.fn.Name(), "from", len(sys), "facts")
				for _, f := range sys {
					fmt.Println("   ", f)
				}
			}
			return false
		}
	}
	return true
}

// nonNeg: v >= 0 by construction (constants, lengths, unsigned conversions, sums of such, loop counters that start at
// such a value and only add such values).
func (bp *boundsProver) nonNeg(v ssa.Value, assume map[ssa.Value]bool) bool {
	if assume[v] {
		return true
	}
	if c, ok := constBig(v); ok {
		return c.Sign() >= 0
	}
	switch t := v.(type) {
	case *ssa.Phi:
		assume[t] = true
		for _, e := range t.Edges {
			if !bp.nonNeg(e, assume) {
				delete(assume, t)
				return false
			}
		}
		return true
	case *ssa.BinOp:
		if t.Op == token.ADD {
			return bp.nonNeg(t.X, assume) && bp.nonNeg(t.Y, assume)
		}
	case *ssa.Call:
		if bi, ok := t.Call.Value.(*ssa.Builtin); ok && (bi.Name() == "len" || bi.Name() == "cap") {
			return true
		}
		if callee := t.Call.StaticCallee(); callee != nil && callee.Pkg != nil {
			switch callee.Pkg.Pkg.Path() + "." + callee.Name() {
			case "unicode/utf8.EncodeRune":
				return true
			}
		}
	case *ssa.Convert:
		if b, ok := t.X.Type().Underlying().(*types.Basic); ok && b.Info()&types.IsUnsigned != 0 {
			return true
		}
		return bp.nonNeg(t.X, assume)
	case *ssa.Extract:
		if c, ok := t.Tuple.(*ssa.Call); ok && c.Call.StaticCallee() != nil && c.Call.StaticCallee().Pkg != nil {
			switch c.Call.StaticCallee().Pkg.Pkg.Path() + "." + c.Call.StaticCallee().Name() {
			case "unicode/utf8.DecodeRune", "unicode/utf8.DecodeRuneInString", "unicode/utf8.DecodeLastRune", "unicode/utf8.DecodeLastRuneInString":
				return t.Index == 1
			}
		}
	}
	return false
}

func (x *Ctx) newBoundsProver(fn *ssa.Function, depth int) *boundsProver {
	bp := &boundsProver{x: x, fn: fn, depth: depth}
	bp.collect()
	bp.phiInvariants()
	return bp
}

// phiInvariants: for the integer variables carried around a loop, the candidate invariants `v >= 0` and
// `v <= len(s)` (s a slice parameter) are kept when they are inductive: they hold for the value that enters the
// loop and, assuming them for the current value, for the value the next iteration starts with.
func (bp *boundsProver) phiInvariants() {
	var sliceParams []ssa.Value
	for _, p := range bp.fn.Params {
		if _, ok := p.Type().Underlying().(*types.Slice); ok {
			sliceParams = append(sliceParams, p)
		} else if b, ok := p.Type().Underlying().(*types.Basic); ok && b.Info()&types.IsString != 0 {
			sliceParams = append(sliceParams, p)
		}
	}
	for round := 0; round < 2; round++ {
		for _, b := range bp.fn.Blocks {
			head := false
			for _, pr := range b.Preds {
				if b.Dominates(pr) {
					head = true
				}
			}
			if !head {
				continue
			}
			for _, ins := range b.Instrs {
				ph, ok := ins.(*ssa.Phi)
				if !ok {
					break
				}
				pf, ok := bp.intForm(ph)
				if !ok {
					continue
				}
				type cand struct {
					mk func(f linarith.Form) linarith.Ineq
				}
				cands := []cand{{func(f linarith.Form) linarith.Ineq { return linarith.GE(f, linarith.Const(0)) }}}
				for _, sp := range sliceParams {
					if l, ok := bp.lenForm(sp); ok {
						ll := l
						cands = append(cands, cand{func(f linarith.Form) linarith.Ineq { return linarith.LE(f, ll) }})
					}
				}
				for _, c := range cands {
					hyp := c.mk(pf)
					known := false
					for _, f := range bp.facts {
						if f.at == ssa.Instruction(ph) && f.in.String() == hyp.String() {
							known = true
						}
					}
					if known {
						continue
					}
					all := true
					for i, e := range ph.Edges {
						ef, ok := bp.intForm(e)
						if !ok {
							all = false
							break
						}
						pred := b.Preds[i]
						sub := &boundsProver{x: bp.x, fn: bp.fn, depth: bp.depth, vals: bp.vals}
						sub.facts = append([]linFact(nil), bp.facts...)
						sub.site = pred.Instrs[len(pred.Instrs)-1]
						sub.alt = []ssa.Instruction{ph} // what is known at the head itself
						sub.pathFacts(pred)
						if iff, ok := pred.Instrs[len(pred.Instrs)-1].(*ssa.If); ok && pred.Succs[0] != pred.Succs[1] {
							sub.condFacts(iff.Cond, pred.Succs[0] == b)
						}
						sub.cur = nil
						sub.add(hyp)
						if !sub.prove(c.mk(ef)) {
							all = false
							break
						}
					}
					if all {
						bp.cur = ph
						bp.add(hyp)
						bp.cur = nil
					}
				}
			}
		}
	}
}

// proveSite: a local argument for one expression; returns a one-line reason or "".
func (x *Ctx) proveSite(fn *ssa.Function, ins ssa.Instruction) string {
	bp := x.newBoundsProver(fn, 0)
	bp.site = ins
	bp.pathFacts(ins.Block())
	zero := linarith.Const(0)
	lower := func(v ssa.Value, f linarith.Form) bool {
		return bp.nonNeg(v, map[ssa.Value]bool{}) || bp.proveSplit(0, linarith.GE(f, zero))
	}
	switch t := ins.(type) {
	case *ssa.IndexAddr, *ssa.Index:
		var xv, iv ssa.Value
		if ia, ok := t.(*ssa.IndexAddr); ok {
			xv, iv = ia.X, ia.Index
		} else {
			xv, iv = t.(*ssa.Index).X, t.(*ssa.Index).Index
		}
		idx, ok1 := bp.intForm(iv)
		ln, ok2 := bp.lenForm(xv)
		if !ok1 || !ok2 {
			return ""
		}
		if lower(iv, idx) && bp.proveSplit(0, linarith.LT(idx, ln)) {
			return "0 <= index < len by the dominating comparisons and definitions"
		}
	case *ssa.Slice:
		limit, ok := bp.capForm(t.X)
		if !ok {
			return ""
		}
		ln, _ := bp.lenForm(t.X)
		lo, hi := zero, ln
		okLo := true
		if t.Low != nil {
			f, ok := bp.intForm(t.Low)
			if !ok {
				return ""
			}
			lo = f
			okLo = lower(t.Low, lo)
		}
		if t.High != nil {
			f, ok := bp.intForm(t.High)
			if !ok {
				return ""
			}
			hi = f
		}
		if t.Max != nil {
			return ""
		}
		if okLo && bp.proveSplit(0, linarith.LE(lo, hi), linarith.LE(hi, limit)) {
			return "0 <= low <= high <= cap by the dominating comparisons, definitions and callee postconditions"
		}
	}
	return ""
}

type slicePost struct {
	kind  string // "len=len", "cap>=cap", "cap>=int"
	param int
}

// slicePostconditions: for a private helper with exactly one result, a slice, the candidate postconditions that hold
// at every return — proved with the helper's own facts.
func (x *Ctx) slicePostconditions(h *ssa.Function, depth int) []slicePost {
	if x.postCache == nil {
		x.postCache = map[*ssa.Function][]slicePost{}
	}
	if pcs, ok := x.postCache[h]; ok {
		return pcs
	}
	x.postCache[h] = nil // recursion guard
	res := h.Signature.Results()
	if res.Len() != 1 {
		return nil
	}
	if _, ok := res.At(0).Type().Underlying().(*types.Slice); !ok {
		return nil
	}
	var out []slicePost
	for pi, p := range h.Params {
		var cands []string
		if _, isSl := p.Type().Underlying().(*types.Slice); isSl {
			cands = []string{"len=len", "cap>=cap"}
		} else if isIntKind(p.Type()) {
			cands = []string{"cap>=int"}
		}
		for _, kind := range cands {
			holds, n := true, 0
			for _, b := range h.Blocks {
				ret, ok := b.Instrs[len(b.Instrs)-1].(*ssa.Return)
				if !ok {
					continue
				}
				n++
				bp := x.newBoundsProver(h, depth+1)
				bp.site = ret
				bp.pathFacts(b)
				rv := ret.Results[0]
				rl, ok1 := bp.lenForm(rv)
				rc, ok2 := bp.capForm(rv)
				if !ok1 || !ok2 {
					holds = false
					break
				}
				var goals []linarith.Ineq
				switch kind {
				case "len=len":
					pl, _ := bp.lenForm(p)
					goals = linarith.EQ(rl, pl)
				case "cap>=cap":
					pc, _ := bp.capForm(p)
					goals = []linarith.Ineq{linarith.GE(rc, pc)}
				case "cap>=int":
					pf, _ := bp.intForm(p)
					goals = []linarith.Ineq{linarith.GE(rc, pf)}
				}
				if !bp.proveSplit(0, goals...) {
					holds = false
					break
				}
			}
			if holds && n > 0 {
				out = append(out, slicePost{kind, pi})
			}
		}
	}
	x.postCache[h] = out
	return out
}

// nonNegImpliesLen: for a call of a library function that the byte-window interpreter can decide (one []byte
// parameter, one integer result): the least length of the argument over all input classes with a possibly
// non-negative result. 0 = nothing known.
func (x *Ctx) nonNegImpliesLen(c *ssa.Call) (int, ssa.Value) {
	callee := c.Call.StaticCallee()
	if callee == nil || !x.W.InLib(callee) || len(callee.Params) != 1 || len(c.Call.Args) != 1 || !isByteSliceT(callee.Params[0].Type()) || !isIntKind(c.Type()) {
		return 0, nil
	}
	outs, err := bytewin.Explore(callee, 0, x.byteTable)
	if err != nil || len(outs) == 0 {
		return 0, nil
	}
	min := -1
	for i := range outs {
		o := &outs[i]
		if len(o.Results) != 1 {
			return 0, nil
		}
		sum, ok := o.Results[0].(bytewin.Sum)
		if !ok {
			return 0, nil
		}
		if len(sum.T) == 0 && sum.K < 0 {
			continue // certainly negative
		}
		if min < 0 || o.LenMin < min {
			min = o.LenMin
		}
	}
	if min < 0 {
		min = 0
	}
	return min, c.Call.Args[0]
}

// fieldOf: ld is a load of an integer struct field; returns the base pointer value, the struct type and the field index.
func fieldOf(ld *ssa.UnOp) (ssa.Value, *types.Struct, int, bool) {
	_, isSlice := ld.Type().Underlying().(*types.Slice)
	if ld.Op != token.MUL || !(isIntKind(ld.Type()) || isSlice) {
		return nil, nil, 0, false
	}
	fa, ok := ld.X.(*ssa.FieldAddr)
	if !ok {
		return nil, nil, 0, false
	}
	st := structOfType(fa.X.Type())
	if st == nil {
		return nil, nil, 0, false
	}
	return unspill(fa.X), st, fa.Field, true
}

// loadFacts: (a) a load of an integer field equals an earlier load of the same field of the same object when nothing
// in between can write it; (b) the field is never negative when every store to it in the library keeps it so.
func (bp *boundsProver) loadFacts(ld *ssa.UnOp) {
	base, st, fi, ok := fieldOf(ld)
	if !ok {
		return
	}
	if _, isSlice := ld.Type().Underlying().(*types.Slice); isSlice {
		// two loads of a slice field with nothing in between that can write it have the same length and capacity
		for _, b := range bp.fn.Blocks {
			for _, ins := range b.Instrs {
				o, isLd := ins.(*ssa.UnOp)
				if !isLd || o == ld {
					continue
				}
				ob, ost, ofi, ok := fieldOf(o)
				if !ok || ob != base || ost != st || ofi != fi {
					continue
				}
				if noClobberBetween(o, ld, st, fi) {
					l1, _ := bp.lenForm(ld)
					l2, _ := bp.lenForm(o)
					c1, _ := bp.capForm(ld)
					c2, _ := bp.capForm(o)
					bp.add(linarith.EQ(l1, l2)...)
					bp.add(linarith.EQ(c1, c2)...)
				}
			}
		}
		return
	}
	lf, _ := bp.intForm(ld)
	if bp.x.fieldNonNeg(st, fi) || bp.x.recvFieldNonNeg(bp.fn, base, st, fi) {
		bp.add(linarith.GE(lf, linarith.Const(0)))
	}
	for _, b := range bp.fn.Blocks {
		for _, ins := range b.Instrs {
			o, isLd := ins.(*ssa.UnOp)
			if !isLd || o == ld {
				continue
			}
			ob, ost, ofi, ok := fieldOf(o)
			if !ok || ob != base || ost != st || ofi != fi {
				continue
			}
			if noClobberBetween(o, ld, st, fi) {
				of, _ := bp.intForm(o)
				bp.add(linarith.EQ(lf, of)...)
			}
		}
	}
}

// noClobberBetween: `first` is executed before `second` on every path (its block dominates) and on no path from first
// to second (without passing first again) is there a store to the field or a call.
func noClobberBetween(first, second *ssa.UnOp, st *types.Struct, fi int) bool {
	fb, sb := first.Block(), second.Block()
	if fb != sb && !fb.Dominates(sb) {
		return false
	}
	clobbers := func(ins ssa.Instruction) bool {
		switch t := ins.(type) {
		case *ssa.Store:
			if fa, ok := t.Addr.(*ssa.FieldAddr); ok && structOfType(fa.X.Type()) == st && fa.Field == fi {
				return true
			}
			if _, ok := t.Addr.(*ssa.FieldAddr); !ok {
				if _, isAlloc := t.Addr.(*ssa.Alloc); isAlloc {
					break
				}
				// an element store cannot overwrite a struct field unless the element type contains that struct
				if ia, isIA := t.Addr.(*ssa.IndexAddr); isIA {
					if pt, ok := ia.Type().Underlying().(*types.Pointer); ok && !containsStruct(pt.Elem(), st, 0) {
						break
					}
				}
				return true // a store through an unknown pointer
			}
		case *ssa.Call:
			if _, isB := t.Call.Value.(*ssa.Builtin); !isB {
				return true
			}
		case *ssa.Defer, *ssa.Go:
			return true
		}
		return false
	}
	idx := func(b *ssa.BasicBlock, x ssa.Instruction) int {
		for i, ins := range b.Instrs {
			if ins == x {
				return i
			}
		}
		return -1
	}
	if fb == sb {
		i, j := idx(fb, first), idx(sb, second)
		if i < j {
			for _, ins := range fb.Instrs[i+1 : j] {
				if clobbers(ins) {
					return false
				}
			}
			return true
		}
		return false
	}
	// blocks strictly between: forward from fb's successors (not through fb), that can reach sb
	fwd := map[*ssa.BasicBlock]bool{}
	work := append([]*ssa.BasicBlock(nil), fb.Succs...)
	for len(work) > 0 {
		b := work[len(work)-1]
		work = work[:len(work)-1]
		if fwd[b] || b == fb {
			continue
		}
		fwd[b] = true
		if b == sb {
			continue
		}
		work = append(work, b.Succs...)
	}
	for _, ins := range fb.Instrs[idx(fb, first)+1:] {
		if clobbers(ins) {
			return false
		}
	}
	for b := range fwd {
		if b == sb {
			for _, ins := range sb.Instrs[:idx(sb, second)] {
				if clobbers(ins) {
					return false
				}
			}
			continue
		}
		if !canReach(b, sb) {
			continue
		}
		for _, ins := range b.Instrs {
			if clobbers(ins) {
				return false
			}
		}
	}
	return true
}

// fieldNonNeg: every store to this integer field anywhere in the library stores a value that is >= 0, given that the
// field was >= 0 before (induction over the stores; the zero value is 0).
func (x *Ctx) fieldNonNeg(st *types.Struct, fi int) bool {
	type key struct {
		st *types.Struct
		fi int
	}
	if x.fieldNN == nil {
		x.fieldNN = map[interface{}]bool{}
	}
	k := key{st, fi}
	if v, ok := x.fieldNN[k]; ok {
		return v
	}
	x.fieldNN[k] = true // induction hypothesis while checking
	ok := true
	n := 0
	for _, fn := range x.W.SrcFuncs() {
		if !x.W.InLib(fn) {
			continue
		}
		var bp *boundsProver
		for _, b := range fn.Blocks {
			for _, ins := range b.Instrs {
				sto, isSt := ins.(*ssa.Store)
				if !isSt {
					continue
				}
				fa, isFa := sto.Addr.(*ssa.FieldAddr)
				if !isFa || structOfType(fa.X.Type()) != st || fa.Field != fi {
					continue
				}
				n++
				if bp == nil {
					bp = x.newBoundsProver(fn, 1)
				}
				vf, okf := bp.intForm(sto.Val)
				if !okf {
					ok = false
					continue
				}
				// fresh path facts for this store
				saved := len(bp.facts)
				bp.site = sto
				bp.pathFacts(b)
				if !(bp.prove(linarith.GE(vf, linarith.Const(0))) || bp.nonNeg(sto.Val, map[ssa.Value]bool{})) {
					ok = false
				}
				bp.facts = bp.facts[:saved]
			}
		}
	}
	// composite literals / whole-struct stores are not field stores; a struct copied as a whole keeps the invariant
	if n == 0 {
		ok = true
	}
	x.fieldNN[k] = ok
	return ok
}

// recvFieldNonNeg: the weaker, function-local version of fieldNonNeg for a method whose receiver is always a fresh
// zero value: base is fn's receiver; every library caller passes the address of a local of the struct type that
// nothing has touched before the call; fn itself only stores non-negative values into the field (given that it was
// non-negative) and hands the receiver to nobody.
func (x *Ctx) recvFieldNonNeg(fn *ssa.Function, base ssa.Value, st *types.Struct, fi int) bool {
	type key struct {
		fn *ssa.Function
		fi int
	}
	if len(fn.Params) == 0 || base != ssa.Value(fn.Params[0]) || fn.Signature.Recv() == nil {
		return false
	}
	if x.fieldNN == nil {
		x.fieldNN = map[interface{}]bool{}
	}
	k := key{fn, fi}
	if v, ok := x.fieldNN[k]; ok {
		return v
	}
	x.fieldNN[k] = true
	ok := true
	// (1) callers
	node := x.W.CG().Nodes[fn]
	if node == nil || len(node.In) == 0 {
		ok = false
	} else {
		for _, e := range node.In {
			call, isCall := e.Site.(*ssa.Call)
			if !isCall || call.Call.StaticCallee() != fn || len(call.Call.Args) == 0 {
				ok = false
				break
			}
			al, isAl := call.Call.Args[0].(*ssa.Alloc)
			if !isAl || structOfType(al.Type()) != st {
				ok = false
				break
			}
			for _, ref := range *al.Referrers() {
				ri, isInstr := ref.(ssa.Instruction)
				if !isInstr || ri == ssa.Instruction(call) {
					continue
				}
				if _, isDbg := ref.(*ssa.DebugRef); isDbg {
					continue
				}
				// every other use comes after the call
				if !(call.Block() != ri.Block() && call.Block().Dominates(ri.Block())) && !(call.Block() == ri.Block() && instrIndex(call) < instrIndex(ri)) {
					ok = false
				}
			}
		}
	}
	// (2) the method: stores keep the field non-negative; the receiver is not passed on
	if ok {
		bp := x.newBoundsProver(fn, 1)
		for _, b := range fn.Blocks {
			for _, ins := range b.Instrs {
				switch t := ins.(type) {
				case *ssa.Call:
					for _, a := range t.Call.Args {
						if unspill(a) == base {
							ok = false
						}
					}
				case *ssa.Store:
					fa, isFa := t.Addr.(*ssa.FieldAddr)
					if t.Val == base {
						ok = false
					}
					if !isFa || structOfType(fa.X.Type()) != st || fa.Field != fi {
						continue
					}
					vf, okf := bp.intForm(t.Val)
					if !okf {
						ok = false
						continue
					}
					saved := len(bp.facts)
					bp.site = t
					bp.pathFacts(b)
					if !(bp.prove(linarith.GE(vf, linarith.Const(0))) || bp.nonNeg(t.Val, map[ssa.Value]bool{})) {
						ok = false
					}
					bp.facts = bp.facts[:saved]
				}
			}
		}
	}
	x.fieldNN[k] = ok
	return ok
}

func instrIndex(ins ssa.Instruction) int {
	for i, o := range ins.Block().Instrs {
		if o == ins {
			return i
		}
	}
	return -1
}

// scanBoundsOnly runs the scanner interpreter on a function that is not a scanner proper (a handler method, a
// reader that delegates): the last []byte parameter is the input, every other parameter is unknown, calls it cannot
// follow are opaque. Only its index / slice judgements are used, and only if the exploration was complete: no
// path was cut short by an instruction outside the domain or by a budget (problems at returns — "the offset is
// not a position" — do not cut anything and are ignored). Returns the positions judged in range.
func (x *Ctx) scanBoundsOnly(fn *ssa.Function) map[token.Pos]bool {
	hasSlice := false
	for _, p := range fn.Params {
		if isByteSliceT(p.Type()) {
			hasSlice = true
		}
	}
	if !hasSlice {
		return nil
	}
	e := x.Engine()
	before := map[token.Pos]bool{}
	for p := range e.Checked {
		before[p] = true
	}
	sp := scan.FuncSpec(fn, -1, -1, -1, -1)
	sp.Entry = scan.LastSliceEntry
	res := e.Analyse(sp)
	for _, p := range res.Problems {
		if !strings.HasSuffix(p.Key, ":return") {
			return nil
		}
	}
	bad := map[token.Pos]bool{}
	for _, u := range res.Unsafe {
		bad[u.Pos] = true
	}
	out := map[token.Pos]bool{}
	for p := range e.Checked {
		if !before[p] && !bad[p] {
			out[p] = true
		}
	}
	return out
}

// scannerFacts: call is F(data, …) for a library scanner F whose flat model was built in this run (R10g/h) and is
// free of problems. On the path where its error is nil, its offset result is at least the least number of bytes
// any accepting path consumes and at most len(data).
func (bp *boundsProver) scannerFacts(call *ssa.Call) {
	x := bp.x
	callee := call.Call.StaticCallee()
	if callee == nil || !x.W.InLib(callee) || callee.Signature.Recv() != nil || len(call.Call.Args) == 0 {
		return
	}
	name := callee.Name()
	res, ok := x.scans[name]
	flat := x.flat[name]
	if !ok || res == nil || flat == nil || len(res.Problems) > 0 || len(res.Unsafe) > 0 || len(x.flatProb[name]) > 0 {
		return
	}
	oi := offsetResultIdx(callee)
	if oi < 0 {
		return
	}
	off := extractOf(call, oi)
	if off == nil {
		return
	}
	// least offset over the accepting exits: breadth-first over byte-consuming moves
	dist := map[int]int{flat.Start: 0}
	queue := []int{flat.Start}
	least := -1
	note := func(v int) {
		if least < 0 || v < least {
			least = v
		}
	}
	for len(queue) > 0 {
		id := queue[0]
		queue = queue[1:]
		st := flat.States[id]
		if st == nil {
			continue
		}
		for _, e := range st.Edges {
			switch e.Term.Kind {
			case lts.Exit:
				if e.Term.OK {
					note(dist[id] + e.Term.Delta)
				}
			case lts.Move:
				if _, seen := dist[e.Term.To]; !seen {
					dist[e.Term.To] = dist[id] + 1
					queue = append(queue, e.Term.To)
				}
			default:
				return // calls/returns: not a flat model after all
			}
		}
		for _, o := range st.EOF {
			if o.OK && o.Term == nil {
				note(dist[id] + o.Delta)
			}
		}
	}
	of, ok1 := bp.intForm(off)
	al, ok2 := bp.lenForm(call.Call.Args[0])
	if !ok1 || !ok2 || least < 0 {
		return
	}
	bp.add(linarith.GE(of, linarith.Const(int64(least))), linarith.LE(of, al))
}

// containsStruct: a value of type t holds a value of struct type st inside itself (not behind a pointer).
func containsStruct(t types.Type, st *types.Struct, depth int) bool {
	if depth > 6 {
		return true
	}
	switch u := t.Underlying().(type) {
	case *types.Struct:
		if u == st {
			return true
		}
		for i := 0; i < u.NumFields(); i++ {
			if containsStruct(u.Field(i).Type(), st, depth+1) {
				return true
			}
		}
	case *types.Array:
		return containsStruct(u.Elem(), st, depth+1)
	}
	return false
}
