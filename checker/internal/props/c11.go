package props

import (
	"fmt"

	"rjverif/internal/core"
	"rjverif/internal/product"
)

// C11 — SkipValueFast agrees with SkipValue on every well-formed value.
func C11(x *Ctx, r *core.Result) {
	r.Trusted = append(r.Trusted, trustedAutomata...)
	a := r.Rule("R11a", "for every input on which the model of skipValue (with helpers) succeeds at offset k, the model of skipValueFast succeeds at k: pushdown product driven by skipValue, summaries per nested region computed by saturation")
	x.reportMachineProblems(r, a, "skipValue", "skipValueFast")
	A, probs := x.Composed("skipValue")
	for _, p := range probs {
		r.Undecided(a, p.Key, x.W.Pos(p.Pos), p.Msg)
	}
	B, probsB := x.Composed("skipValueFast")
	for _, p := range probsB {
		r.Undecided(a, p.Key, x.W.Pos(p.Pos), p.Msg)
	}
	if A != nil && B != nil {
		if err := A.CheckTotal(); err != nil {
			r.Undecided(a, "skipValue:model", "-", err.Error())
		} else if err := B.CheckTotal(); err != nil {
			r.Undecided(a, "skipValueFast:model", "-", err.Error())
		} else {
			st, mm := product.Inclusion(A, B)
			a.Instances++
			a.Obligations += st.Cells
			a.Discharged += st.Cells - min(len(mm), st.Cells)
			a.Sample(fmt.Sprintf("%d product pairs, %d cells", st.Pairs, st.Cells))
			r.States += st.Pairs
			r.Trans += st.Cells
			for i, m := range mm {
				if i >= 10 {
					break
				}
				r.Findings = append(r.Findings, core.Finding{Rule: a.Rule, Key: fmt.Sprintf("skipValueFast:%s", m.Key()), Pos: m.ImplPos,
					Msg: fmt.Sprintf("validating state %s / fast state %s: %s", m.RefName, m.ImplName, m.Msg), Witness: fmt.Sprintf("%q", m.Witness), Reason: "violation"})
			}
		}
	}
	r.CheckFloor(a, 1)
	b := r.Rule("R11b", "SkipValue and SkipValueFast are symmetric wrappers (same shape, results passed through) and both machines refuse nesting at the same depth")
	x.wrapperSymmetry(r, b, "SkipValue", "SkipValueFast")
	x.wrapperPassThrough(r, b, "SkipValue", "SkipValueFast")
	x.depthGuards(r, b, "skipValue", "skipValueFast")
	r.CheckFloor(b, 4)
	r.Exhaustive = true
	r.Explain = "inclusion of success-with-offset decided over the reachable pushdown product; the fast machine's behaviour on malformed input is deliberately unconstrained"
}

func init() { Registry["C11"] = Prop{"proof", C11} }
