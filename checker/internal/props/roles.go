package props

import (
	"go/constant"
	"go/types"
	"strings"

	"golang.org/x/tools/go/packages"
	"golang.org/x/tools/go/ssa"

	"rjverif/internal/core"
	"rjverif/internal/lts"
)

// Roles. The rules speak about unexported functions by the names they have in the pinned tree (skipValue,
// readSimpleValue, getu4, …). Those names are not part of any contract: renaming one changes no behaviour. So the
// functions are identified by what they are — the machine an exported entry point calls, the only private function
// with a given signature, the callee with six results — and the pinned name is only the handle the rules use for the
// role. Exported names (SkipValue, ReadObject, ValueReader, TokenType, …) are API and are used as they are. When a
// role cannot be identified structurally the function of that name is used, if there is one.

func sigShape(fn *ssa.Function) string {
	return types.TypeString(fn.Signature, func(p *types.Package) string { return "" })
}

// sigKey renders parameter and result types without names.
func sigKey(sig *types.Signature) string {
	var sb strings.Builder
	q := func(p *types.Package) string { return "" }
	canonT := func(t types.Type) string {
		s := types.TypeString(t, q)
		// byte / rune are spellings of uint8 / int32
		s = strings.ReplaceAll(s, "byte", "uint8")
		s = strings.ReplaceAll(s, "rune", "int32")
		return s
	}
	sb.WriteString("(")
	for i := 0; i < sig.Params().Len(); i++ {
		if i > 0 {
			sb.WriteString(",")
		}
		sb.WriteString(canonT(sig.Params().At(i).Type()))
	}
	sb.WriteString(")(")
	for i := 0; i < sig.Results().Len(); i++ {
		if i > 0 {
			sb.WriteString(",")
		}
		sb.WriteString(canonT(sig.Results().At(i).Type()))
	}
	sb.WriteString(")")
	return strings.ReplaceAll(sb.String(), "interface{}", "any")
}

func (x *Ctx) roles() map[string]*ssa.Function {
	if x.roleMap != nil {
		return x.roleMap
	}
	m := map[string]*ssa.Function{}
	x.roleMap = m
	w := x.W
	isMachine := func(fn *ssa.Function) bool {
		x.Machines()
		return fn != nil && fn.Signature.Recv() == nil && x.machines[fn.Name()] != nil && fn.Pkg == w.SRoot
	}
	private := func(fn *ssa.Function) bool {
		return fn != nil && fn.Object() != nil && !fn.Object().Exported() && len(fn.Blocks) > 0 && fn.Synthetic == "" && fn.Parent() == nil
	}
	staticCallees := func(fn *ssa.Function) []*ssa.Function {
		var out []*ssa.Function
		seen := map[*ssa.Function]bool{}
		for _, b := range fn.Blocks {
			for _, ins := range b.Instrs {
				if c, ok := ins.(*ssa.Call); ok {
					if callee := c.Call.StaticCallee(); callee != nil && !seen[callee] {
						seen[callee] = true
						out = append(out, callee)
					}
				}
			}
		}
		return out
	}
	// machines: the one machine an exported entry point runs
	for wrapper, role := range map[string]string{"SkipValue": "skipValue", "SkipValueFast": "skipValueFast", "HandleObjectValues": "handleObjectValues",
		"HandleArrayValues": "handleArrayValues", "ReadNull": "readNull", "ReadBool": "readBool", "UnescapeStringContent": "unescapeStringContent",
		"ReadStringBytes": "appendRemainderOfString"} {
		wf := w.SRoot.Func(wrapper)
		if wf == nil {
			continue
		}
		found := map[*ssa.Function]bool{}
		for _, c := range staticCallees(wf) {
			if isMachine(c) {
				found[c] = true
			}
		}
		if len(found) == 1 {
			for f := range found {
				m[role] = f
			}
		}
	}
	// private package-level functions by signature
	bySig := map[string][]*ssa.Function{}
	for _, mem := range w.SRoot.Members {
		if fn, ok := mem.(*ssa.Function); ok && private(fn) && !isMachine(fn) && !strings.HasSuffix(fn.Name(), "Compat") {
			bySig[sigKey(fn.Signature)] = append(bySig[sigKey(fn.Signature)], fn)
		}
	}
	only := func(key string) *ssa.Function {
		if fs := bySig[key]; len(fs) == 1 {
			return fs[0]
		}
		return nil
	}
	if fn := only("([]uint8)(int32)"); fn != nil {
		m["getu4"] = fn
	}
	if fn := only("([]uint8,[]uint8)([]uint8,int,bool)"); fn != nil {
		m["unescapeUnicodeChar"] = fn
	}
	if fn := only("([]uint8,int)([]uint8)"); fn != nil {
		m["growBytesSliceCapacity"] = fn
	}
	if fn := only("([]uint8)(int)"); fn != nil {
		m["countWhitespace"] = fn
	}
	if fs := bySig["([]uint8,int,int)(int,error)"]; len(fs) == 2 {
		// the decimal-part helper hands over to the exponent helper
		for i, f := range fs {
			for _, c := range staticCallees(f) {
				if c == fs[1-i] {
					m["skipFloatDec"], m["skipFloatExp"] = f, fs[1-i]
				}
			}
		}
	}
	// private methods of ValueReader by signature
	if obj := w.Root.Types.Scope().Lookup("ValueReader"); obj != nil {
		if named, ok := obj.Type().(*types.Named); ok {
			ms := w.Prog.MethodSets.MethodSet(types.NewPointer(named))
			bySigM := map[string][]*ssa.Function{}
			for i := 0; i < ms.Len(); i++ {
				fn := w.Prog.MethodValue(ms.At(i))
				if private(fn) {
					bySigM[sigKey(fn.Signature)] = append(bySigM[sigKey(fn.Signature)], fn)
				}
			}
			for key, role := range map[string]string{"()(*ValueReader)": "ValueReader.borrowValueReader", "(*ValueReader)()": "ValueReader.returnValueReader",
				"([]uint8,TokenType)(any,int,error)": "ValueReader.readSimpleValue"} {
				if fs := bySigM[key]; len(fs) == 1 {
					m[role] = fs[0]
				}
			}
		}
	}
	// borrow / return by what they do, when they are not methods of that shape (a plain function
	// releaseValueReader(parent, child)): the private function that takes a reader from a sync.Pool, and the one that
	// puts one back
	for role, meth := range map[string]string{"ValueReader.borrowValueReader": "Get", "ValueReader.returnValueReader": "Put"} {
		if m[role] != nil {
			continue
		}
		var cands []*ssa.Function
		for _, fn := range w.SrcFuncs() {
			if fn.Pkg != w.SRoot || !private(fn) {
				continue
			}
			for _, c := range staticCallees(fn) {
				if c.Name() == meth && c.Signature.Recv() != nil && strings.HasSuffix(c.Signature.Recv().Type().String(), "sync.Pool") {
					cands = append(cands, fn)
				}
			}
		}
		if len(cands) == 1 {
			m[role] = cands[0]
		}
	}
	// the float parser
	if pf := w.SFP.Func("ParseJSONFloatPrefix"); pf != nil {
		for _, c := range staticCallees(pf) {
			if c.Pkg == w.SFP && private(c) && c.Signature.Results().Len() == 6 && c.Signature.Recv() == nil {
				m["fp.readFloat"] = c
			}
		}
	}
	var kernels []*ssa.Function
	for _, mem := range w.SFP.Members {
		if fn, ok := mem.(*ssa.Function); ok && private(fn) && sigKey(fn.Signature) == "(uint64,int,bool)(float64,bool)" {
			kernels = append(kernels, fn)
		}
	}
	if len(kernels) == 2 {
		usesMul := func(fn *ssa.Function) bool {
			for _, g := range x.helperClosure(fn) {
				for _, c := range staticCallees(g) {
					if c.Pkg != nil && c.Pkg.Pkg.Path() == "math/bits" && c.Name() == "Mul64" {
						return true
					}
				}
			}
			return false
		}
		a, b := usesMul(kernels[0]), usesMul(kernels[1])
		if a != b {
			if a {
				m["fp.eiselLemire64"], m["fp.atof64exact"] = kernels[0], kernels[1]
			} else {
				m["fp.eiselLemire64"], m["fp.atof64exact"] = kernels[1], kernels[0]
			}
		}
	}
	if obj := w.FP.Types.Scope().Lookup("decimal"); obj != nil {
		if named, ok := obj.Type().(*types.Named); ok {
			ms := w.Prog.MethodSets.MethodSet(types.NewPointer(named))
			bySigM := map[string][]*ssa.Function{}
			for i := 0; i < ms.Len(); i++ {
				fn := w.Prog.MethodValue(ms.At(i))
				if private(fn) {
					bySigM[sigKey(fn.Signature)] = append(bySigM[sigKey(fn.Signature)], fn)
				}
			}
			for key, role := range map[string]string{"([]uint8)(bool)": "fp.decimal.set", "()(uint64,bool)": "fp.decimal.floatBits"} {
				if fs := bySigM[key]; len(fs) == 1 {
					m[role] = fs[0]
				}
			}
		}
	}
	return m
}

// canon: the handle under which the rules know fn — its role name (without package / receiver prefix) if it has
// one, else its own name.
func (x *Ctx) canon(fn *ssa.Function) string {
	if fn == nil {
		return ""
	}
	if x.canonMap == nil {
		x.canonMap = map[*ssa.Function]string{}
		for role, f := range x.roles() {
			x.canonMap[f] = role[strings.LastIndexByte(role, '.')+1:]
		}
	}
	if n, ok := x.canonMap[fn]; ok {
		return n
	}
	return fn.Name()
}

// Role returns the function playing the named role (role names as given to Func).
func (x *Ctx) Role(name string) *ssa.Function { return x.roles()[name] }

// fld: the actual name of the ValueReader field playing the named role (the names of the pinned tree are the role
// names). Fields are identified by type: the map and the slice of interface values are the containers, the
// sync.Pool is the pool, the Buffer is the buffer, the one int that is not a size hint is the depth, and of the two
// []byte scratch buffers the key buffer is the one HandleObjectValue unescapes into.
func (x *Ctx) fld(role string) string {
	if x.fldMap == nil {
		x.fldMap = map[string]string{}
		st := x.vrStruct()
		if st != nil {
			_, _, hints := x.hintFields()
			var ints, bytesF []int
			for i := 0; i < st.NumFields(); i++ {
				f := st.Field(i)
				switch t := f.Type().Underlying().(type) {
				case *types.Map:
					x.fldMap["objVal"] = f.Name()
				case *types.Slice:
					if b, ok := t.Elem().Underlying().(*types.Basic); ok && b.Kind() == types.Uint8 {
						bytesF = append(bytesF, i)
					} else if _, ok := t.Elem().Underlying().(*types.Interface); ok {
						x.fldMap["arrVal"] = f.Name()
					}
				case *types.Basic:
					if t.Kind() == types.Int && !hints[i] {
						ints = append(ints, i)
					}
				case *types.Struct:
					if n, ok := f.Type().(*types.Named); ok {
						switch {
						case n.Obj().Name() == "Pool" && n.Obj().Pkg() != nil && n.Obj().Pkg().Path() == "sync":
							x.fldMap["pool"] = f.Name()
						case n.Obj().Name() == "Buffer":
							x.fldMap["buf"] = f.Name()
						}
					}
				}
			}
			if len(ints) == 1 {
				x.fldMap["depth"] = st.Field(ints[0]).Name()
			}
			if len(bytesF) == 2 {
				// the key scratch: the []byte field HandleObjectValue loads
				key := -1
				if fn := x.Func("ValueReader.HandleObjectValue"); fn != nil {
					for _, b := range fn.Blocks {
						for _, ins := range b.Instrs {
							if fa, ok := ins.(*ssa.FieldAddr); ok && structOfType(fa.X.Type()) == st && (fa.Field == bytesF[0] || fa.Field == bytesF[1]) {
								key = fa.Field
							}
						}
					}
				}
				if key >= 0 {
					other := bytesF[0]
					if other == key {
						other = bytesF[1]
					}
					x.fldMap["fieldNameBuf"] = st.Field(key).Name()
					x.fldMap["stringBuf"] = st.Field(other).Name()
				}
			}
		}
	}
	if n, ok := x.fldMap[role]; ok {
		return n
	}
	return role
}

// varRole: the package-level variable playing the named role: the variable of that name, else the only
// package-level variable of the type the role has in the pinned tree (a renamed table is still the table).
func (x *Ctx) varRole(pkg *packages.Package, name string) types.Object {
	if obj := pkg.Types.Scope().Lookup(name); obj != nil {
		if _, ok := obj.(*types.Var); ok {
			return obj
		}
	}
	want := map[string]func(t types.Type) bool{
		"detailedPowersOfTen": func(t types.Type) bool {
			a, ok := t.Underlying().(*types.Array)
			if !ok {
				return false
			}
			e, ok := a.Elem().Underlying().(*types.Array)
			return ok && e.Len() == 2 && isKind(e.Elem(), types.Uint64)
		},
		"leftcheats": func(t types.Type) bool {
			s, ok := t.Underlying().(*types.Slice)
			if !ok {
				return false
			}
			st, ok := s.Elem().Underlying().(*types.Struct)
			return ok && st.NumFields() == 2 && isKind(st.Field(0).Type(), types.Int) && isKind(st.Field(1).Type(), types.String)
		},
		"float64pow10": func(t types.Type) bool {
			s, ok := t.Underlying().(*types.Slice)
			return ok && isKind(s.Elem(), types.Float64)
		},
		"powtab": func(t types.Type) bool {
			s, ok := t.Underlying().(*types.Slice)
			return ok && isKind(s.Elem(), types.Int)
		},
		"tokenTypes": func(t types.Type) bool {
			a, ok := t.Underlying().(*types.Array)
			if !ok || a.Len() != 256 {
				return false
			}
			n, ok := a.Elem().(*types.Named)
			return ok && n.Obj().Name() == "TokenType"
		},
	}[name]
	if want == nil {
		return nil
	}
	var found []types.Object
	for _, n := range pkg.Types.Scope().Names() {
		if v, ok := pkg.Types.Scope().Lookup(n).(*types.Var); ok && want(v.Type()) {
			found = append(found, v)
		}
	}
	if len(found) == 1 {
		return found[0]
	}
	return nil
}

func isKind(t types.Type, k types.BasicKind) bool {
	b, ok := t.Underlying().(*types.Basic)
	return ok && b.Kind() == k
}

// boolTableByContent: a package-level [256]bool variable whose true entries are exactly want.
func (x *Ctx) boolTableByContent(pkg *packages.Package, want lts.ByteSet) types.Object {
	for _, n := range pkg.Types.Scope().Names() {
		v, ok := pkg.Types.Scope().Lookup(n).(*types.Var)
		if !ok {
			continue
		}
		a, ok := v.Type().Underlying().(*types.Array)
		if !ok || a.Len() != 256 || !isKind(a.Elem(), types.Bool) {
			continue
		}
		t := core.ReadTable256(pkg, v)
		if t == nil {
			continue
		}
		same := true
		for i := 0; i < 256; i++ {
			if (t[i].Kind() == constant.Bool && constant.BoolVal(t[i])) != want.Has(byte(i)) {
				same = false
				break
			}
		}
		if same {
			return v
		}
	}
	return nil
}
