package props

import (
	"rjverif/internal/core"
	"rjverif/internal/product"
	"rjverif/internal/ref"
)

// C06 — string tokens validated and decoded.
func C06(x *Ctx, r *core.Result) {
	r.Trusted = append(r.Trusted, trustedAutomata...)
	r.Trusted = append(r.Trusted, "documented semantics of unicode/utf16.IsSurrogate/DecodeRune and unicode/utf8.EncodeRune/RuneLen (stdlib summaries)")
	a := r.Rule("R06a", "ReadStringBytes / ReadString (fast loop by E2 + appendRemainderOfString by E1) accept exactly ws* string-token and report the offset just after the closing quote, for every input")
	x.reportMachineProblems(r, a, "appendRemainderOfString")
	for _, n := range []string{"ReadStringBytes", "ReadString"} {
		x.scannerVsRef(r, a, n, specOffErr(1, 2), ref.StringToken(), product.Options{})
	}
	r.CheckFloor(a, 2)
	x.stringContentRules(r)
	r.Exhaustive = true
	r.Explain = "acceptance and offsets by product construction; content by emission typestate on the same product; \\u values rest on stdlib summaries"
}

func init() {
	Registry["C06"] = Prop{"proof", C06}
}
