package props

import "rjverif/internal/core"

// Prop describes one registered check.
type Prop struct {
	Level string
	Run   func(x *Ctx, r *core.Result)
}

// Registry lists the properties this build can decide.
var Registry = map[string]Prop{
	"C01": {"proof", C01},
	"C02": {"proof", C02},
}
