package props

import (
	"fmt"
	"go/token"
	"go/types"

	"golang.org/x/tools/go/ssa"

	"rjverif/internal/core"
)

// handlerIfaceCalls lists the invoke-mode calls of the two handler interfaces in fn.
func (x *Ctx) handlerIfaceCalls(fn *ssa.Function) []*ssa.Call {
	var out []*ssa.Call
	for _, b := range fn.Blocks {
		for _, ins := range b.Instrs {
			c, ok := ins.(*ssa.Call)
			if !ok || !c.Call.IsInvoke() {
				continue
			}
			recv := c.Call.Value.Type()
			if n, ok := recv.(*types.Named); ok && n.Obj().Pkg() == x.W.Root.Types &&
				(n.Obj().Name() == "ArrayValueHandler" || n.Obj().Name() == "ObjectValueHandler") {
				out = append(out, c)
			}
		}
	}
	return out
}

// C09 — a handler error stops the traversal and is returned unchanged.
func C09(x *Ctx, r *core.Result) {
	r.Trusted = append(r.Trusted, "go/ssa construction of the machine functions; Go semantics: returning an interface value preserves identity")
	a := r.Rule("R09a", "at every handler call site: the call's error result is nil-tested before anything else happens; on the non-nil edge the function returns immediately and the returned error operand IS that result (no wrap, no conversion, no other variable), so no further handler call can follow")
	total := 0
	for _, hm := range handlerMachines {
		m := x.Machine(hm.name)
		if m == nil {
			r.Undecided(a, hm.name, "-", "machine not found")
			continue
		}
		x.reportMachineProblems(r, a, hm.name)
		// syntax level (E1): every recognised handler primitive has the immediate `if err != nil { return …, err }`
		for _, h := range m.Handlers {
			if !h.ErrRetOK {
				r.Fail(a, fmt.Sprintf("%s:%s", hm.name, siteKey(m, h)), x.W.Pos(h.Pos), "handler error is not returned as is")
			}
		}
		// SSA level: independent confirmation by dominance and value identity
		fn := x.Func(hm.name)
		if fn == nil {
			r.Undecided(a, hm.name+":ssa", "-", "SSA function not found")
			continue
		}
		calls := x.handlerIfaceCalls(fn)
		if len(calls) != len(m.Handlers) {
			r.Undecided(a, hm.name+":count", x.W.Pos(fn.Pos()), fmt.Sprintf("SSA shows %d handler calls, the machine model %d: a handler call lies outside the recognised actions", len(calls), len(m.Handlers)))
		}
		for i, c := range calls {
			total++
			a.Instances++
			key := fmt.Sprintf("%s:handler call #%d", hm.name, i+1)
			if msg := x.checkErrReturned(fn, c); msg != "" {
				r.Fail(a, key, x.W.Pos(c.Pos()), msg)
			} else {
				a.OK(1)
				if i < 2 {
					a.Sample(key + " at " + x.W.Pos(c.Pos()) + ": err != nil -> return …, err (same SSA value)")
				}
			}
		}
	}
	r.CheckFloor(a, 14)
	b := r.Rule("R09b", "HandleArrayValues / HandleObjectValues return the inner function's error by identity in both buffer branches")
	x.wrapperPassThrough(r, b, "HandleArrayValues", "HandleObjectValues")
	r.CheckFloor(b, 2)
	ad := r.Rule("R09x", "the function adapters return the wrapped function's error unchanged (R07x)")
	x.adapterRule(r, ad)
	c := r.Rule("R09c", "no recover and no error-wrapping call takes the handler's error anywhere in the two machine functions or their wrappers")
	for _, n := range []string{"handleArrayValues", "handleObjectValues", "HandleArrayValues", "HandleObjectValues"} {
		fn := x.Func(n)
		if fn == nil {
			r.Undecided(c, n, "-", "function not found")
			continue
		}
		c.Instances++
		ok := true
		for _, b := range fn.Blocks {
			for _, ins := range b.Instrs {
				switch ins := ins.(type) {
				case *ssa.Defer:
					r.Fail(c, n+":defer", x.W.Pos(ins.Pos()), "a deferred call could replace the returned error")
					ok = false
				case *ssa.Call:
					if bi, isB := ins.Call.Value.(*ssa.Builtin); isB && bi.Name() == "recover" {
						r.Fail(c, n+":recover", x.W.Pos(ins.Pos()), "recover in the traversal")
						ok = false
					}
				}
			}
		}
		if ok {
			c.OK(1)
		}
	}
	r.CheckFloor(c, 4)
	r.Exhaustive = true
	r.Explain = fmt.Sprintf("all %d handler call sites examined by dominance and value identity on SSA, and independently by the action vocabulary of E1", total)
}

func init() { Registry["C09"] = Prop{"proof", C09} }

// checkErrReturned: the call's error Extract feeds `err != nil`; the true edge leads to a block that returns that Extract
// as the last result without any other call in between; no other use of the call's results happens before the test.
func (x *Ctx) checkErrReturned(fn *ssa.Function, c *ssa.Call) string {
	var errEx *ssa.Extract
	for _, ref := range *c.Referrers() {
		if ex, ok := ref.(*ssa.Extract); ok && isErrT(ex.Type()) {
			errEx = ex
		}
	}
	if errEx == nil {
		return "the handler's error result is discarded"
	}
	blk := c.Block()
	// everything after the call in its block must be Extracts/DebugRefs and the comparison, ending in If on err != nil
	iff, ok := blk.Instrs[len(blk.Instrs)-1].(*ssa.If)
	if !ok {
		return "the handler call is not followed by a test of its error"
	}
	be, ok := iff.Cond.(*ssa.BinOp)
	if !ok || (be.Op != token.NEQ && be.Op != token.EQL) || !((be.X == errEx && isNilConst(be.Y)) || (be.Y == errEx && isNilConst(be.X))) {
		return "the branch after the handler call does not test the handler's own error against nil"
	}
	after := false
	for _, ins := range blk.Instrs {
		if ins == ssa.Instruction(c) {
			after = true
			continue
		}
		if !after {
			continue
		}
		switch ins.(type) {
		case *ssa.Call, *ssa.Defer, *ssa.Go, *ssa.Panic:
			return fmt.Sprintf("%T happens between the handler call and the test of its error", ins)
		}
	}
	nonNil := blk.Succs[0]
	if be.Op == token.EQL {
		nonNil = blk.Succs[1]
	}
	// the non-nil successor must return errEx without calling anything
	for _, ins := range nonNil.Instrs {
		switch ins := ins.(type) {
		case *ssa.Return:
			if len(ins.Results) == 0 || ins.Results[len(ins.Results)-1] != ssa.Value(errEx) {
				return "on a handler error the function returns a different error value (wrapped, replaced or converted)"
			}
			return ""
		case *ssa.Call, *ssa.Defer, *ssa.Go, *ssa.Panic, *ssa.If, *ssa.Jump:
			return fmt.Sprintf("on a handler error the function does %T before returning", ins)
		}
	}
	return "on a handler error the function does not return immediately"
}

func isErrT(t types.Type) bool { return types.Identical(t, types.Universe.Lookup("error").Type()) }
