// Package props orchestrates the engines per property (C01..C20).
package props

import (
	"fmt"
	"go/types"
	"os"
	"sort"

	"golang.org/x/tools/go/ssa"

	"rjverif/internal/core"
	"rjverif/internal/lts"
	"rjverif/internal/machine"
	"rjverif/internal/product"
	"rjverif/internal/scan"
	"rjverif/internal/sibling"
)

// Ctx caches the models shared by several properties during one run.
type Ctx struct {
	W         *core.World
	Tier      string
	machines  map[string]*machine.Machine
	mlist     []*machine.Machine
	composed  map[string]*lts.LTS
	compProb  map[string][]machine.Problem
	scans     map[string]*scan.Result
	flat      map[string]*lts.LTS
	flatProb  map[string][]string
	engine    *scan.Engine
	postCache map[*ssa.Function][]slicePost
	fieldNN   map[interface{}]bool
	sibRep    *sibling.SSAReport
	sibErr    error
	sibDone   bool
	roleMap   map[string]*ssa.Function
	canonMap  map[*ssa.Function]string
	fldMap    map[string]string
}

func NewCtx(w *core.World, tier string) *Ctx {
	return &Ctx{W: w, Tier: tier, composed: map[string]*lts.LTS{}, compProb: map[string][]machine.Problem{}, scans: map[string]*scan.Result{},
		flat: map[string]*lts.LTS{}, flatProb: map[string][]string{}}
}

// Machines extracts all Ragel machines (E1) once.
func (x *Ctx) Machines() []*machine.Machine {
	if x.machines == nil {
		x.machines = map[string]*machine.Machine{}
		x.mlist = machine.ExtractAll(x.W)
		for _, m := range x.mlist {
			x.machines[m.Name] = m
		}
	}
	return x.mlist
}

func (x *Ctx) Machine(name string) *machine.Machine {
	x.Machines()
	if fn := x.roles()[name]; fn != nil {
		if m := x.machines[fn.Name()]; m != nil {
			return m
		}
	}
	return x.machines[name]
}

// scannerNames are the hand-written functions E2 may inline when they are called from the analysed function.
var scannerNames = []string{"countWhitespace", "skipFloatDec", "skipFloatExp", "ReadUint64", "ReadInt64", "ReadInt32", "ReadUint32",
	"ReadFloat64", "NextTokenType", "NextToken", "ReadNull", "ReadBool", "nullOrBust"}
var fpScannerNames = []string{"ParseJSONFloatPrefix", "readFloat"}

func (x *Ctx) Engine() *scan.Engine {
	if x.engine == nil {
		e := scan.NewEngine(x.W)
		e.Trace = os.Getenv("VERIF_TRACE") != ""
		e.LoadTables()
		for _, n := range scannerNames {
			if fn := x.Func(n); fn != nil {
				e.Inline[fn] = true
			}
		}
		for _, n := range fpScannerNames {
			if fn := x.Func("fp." + n); fn != nil {
				e.Inline[fn] = true
			}
		}
		// private helpers with scalar results (isSpace(b) bool, accumulateDigits(data, p, n) (uint64, int), …): what a
		// scanner computes through them is part of the scanner, so E2 follows them like the named ones
		for _, fn := range x.W.SrcFuncs() {
			if !x.W.InLib(fn) || fn.Object() == nil || fn.Object().Exported() || fn.Signature.Recv() != nil || len(fn.Blocks) == 0 || fn.Parent() != nil {
				continue
			}
			res := fn.Signature.Results()
			scalar := res.Len() > 0
			hasErr := false
			for i := 0; i < res.Len(); i++ {
				if isErrT(res.At(i).Type()) {
					hasErr = true
					continue
				}
				b, ok := res.At(i).Type().Underlying().(*types.Basic)
				if !ok || b.Info()&(types.IsInteger|types.IsBoolean|types.IsFloat|types.IsString) == 0 {
					scalar = false
				} else if b.Info()&(types.IsFloat|types.IsString) != 0 {
					hasErr = true // numeric kernels (eiselLemire64, atof64exact) stay opaque; see below
				}
			}
			if hasErr {
				// helpers with error or float results only when they look at the input (slowParse(data) (float64,
				// error)) — not error constructors, not the arithmetic kernels
				takesData := false
				for _, p := range fn.Params {
					if isByteSliceT(p.Type()) {
						takesData = true
					}
				}
				scalar = scalar && takesData
			}
			if scalar {
				e.Inline[fn] = true
			}
		}
		for _, m := range x.Machines() {
			if fn := x.W.SRoot.Func(m.Name); fn != nil {
				e.Machines[fn] = m.Name
				delete(e.Inline, fn)
			}
		}
		// the exported buffer wrappers of the machines (SkipValue(data, buffer) = skipValue + stack store-back): a
		// scanner that goes through one of them is followed into it
		for _, fn := range x.W.SrcFuncs() {
			if !x.W.InLib(fn) || fn.Signature.Recv() != nil || len(fn.Blocks) == 0 || fn.Parent() != nil || e.Machines[fn] != "" {
				continue
			}
			hasBuf := false
			for _, p := range fn.Params {
				if pt, ok := p.Type().(*types.Pointer); ok {
					if nt, ok := pt.Elem().(*types.Named); ok && nt.Obj().Name() == "Buffer" {
						hasBuf = true
					}
				}
			}
			res := fn.Signature.Results()
			if !hasBuf || res.Len() != 2 || !isIntKind(res.At(0).Type()) || !isErrT(res.At(1).Type()) {
				continue
			}
			callsMachine := false
			for _, b := range fn.Blocks {
				for _, ins := range b.Instrs {
					if c, ok := ins.(*ssa.Call); ok {
						if callee := c.Call.StaticCallee(); callee != nil && e.Machines[callee] != "" {
							callsMachine = true
						}
					}
				}
			}
			if callsMachine {
				e.Inline[fn] = true
			}
		}
		x.engine = e
	}
	return x.engine
}

// Scan runs E2 on a function (cached by name).
func (x *Ctx) Scan(name string, mk func(fn *ssa.Function) *scan.Spec) *scan.Result {
	if r, ok := x.scans[name]; ok {
		return r
	}
	fn := x.Func(name)
	if fn == nil {
		x.scans[name] = nil
		return nil
	}
	r := x.Engine().Analyse(mk(fn))
	x.scans[name] = r
	return r
}

// Func finds a function by "name" (root package), "fp.name" or "T.method".
func (x *Ctx) Func(name string) *ssa.Function {
	if fn := x.roles()[name]; fn != nil {
		return fn
	}
	if len(name) > 3 && name[:3] == "fp." {
		return x.W.SSAFunc(x.W.SFP, name[3:])
	}
	return x.W.SSAFunc(x.W.SRoot, name)
}

// Helper returns the E2 model of a number-tail helper.
func (x *Ctx) Helper(name string) *scan.Result {
	return x.Scan(name, func(fn *ssa.Function) *scan.Spec {
		sp := scan.FuncSpec(fn, 0, 1, -1, -1)
		sp.Entry = scan.HelperEntry
		return sp
	})
}

// Composed returns machine name with its SPLICE edges completed by the E2 helper models.
func (x *Ctx) Composed(name string) (*lts.LTS, []machine.Problem) {
	if l, ok := x.composed[name]; ok {
		return l, x.compProb[name]
	}
	m := x.Machine(name)
	if m == nil {
		return nil, []machine.Problem{{Key: name, Msg: "machine function not found"}}
	}
	helpers := map[string]*lts.LTS{}
	var probs []machine.Problem
	for _, s := range m.Splices {
		hn := s.Helper.Name()
		if _, ok := helpers[hn]; ok {
			continue
		}
		r := x.Helper(hn)
		if r == nil {
			probs = append(probs, machine.Problem{Key: name + ":helper:" + hn, Pos: s.Pos, Msg: "helper function not found"})
			continue
		}
		for _, p := range r.Problems {
			probs = append(probs, machine.Problem{Key: "helper:" + p.Key, Pos: p.Pos, Msg: p.Msg})
		}
		helpers[hn] = r.LTS
	}
	l, cp := machine.Compose(m, helpers)
	probs = append(probs, cp...)
	x.composed[name] = l
	x.compProb[name] = probs
	return l, probs
}

// Flat returns the E2 model of a function with the machine calls replaced by the composed machines.
func (x *Ctx) Flat(name string, mk func(fn *ssa.Function) *scan.Spec) (*lts.LTS, *scan.Result, []string) {
	r := x.Scan(name, mk)
	if r == nil {
		return nil, nil, []string{"function " + name + " not found"}
	}
	if l, ok := x.flat[name]; ok {
		return l, r, x.flatProb[name]
	}
	ms := map[string]*lts.LTS{}
	var probs []string
	used := map[string]bool{}
	for _, s := range r.LTS.States {
		for _, e := range s.Edges {
			if e.Term.Kind == lts.CallM {
				used[e.Term.Name] = true
			}
		}
		for _, o := range s.EOF {
			if o.Term != nil && o.Term.Kind == lts.CallM {
				used[o.Term.Name] = true
			}
		}
	}
	for n := range used {
		l, cp := x.Composed(n)
		for _, p := range cp {
			probs = append(probs, fmt.Sprintf("%s: %s", p.Key, p.Msg))
		}
		if l != nil {
			ms[n] = l
		}
	}
	l, fp := lts.Flatten(r.LTS, ms)
	probs = append(probs, fp...)
	x.flat[name] = l
	x.flatProb[name] = probs
	return l, r, probs
}

// reportMachineProblems turns extractor problems of the named machines into undecided findings.
func (x *Ctx) reportMachineProblems(r *core.Result, rs *core.RuleStat, names ...string) {
	for _, n := range names {
		m := x.Machine(n)
		if m == nil {
			r.Undecided(rs, n, "-", "machine function "+n+" not found in /repo (anchor missing)")
			continue
		}
		for _, p := range m.Problems {
			r.Undecided(rs, p.Key, x.W.Pos(p.Pos), p.Msg)
		}
	}
}

func (x *Ctx) reportScanProblems(r *core.Result, rs *core.RuleStat, res *scan.Result) {
	if res == nil {
		return
	}
	for _, p := range res.Problems {
		r.Undecided(rs, p.Key, x.W.Pos(p.Pos), p.Msg)
	}
}

// bisim runs the product and converts mismatches into findings; returns the statistics.
func (x *Ctx) bisim(r *core.Result, rs *core.RuleStat, what string, impl, ref *lts.LTS, o product.Options) product.Stats {
	if impl == nil || ref == nil {
		r.Undecided(rs, what, "-", "model missing")
		return product.Stats{}
	}
	if err := ref.CheckTotal(); err != nil {
		r.Undecided(rs, what+":reference", "-", "reference recogniser is not total: "+err.Error())
		return product.Stats{}
	}
	if err := impl.CheckTotal(); err != nil {
		r.Undecided(rs, what+":model", "-", "extracted model is not total: "+err.Error())
		return product.Stats{}
	}
	st, mm := product.Bisim(impl, ref, impl.Start, ref.Start, o)
	rs.Instances++
	rs.Sample(fmt.Sprintf("%s vs %s: %d product pairs, %d cells (byte/EOF obligations)", impl.Name, ref.Name, st.Pairs, st.Cells))
	bad := len(mm)
	rs.Obligations += st.Cells
	rs.Discharged += st.Cells - min(bad, st.Cells)
	seen := map[string]bool{}
	perPhase := map[string]int{}
	for _, m := range mm {
		key := what + ":" + m.Key()
		if seen[key] {
			continue
		}
		// at most two findings per reference phase (the remaining bytes of the same phase say the same thing)
		if perPhase[m.RefName] >= 2 {
			continue
		}
		perPhase[m.RefName]++
		seen[key] = true
		if len(seen) > 10 {
			break
		}
		r.Findings = append(r.Findings, core.Finding{Rule: rs.Rule, Key: key, Pos: m.ImplPos, Msg: m.String(), Witness: fmt.Sprintf("%q", m.Witness), Reason: "violation"})
	}
	// reference coverage: every reachable reference phase must have been met in the product
	if len(mm) == 0 && !o.RefDriven {
		reach := product.ReachableRef(ref, ref.Start)
		var missing []string
		for id := range reach {
			if !st.RefStates[id] {
				missing = append(missing, ref.States[id].Name)
			}
		}
		sort.Strings(missing)
		if len(missing) > 0 {
			r.Undecided(rs, what+":coverage", "-", fmt.Sprintf("reference phases never reached in the product: %v", missing))
		}
	}
	r.States += len(st.ImplStates)
	r.Trans += st.Cells
	return st
}

// Sibling: the co-execution comparison of internal/fp with strconv (once per run).
func (x *Ctx) Sibling() (*sibling.SSAReport, error) {
	if !x.sibDone {
		sibling.NonNegField = func(fa *ssa.FieldAddr) bool {
			st := structOfType(fa.X.Type())
			if st == nil || !isIntKind(st.Field(fa.Field).Type()) {
				return false
			}
			if fn := fa.Parent(); fn == nil || !x.W.InLib(fn) {
				return false
			}
			ok := x.fieldNonNeg(st, fa.Field)
			if os.Getenv("VERIF_TRACE_NN") != "" {
				fmt.Println("NONNEG", st.Field(fa.Field).Name(), ok)
			}
			return ok
		}
		x.sibRep, x.sibErr = sibling.CompareSSA(x.W, func(name string) *ssa.Function { return x.roles()["fp."+name] })
		x.sibDone = true
	}
	return x.sibRep, x.sibErr
}
