package props

import (
	"fmt"
	"go/constant"
	"go/token"
	"go/types"

	"golang.org/x/tools/go/callgraph"
	"golang.org/x/tools/go/ssa"

	"rjverif/internal/core"
)

// destSig: for a function with a destination slice: index of the destination parameter and of the []byte result.
type destSig struct{ param, result int }

// destFuncs: API-reachable library functions that take a []byte destination and return a []byte:
// destination = last []byte parameter, result = first []byte result.
func (x *Ctx) destFuncs() map[*ssa.Function]destSig {
	w := x.W
	reach := w.Reachable(w.APIRoots(), func(e *callgraph.Edge) bool { return w.InLib(e.Caller.Func) })
	out := map[*ssa.Function]destSig{}
	for fn := range reach {
		if !w.InLib(fn) || fn.Blocks == nil || fn.Synthetic != "" {
			continue
		}
		pi, ri := -1, -1
		nb := 0
		for i, p := range fn.Params {
			if isByteSliceT(p.Type()) {
				pi = i
				nb++
			}
		}
		res := fn.Signature.Results()
		for i := 0; i < res.Len(); i++ {
			if isByteSliceT(res.At(i).Type()) {
				ri = i
				break
			}
		}
		if pi < 0 || ri < 0 {
			continue
		}
		// a single []byte parameter that is the *input* (exported readers of the Compat kind are unreachable; growBytesSliceCapacity's only slice is its destination)
		if nb == 1 && x.canon(fn) != "growBytesSliceCapacity" && len(fn.Params) > 0 && fn.Params[0] == fn.Params[pi] && fn.Signature.Params().Len() == 1 {
			continue
		}
		out[fn] = destSig{pi, ri}
	}
	// a destination is something the function writes to (appends to, grows, stores into, hands on as a destination):
	// a function that only reads its []byte parameter (unescapedKey(fieldname) ([]byte, error)) takes an input, not
	// a destination. Greatest fixpoint: candidates are dropped until every remaining one writes.
	for changed := true; changed; {
		changed = false
		for fn, sig := range out {
			if x.canon(fn) == "growBytesSliceCapacity" {
				continue
			}
			if !writesParam(fn, fn.Params[sig.param], out) {
				delete(out, fn)
				changed = true
			}
		}
	}
	return out
}

// writesParam: the slice parameter p (or a re-slice / phi of it) is the first argument of append or copy, the base of
// an element store, or the destination argument of a destination-taking function.
func writesParam(fn *ssa.Function, p *ssa.Parameter, dests map[*ssa.Function]destSig) bool {
	seen := map[ssa.Value]bool{}
	var visit func(v ssa.Value) bool
	visit = func(v ssa.Value) bool {
		if seen[v] {
			return false
		}
		seen[v] = true
		for _, ref := range *v.Referrers() {
			switch u := ref.(type) {
			case *ssa.Slice:
				if u.X == v && visit(u) {
					return true
				}
			case *ssa.Phi:
				if visit(u) {
					return true
				}
			case *ssa.IndexAddr:
				if u.X == v {
					for _, r2 := range *u.Referrers() {
						if st, ok := r2.(*ssa.Store); ok && st.Addr == ssa.Value(u) {
							return true
						}
					}
				}
			case *ssa.Call:
				if bi, ok := u.Call.Value.(*ssa.Builtin); ok {
					if (bi.Name() == "append" || bi.Name() == "copy") && u.Call.Args[0] == v {
						return true
					}
					continue
				}
				if callee := u.Call.StaticCallee(); callee != nil {
					if cs, ok := dests[callee]; ok && cs.param < len(u.Call.Args) && u.Call.Args[cs.param] == v {
						return true
					}
				}
			}
		}
		return false
	}
	return visit(p)
}

// lbForm: lower-bound form L0 + K + (non-negative unknowns); ok=false if not of that shape.
type lbForm struct {
	l0 int64 // coefficient of L0 (the destination's length at entry)
	k  int64
	nn int // number of added non-negative unknowns (their exact value is irrelevant)
	ok bool
}

type destAnalysis struct {
	x       *Ctx
	fn      *ssa.Function
	d       *ssa.Parameter
	funcs   map[*ssa.Function]destSig
	derived map[ssa.Value]bool
	exact   map[ssa.Value]bool // derived values whose length is exactly L0
}

func (a *destAnalysis) form(v ssa.Value, depth int) lbForm {
	if depth > 12 {
		return lbForm{}
	}
	switch v := v.(type) {
	case *ssa.Const:
		if v.Value != nil && v.Value.Kind() == constant.Int {
			if i, ok := constant.Int64Val(v.Value); ok {
				return lbForm{k: i, ok: true}
			}
		}
	case *ssa.BinOp:
		l, r := a.form(v.X, depth+1), a.form(v.Y, depth+1)
		if !l.ok || !r.ok {
			return lbForm{}
		}
		switch v.Op {
		case token.ADD:
			return lbForm{l0: l.l0 + r.l0, k: l.k + r.k, nn: l.nn + r.nn, ok: true}
		case token.SUB:
			if r.nn == 0 {
				return lbForm{l0: l.l0 - r.l0, k: l.k - r.k, nn: l.nn, ok: true}
			}
		}
	case *ssa.Call:
		if b, ok := v.Call.Value.(*ssa.Builtin); ok && (b.Name() == "len" || b.Name() == "cap") && len(v.Call.Args) == 1 {
			arg := v.Call.Args[0]
			if a.derived[arg] {
				if b.Name() == "len" && a.exact[arg] {
					return lbForm{l0: 1, ok: true}
				}
				return lbForm{l0: 1, nn: 1, ok: true}
			}
			// length of anything else is non-negative
			return lbForm{nn: 1, ok: true}
		}
		if callee := v.Call.StaticCallee(); callee != nil && callee.Pkg != nil {
			switch callee.Pkg.Pkg.Path() + "." + callee.Name() {
			case "unicode/utf8.EncodeRune":
				return lbForm{nn: 1, ok: true} // 1..4
			case "unicode/utf8.RuneLen":
				// non-negative when the rune comes from utf16.DecodeRune (always a valid code point or U+FFFD)
				if len(v.Call.Args) == 1 {
					if c2, ok := v.Call.Args[0].(*ssa.Call); ok {
						if cc := c2.Call.StaticCallee(); cc != nil && cc.Pkg != nil && cc.Pkg.Pkg.Path() == "unicode/utf16" && cc.Name() == "DecodeRune" {
							return lbForm{nn: 1, ok: true}
						}
					}
				}
			}
		}
	case *ssa.Phi:
		// all edges must have the same shape class; take the weakest
		res := lbForm{ok: true, l0: 1 << 30}
		for _, e := range v.Edges {
			f := a.form(e, depth+1)
			if !f.ok {
				return lbForm{}
			}
			if f.l0 < res.l0 || (f.l0 == res.l0 && f.k < res.k) {
				res = lbForm{l0: f.l0, k: f.k, nn: max(res.nn, f.nn), ok: true}
			}
		}
		if res.l0 == 1<<30 {
			return lbForm{}
		}
		return res
	}
	return lbForm{}
}

func (f lbForm) atLeastL0() bool { return f.ok && f.l0 >= 1 && f.k >= 0 }
func (f lbForm) isZero() bool    { return f.ok && f.l0 == 0 && f.k == 0 && f.nn == 0 }

// destinationRules: R16c.
func (x *Ctx) destinationRules(r *core.Result, rs *core.RuleStat) {
	funcs := x.destFuncs()
	for fn, sig := range funcs {
		rs.Instances++
		a := &destAnalysis{x: x, fn: fn, d: fn.Params[sig.param], funcs: funcs, derived: map[ssa.Value]bool{}, exact: map[ssa.Value]bool{}}
		a.derived[a.d] = true
		a.exact[a.d] = true
		key := fn.Name()
		bad := false
		fail := func(k string, pos token.Pos, msg string) {
			r.Fail(rs, key+":"+k, x.W.Pos(pos), msg)
			bad = true
		}
		// closure of derived values: greatest fixpoint over phis (loop-carried destinations), least over the rest
		excluded := map[ssa.Value]bool{}
		for {
			a.derived = map[ssa.Value]bool{a.d: true}
			a.exact = map[ssa.Value]bool{a.d: true}
			for _, b := range fn.Blocks {
				for _, ins := range b.Instrs {
					if phi, ok := ins.(*ssa.Phi); ok && isByteSliceT(phi.Type()) && !excluded[phi] {
						a.derived[phi] = true
					}
				}
			}
			a.closure(funcs)
			again := false
			for _, b := range fn.Blocks {
				for _, ins := range b.Instrs {
					if phi, ok := ins.(*ssa.Phi); ok && a.derived[phi] {
						for _, e := range phi.Edges {
							if !a.derived[e] {
								excluded[phi] = true
								again = true
							}
						}
					}
				}
			}
			if !again {
				break
			}
		}
		// obligations
		for _, b := range fn.Blocks {
			for _, ins := range b.Instrs {
				switch ins := ins.(type) {
				case *ssa.Slice:
					if a.derived[ins.X] && !a.derived[ins] {
						// a re-slice of the destination that is not prefix-preserving: allowed only as a write window [L0+k:]
						lo := lbForm{}
						if ins.Low != nil {
							lo = a.form(ins.Low, 0)
						}
						if ins.Low != nil && lo.atLeastL0() && ins.High == nil {
							continue // window above the original contents
						}
						fail("reslice", ins.Pos(), "the destination is re-sliced with a bound that is not (original length + non-negative): existing contents may be cut off or overwritten")
					}
				case *ssa.Store:
					if ia, ok := ins.Addr.(*ssa.IndexAddr); ok && a.derived[ia.X] {
						if !a.form(ia.Index, 0).atLeastL0() {
							fail("store", ins.Pos(), "store into the destination at an index not proved to be >= its original length")
						}
					}
				case *ssa.Return:
					res := ins.Results[funcs[fn].result]
					if a.derived[res] {
						continue
					}
					// non-derived result: only with a non-nil error / false ok
					okErr := false
					for _, o := range ins.Results {
						if isErrT(o.Type()) && !isNilConst(o) {
							if x.knownNonNilError(o) {
								okErr = true
							}
						}
					}
					if !okErr {
						fail("return", ins.Pos(), "a path that may succeed returns a slice that is not the caller's destination extended by appends (existing contents would be lost)")
					}
				case *ssa.Call:
					callee := ins.Call.StaticCallee()
					if callee == nil || x.W.InLib(callee) {
						continue
					}
					for _, arg := range ins.Call.Args {
						if a.derived[arg] {
							fail("extern", ins.Pos(), "the destination itself is handed to "+callee.String()+" (may overwrite existing contents)")
						}
					}
				}
			}
		}
		if !bad {
			rs.OK(1)
			rs.Sample(fmt.Sprintf("%s: destination parameter %q flows to result %d only through append / growth / prefix-preserving re-slices", fn.Name(), a.d.Name(), sig.result))
		}
	}
	if rs.Instances < 7 {
		r.Undecided(rs, "floor", "-", fmt.Sprintf("only %d destination-taking functions found (expected >= 7)", rs.Instances))
	}
}

// knownNonNilError: v is definitely a non-nil error: a sentinel load, a constructor call, or the error result of a call tested non-nil on this path (approximated: any non-constant error value that is not a phi with a nil edge).
func (x *Ctx) knownNonNilError(v ssa.Value) bool {
	if x.isFreshNonNilError(v) {
		return true
	}
	switch v := v.(type) {
	case *ssa.Call:
		if c := v.Call.StaticCallee(); c != nil && x.W.InLib(c) && c.Signature.Results().Len() == 1 && isErrT(c.Signature.Results().At(0).Type()) {
			return true // library helper constructing an error (errUnexpectedByteInString)
		}
	}
	return false
}

// scratchRules: R16d.
func (x *Ctx) scratchRules(r *core.Result, rs *core.RuleStat) {
	w := x.W
	for _, fn := range w.SrcFuncs() {
		if !w.InLib(fn) {
			continue
		}
		for _, b := range fn.Blocks {
			for _, ins := range b.Instrs {
				ld, ok := ins.(*ssa.UnOp)
				if !ok || ld.Op != token.MUL || !isByteSliceT(ld.Type()) {
					continue
				}
				what := ""
				switch src := ld.X.(type) {
				case *ssa.FieldAddr:
					if st := structOfType(src.X.Type()); st != nil {
						what = "field " + st.Field(src.Field).Name()
					}
				case *ssa.Parameter:
					what = "scratch parameter *" + src.Name()
				}
				if what == "" {
					continue
				}
				rs.Instances++
				key := fmt.Sprintf("%s:%s", fn.Name(), what)
				if msg := x.scratchUseOK(ld, map[ssa.Value]bool{}); msg != "" {
					r.Fail(rs, key, w.Pos(ld.Pos()), "scratch buffer ("+what+") "+msg)
				} else {
					rs.OK(1)
					rs.Sample(key + ": used only as [:0], for len/cap, or copied out")
				}
			}
		}
	}
	if rs.Instances < 4 {
		r.Undecided(rs, "floor", "-", fmt.Sprintf("only %d scratch-buffer loads found (expected >= 4)", rs.Instances))
	}
	x.scratchOwnership(r, rs)
}

// scratchOwnership: a reader's scratch buffer is owned by that reader alone: whatever is stored into a []byte
// field of a ValueReader is nil or the result of a destination-taking library function whose destination was the
// very same field of the very same reader, truncated to length 0. Two readers sharing one backing array would let a
// child overwrite bytes the parent still refers to (e.g. a pending key).
func (x *Ctx) scratchOwnership(r *core.Result, rs *core.RuleStat) {
	w := x.W
	st := x.vrStruct()
	if st == nil {
		return
	}
	dests := x.destFuncs()
	for _, fn := range w.SrcFuncs() {
		for _, b := range fn.Blocks {
			for _, ins := range b.Instrs {
				sto, ok := ins.(*ssa.Store)
				if !ok {
					continue
				}
				fa, ok := sto.Addr.(*ssa.FieldAddr)
				if !ok || structOfType(fa.X.Type()) != st || !isByteSliceT(st.Field(fa.Field).Type()) {
					continue
				}
				rs.Instances++
				key := fmt.Sprintf("%s:store %s", fnKey(fn), st.Field(fa.Field).Name())
				if msg := x.ownScratchValue(sto.Val, fa, dests, map[ssa.Value]bool{}); msg != "" {
					r.Fail(rs, key, w.Pos(sto.Pos()), "scratch buffer field "+st.Field(fa.Field).Name()+" receives "+msg+": its backing array may then be shared with another reader or with the input, and bytes still referred to (a pending key, a string being built) can be overwritten")
				} else {
					rs.OK(1)
					rs.Sample(key + ": result of a decoding call on this reader's own buffer[:0]")
				}
			}
		}
	}
}

// ownScratchValue: "" if v is nil or derives from this reader's own field (same base object, same field) through
// [:0], append and destination-taking library calls.
func (x *Ctx) ownScratchValue(v ssa.Value, target *ssa.FieldAddr, dests map[*ssa.Function]destSig, seen map[ssa.Value]bool) string {
	if seen[v] {
		return ""
	}
	seen[v] = true
	if isNilConst(v) {
		return ""
	}
	switch t := v.(type) {
	case *ssa.Phi:
		for _, e := range t.Edges {
			if m := x.ownScratchValue(e, target, dests, seen); m != "" {
				return m
			}
		}
		return ""
	case *ssa.Extract:
		c, ok := t.Tuple.(*ssa.Call)
		if !ok {
			return "a value of unknown origin"
		}
		callee := c.Call.StaticCallee()
		if callee == nil {
			return "the result of a dynamic call"
		}
		sig, ok := dests[callee]
		if !ok || t.Index != sig.result {
			return "a result of " + callee.Name() + " that is not its destination"
		}
		return x.ownScratchValue(c.Call.Args[sig.param], target, dests, seen)
	case *ssa.Call:
		if bi, ok := t.Call.Value.(*ssa.Builtin); ok && bi.Name() == "append" {
			return x.ownScratchValue(t.Call.Args[0], target, dests, seen)
		}
		if callee := t.Call.StaticCallee(); callee != nil {
			if sig, ok := dests[callee]; ok && callee.Signature.Results().Len() == 1 {
				return x.ownScratchValue(t.Call.Args[sig.param], target, dests, seen)
			}
		}
		return "the result of a call that does not extend this buffer"
	case *ssa.Slice:
		ld, ok := t.X.(*ssa.UnOp)
		if !ok || ld.Op != token.MUL {
			return "a slice of something other than this reader's buffer"
		}
		fa, ok := ld.X.(*ssa.FieldAddr)
		if !ok || structOfType(fa.X.Type()) != structOfType(target.X.Type()) {
			return "a slice of something other than a reader's buffer"
		}
		if fa.Field != target.Field {
			return "a slice of a different buffer field"
		}
		if !sameObject(fa.X, target.X) {
			return "a slice of ANOTHER reader's buffer"
		}
		return ""
	}
	return fmt.Sprintf("a value of unexpected origin (%T)", v)
}

func structOfType(t types.Type) *types.Struct {
	if p, ok := t.Underlying().(*types.Pointer); ok {
		t = p.Elem()
	}
	s, _ := t.Underlying().(*types.Struct)
	return s
}

// scratchUseOK: the loaded scratch slice is only truncated to length 0, measured, copied out (string conversion),
// or merged by a phi whose uses are again of these kinds.
func (x *Ctx) scratchUseOK(v ssa.Value, seen map[ssa.Value]bool) string {
	if seen[v] {
		return ""
	}
	seen[v] = true
	for _, ref := range *v.Referrers() {
		switch u := ref.(type) {
		case *ssa.DebugRef:
		case *ssa.Slice:
			hiZero := false
			if c, ok := u.High.(*ssa.Const); ok && c.Value != nil {
				if i, ok := constant.Int64Val(c.Value); ok && i == 0 {
					hiZero = true
				}
			}
			if u.X == v && !(hiZero && u.Low == nil) {
				return "is re-sliced other than [:0] before use"
			}
		case *ssa.Convert:
			// copying conversion to string
			if b, ok := u.Type().Underlying().(*types.Basic); !ok || b.Kind() != types.String {
				return "is converted without copying"
			}
		case *ssa.Call:
			if bi, ok := u.Call.Value.(*ssa.Builtin); ok && (bi.Name() == "len" || bi.Name() == "cap") {
				continue
			}
			return "is passed on with its old contents (not truncated to length 0)"
		case *ssa.Phi:
			if msg := x.scratchUseOK(u, seen); msg != "" {
				return msg
			}
		case *ssa.Store:
			if u.Val == v {
				continue // storing the buffer back / moving it between fields
			}
		case *ssa.Return:
			// a private helper handing the buffer to its callers: what they do with it decides
			fn := u.Parent()
			if !x.isPrivateHelper(fn) {
				return "escapes with its old contents"
			}
			idx := -1
			for i, res := range u.Results {
				if res == v {
					idx = i
				}
			}
			node := x.W.CG().Nodes[fn]
			if idx < 0 || node == nil || len(node.In) == 0 {
				return "escapes with its old contents"
			}
			for _, e := range node.In {
				site, ok := e.Site.(*ssa.Call)
				if !ok || e.Caller.Func == nil || !x.W.InLib(e.Caller.Func) {
					return "escapes with its old contents"
				}
				var rv ssa.Value
				if fn.Signature.Results().Len() == 1 {
					rv = site
				} else {
					for _, r2 := range *site.Referrers() {
						if ex, ok := r2.(*ssa.Extract); ok && ex.Index == idx {
							rv = ex
						}
					}
				}
				if rv == nil {
					continue // result unused at this call
				}
				if msg := x.scratchUseOK(rv, seen); msg != "" {
					return msg
				}
			}
		case *ssa.MapUpdate:
			return "escapes with its old contents"
		default:
			return fmt.Sprintf("has an unrecognised use (%T)", u)
		}
	}
	return ""
}

func (a *destAnalysis) closure(funcs map[*ssa.Function]destSig) {
	fn := a.fn
	for changed := true; changed; {
		changed = false
		for _, b := range fn.Blocks {
			for _, ins := range b.Instrs {
				v, isV := ins.(ssa.Value)
				if !isV || a.derived[v] {
					continue
				}
				switch ins := ins.(type) {
				case *ssa.Call:
					if bi, ok := ins.Call.Value.(*ssa.Builtin); ok && bi.Name() == "append" && a.derived[ins.Call.Args[0]] {
						a.derived[v] = true
						changed = true
					}
					if callee := ins.Call.StaticCallee(); callee != nil {
						if cs, ok := funcs[callee]; ok && cs.param < len(ins.Call.Args) && a.derived[ins.Call.Args[cs.param]] && callee.Signature.Results().Len() == 1 {
							a.derived[v] = true
							changed = true
						}
					}
				case *ssa.Extract:
					if c, ok := ins.Tuple.(*ssa.Call); ok {
						if callee := c.Call.StaticCallee(); callee != nil {
							if cs, ok := funcs[callee]; ok && ins.Index == cs.result && cs.param < len(c.Call.Args) && a.derived[c.Call.Args[cs.param]] {
								a.derived[v] = true
								changed = true
							}
						}
					}
				case *ssa.MakeSlice:
					// a fresh slice of at least the original length into which the destination is copied before any other
					// use: its first L0 bytes are the destination's
					if a.form(ins.Len, 0).atLeastL0() && a.copiedFromDerived(ins) {
						a.derived[v] = true
						if f := a.form(ins.Len, 0); f.l0 == 1 && f.k == 0 && f.nn == 0 {
							a.exact[v] = true
						}
						changed = true
					}
				case *ssa.Slice:
					if a.derived[ins.X] {
						lowOK := ins.Low == nil || a.form(ins.Low, 0).isZero()
						highOK := ins.High == nil || a.form(ins.High, 0).atLeastL0()
						if lowOK && highOK {
							a.derived[v] = true
							if ins.High != nil {
								f := a.form(ins.High, 0)
								if f.l0 == 1 && f.k == 0 && f.nn == 0 {
									a.exact[v] = true
								}
							}
							changed = true
						}
					}
				}
			}
		}
	}
}

// copiedFromDerived: the made slice m is the target of a copy(m, d) with d derived from the destination, and that copy
// comes before every other use of m (same block and earlier, or in a dominating block).
func (a *destAnalysis) copiedFromDerived(m *ssa.MakeSlice) bool {
	var cp *ssa.Call
	for _, ref := range *m.Referrers() {
		if c, ok := ref.(*ssa.Call); ok {
			if bi, ok := c.Call.Value.(*ssa.Builtin); ok && bi.Name() == "copy" && c.Call.Args[0] == m && a.derived[c.Call.Args[1]] {
				cp = c
				break
			}
		}
	}
	if cp == nil {
		return false
	}
	for _, ref := range *m.Referrers() {
		if ref == ssa.Instruction(cp) {
			continue
		}
		if _, ok := ref.(*ssa.DebugRef); ok {
			continue
		}
		if ref.Block() == cp.Block() {
			if instrIndex(ref) < instrIndex(cp) {
				return false
			}
			continue
		}
		if !cp.Block().Dominates(ref.Block()) {
			return false
		}
	}
	return true
}
