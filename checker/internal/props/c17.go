package props

import (
	"fmt"
	"go/token"
	"go/types"
	"sort"
	"strings"

	"golang.org/x/tools/go/ssa"

	"rjverif/internal/core"
	"rjverif/internal/ssarules"
)

// C17 — StdLibCompatible helpers.
func C17(x *Ctx, r *core.Result) {
	w := x.W
	r.Trusted = append(r.Trusted, "utf8.DecodeRune / DecodeRuneInString return (U+FFFD, 1) exactly on a byte that is not part of a valid UTF-8 sequence and (rune, width) otherwise; string(rune) encodes the rune as UTF-8")
	a := r.Rule("R17a", "argument immutability: no store, map update, append or copy through the slice / map argument (or anything derived from it) in StdLibCompatibleSlice / StdLibCompatibleMap; the string/bytes variants never write their input (R16a)")
	funcs := w.SrcFuncs()
	scope := map[*ssa.Function]bool{}
	for _, f := range funcs {
		scope[f] = true
	}
	src := map[ssa.Value]bool{}
	for _, n := range []string{"StdLibCompatibleSlice", "StdLibCompatibleMap"} {
		fn := x.Func(n)
		if fn == nil || len(fn.Params) != 1 {
			r.Undecided(a, n, "-", "function not found")
			continue
		}
		src[fn.Params[0]] = true
		a.Instances++
	}
	t := &ssarules.Taint{Funcs: scope, CG: w.CG(), IsSource: func(v ssa.Value) bool { return src[v] }}
	t.Run()
	nb := 0
	for _, fn := range funcs {
		for _, b := range fn.Blocks {
			for _, ins := range b.Instrs {
				switch v := ins.(type) {
				case *ssa.Store:
					if t.Tainted[v.Addr] {
						nb++
						r.Fail(a, fnKey(fn)+":store", w.Pos(v.Pos()), "writes into the argument value tree")
					}
				case *ssa.MapUpdate:
					if t.Tainted[v.Map] {
						nb++
						r.Fail(a, fnKey(fn)+":mapupdate", w.Pos(v.Pos()), "updates a map of the argument value tree")
					}
				case *ssa.Call:
					if bi, ok := v.Call.Value.(*ssa.Builtin); ok && (bi.Name() == "append" || bi.Name() == "copy" || bi.Name() == "delete") && len(v.Call.Args) > 0 && t.Tainted[v.Call.Args[0]] {
						nb++
						r.Fail(a, fnKey(fn)+":"+bi.Name(), w.Pos(v.Pos()), bi.Name()+" on the argument value tree")
					}
				}
			}
		}
	}
	if nb == 0 {
		a.OK(len(t.Tainted))
		a.Sample(fmt.Sprintf("alias closure of the two container arguments: %d SSA values, none written", len(t.Tainted)))
	}
	x.inputWriteRule(r, a)
	r.CheckFloor(a, 2)

	b := r.Rule("R17b", "coverage and sibling agreement: both container helpers switch on string, []interface{} and map[string]interface{}, apply the matching helper to the value bound by the case, copy every other value unchanged, write into a fresh container of the argument's length; the map helper converts each key with StdLibCompatibleString and stores under the converted key")
	x.typeSwitchRule(r, b, "StdLibCompatibleSlice", false)
	x.typeSwitchRule(r, b, "StdLibCompatibleMap", true)
	r.CheckFloor(b, 2)

	c := r.Rule("R17c", "decoding loop: both string variants call utf8.DecodeRune[InString] on the suffix at i, advance i by exactly the returned width and append exactly the returned rune, once per iteration, until i reaches the length")
	x.decodeLoopRule(r, c, "StdLibCompatibleString", false)
	x.decodeLoopRule(r, c, "StdLibCompatibleStringBytes", true)
	r.CheckFloor(c, 2)

	d := r.Rule("R17d", "bytes variant: destination typestate R16c (existing contents kept, only appended to)")
	x.destinationRulesFor(r, d, "StdLibCompatibleStringBytes", "growBytesSliceCapacity")
	r.CheckFloor(d, 2)
	r.NotDecided = append(r.NotDecided, "idempotence and identity on valid UTF-8 as computed facts (consequences of the trusted DecodeRune summary)",
		"equality with encoding/json's output (follows from C03 plus these rules when no two keys collide after replacement)")
	r.Explain = "structural rules on the SSA of the four helpers"
}

func init() { Registry["C17"] = Prop{"other", C17} }

// typeSwitchRule: R17b.
func (x *Ctx) typeSwitchRule(r *core.Result, rs *core.RuleStat, name string, isMap bool) {
	w := x.W
	fn := x.Func(name)
	if fn == nil {
		r.Undecided(rs, name, "-", "function not found")
		return
	}
	rs.Instances++
	ok := true
	fail := func(k, msg string, pos token.Pos) {
		r.Fail(rs, name+":"+k, w.Pos(pos), msg)
		ok = false
	}
	// fresh container sized by len(arg)
	var out ssa.Value
	for _, b := range fn.Blocks {
		for _, ins := range b.Instrs {
			switch t := ins.(type) {
			case *ssa.MakeSlice:
				if lc, isCall := t.Len.(*ssa.Call); isCall && len(lc.Call.Args) == 1 && lc.Call.Args[0] == ssa.Value(fn.Params[0]) {
					out = t
				} else {
					fail("out-len", "the result slice does not have the argument's length", t.Pos())
				}
			case *ssa.MakeMap:
				out = t
			}
		}
	}
	if out == nil {
		fail("out", "no fresh result container is created", fn.Pos())
		return
	}
	// type assertions on the element value
	want := map[string]string{"string": "StdLibCompatibleString", "[]interface{}": "StdLibCompatibleSlice", "map[string]interface{}": "StdLibCompatibleMap"}
	got := map[string]string{}
	for _, b := range fn.Blocks {
		for _, ins := range b.Instrs {
			ta, isTA := ins.(*ssa.TypeAssert)
			if !isTA {
				continue
			}
			ts := types.TypeString(ta.AssertedType, nil)
			ts = strings.ReplaceAll(ts, "any", "interface{}")
			// the asserted value flows into a call of the matching helper
			var bound ssa.Value = ta
			if ta.CommaOk {
				if ex := extractOfTA(ta, 0); ex != nil {
					bound = ex
				}
			}
			callee := ""
			for _, ref := range *bound.Referrers() {
				if c, isCall := ref.(*ssa.Call); isCall && c.Call.StaticCallee() != nil && len(c.Call.Args) == 1 && c.Call.Args[0] == bound {
					callee = c.Call.StaticCallee().Name()
				}
			}
			got[ts] = callee
		}
	}
	var keys []string
	for k := range want {
		keys = append(keys, k)
	}
	sort.Strings(keys)
	for _, k := range keys {
		if got[k] != want[k] {
			fail("case "+k, fmt.Sprintf("values of type %s are handled by %q, must be passed (the value bound by the case itself) to %s", k, got[k], want[k]), fn.Pos())
		}
	}
	for k := range got {
		if _, known := want[k]; !known {
			fail("case "+k, "unexpected extra type case "+k, fn.Pos())
		}
	}
	// stores into the result: every element store / map update targets `out`; values are helper results or the original value
	nStores := 0
	for _, b := range fn.Blocks {
		for _, ins := range b.Instrs {
			switch t := ins.(type) {
			case *ssa.Store:
				ia, isIA := t.Addr.(*ssa.IndexAddr)
				if !isIA {
					continue
				}
				if ia.X != out {
					fail("store-target", "a store goes to something other than the fresh result", t.Pos())
				}
				nStores++
			case *ssa.MapUpdate:
				if t.Map != out {
					fail("store-target", "a map store goes to something other than the fresh result", t.Pos())
				}
				nStores++
				if isMap {
					// key must be StdLibCompatibleString(original key)
					kc, isCall := t.Key.(*ssa.Call)
					if !isCall || kc.Call.StaticCallee() == nil || kc.Call.StaticCallee().Name() != "StdLibCompatibleString" {
						fail("key", "a member is stored under a key that was not converted with StdLibCompatibleString", t.Pos())
					}
				}
			}
		}
	}
	if nStores < 4 {
		fail("stores", fmt.Sprintf("only %d stores into the result (expected one per type case and the default)", nStores), fn.Pos())
	}
	// result is the fresh container
	for _, b := range fn.Blocks {
		if ret, isRet := b.Instrs[len(b.Instrs)-1].(*ssa.Return); isRet && ret.Results[0] != out {
			fail("return", "the helper does not return the fresh container", ret.Pos())
		}
	}
	if ok {
		rs.OK(1)
		rs.Sample(name + ": cases string / []interface{} / map[string]interface{} -> matching helper on the bound value; default copies; fresh result")
	}
}

func extractOfTA(ta *ssa.TypeAssert, idx int) *ssa.Extract {
	for _, ref := range *ta.Referrers() {
		if ex, ok := ref.(*ssa.Extract); ok && ex.Index == idx {
			return ex
		}
	}
	return nil
}

// decodeLoopRule: R17c.
func (x *Ctx) decodeLoopRule(r *core.Result, rs *core.RuleStat, name string, bytesVariant bool) {
	w := x.W
	fn := x.Func(name)
	if fn == nil {
		r.Undecided(rs, name, "-", "function not found")
		return
	}
	rs.Instances++
	ok := true
	fail := func(k, msg string, pos token.Pos) {
		r.Fail(rs, name+":"+k, w.Pos(pos), msg)
		ok = false
	}
	var dec *ssa.Call
	for _, b := range fn.Blocks {
		for _, ins := range b.Instrs {
			if c, isCall := ins.(*ssa.Call); isCall {
				if callee := c.Call.StaticCallee(); callee != nil && callee.Pkg != nil && callee.Pkg.Pkg.Path() == "unicode/utf8" && strings.HasPrefix(callee.Name(), "DecodeRune") {
					if dec != nil {
						fail("decode-twice", "more than one decode call", c.Pos())
					}
					dec = c
				}
			}
		}
	}
	if dec == nil {
		fail("decode", "no utf8.DecodeRune call", fn.Pos())
		return
	}
	// argument: input[i:]
	sl, isSl := dec.Call.Args[0].(*ssa.Slice)
	if !isSl || sl.X != ssa.Value(fn.Params[0]) || sl.Low == nil || sl.High != nil {
		fail("suffix", "the rune is not decoded from the suffix input[i:]", dec.Pos())
		return
	}
	iphi, isPhi := sl.Low.(*ssa.Phi)
	if !isPhi {
		fail("index", "the position is not a loop variable", dec.Pos())
		return
	}
	rEx, wEx := extractOf(dec, 0), extractOf(dec, 1)
	if rEx == nil || wEx == nil {
		fail("results", "rune or width result is discarded", dec.Pos())
		return
	}
	// i advances by exactly w
	adv := false
	for _, e := range iphi.Edges {
		if add, isAdd := e.(*ssa.BinOp); isAdd && add.Op == token.ADD && ((add.X == ssa.Value(iphi) && add.Y == ssa.Value(wEx)) || (add.Y == ssa.Value(iphi) && add.X == ssa.Value(wEx))) {
			adv = true
		} else if k, isC := e.(*ssa.Const); isC {
			if k.Int64() != 0 {
				fail("start", "the position does not start at 0", iphi.Pos())
			}
		} else {
			fail("advance", "the position is advanced by something other than the returned width", iphi.Pos())
		}
	}
	if !adv {
		fail("advance", "the position is not advanced by the returned width", iphi.Pos())
	}
	// loop condition i < len(input)
	condOK := false
	for _, ref := range *iphi.Referrers() {
		if be, isBe := ref.(*ssa.BinOp); isBe && be.Op == token.LSS && be.X == ssa.Value(iphi) {
			if lc, isCall := be.Y.(*ssa.Call); isCall && len(lc.Call.Args) == 1 && lc.Call.Args[0] == ssa.Value(fn.Params[0]) {
				condOK = true
			}
		}
	}
	if !condOK {
		fail("bound", "the loop does not run while i < len(input)", iphi.Pos())
	}
	// the rune is appended unmodified exactly once
	uses := 0
	for _, ref := range *rEx.Referrers() {
		switch u := ref.(type) {
		case *ssa.DebugRef:
		case *ssa.Convert:
			// string(r) appended to the destination
			if !isStringType(u.Type()) {
				fail("rune-use", "the rune is converted to something other than a string", u.Pos())
			}
			for _, r2 := range *u.Referrers() {
				if c, isCall := r2.(*ssa.Call); isCall {
					if bi, isB := c.Call.Value.(*ssa.Builtin); isB && bi.Name() == "append" {
						uses++
					}
				}
			}
		case *ssa.Store:
			// runes = append(runes, r): varargs store
			uses++
		case *ssa.Call:
			if callee := u.Call.StaticCallee(); callee != nil && callee.Pkg != nil && callee.Pkg.Pkg.Path() == "unicode/utf8" && callee.Name() == "AppendRune" {
				uses++
				continue
			}
			r.Undecided(rs, name+":rune-use", w.Pos(dec.Pos()), "the decoded rune is handed to a call instead of being appended: whether exactly its UTF-8 encoding is appended cannot be judged by this rule")
			ok = false
		default:
			fail("rune-use", fmt.Sprintf("the decoded rune is used by %T instead of being appended unmodified", u), dec.Pos())
		}
	}
	if uses != 1 {
		fail("append-once", fmt.Sprintf("the decoded rune is appended %d times per iteration, expected exactly once", uses), dec.Pos())
	}
	if ok {
		rs.OK(1)
		rs.Sample(name + ": r, w := DecodeRune(input[i:]); i += w; append(r) once; while i < len(input)")
	}
}

// destinationRulesFor runs R16c on the named destination functions only.
func (x *Ctx) destinationRulesFor(r *core.Result, rs *core.RuleStat, names ...string) {
	tmp := core.NewResult(r.Prop, r.Level, r.Tier)
	trs := tmp.Rule(rs.Rule, rs.Text)
	x.destinationRules(tmp, trs)
	want := map[string]bool{}
	for _, n := range names {
		want[n] = true
	}
	for _, f := range tmp.Findings {
		n := strings.SplitN(f.Key, ":", 2)[0]
		if want[n] {
			r.Findings = append(r.Findings, f)
			rs.Obligations++
		}
	}
	for _, s := range trs.Samples {
		n := strings.SplitN(s, ":", 2)[0]
		if want[n] {
			rs.Instances++
			rs.OK(1)
			rs.Sample(s)
		}
	}
	// functions that passed but whose sample was cut off still count
	if rs.Instances < len(names) {
		for _, n := range names {
			found := false
			for _, f := range tmp.Findings {
				if strings.HasPrefix(f.Key, n+":") {
					found = true
				}
			}
			if x.Func(n) != nil && !found {
				has := false
				for _, s := range rs.Samples {
					if strings.HasPrefix(s, n+":") {
						has = true
					}
				}
				if !has {
					rs.Instances++
					rs.OK(1)
				}
			}
		}
	}
}
