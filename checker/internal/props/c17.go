package props

import (
	"fmt"
	"go/constant"
	"go/token"
	"go/types"
	"strings"

	"golang.org/x/tools/go/ssa"

	"rjverif/internal/core"
	"rjverif/internal/ssarules"
)

// C17 — StdLibCompatible helpers.
func C17(x *Ctx, r *core.Result) {
	w := x.W
	r.Trusted = append(r.Trusted, "utf8.DecodeRune / DecodeRuneInString return (U+FFFD, 1) exactly on a byte that is not part of a valid UTF-8 sequence and (rune, width) otherwise; string(rune) encodes the rune as UTF-8")
	a := r.Rule("R17a", "argument immutability: no store, map update, append or copy through the slice / map argument (or anything derived from it) in StdLibCompatibleSlice / StdLibCompatibleMap; the string/bytes variants never write their input (R16a)")
	funcs := w.SrcFuncs()
	scope := map[*ssa.Function]bool{}
	for _, f := range funcs {
		scope[f] = true
	}
	src := map[ssa.Value]bool{}
	for _, n := range []string{"StdLibCompatibleSlice", "StdLibCompatibleMap"} {
		fn := x.Func(n)
		if fn == nil || len(fn.Params) != 1 {
			r.Undecided(a, n, "-", "function not found")
			continue
		}
		src[fn.Params[0]] = true
		a.Instances++
	}
	t := &ssarules.Taint{Funcs: scope, CG: w.CG(), IsSource: func(v ssa.Value) bool { return src[v] }}
	t.Run()
	nb := 0
	for _, fn := range funcs {
		for _, b := range fn.Blocks {
			for _, ins := range b.Instrs {
				switch v := ins.(type) {
				case *ssa.Store:
					if t.Tainted[v.Addr] {
						nb++
						r.Fail(a, fnKey(fn)+":store", w.Pos(v.Pos()), "writes into the argument value tree")
					}
				case *ssa.MapUpdate:
					if t.Tainted[v.Map] {
						nb++
						r.Fail(a, fnKey(fn)+":mapupdate", w.Pos(v.Pos()), "updates a map of the argument value tree")
					}
				case *ssa.Call:
					if bi, ok := v.Call.Value.(*ssa.Builtin); ok && (bi.Name() == "append" || bi.Name() == "copy" || bi.Name() == "delete") && len(v.Call.Args) > 0 && t.Tainted[v.Call.Args[0]] {
						nb++
						r.Fail(a, fnKey(fn)+":"+bi.Name(), w.Pos(v.Pos()), bi.Name()+" on the argument value tree")
					}
				}
			}
		}
	}
	if nb == 0 {
		a.OK(len(t.Tainted))
		a.Sample(fmt.Sprintf("alias closure of the two container arguments: %d SSA values, none written", len(t.Tainted)))
	}
	x.inputWriteRule(r, a)
	r.CheckFloor(a, 2)

	b := r.Rule("R17b", "coverage and sibling agreement: both container helpers switch on string, []interface{} and map[string]interface{}, apply the matching helper to the value bound by the case, copy every other value unchanged, write into a fresh container of the argument's length; the map helper converts each key with StdLibCompatibleString and stores under the converted key")
	x.typeSwitchRule(r, b, "StdLibCompatibleSlice", false)
	x.typeSwitchRule(r, b, "StdLibCompatibleMap", true)
	r.CheckFloor(b, 2)

	c := r.Rule("R17c", "decoding loop: both string variants call utf8.DecodeRune[InString] on the suffix at i, advance i by exactly the returned width and append exactly the returned rune, once per iteration, until i reaches the length")
	x.decodeLoopRule(r, c, "StdLibCompatibleString", false)
	x.decodeLoopRule(r, c, "StdLibCompatibleStringBytes", true)
	r.CheckFloor(c, 2)

	d := r.Rule("R17d", "bytes variant: destination typestate R16c (existing contents kept, only appended to)")
	x.destinationRulesFor(r, d, "StdLibCompatibleStringBytes", "growBytesSliceCapacity")
	r.CheckFloor(d, 2)
	r.NotDecided = append(r.NotDecided, "idempotence and identity on valid UTF-8 as computed facts (consequences of the trusted DecodeRune summary)",
		"equality with encoding/json's output (follows from C03 plus these rules when no two keys collide after replacement)")
	r.Explain = "structural rules on the SSA of the four helpers"
}

func init() { Registry["C17"] = Prop{"other", C17} }

// typeSwitchRule: R17b.
func (x *Ctx) typeSwitchRule(r *core.Result, rs *core.RuleStat, name string, isMap bool) {
	w := x.W
	fn := x.Func(name)
	if fn == nil {
		r.Undecided(rs, name, "-", "function not found")
		return
	}
	rs.Instances++
	ok := true
	fail := func(k, msg string, pos token.Pos) {
		r.Fail(rs, name+":"+k, w.Pos(pos), msg)
		ok = false
	}
	// fresh container sized by len(arg)
	var out ssa.Value
	for _, b := range fn.Blocks {
		for _, ins := range b.Instrs {
			switch t := ins.(type) {
			case *ssa.MakeSlice:
				if lc, isCall := t.Len.(*ssa.Call); isCall && len(lc.Call.Args) == 1 && lc.Call.Args[0] == ssa.Value(fn.Params[0]) {
					out = t
				} else {
					fail("out-len", "the result slice does not have the argument's length", t.Pos())
				}
			case *ssa.MakeMap:
				out = t
			}
		}
	}
	if out == nil {
		fail("out", "no fresh result container is created", fn.Pos())
		return
	}
	// every store into the result stores the conversion of the element read at the same position / under the same key
	cover := map[string]bool{}
	nStores := 0
	for _, b := range fn.Blocks {
		for _, ins := range b.Instrs {
			switch t := ins.(type) {
			case *ssa.Store:
				ia, isIA := t.Addr.(*ssa.IndexAddr)
				if !isIA {
					continue
				}
				if ia.X != out {
					fail("store-target", "a store goes to something other than the fresh result", t.Pos())
					continue
				}
				nStores++
				var subject ssa.Value
				for _, bb := range fn.Blocks {
					for _, i2 := range bb.Instrs {
						if ld, isLd := i2.(*ssa.UnOp); isLd && ld.Op == token.MUL {
							if sa, isSA := ld.X.(*ssa.IndexAddr); isSA && sa.X == ssa.Value(fn.Params[0]) && sa.Index == ia.Index {
								subject = ld
							}
						}
					}
				}
				if subject == nil {
					fail("store-index", "a result element is stored at an index that is not the index of the element read", t.Pos())
					continue
				}
				if msg := x.elemConv(t.Val, b, subject, cover, map[ssa.Value]bool{}, 0); msg != "" {
					fail("store-value", msg, t.Pos())
				}
			case *ssa.MapUpdate:
				if t.Map != out {
					fail("store-target", "a map store goes to something other than the fresh result", t.Pos())
					continue
				}
				nStores++
				// key must be StdLibCompatibleString(original key)
				kc, isCall := t.Key.(*ssa.Call)
				if !isCall || kc.Call.StaticCallee() == nil || kc.Call.StaticCallee().Name() != "StdLibCompatibleString" || !w.InLib(kc.Call.StaticCallee()) {
					fail("key", "a member is stored under a key that was not converted with StdLibCompatibleString", t.Pos())
					continue
				}
				var subject ssa.Value
				origKey := kc.Call.Args[0]
				if kx, isEx := origKey.(*ssa.Extract); isEx && kx.Index == 1 {
					if nx, isNext := kx.Tuple.(*ssa.Next); isNext {
						if rg, isRange := nx.Iter.(*ssa.Range); isRange && rg.X == ssa.Value(fn.Params[0]) {
							for _, ref := range *nx.Referrers() {
								if vx, isVx := ref.(*ssa.Extract); isVx && vx.Index == 2 {
									subject = vx
								}
							}
						}
					}
				}
				if subject == nil {
					// out[conv(k)] = conv(m[k])
					for _, bb := range fn.Blocks {
						for _, i2 := range bb.Instrs {
							if lk, isLk := i2.(*ssa.Lookup); isLk && lk.X == ssa.Value(fn.Params[0]) && lk.Index == origKey && !lk.CommaOk {
								subject = lk
							}
						}
					}
				}
				if subject == nil {
					fail("key-value", "the converted key is not the key of the member whose value is stored", t.Pos())
					continue
				}
				if msg := x.elemConv(t.Value, b, subject, cover, map[ssa.Value]bool{}, 0); msg != "" {
					fail("store-value", msg, t.Pos())
				}
			}
		}
	}
	if nStores == 0 {
		fail("stores", "nothing is stored into the result", fn.Pos())
	}
	for _, k := range []string{"string", "[]interface{}", "map[string]interface{}", "default"} {
		if !cover[k] {
			fail("case "+k, "no conversion path for values of kind "+k+" (string -> StdLibCompatibleString, []interface{} -> StdLibCompatibleSlice, map[string]interface{} -> StdLibCompatibleMap, anything else copied)", fn.Pos())
		}
	}
	// result is the fresh container
	for _, b := range fn.Blocks {
		if ret, isRet := b.Instrs[len(b.Instrs)-1].(*ssa.Return); isRet && ret.Results[0] != out {
			fail("return", "the helper does not return the fresh container", ret.Pos())
		}
	}
	if ok {
		rs.OK(1)
		rs.Sample(name + ": every stored value is the conversion of the element read (string / []interface{} / map[string]interface{} -> matching helper on the asserted value, anything else copied; inline or through a helper whose returns satisfy the same rule); fresh result")
	}
}

func extractOfTA(ta *ssa.TypeAssert, idx int) *ssa.Extract {
	for _, ref := range *ta.Referrers() {
		if ex, ok := ref.(*ssa.Extract); ok && ex.Index == idx {
			return ex
		}
	}
	return nil
}

// decodeLoopRule: R17c.
func (x *Ctx) decodeLoopRule(r *core.Result, rs *core.RuleStat, name string, bytesVariant bool) {
	w := x.W
	fn := x.Func(name)
	if fn == nil {
		r.Undecided(rs, name, "-", "function not found")
		return
	}
	rs.Instances++
	ok := true
	fail := func(k, msg string, pos token.Pos) {
		r.Fail(rs, name+":"+k, w.Pos(pos), msg)
		ok = false
	}
	var dec *ssa.Call
	for _, b := range fn.Blocks {
		for _, ins := range b.Instrs {
			if c, isCall := ins.(*ssa.Call); isCall {
				if callee := c.Call.StaticCallee(); callee != nil && callee.Pkg != nil && callee.Pkg.Pkg.Path() == "unicode/utf8" && strings.HasPrefix(callee.Name(), "DecodeRune") {
					if dec != nil {
						fail("decode-twice", "more than one decode call", c.Pos())
					}
					dec = c
				}
			}
		}
	}
	if dec == nil {
		fail("decode", "no utf8.DecodeRune call", fn.Pos())
		return
	}
	// argument: input[i:]
	sl, isSl := dec.Call.Args[0].(*ssa.Slice)
	if !isSl || sl.X != ssa.Value(fn.Params[0]) || sl.Low == nil || sl.High != nil {
		fail("suffix", "the rune is not decoded from the suffix input[i:]", dec.Pos())
		return
	}
	iphi, isPhi := sl.Low.(*ssa.Phi)
	if !isPhi {
		fail("index", "the position is not a loop variable", dec.Pos())
		return
	}
	rEx, wEx := extractOf(dec, 0), extractOf(dec, 1)
	if rEx == nil || wEx == nil {
		fail("results", "rune or width result is discarded", dec.Pos())
		return
	}
	// i advances by exactly w
	adv := false
	for _, e := range iphi.Edges {
		if add, isAdd := e.(*ssa.BinOp); isAdd && add.Op == token.ADD && ((add.X == ssa.Value(iphi) && add.Y == ssa.Value(wEx)) || (add.Y == ssa.Value(iphi) && add.X == ssa.Value(wEx))) {
			adv = true
		} else if k, isC := e.(*ssa.Const); isC {
			if k.Int64() != 0 {
				fail("start", "the position does not start at 0", iphi.Pos())
			}
		} else {
			fail("advance", "the position is advanced by something other than the returned width", iphi.Pos())
		}
	}
	if !adv {
		fail("advance", "the position is not advanced by the returned width", iphi.Pos())
	}
	// loop condition i < len(input)
	condOK := false
	for _, ref := range *iphi.Referrers() {
		if be, isBe := ref.(*ssa.BinOp); isBe && be.Op == token.LSS && be.X == ssa.Value(iphi) {
			if lc, isCall := be.Y.(*ssa.Call); isCall && len(lc.Call.Args) == 1 && lc.Call.Args[0] == ssa.Value(fn.Params[0]) {
				condOK = true
			}
		}
	}
	if !condOK {
		fail("bound", "the loop does not run while i < len(input)", iphi.Pos())
	}
	// every trip round the loop emits exactly the UTF-8 encoding of the decoded rune, once: either the rune itself
	// (append(runes, r), utf8.AppendRune(buf, r), append(buf, string(r)...)), or the bytes input[i:i+w] where they are
	// that encoding (anywhere except r == RuneError with w == 1), or U+FFFD where r is RuneError
	head := iphi.Block()
	inBody := func(b *ssa.BasicBlock) bool { return b != head && head.Dominates(b) && canReach(b, head) }
	type emission struct {
		kind string // "rune", "bytes", "fffd", "other"
		pos  token.Pos
	}
	isFFFD := func(v ssa.Value) bool {
		if k, isK := constBig(v); isK && k.Int64() == 0xFFFD {
			return true
		}
		if c, isC := v.(*ssa.Const); isC && c.Value != nil && c.Value.Kind() == constant.String && constant.StringVal(c.Value) == "\uFFFD" {
			return true
		}
		return false
	}
	classify := func(ins ssa.Instruction) *emission {
		c, isCall := ins.(*ssa.Call)
		if !isCall {
			return nil
		}
		if bi, isB := c.Call.Value.(*ssa.Builtin); isB && bi.Name() == "append" && len(c.Call.Args) == 2 {
			arg := c.Call.Args[1]
			// append(runes, r): the variadic argument is a one-element array holding r
			if sl, isSl := arg.(*ssa.Slice); isSl {
				if al, isAl := sl.X.(*ssa.Alloc); isAl {
					for _, ref := range *al.Referrers() {
						if ia, isIA := ref.(*ssa.IndexAddr); isIA {
							for _, r2 := range *ia.Referrers() {
								if st, isSt := r2.(*ssa.Store); isSt {
									switch {
									case st.Val == ssa.Value(rEx):
										return &emission{"rune", c.Pos()}
									case isFFFD(st.Val):
										return &emission{"fffd", c.Pos()}
									}
									return &emission{"other", c.Pos()}
								}
							}
						}
					}
				}
				// append(buf, input[i:i+w]...)
				if sl.X == ssa.Value(fn.Params[0]) && sl.Low == ssa.Value(iphi) {
					if add, isAdd := sl.High.(*ssa.BinOp); isAdd && add.Op == token.ADD && ((add.X == ssa.Value(iphi) && add.Y == ssa.Value(wEx)) || (add.Y == ssa.Value(iphi) && add.X == ssa.Value(wEx))) {
						return &emission{"bytes", c.Pos()}
					}
				}
				return &emission{"other", c.Pos()}
			}
			// append(buf, string(r)...) / append(buf, "\uFFFD"...)
			if cv, isCv := arg.(*ssa.Convert); isCv && cv.X == ssa.Value(rEx) && isStringType(cv.Type()) {
				return &emission{"rune", c.Pos()}
			}
			if isFFFD(arg) {
				return &emission{"fffd", c.Pos()}
			}
			return &emission{"other", c.Pos()}
		}
		if callee := c.Call.StaticCallee(); callee != nil && callee.Pkg != nil && callee.Pkg.Pkg.Path() == "unicode/utf8" && (callee.Name() == "AppendRune" || callee.Name() == "EncodeRune") && len(c.Call.Args) == 2 {
			switch {
			case c.Call.Args[1] == ssa.Value(rEx):
				return &emission{"rune", c.Pos()}
			case isFFFD(c.Call.Args[1]):
				return &emission{"fffd", c.Pos()}
			}
			return &emission{"other", c.Pos()}
		}
		return nil
	}
	// other uses of the rune (arithmetic on it, passing it elsewhere) would mean it is not emitted unmodified
	for _, ref := range *rEx.Referrers() {
		switch u := ref.(type) {
		case *ssa.DebugRef, *ssa.Store, *ssa.Convert:
		case *ssa.BinOp:
			if !isCmpOp(u.Op) {
				fail("rune-use", "the decoded rune is modified before use", u.Pos())
			}
		case *ssa.Call:
			if classify(u) == nil {
				r.Undecided(rs, name+":rune-use", w.Pos(dec.Pos()), "the decoded rune is handed to a call instead of being appended: whether exactly its UTF-8 encoding is appended cannot be judged by this rule")
				ok = false
			}
		default:
			fail("rune-use", fmt.Sprintf("the decoded rune is used by %T instead of being appended unmodified", u), dec.Pos())
		}
	}
	type pfacts struct{ rErr, wOne int } // +1 known true, -1 known false
	var walk func(b *ssa.BasicBlock, f pfacts, n int, bad string, depth int)
	paths, badPaths := 0, 0
	walk = func(b *ssa.BasicBlock, f pfacts, n int, bad string, depth int) {
		if depth > 40 {
			fail("paths", "the loop body is too branched to enumerate", dec.Pos())
			return
		}
		if b == head {
			paths++
			if n != 1 && bad == "" {
				bad = fmt.Sprintf("one trip round the loop appends %d times, expected exactly once", n)
			}
			if bad != "" {
				badPaths++
				if badPaths <= 2 {
					fail("append-once", bad, dec.Pos())
				}
			}
			return
		}
		if !inBody(b) {
			return // leaves the loop: not a trip round it
		}
		for _, ins := range b.Instrs {
			if e := classify(ins); e != nil {
				n++
				switch e.kind {
				case "bytes":
					if !(f.rErr == -1 || f.wOne == -1) {
						bad = "input[i:i+w] is copied where it may be an invalid byte (r == RuneError with w == 1): the replacement character must be written there"
					}
				case "fffd":
					if f.rErr != 1 {
						bad = "U+FFFD is written where the decoded rune may be something else"
					}
				case "other":
					bad = "something other than the decoded rune is appended"
				}
			}
		}
		if iff, isIf := b.Instrs[len(b.Instrs)-1].(*ssa.If); isIf {
			for i, s2 := range b.Succs {
				nf := f
				if be, isBe := iff.Cond.(*ssa.BinOp); isBe && (be.Op == token.EQL || be.Op == token.NEQ) {
					truth := (be.Op == token.EQL) == (i == 0)
					v := -1
					if truth {
						v = 1
					}
					switch {
					case be.X == ssa.Value(rEx) && isFFFD(be.Y):
						nf.rErr = v
					case be.X == ssa.Value(wEx):
						if k, isK := constBig(be.Y); isK && k.Int64() == 1 {
							nf.wOne = v
						}
					}
				}
				walk(s2, nf, n, bad, depth+1)
			}
			return
		}
		for _, s2 := range b.Succs {
			walk(s2, f, n, bad, depth+1)
		}
	}
	for _, s2 := range head.Succs {
		if inBody(s2) {
			walk(s2, pfacts{}, 0, "", 0)
		}
	}
	// emissions in the head block itself (for { r, w := …; append; if i >= len { break } } shapes) are not handled
	if paths == 0 {
		fail("append-once", "no complete trip round the decoding loop found", dec.Pos())
	}
	if ok {
		rs.OK(1)
		rs.Sample(fmt.Sprintf("%s: r, w := DecodeRune(input[i:]); i += w; every one of the %d ways round the loop appends exactly the encoding of r once; while i < len(input)", name, paths))
	}
}

// destinationRulesFor runs R16c on the named destination functions only.
func (x *Ctx) destinationRulesFor(r *core.Result, rs *core.RuleStat, names ...string) {
	tmp := core.NewResult(r.Prop, r.Level, r.Tier)
	trs := tmp.Rule(rs.Rule, rs.Text)
	x.destinationRules(tmp, trs)
	want := map[string]bool{}
	for _, n := range names {
		want[n] = true
	}
	for _, f := range tmp.Findings {
		n := strings.SplitN(f.Key, ":", 2)[0]
		if want[n] {
			r.Findings = append(r.Findings, f)
			rs.Obligations++
		}
	}
	for _, s := range trs.Samples {
		n := strings.SplitN(s, ":", 2)[0]
		if want[n] {
			rs.Instances++
			rs.OK(1)
			rs.Sample(s)
		}
	}
	// functions that passed but whose sample was cut off still count
	if rs.Instances < len(names) {
		for _, n := range names {
			found := false
			for _, f := range tmp.Findings {
				if strings.HasPrefix(f.Key, n+":") {
					found = true
				}
			}
			if x.Func(n) != nil && !found {
				has := false
				for _, s := range rs.Samples {
					if strings.HasPrefix(s, n+":") {
						has = true
					}
				}
				if !has {
					rs.Instances++
					rs.OK(1)
				}
			}
		}
	}
}

var stdlibConv = map[string]string{"string": "StdLibCompatibleString", "[]interface{}": "StdLibCompatibleSlice", "map[string]interface{}": "StdLibCompatibleMap"}

// elemConv: the value o, as seen at the end of block at, is the stdlib-compatible conversion of the element s:
//   - MakeInterface(H(v)) where v is s asserted to T, H is the helper for T, under the assertion having succeeded;
//   - s itself, where the assertions to all three types have failed;
//   - G(s) for a library function G all of whose returns satisfy this rule for its parameter;
//   - a phi of such values (each judged at the predecessor it comes from).
//
// cover collects which kinds have a conversion path.
func (x *Ctx) elemConv(o ssa.Value, at *ssa.BasicBlock, s ssa.Value, cover map[string]bool, seen map[ssa.Value]bool, depth int) string {
	if depth > 3 {
		return "conversion helpers nest too deeply to follow"
	}
	switch t := o.(type) {
	case *ssa.Phi:
		if seen[t] {
			return ""
		}
		seen[t] = true
		for i, e := range t.Edges {
			if msg := x.elemConv(e, t.Block().Preds[i], s, cover, seen, depth); msg != "" {
				return msg
			}
		}
		return ""
	case *ssa.MakeInterface:
		c, ok := t.X.(*ssa.Call)
		if !ok || c.Call.StaticCallee() == nil || len(c.Call.Args) != 1 {
			return "a stored value is not the result of a conversion helper applied to the element"
		}
		bound := c.Call.Args[0]
		var ta *ssa.TypeAssert
		if ex, isEx := bound.(*ssa.Extract); isEx && ex.Index == 0 {
			ta, _ = ex.Tuple.(*ssa.TypeAssert)
		} else {
			ta, _ = bound.(*ssa.TypeAssert)
		}
		if ta == nil || ta.X != s {
			return "a conversion helper is applied to something other than the element asserted to its type"
		}
		ts := strings.ReplaceAll(types.TypeString(ta.AssertedType, nil), "any", "interface{}")
		want, known := stdlibConv[ts]
		if !known {
			return "unexpected type case " + ts
		}
		if c.Call.StaticCallee().Name() != want || !x.W.InLib(c.Call.StaticCallee()) {
			return fmt.Sprintf("values of type %s are converted by %s, must be %s", ts, c.Call.StaticCallee().Name(), want)
		}
		if ta.CommaOk {
			tb, _ := assertBranches(ta)
			if tb == nil || !(tb == c.Block() || tb.Dominates(c.Block())) {
				return "a conversion is applied without the type assertion having succeeded"
			}
		}
		cover[ts] = true
		return ""
	case *ssa.Call:
		g := t.Call.StaticCallee()
		if g == nil || !x.W.InLib(g) || len(g.Blocks) == 0 || len(t.Call.Args) != 1 || t.Call.Args[0] != s || len(g.Params) != 1 {
			return "a stored value is not a conversion of the element read"
		}
		sub := map[string]bool{}
		n := 0
		for _, b := range g.Blocks {
			if ret, ok := b.Instrs[len(b.Instrs)-1].(*ssa.Return); ok {
				if len(ret.Results) != 1 {
					return g.Name() + " does not return a single value"
				}
				n++
				if msg := x.elemConv(ret.Results[0], b, g.Params[0], sub, map[ssa.Value]bool{}, depth+1); msg != "" {
					return "in " + g.Name() + ": " + msg
				}
			}
		}
		if n == 0 {
			return g.Name() + " never returns"
		}
		for k := range sub {
			cover[k] = true
		}
		return ""
	}
	if o == s {
		// the unconverted copy is only allowed where the three assertions have failed
		for ts := range stdlibConv {
			okT := false
			for _, ref := range *s.Referrers() {
				ta, isTA := ref.(*ssa.TypeAssert)
				if !isTA || !ta.CommaOk || strings.ReplaceAll(types.TypeString(ta.AssertedType, nil), "any", "interface{}") != ts {
					continue
				}
				if _, fb := assertBranches(ta); fb != nil && (fb == at || fb.Dominates(at)) {
					okT = true
				}
			}
			if !okT {
				return "the element is copied unconverted on a path where it may be a " + ts
			}
		}
		cover["default"] = true
		return ""
	}
	return "a stored value is not a conversion of the element read"
}

// assertBranches: for `v, ok := x.(T); if ok`, the blocks taken when the assertion succeeded / failed.
func assertBranches(ta *ssa.TypeAssert) (tb, fb *ssa.BasicBlock) {
	for _, ref := range *ta.Referrers() {
		ex, ok := ref.(*ssa.Extract)
		if !ok || ex.Index != 1 {
			continue
		}
		for _, r2 := range *ex.Referrers() {
			if iff, ok := r2.(*ssa.If); ok {
				b := iff.Block()
				// only unambiguous when the successors are not shared with another route
				if len(b.Succs[0].Preds) == 1 {
					tb = b.Succs[0]
				}
				if len(b.Succs[1].Preds) == 1 {
					fb = b.Succs[1]
				}
			}
		}
	}
	return
}
