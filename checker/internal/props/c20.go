package props

import (
	"fmt"
	"go/ast"
	"go/constant"
	"go/token"
	"go/types"
	"sort"
	"strings"

	"golang.org/x/tools/go/callgraph"
	"golang.org/x/tools/go/ssa"

	"rjverif/internal/core"
	"rjverif/internal/ssarules"
)

// ---- R20b -----------------------------------------------------------------------------------------

// exactTokenFuncs: exported functions whose []byte/string argument is the exact token, not the unconsumed remainder.
var exactTokenFuncs = map[string]bool{"UnescapeStringContent": true, "StdLibCompatibleString": true, "StdLibCompatibleStringBytes": true,
	"StdLibCompatibleSlice": true, "StdLibCompatibleMap": true}

// remainderAllocs: allocations whose size derives from len() of an alias of the unconsumed remainder.
func remainderAllocs(funcs []*ssa.Function, cg *callgraph.Graph, sources map[ssa.Value]bool) (hits []sinkHit, nAllocs int) {
	scope := map[*ssa.Function]bool{}
	for _, f := range funcs {
		scope[f] = true
	}
	alias := &ssarules.Taint{Funcs: scope, CG: cg, IsSource: func(v ssa.Value) bool { return sources[v] }, SliceHighBreaks: true,
		ThroughLoad: func(t types.Type) bool { return false }}
	alias.Run()
	// len(alias)
	lens := map[ssa.Value]bool{}
	for _, fn := range funcs {
		for _, b := range fn.Blocks {
			for _, ins := range b.Instrs {
				if c, ok := ins.(*ssa.Call); ok {
					if bi, ok := c.Call.Value.(*ssa.Builtin); ok && bi.Name() == "len" && len(c.Call.Args) == 1 && alias.Tainted[c.Call.Args[0]] {
						lens[c] = true
					}
				}
			}
		}
	}
	num := &ssarules.Taint{Funcs: scope, CG: cg, IsSource: func(v ssa.Value) bool { return lens[v] }, Arith: true,
		ThroughLoad: func(t types.Type) bool { return false }}
	num.Run()
	origin := func(v ssa.Value) string {
		for _, c := range num.Why(v) {
			if lens[c] {
				if ci, ok := c.(*ssa.Call); ok {
					return ci.Parent().Name()
				}
			}
		}
		return "?"
	}
	for _, fn := range funcs {
		n := 0
		for _, b := range fn.Blocks {
			for _, ins := range b.Instrs {
				switch ins := ins.(type) {
				case *ssa.MakeSlice:
					nAllocs++
					if num.Tainted[ins.Len] || num.Tainted[ins.Cap] {
						n++
						v := ins.Len
						if !num.Tainted[v] {
							v = ins.Cap
						}
						hits = append(hits, sinkHit{fmt.Sprintf("%s:make#%d<-len(data) in %s", fn.Name(), n, origin(v)), ins.Pos(),
							"allocation sized by the length of the unconsumed remainder of the input (taken in " + origin(v) + "): reading one small token allocates as much as everything that follows it"})
					}
				case *ssa.MakeMap:
					nAllocs++
					if ins.Reserve != nil && num.Tainted[ins.Reserve] {
						n++
						hits = append(hits, sinkHit{fmt.Sprintf("%s:makemap#%d<-len(data) in %s", fn.Name(), n, origin(ins.Reserve)), ins.Pos(), "map sized by the length of the unconsumed remainder of the input"})
					}
				}
			}
		}
	}
	return
}

func (x *Ctx) remainderSources(funcs []*ssa.Function, roots map[*ssa.Function]bool) map[ssa.Value]bool {
	src := inputParams(funcs, func(fn *ssa.Function) bool { return roots[fn] && !exactTokenFuncs[fn.Name()] })
	// of a handler callback's parameters only the last []byte (data) is the unconsumed remainder; the key is an exact token
	for _, fn := range funcs {
		if fn.Name() != "HandleObjectValue" && fn.Name() != "HandleArrayValue" {
			continue
		}
		var last ssa.Value
		for _, p := range fn.Params {
			if isByteSliceT(p.Type()) {
				delete(src, p)
				last = p
			}
		}
		if last != nil {
			src[last] = true
		}
	}
	return src
}

// ---- R20a -----------------------------------------------------------------------------------------

type hintUse struct {
	fn    *ssa.Function
	load  *ssa.UnOp
	field int
	// where the use takes effect and on which reader: the load itself, or — when the load sits in a private helper
	// whose result reaches the capacity — the call of that helper in fn, with the reader it was called on
	at   ssa.Instruction
	base ssa.Value
}

// hintFields finds the int fields of ValueReader whose value reaches a capacity operand (directly or through
// another hint field) and the loads through which it does.
func (x *Ctx) hintFields() (st *types.Struct, uses []hintUse, hints map[int]bool) {
	w := x.W
	obj := w.Root.Types.Scope().Lookup("ValueReader")
	if obj == nil {
		return nil, nil, nil
	}
	st, _ = obj.Type().Underlying().(*types.Struct)
	if st == nil {
		return nil, nil, nil
	}
	hints = map[int]bool{}
	funcs := w.SrcFuncs()
	isVR := func(t types.Type) bool {
		s := structOfType(t)
		return s == st
	}
	// backward from capacity operands
	var trace func(v ssa.Value, seen map[ssa.Value]bool, onLoad func(u *ssa.UnOp, fa *ssa.FieldAddr))
	trace = func(v ssa.Value, seen map[ssa.Value]bool, onLoad func(u *ssa.UnOp, fa *ssa.FieldAddr)) {
		if v == nil || seen[v] {
			return
		}
		seen[v] = true
		switch v := v.(type) {
		case *ssa.Phi:
			for _, e := range v.Edges {
				trace(e, seen, onLoad)
			}
		case *ssa.Convert:
			trace(v.X, seen, onLoad)
		case *ssa.BinOp:
			trace(v.X, seen, onLoad)
			trace(v.Y, seen, onLoad)
		case *ssa.UnOp:
			if v.Op == token.MUL {
				if fa, ok := v.X.(*ssa.FieldAddr); ok && isVR(fa.X.Type()) {
					onLoad(v, fa)
				}
			}
		case *ssa.Call:
			// what a private helper returns (`func (h *T) sliceSizeHint() int { … return h.lastSliceSize }`)
			if callee := v.Call.StaticCallee(); callee != nil && x.isPrivateHelper(callee) && callee.Signature.Results().Len() == 1 {
				for _, b := range callee.Blocks {
					if ret, ok := b.Instrs[len(b.Instrs)-1].(*ssa.Return); ok {
						trace(ret.Results[0], seen, onLoad)
					}
				}
			}
		}
	}
	for changed := true; changed; {
		changed = false
		for _, fn := range funcs {
			for _, b := range fn.Blocks {
				for _, ins := range b.Instrs {
					var caps []ssa.Value
					switch ins := ins.(type) {
					case *ssa.MakeMap:
						caps = append(caps, ins.Reserve)
					case *ssa.MakeSlice:
						caps = append(caps, ins.Cap)
					case *ssa.Store:
						// store into a hint field: its value operand is a capacity source too
						if fa, ok := ins.Addr.(*ssa.FieldAddr); ok && isVR(fa.X.Type()) && hints[fa.Field] {
							caps = append(caps, ins.Val)
						}
					}
					for _, c := range caps {
						trace(c, map[ssa.Value]bool{}, func(u *ssa.UnOp, fa *ssa.FieldAddr) {
							if !hints[fa.Field] {
								hints[fa.Field] = true
								changed = true
							}
						})
					}
				}
			}
		}
	}
	// uses: loads of hint fields that reach a capacity or another hint field's store
	seenUse := map[*ssa.UnOp]bool{}
	for _, fn := range funcs {
		for _, b := range fn.Blocks {
			for _, ins := range b.Instrs {
				var caps []ssa.Value
				switch ins := ins.(type) {
				case *ssa.MakeMap:
					caps = append(caps, ins.Reserve)
				case *ssa.MakeSlice:
					caps = append(caps, ins.Cap)
				case *ssa.Store:
					if fa, ok := ins.Addr.(*ssa.FieldAddr); ok && isVR(fa.X.Type()) && hints[fa.Field] {
						caps = append(caps, ins.Val)
					}
				}
				for _, c := range caps {
					fnn := fn
					trace(c, map[ssa.Value]bool{}, func(u *ssa.UnOp, fa *ssa.FieldAddr) {
						if seenUse[u] {
							return
						}
						seenUse[u] = true
						if u.Parent() == fnn {
							uses = append(uses, hintUse{fn: fnn, load: u, field: fa.Field, at: u, base: fa.X})
							return
						}
						// the load sits in a private helper: the use is the helper's call in fnn
						h := u.Parent()
						pi := -1
						for i, prm := range h.Params {
							if unspill(fa.X) == ssa.Value(prm) {
								pi = i
							}
						}
						lifted := false
						if pi >= 0 {
							for _, bb := range fnn.Blocks {
								for _, in2 := range bb.Instrs {
									if call, ok := in2.(*ssa.Call); ok && call.Call.StaticCallee() == h && pi < len(call.Call.Args) {
										uses = append(uses, hintUse{fn: fnn, load: u, field: fa.Field, at: call, base: call.Call.Args[pi]})
										lifted = true
									}
								}
							}
						}
						if !lifted {
							uses = append(uses, hintUse{fn: h, load: u, field: fa.Field, at: u, base: fa.X})
						}
					})
				}
			}
		}
	}
	return
}

// isRefreshValue: constant, or len(...) possibly through phi/convert.
func isRefreshValue(v ssa.Value, seen map[ssa.Value]bool) bool {
	if seen[v] {
		return true
	}
	seen[v] = true
	switch v := v.(type) {
	case *ssa.Const:
		return true
	case *ssa.Call:
		if bi, ok := v.Call.Value.(*ssa.Builtin); ok && bi.Name() == "len" {
			return true
		}
	case *ssa.Convert:
		return isRefreshValue(v.X, seen)
	case *ssa.Phi:
		for _, e := range v.Edges {
			if !isRefreshValue(e, seen) {
				return false
			}
		}
		return true
	}
	return false
}

// hintRules: R20a.
func (x *Ctx) hintRules(r *core.Result, rs *core.RuleStat) {
	w := x.W
	st, uses, hints := x.hintFields()
	if st == nil {
		r.Undecided(rs, "ValueReader", "-", "type ValueReader not found")
		return
	}
	var hnames []string
	for f := range hints {
		hnames = append(hnames, st.Field(f).Name())
	}
	sort.Strings(hnames)
	r.Notes = append(r.Notes, "size-hint fields found by flow into make capacities: "+strings.Join(hnames, " "))
	if len(hints) < 3 {
		r.Undecided(rs, "hints", "-", fmt.Sprintf("only %d size-hint fields found (expected >= 3: the prediction mechanism is the property's anchor)", len(hints)))
	}
	funcs := w.SrcFuncs()
	// all stores per hint field, seen from the functions that perform them directly or through private helpers
	// (a helper whose callers are all library functions is accounted for in its callers, not on its own)
	type storeInfo struct {
		fn *ssa.Function
		fs FieldStore
	}
	stores := map[int][]storeInfo{}
	for _, fn := range funcs {
		if x.absorbedHelper(fn) {
			continue
		}
		for _, fs := range x.fieldStores(fn) {
			fa, ok := fs.Store.Addr.(*ssa.FieldAddr)
			if ok && structOfType(fa.X.Type()) == st && hints[fa.Field] {
				stores[fa.Field] = append(stores[fa.Field], storeInfo{fn, fs})
			}
		}
	}
	// borrow function: returns *ValueReader obtained from the pool / fresh
	isBorrowResult := func(v *RX) *ssa.Function {
		if v != nil && v.Call != nil {
			ri := v.Idx
			if ri < 0 {
				ri = 0
			}
			if callee := v.Call.Call.StaticCallee(); callee != nil && w.InLib(callee) && ri < callee.Signature.Results().Len() && (v.Idx >= 0 || callee.Signature.Results().Len() == 1) && structOfType(callee.Signature.Results().At(ri).Type()) == st {
				return callee
			}
		}
		return nil
	}
	for f := range hints {
		name := st.Field(f).Name()
		ss := stores[f]
		if len(ss) == 0 {
			rs.Instances++
			rs.OK(1)
			rs.Sample("field " + name + ": never written, so it is the constant 0")
			continue
		}
		// only constants are ever stored: the field cannot carry a size from one document to the next
		allConst := true
		for _, s := range ss {
			if _, isConst := s.fs.Val.constInt(); !isConst {
				allConst = false
			}
		}
		if allConst {
			rs.Instances++
			rs.OK(1)
			rs.Sample("field " + name + ": only constants are stored into it")
			continue
		}
		// child-only: every store's base is a borrowed child (in the parent) or the child under construction (in the borrow function)
		childOnly := true
		var borrowFn *ssa.Function
		for _, s := range ss {
			if bf := isBorrowResult(s.fs.Base); bf != nil {
				borrowFn = bf
				continue
			}
			// a store of a constant (a Reset method clearing the hint) carries no size over: harmless wherever it is
			if _, isConst := s.fs.Val.constInt(); isConst && !(s.fn.Signature.Results().Len() == 1 && structOfType(s.fn.Signature.Results().At(0).Type()) == st) {
				continue
			}
			// inside a borrow function: base is the value it returns
			if s.fn.Signature.Results().Len() == 1 && structOfType(s.fn.Signature.Results().At(0).Type()) == st && len(s.fn.Params) > 0 && !s.fs.Base.isLeaf(s.fn.Params[0]) {
				if borrowFn == nil {
					borrowFn = s.fn
				}
				continue
			}
			childOnly = false
		}
		if childOnly && borrowFn != nil {
			rs.Instances++
			// the borrow function must overwrite the field with a refresh value on every path to its return
			ok := true
			for _, b := range borrowFn.Blocks {
				ret, isRet := b.Instrs[len(b.Instrs)-1].(*ssa.Return)
				if !isRet {
					continue
				}
				found := false
				for _, fs := range x.fieldStores(borrowFn) {
					if fs.Field == name && fs.Always && fs.Base.isLeaf(ret.Results[0]) && (fs.At == b || fs.At.Dominates(b)) && isRefreshRX(fs.Val) {
						found = true
					}
				}
				// a reader allocated right here (`&ValueReader{…}`) starts with the hint at zero; it stays a refresh
				// value if nothing but refresh values is stored into it
				if al, isNew := ret.Results[0].(*ssa.Alloc); isNew && al.Heap && !found {
					found = true
					for _, fs := range x.fieldStores(borrowFn) {
						if fs.Field == name && fs.Base.isLeaf(al) && !isRefreshRX(fs.Val) {
							found = false
						}
					}
				}
				if !found {
					ok = false
				}
			}
			if !ok {
				r.Fail(rs, "hint "+name+":borrow", w.Pos(borrowFn.Pos()), "a size hint written by the parent is not reset on every borrow of a pooled child: a recycled child keeps the hint of an earlier, larger sibling")
			} else {
				rs.OK(1)
				rs.Sample("field " + name + ": written only on borrowed children; " + borrowFn.Name() + " resets it on every borrow")
			}
			continue
		}
		// self field: every use must be followed on every path to the method's exits by a refresh store on the same receiver
		for _, u := range uses {
			if u.field != f {
				continue
			}
			rs.Instances++
			key := fmt.Sprintf("%s:hint %s", fnKey(u.fn), name)
			if msg := x.refreshPostDominates(u.fn, u.at, u.base, f); msg != "" {
				r.Fail(rs, key, w.Pos(u.load.Pos()), "size hint "+name+" is used here to size an allocation but "+msg)
			} else {
				rs.OK(1)
				rs.Sample(key + ": refreshed (constant or len of the new container) on every path from its use to the exits")
			}
		}
	}
}

func fnKey(fn *ssa.Function) string {
	if fn.Signature.Recv() != nil {
		if n, ok := derefNamed(fn.Signature.Recv().Type()); ok {
			return n.Obj().Name() + "." + fn.Name()
		}
	}
	return fn.Name()
}

// refreshPostDominates: every path from the load to a function exit passes a store to field f of base with a refresh value.
func (x *Ctx) refreshPostDominates(fn *ssa.Function, load ssa.Instruction, base ssa.Value, f int) string {
	// refresh points: direct stores, and calls of private helpers that perform such a store on every path
	viaHelper := map[ssa.Instruction]bool{}
	ubase := unspill(base)
	for _, fs := range x.fieldStores(fn) {
		fa, ok := fs.Store.Addr.(*ssa.FieldAddr)
		if !ok || fa.Field != f || !fs.Always || !fs.Base.isLeaf(ubase) || !isRefreshRX(fs.Val) {
			continue
		}
		if fs.At != nil && fs.Idx < len(fs.At.Instrs) {
			if _, isCall := fs.At.Instrs[fs.Idx].(*ssa.Call); isCall {
				viaHelper[fs.At.Instrs[fs.Idx]] = true
			}
		}
	}
	isRefresh := func(ins ssa.Instruction) bool {
		if viaHelper[ins] {
			return true
		}
		s, ok := ins.(*ssa.Store)
		if !ok {
			return false
		}
		fa, ok := s.Addr.(*ssa.FieldAddr)
		return ok && fa.Field == f && sameObject(fa.X, base) && isRefreshValue(s.Val, map[ssa.Value]bool{})
	}
	type pos struct {
		b *ssa.BasicBlock
		i int
	}
	start := pos{load.Block(), 0}
	for i, ins := range load.Block().Instrs {
		if ins == load {
			start.i = i + 1
		}
	}
	seenB := map[*ssa.BasicBlock]bool{}
	var walk func(p pos) string
	walk = func(p pos) string {
		for i := p.i; i < len(p.b.Instrs); i++ {
			ins := p.b.Instrs[i]
			if isRefresh(ins) {
				return ""
			}
			switch ins := ins.(type) {
			case *ssa.Return:
				return "a path reaches the return at " + x.W.Pos(ins.Pos()) + " without refreshing it: the stale value is paid again by the next container, whatever its size"
			case *ssa.Panic:
				return ""
			}
		}
		for _, s := range p.b.Succs {
			if seenB[s] {
				continue
			}
			seenB[s] = true
			if msg := walk(pos{s, 0}); msg != "" {
				return msg
			}
		}
		return ""
	}
	return walk(start)
}

// C20 — memory cost is linear in input size.
func C20(x *Ctx, r *core.Result) {
	r.Trusted = append(r.Trusted, "flow-insensitive value-flow closure over go/ssa; append's amortised growth; sync.Pool semantics")
	w := x.W
	a := r.Rule("R20a", "hint refresh discipline: every ValueReader size hint (an int field whose value reaches a capacity operand of make) is overwritten with a constant or the length of the container just built on every path from each use to the method's exits; hints written by a parent are reset on every borrow")
	x.hintRules(r, a)
	r.CheckFloor(a, 4)

	b := r.Rule("R20b", "no allocation is sized by the length of the unconsumed remainder of the input (len of any alias of the data parameter of a read-the-first-value function, followed through arithmetic and calls)")
	funcs := w.SrcFuncs()
	roots := x.apiRootSet()
	src := x.remainderSources(funcs, roots)
	hits, nAllocs := remainderAllocs(funcs, w.CG(), src)
	for _, h := range hits {
		r.Fail(b, h.Key, w.Pos(h.Pos), h.Msg)
	}
	b.Instances = len(src)
	b.OK(nAllocs)
	b.Sample(fmt.Sprintf("%d remainder parameters, %d make sites examined, %d sized by the remainder", len(src), nAllocs, len(hits)))
	r.CheckFloor(b, 30)
	pc := r.Rule("R20b+", "positive control: R20b must fire on /verif/selftest/remainder (2 offending allocations) and stay silent on the bounded key slice")
	x.positiveControlRemainder(r, pc)

	c := r.Rule("R20c", "stack growth: after every push that grows it, the stack is at most twice as long as the depth reached plus a constant (exact or geometric growth) — hence linear in the nesting depth and in the input length")
	x.stackRules(r, c, true)
	x.wrapperSymmetry(r, c, bufferWrappers...)
	r.CheckFloor(c, 30)
	r.NotDecided = append(r.NotDecided, "the asymptotic bound itself (total allocation <= c * input length + c' per call)", "amortisation of append and of growBytesSliceCapacity once the requested size is legitimate", "garbage produced by sync.Pool misses")
	r.Explain = "necessary conditions of linear memory decided structurally: a hint that survives its use is paid again by the next container regardless of its size; a remainder-sized scratch makes nested strings quadratic; neither rule bounds how much a legitimate request over-allocates"
}

func init() { Registry["C20"] = Prop{"other", C20} }

func (x *Ctx) positiveControlRemainder(r *core.Result, rs *core.RuleStat) {
	prog, sps, _, err := core.LoadAny(x.selftestDir(), "./remainder")
	if err != nil {
		r.Undecided(rs, "selftest/remainder", "-", "cannot load the positive control: "+err.Error())
		return
	}
	funcs := core.FuncsOf(prog, sps...)
	roots := map[*ssa.Function]bool{}
	for _, f := range funcs {
		if ast.IsExported(f.Name()) {
			roots[f] = true
		}
	}
	src := inputParams(funcs, func(fn *ssa.Function) bool { return roots[fn] })
	hits, _ := remainderAllocs(funcs, nil, src)
	fired := map[string]bool{}
	for _, h := range hits {
		for _, n := range []string{"ReadThing", "ReadTail", "ReadKey"} {
			if strings.Contains(h.Key, "in "+n) {
				fired[n] = true
			}
		}
	}
	rs.Instances = len(funcs)
	for _, want := range []string{"ReadThing", "ReadTail"} {
		if !fired[want] {
			r.Undecided(rs, "selftest:"+want, "-", "the remainder-size rule did not fire on the positive control "+want+": the rule is broken")
		} else {
			rs.OK(1)
		}
	}
	if fired["ReadKey"] {
		r.Undecided(rs, "selftest:ReadKey", "-", "the remainder-size rule fired on a bounded sub-slice: the rule is broken")
	} else {
		rs.OK(1)
	}
}

var _ = constant.MakeBool

// sameObject: the two pointer values denote the same object: identical SSA values, or loads of the same
// local cell that is written exactly once (a parameter spilled because a closure captures it).
func sameObject(a, b ssa.Value) bool {
	if a == b {
		return true
	}
	la, ok1 := a.(*ssa.UnOp)
	lb, ok2 := b.(*ssa.UnOp)
	if !ok1 || !ok2 || la.Op != token.MUL || lb.Op != token.MUL || la.X != lb.X {
		return false
	}
	al, ok := la.X.(*ssa.Alloc)
	if !ok {
		return false
	}
	stores := 0
	for _, ref := range *al.Referrers() {
		switch r := ref.(type) {
		case *ssa.Store:
			if r.Addr == ssa.Value(al) {
				stores++
			}
		}
	}
	return stores == 1
}

// isRefreshRX: a constant or the length of something (possibly merged by phis) — never a value carried over.
func isRefreshRX(v *RX) bool {
	if v == nil || v.Load != nil || v.X != nil {
		return false
	}
	if v.Call != nil {
		return false
	}
	return isRefreshValue(v.V, map[ssa.Value]bool{})
}

// absorbedHelper: a private helper all of whose callers are static calls from library functions — the inline view
// (fieldStores) accounts for what it does in each caller's frame.
func (x *Ctx) absorbedHelper(fn *ssa.Function) bool {
	if !x.isPrivateHelper(fn) {
		return false
	}
	node := x.W.CG().Nodes[fn]
	if node == nil || len(node.In) == 0 {
		return false
	}
	for _, e := range node.In {
		c := e.Caller.Func
		if c == nil || !x.W.InLib(c) {
			return false
		}
		call, ok := e.Site.(*ssa.Call)
		if !ok || call.Call.StaticCallee() != fn {
			return false
		}
	}
	return true
}
