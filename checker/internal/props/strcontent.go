package props

import (
	"fmt"
	"go/constant"
	"go/token"
	"strconv"

	"golang.org/x/tools/go/packages"
	"golang.org/x/tools/go/ssa"

	"rjverif/internal/bytewin"
	"rjverif/internal/core"
	"rjverif/internal/lts"
	"rjverif/internal/machine"
	"rjverif/internal/product"
	"rjverif/internal/ref"
)

// escapeCode: the RFC 8259 code point of a simple escape character.
var escapeCode = map[byte]byte{'"': 0x22, '\\': 0x5C, '/': 0x2F, 'b': 0x08, 'f': 0x0C, 'n': 0x0A, 'r': 0x0D, 't': 0x09}

// emissionTypestate: R06b on one string machine. Abstract state of the emission frontier E relative to the cursor p:
//
//	S0      E == p                      nothing pending
//	RAW     segStart == E <= p          the bytes [E,p) are raw bytes of one segment
//	ESC(k)  segStart == E == p-k        the bytes [E,p) are the first k bytes of an escape (k=1: backslash, 2..5: \u + hex)
//
// Every primitive on every edge must be the one this state and byte class demand; on acceptance nothing is pending.
func (x *Ctx) emissionTypestate(r *core.Result, rs *core.RuleStat, m *machine.Machine, allowApostrophe bool) {
	const (
		unv = -1
		s0  = 0
		raw = 1
		esc = 10 // esc+k
	)
	if len(m.Unescs) == 0 {
		r.Fail(rs, m.Name+":unicode", x.W.Pos(m.Decl.Pos()), "no \\u escape handling found")
		return
	}
	segVar := m.Unescs[0].SegSym
	for _, u := range m.Unescs {
		if !u.OK || u.SegSym != segVar || u.SkipBase != 6 {
			r.Fail(rs, m.Name+":unesc-shape", x.W.Pos(u.Pos), fmt.Sprintf("\\u helper call must pass data[<segment start>:], stop on !ok and skip exactly n-6 further bytes when n > 6 (found base %d)", u.SkipBase))
		}
	}
	abs := map[int]int{}
	for id := range m.LTS.States {
		abs[id] = unv
	}
	abs[m.LTS.Start] = s0
	work := []int{m.LTS.Start}
	rawSet := lts.Range(0x20, 0xff).Minus(lts.OfString(`"\`))
	bad := map[string]bool{}
	fail := func(id int, e *lts.Edge, msg string) {
		k := fmt.Sprintf("%s:state %d:%s", m.Name, id, msg)
		if bad[k] {
			return
		}
		bad[k] = true
		b := e.Bytes.Pick()
		r.Fail(rs, fmt.Sprintf("%s:content:%s", m.Name, msg), e.Pos, fmt.Sprintf("in state %d on %s (e.g. %q): %s", id, e.Bytes, rune(b), msg))
	}
	edges := 0
	for len(work) > 0 {
		id := work[len(work)-1]
		work = work[:len(work)-1]
		st := m.LTS.States[id]
		if st == nil {
			continue
		}
		a := abs[id]
		for i := range st.Edges {
			e := &st.Edges[i]
			if e.Term.Kind == lts.Exit && !e.Term.OK {
				continue
			}
			edges++
			// classify the prims
			var kinds []string
			for _, p := range e.Prims {
				kinds = append(kinds, p.Kind)
			}
			has := func(k string) *lts.Prim {
				for j := range e.Prims {
					if e.Prims[j].Kind == k {
						return &e.Prims[j]
					}
				}
				return nil
			}
			next := unv
			cur := a
			// emission of the pending raw segment must come first when something is pending
			if p := has("EMIT_SEG"); p != nil {
				if cur != raw {
					fail(id, e, "a raw segment is emitted although none is pending (bytes would be emitted twice or escape bytes copied verbatim)")
				}
				if p.Arg != segVar {
					fail(id, e, "the segment emitted does not start at the recorded segment start")
				}
				cur = s0
			}
			if e.Term.Kind == lts.Exit && e.Term.OK {
				// success exit: nothing may be pending. The content variant stops successfully at bytes that cannot occur
				// in well-formed content (raw quote, control byte): outside the property's quantifier, not judged.
				if allowApostrophe {
					continue
				}
				if cur != s0 {
					fail(id, e, "the string ends while bytes are still pending (content lost)")
				}
				continue
			}
			switch {
			case !e.Bytes.And(rawSet).Empty() && (cur == s0 || cur == raw):
				// raw byte
				if cur == s0 {
					if has("MARK") == nil {
						fail(id, e, "a raw segment starts without recording its start")
					}
					next = raw
				} else {
					if has("MARK") != nil {
						fail(id, e, "the segment start is moved while bytes are pending (content lost)")
					}
					next = raw
				}
				if has("EMIT_CONST") != nil || has("UNESC_U") != nil {
					fail(id, e, "a raw byte emits an escape result")
				}
			case e.Bytes == lts.Of('\\') && (cur == s0 || cur == raw):
				if cur == raw {
					fail(id, e, "an escape starts while a raw segment is still pending (content lost)")
				}
				if has("MARK") == nil {
					fail(id, e, "the start of an escape is not recorded (the \\u helper would decode from the wrong place)")
				}
				next = esc + 1
			case e.Bytes == lts.Of('"') && (cur == s0 || cur == raw):
				if cur == raw {
					fail(id, e, "the closing quote is consumed while a raw segment is still pending (content lost)")
				}
				next = s0
			case cur == esc+1:
				if pc := has("EMIT_CONST"); pc != nil {
					for b := 0; b < 256; b++ {
						if !e.Bytes.Has(byte(b)) {
							continue
						}
						want, ok := escapeCode[byte(b)]
						if b == '\'' && allowApostrophe {
							want, ok = '\'', true
						}
						v, _ := strconv.ParseInt(pc.Arg, 0, 32)
						if !ok || byte(v) != want {
							fail(id, e, fmt.Sprintf("escape \\%c emits 0x%02x, RFC 8259 says 0x%02x", b, v, want))
						}
					}
					next = s0
				} else if e.Bytes == lts.Of('u') {
					next = esc + 2
				} else {
					fail(id, e, "an escape character neither emits its code point nor starts \\u")
				}
			case cur >= esc+2 && cur <= esc+4:
				if len(kinds) != 0 {
					fail(id, e, "a hex digit inside \\u carries an action")
				}
				next = cur + 1
			case cur == esc+5:
				if has("UNESC_U") == nil {
					fail(id, e, "the fourth hex digit does not decode the \\u escape")
				}
				next = s0
			default:
				fail(id, e, fmt.Sprintf("edge not expected in emission state %d", cur))
			}
			if e.Term.Kind != lts.Move {
				continue
			}
			if next == unv {
				continue
			}
			if abs[e.Term.To] == unv {
				abs[e.Term.To] = next
				work = append(work, e.Term.To)
			} else if abs[e.Term.To] != next {
				fail(id, e, fmt.Sprintf("state %d is reached both with emission state %d and %d: pending bytes would be handled inconsistently", e.Term.To, abs[e.Term.To], next))
			}
		}
		// end of input
		for _, o := range st.EOF {
			if !o.OK {
				continue
			}
			emit := false
			for _, p := range o.Prims {
				if p.Kind == "EMIT_SEG" {
					emit = true
				}
			}
			if a == raw && !emit {
				r.Fail(rs, fmt.Sprintf("%s:content:eof-pending", m.Name), st.Pos, fmt.Sprintf("in state %d the input may end successfully while a raw segment is pending and is not emitted", id))
			}
			if a != raw && emit {
				r.Fail(rs, fmt.Sprintf("%s:content:eof-emit", m.Name), st.Pos, fmt.Sprintf("in state %d a segment is emitted at end of input although none is pending", id))
			}
			if a >= esc {
				r.Fail(rs, fmt.Sprintf("%s:content:eof-escape", m.Name), st.Pos, fmt.Sprintf("in state %d the input may end successfully in the middle of an escape", id))
			}
		}
	}
	// skip consistency: after UNESC_U the skipped second escape would lead to the same state (R06b last clause)
	for id, st := range m.LTS.States {
		for i := range st.Edges {
			e := &st.Edges[i]
			isU := false
			for _, p := range e.Prims {
				if p.Kind == "UNESC_U" {
					isU = true
				}
			}
			if !isU || e.Term.Kind != lts.Move {
				continue
			}
			T := e.Term.To
			cur := map[int]bool{T: true}
			for _, set := range []lts.ByteSet{lts.Of('\\'), lts.Of('u'), ref.Hex, ref.Hex, ref.Hex, ref.Hex} {
				nx := map[int]bool{}
				for s := range cur {
					ss := m.LTS.States[s]
					if ss == nil {
						continue
					}
					for b := 0; b < 256; b++ {
						if !set.Has(byte(b)) {
							continue
						}
						for _, e2 := range ss.EdgesFor(byte(b)) {
							if e2.Term.Kind == lts.Move {
								nx[e2.Term.To] = true
							} else {
								nx[-1] = true
							}
						}
					}
				}
				cur = nx
			}
			if len(cur) != 1 || !cur[T] {
				r.Fail(rs, fmt.Sprintf("%s:content:pair-skip", m.Name), e.Pos, fmt.Sprintf("after decoding a surrogate pair in state %d the machine skips the second \\uXXXX; processing those six bytes normally would not lead back to the same state (%v vs %d)", id, cur, T))
			}
		}
	}
	rs.Instances++
	if len(bad) == 0 {
		rs.OK(edges)
		rs.Sample(fmt.Sprintf("%s: %d edges; raw bytes emitted once from the segment start, escapes emit their RFC code point, \\u decoded at the 4th hex digit from the backslash", m.Name, edges))
	}
}

// fastLoopRule: the hand-written prefix loops of ReadStringBytes / ReadString emit data[start:p] with start = position
// after the opening quote, p = the loop cursor, before handing data[p:] to the machine or at the closing quote.
func (x *Ctx) fastLoopRule(r *core.Result, rs *core.RuleStat, name string) {
	w := x.W
	fn := x.Func(name)
	if fn == nil {
		r.Undecided(rs, name, "-", "function not found")
		return
	}
	rs.Instances++
	data := fn.Params[0]
	ok := true
	fail := func(k, msg string, pos token.Pos) {
		r.Fail(rs, name+":"+k, w.Pos(pos), msg)
		ok = false
	}
	// loop cursor: a phi incremented by 1 (for ; p < len(data); p++), or start + i for the index i of a range over
	// data[start:]
	cursors := map[ssa.Value]bool{}
	var start ssa.Value
	for _, b := range fn.Blocks {
		for _, ins := range b.Instrs {
			phi, isPhi := ins.(*ssa.Phi)
			if !isPhi || !isIntT(phi.Type()) {
				continue
			}
			for _, e := range phi.Edges {
				if add, isAdd := e.(*ssa.BinOp); isAdd && add.Op == token.ADD && add.X == ssa.Value(phi) {
					if k, isC := constBig(add.Y); isC && k.Int64() == 1 {
						// a range index starts at -1 and is used incremented; anything else is the cursor itself
						var init ssa.Value
						for _, e2 := range phi.Edges {
							if e2 != ssa.Value(add) {
								init = e2
							}
						}
						if k0, isK := constBig(init); isK && k0.Int64() == -1 {
							// i = add; look for start + i with data[start:] the ranged slice
							for _, ref := range *add.Referrers() {
								if sum, isSum := ref.(*ssa.BinOp); isSum && sum.Op == token.ADD && sum.Y == ssa.Value(add) {
									ranged := false
									for _, r2 := range *add.Referrers() {
										if ia, isIA := r2.(*ssa.IndexAddr); isIA {
											if sl, isSl := ia.X.(*ssa.Slice); isSl && sl.X == ssa.Value(data) && sl.Low == sum.X && sl.High == nil {
												ranged = true
											}
										}
									}
									if ranged {
										cursors[sum] = true
										start = sum.X
									}
								}
							}
						} else if init != nil && len(cursors) == 0 {
							cursors[phi] = true
							start = init
						}
					}
				}
			}
		}
	}
	if len(cursors) == 0 {
		fail("loop", "no scanning loop found", fn.Pos())
		return
	}
	if start == nil {
		fail("start", "cannot identify the position after the opening quote", fn.Pos())
		return
	}
	// the function itself and the private helpers it hands the input to (readEscapedString(data, start, p, buf)):
	// a helper's parameters stand for the caller's values
	type view struct {
		fn   *ssa.Function
		bind map[ssa.Value]ssa.Value
	}
	views := []view{{fn, nil}}
	for vi := 0; vi < len(views) && vi < 8; vi++ {
		v := views[vi]
		for _, b := range v.fn.Blocks {
			for _, ins := range b.Instrs {
				c, isCall := ins.(*ssa.Call)
				if !isCall {
					continue
				}
				h := c.Call.StaticCallee()
				if h == nil || !x.isPrivateHelper(h) || h.Blocks == nil || x.Machine(h.Name()) != nil || len(h.Params) != len(c.Call.Args) {
					continue
				}
				bind := map[ssa.Value]ssa.Value{}
				takesData := false
				for i, a := range c.Call.Args {
					if ra, ok := v.bind[a]; ok {
						a = ra
					}
					bind[h.Params[i]] = a
					if a == ssa.Value(data) {
						takesData = true
					}
				}
				if takesData {
					views = append(views, view{h, bind})
				}
			}
		}
	}
	n := 0
	for _, v := range views {
		rv := func(u ssa.Value) ssa.Value {
			if u == nil {
				return nil
			}
			if b, ok := v.bind[u]; ok {
				return b
			}
			return u
		}
		for _, b := range v.fn.Blocks {
			for _, ins := range b.Instrs {
				var seg ssa.Value
				switch t := ins.(type) {
				case *ssa.Call:
					if bi, isB := t.Call.Value.(*ssa.Builtin); isB && bi.Name() == "append" && len(t.Call.Args) == 2 {
						seg = t.Call.Args[1]
					}
				case *ssa.Convert:
					if isStringType(t.Type()) && isByteSliceT(t.X.Type()) {
						if sl, isSl := t.X.(*ssa.Slice); isSl && rv(sl.X) == ssa.Value(data) {
							seg = t.X
						}
					}
				}
				if seg == nil {
					continue
				}
				sl, isSl := seg.(*ssa.Slice)
				if !isSl || rv(sl.X) != ssa.Value(data) {
					continue
				}
				n++
				if rv(sl.Low) != start || !cursors[rv(sl.High)] {
					fail("segment", "the bytes copied are not data[<after the opening quote> : <cursor>]", ins.Pos())
				}
			}
		}
	}
	if n < 2 {
		fail("segments", fmt.Sprintf("only %d copies of the unescaped prefix found (closing quote and first escape expected)", n), fn.Pos())
	}
	// machine calls get data[cursor:]
	for _, v := range views {
		rv := func(u ssa.Value) ssa.Value {
			if u == nil {
				return nil
			}
			if b, ok := v.bind[u]; ok {
				return b
			}
			return u
		}
		for _, b := range v.fn.Blocks {
			for _, ins := range b.Instrs {
				if c, isCall := ins.(*ssa.Call); isCall && c.Call.StaticCallee() != nil && x.Machine(c.Call.StaticCallee().Name()) != nil {
					sl, isSl := c.Call.Args[0].(*ssa.Slice)
					if !isSl || rv(sl.X) != ssa.Value(data) || !cursors[rv(sl.Low)] || sl.High != nil {
						fail("handover", "the escape machine is not started at the cursor (data[p:])", c.Pos())
					}
				}
			}
		}
	}
	if ok {
		rs.OK(1)
		rs.Sample(name + ": prefix data[start:p] copied once at the closing quote / before the first escape; machine started at data[p:]")
	}
}

// getu4Rule: R06d — value-set evaluation of the hex switch and shape of the accumulation.
func (x *Ctx) getu4Rule(r *core.Result, rs *core.RuleStat) {
	w := x.W
	fn := x.Func("getu4")
	if fn == nil || len(fn.Params) != 1 {
		r.Undecided(rs, "getu4", "-", "function not found")
		return
	}
	rs.Instances++
	outs, err := bytewin.Explore(fn, 0, x.byteTable)
	if err != nil {
		r.Undecided(rs, "getu4:domain", w.Pos(fn.Pos()), "byte-window analysis gave up: "+err.Error())
		return
	}
	hexv := func(b int) int64 {
		switch {
		case b >= '0' && b <= '9':
			return int64(b - '0')
		case b >= 'a' && b <= 'f':
			return int64(b-'a') + 10
		case b >= 'A' && b <= 'F':
			return int64(b-'A') + 10
		}
		return -1
	}
	hexSet := lts.Range('0', '9').Or(lts.Range('a', 'f')).Or(lts.Range('A', 'F'))
	// the inputs on which getu4 must yield a code unit: at least six bytes, `\`, `u`, four hex digits
	want := map[int]lts.ByteSet{0: lts.Of('\\'), 1: lts.Of('u'), 2: hexSet, 3: hexSet, 4: hexSet, 5: hexSet}
	bad := 0
	fail := func(o *bytewin.Outcome, k, msg string) {
		bad++
		if bad <= 4 {
			r.Fail(rs, "getu4:"+k, w.Pos(o.Ret.Pos()), msg+" [inputs: "+o.Describe()+"]")
		}
	}
	classes := 0
	for i := range outs {
		o := &outs[i]
		if len(o.Results) != 1 {
			fail(o, "results", "unexpected result count")
			continue
		}
		classes++
		// relation of the class to the valid region
		inside, disjoint := o.LenMin >= 6, o.LenMax >= 0 && o.LenMax < 6
		for k, ws := range want {
			cur := o.SetAt(k)
			if cur.And(ws) != cur {
				inside = false
			}
			if cur.And(ws).Empty() {
				disjoint = true
			}
		}
		sum, isSum := o.Results[0].(bytewin.Sum)
		if !isSum {
			fail(o, "value", "the result is not an arithmetic function of the six bytes")
			continue
		}
		if len(sum.T) == 0 && sum.K < 0 {
			if !disjoint {
				fail(o, "reject", "a well-formed \\uXXXX escape may be rejected (negative result)")
			}
			continue
		}
		if !inside {
			fail(o, "accept", "a non-negative code unit may be produced for input that is not `\\u` followed by four hex digits within the data")
			continue
		}
		// value = Σ hex(data[2+i]) * 16^(3-i): compare the separable sums position by position
		off := sum.K
		okVal := true
		for k := range sum.T {
			if k < 2 || k > 5 {
				okVal = false
			}
		}
		for k := 2; k <= 5 && okVal; k++ {
			weight := int64(1) << uint(4*(5-k))
			tab := sum.T[k]
			first := true
			var d int64
			cur := o.SetAt(k)
			for b := 0; b < 256; b++ {
				if !cur.Has(byte(b)) {
					continue
				}
				var got int64
				if tab != nil {
					got = tab[b]
				}
				diff := got - hexv(b)*weight
				if first {
					d, first = diff, false
				} else if diff != d {
					okVal = false
				}
			}
			off += d
		}
		if !okVal || off != 0 {
			fail(o, "value", "the code unit is not the hexadecimal value of data[2:6] (most significant digit first)")
		}
	}
	if classes == 0 {
		r.Undecided(rs, "getu4:outcomes", w.Pos(fn.Pos()), "no outcome found")
		return
	}
	if bad == 0 {
		rs.OK(classes)
		rs.Sample(fmt.Sprintf("getu4: %d input classes partition all inputs; negative exactly outside len>=6, '\\\\', 'u', 4 hex digits; inside the value is the big-endian hexadecimal value of data[2:6]", classes))
	}
}

// byteTable resolves a package-level [256]T variable of the library to integer entries (bool: 0/1).
func (x *Ctx) byteTable(g *ssa.Global) *[256]int64 {
	if g.Pkg == nil || g.Object() == nil {
		return nil
	}
	var pkg *packages.Package
	for _, p := range x.W.Pkgs() {
		if p.Types == g.Pkg.Pkg {
			pkg = p
		}
	}
	if pkg == nil {
		return nil
	}
	tab := core.ReadTable256(pkg, g.Object())
	if tab == nil {
		return nil
	}
	var out [256]int64
	for i, c := range tab {
		switch c.Kind() {
		case constant.Bool:
			if constant.BoolVal(c) {
				out[i] = 1
			}
		case constant.Int:
			v, ok := constant.Int64Val(c)
			if !ok {
				return nil
			}
			out[i] = v
		default:
			return nil
		}
	}
	// the table must never be written
	if x.globalWritten(g) {
		return nil
	}
	return &out
}

// unescapeUnicodeRule: R06e.
func (x *Ctx) unescapeUnicodeRule(r *core.Result, rs *core.RuleStat) {
	w := x.W
	fn := x.Func("unescapeUnicodeChar")
	if fn == nil {
		r.Undecided(rs, "unescapeUnicodeChar", "-", "function not found")
		return
	}
	rs.Instances++
	ok := true
	fail := func(k, msg string, pos token.Pos) {
		r.Fail(rs, "unescapeUnicodeChar:"+k, w.Pos(pos), msg)
		ok = false
	}
	s := fn.Params[0]
	var first, second, isSur, dec *ssa.Call
	for _, b := range fn.Blocks {
		for _, ins := range b.Instrs {
			c, isCall := ins.(*ssa.Call)
			if !isCall || c.Call.StaticCallee() == nil {
				continue
			}
			switch x.canon(c.Call.StaticCallee()) {
			case "getu4":
				if c.Call.Args[0] == ssa.Value(s) {
					first = c
				} else {
					second = c
				}
			case "IsSurrogate":
				isSur = c
			case "DecodeRune":
				if c.Call.StaticCallee().Pkg != nil && c.Call.StaticCallee().Pkg.Pkg.Path() == "unicode/utf16" {
					dec = c
				}
			}
		}
	}
	if first == nil || second == nil || isSur == nil || dec == nil {
		r.Undecided(rs, "unescapeUnicodeChar:shape", w.Pos(fn.Pos()), "expected getu4(s), utf16.IsSurrogate, getu4(s[6:]), utf16.DecodeRune")
		return
	}
	// second getu4 on s[6:]
	if sl, isSl := second.Call.Args[0].(*ssa.Slice); !isSl || sl.X != ssa.Value(s) || sl.High != nil {
		fail("second", "the low surrogate is not read from s[6:]", second.Pos())
	} else if k, isC := constBig(sl.Low); !isC || k.Int64() != 6 {
		fail("second", "the low surrogate is not read from s[6:]", second.Pos())
	}
	if isSur.Call.Args[0] != ssa.Value(first) {
		fail("surrogate-test", "IsSurrogate is not applied to the first code unit", isSur.Pos())
	}
	if dec.Call.Args[0] != ssa.Value(first) || dec.Call.Args[1] != ssa.Value(second) {
		fail("pair", "DecodeRune is not given (first code unit, second code unit)", dec.Pos())
	}
	// everything after the first getu4 is dominated by first >= 0
	neg := false
	for _, ref := range *first.Referrers() {
		if be, isBe := ref.(*ssa.BinOp); isBe && be.Op == token.LSS {
			if k, isC := constBig(be.Y); isC && k.Sign() == 0 {
				for _, r2 := range *be.Referrers() {
					if iff, isIf := r2.(*ssa.If); isIf {
						tb := iff.Block().Succs[0]
						if ret, isRet := tb.Instrs[len(tb.Instrs)-1].(*ssa.Return); isRet && len(ret.Results) == 3 {
							if c, isC := ret.Results[2].(*ssa.Const); isC && c.Value != nil && !constant.BoolVal(c.Value) && ret.Results[0] == ssa.Value(fn.Params[1]) {
								neg = true
							}
						}
						if !iff.Block().Succs[1].Dominates(second.Block()) {
							fail("slice-guard", "s[6:] is evaluated without knowing that the first escape is complete (len(s) >= 6)", second.Pos())
						}
					}
				}
			}
		}
	}
	if !neg {
		fail("reject", "a malformed first escape does not return (dst unchanged, _, false)", first.Pos())
	}
	// returns: what is encoded and how many bytes are reported, judged against the facts known on that path
	type facts struct{ sur, notSur, pairValid, pairInvalid bool }
	classify := func(cond ssa.Value, truth bool, f *facts) {
		if u, isNot := cond.(*ssa.UnOp); isNot && u.Op == token.NOT {
			cond, truth = u.X, !truth
		}
		if cond == ssa.Value(isSur) {
			if truth {
				f.sur = true
			} else {
				f.notSur = true
			}
			return
		}
		if be, isBe := cond.(*ssa.BinOp); isBe && (be.Op == token.NEQ || be.Op == token.EQL) && be.X == ssa.Value(dec) {
			if k, isK := constBig(be.Y); isK && k.Int64() == 0xFFFD {
				valid := (be.Op == token.NEQ) == truth
				if valid {
					f.pairValid = true
				} else {
					f.pairInvalid = true
				}
			}
		}
	}
	factsAt := func(b *ssa.BasicBlock) facts {
		var f facts
		for d := b; d != nil; d = d.Idom() {
			dom := d.Idom()
			if dom == nil {
				break
			}
			iff, isIf := dom.Instrs[len(dom.Instrs)-1].(*ssa.If)
			if !isIf {
				continue
			}
			for i, sc := range dom.Succs {
				if (sc == d || sc.Dominates(d)) && len(sc.Preds) == 1 && dom.Succs[1-i] != sc {
					classify(iff.Cond, i == 0, &f)
				}
			}
		}
		return f
	}
	factsOnEdge := func(pred, blk *ssa.BasicBlock) facts {
		f := factsAt(pred)
		if iff, isIf := pred.Instrs[len(pred.Instrs)-1].(*ssa.If); isIf && pred.Succs[0] != pred.Succs[1] {
			if pred.Succs[0] == blk {
				classify(iff.Cond, true, &f)
			} else if pred.Succs[1] == blk {
				classify(iff.Cond, false, &f)
			}
		}
		return f
	}
	// judge6: rune v written for a single escape under facts f
	var judge6 func(v ssa.Value, f facts, at *ssa.BasicBlock, seen map[ssa.Value]bool) bool
	judge6 = func(v ssa.Value, f facts, at *ssa.BasicBlock, seen map[ssa.Value]bool) bool {
		if v == ssa.Value(first) {
			return f.notSur // the code unit itself is right only when it is not a surrogate
		}
		if k, isK := constBig(v); isK && k.Int64() == 0xFFFD {
			return f.sur && f.pairInvalid // the replacement character only for an unpaired surrogate
		}
		if phi, isPhi := v.(*ssa.Phi); isPhi && !seen[phi] {
			seen[phi] = true
			for i, e := range phi.Edges {
				if !judge6(e, factsOnEdge(phi.Block().Preds[i], phi.Block()), phi.Block().Preds[i], seen) {
					return false
				}
			}
			return true
		}
		return false
	}
	_ = judge6
	_ = factsOnEdge
	// every path from the entry to a return (the function has no loop): phis are resolved by the edge taken, facts
	// come from the branches taken
	var paths [][]*ssa.BasicBlock
	var walk func(path []*ssa.BasicBlock) bool
	walk = func(path []*ssa.BasicBlock) bool {
		b := path[len(path)-1]
		if len(paths) > 256 {
			return false
		}
		if len(b.Succs) == 0 {
			paths = append(paths, append([]*ssa.BasicBlock(nil), path...))
			return true
		}
		for _, sc := range b.Succs {
			for _, q := range path {
				if q == sc {
					return false // a loop
				}
			}
			if !walk(append(path, sc)) {
				return false
			}
		}
		return true
	}
	if !walk([]*ssa.BasicBlock{fn.Blocks[0]}) {
		r.Undecided(rs, "unescapeUnicodeChar:paths", w.Pos(fn.Pos()), "the function has a loop or too many paths: its returns cannot be enumerated")
		return
	}
	dst := fn.Params[1]
	for _, path := range paths {
		last := path[len(path)-1]
		ret, isRet := last.Instrs[len(last.Instrs)-1].(*ssa.Return)
		if !isRet || len(ret.Results) != 3 {
			continue
		}
		idx := map[*ssa.BasicBlock]int{}
		for i, b := range path {
			idx[b] = i
		}
		var resolve func(v ssa.Value) ssa.Value
		resolve = func(v ssa.Value) ssa.Value {
			for {
				phi, isPhi := v.(*ssa.Phi)
				if !isPhi {
					return v
				}
				i, on := idx[phi.Block()]
				if !on || i == 0 {
					return v
				}
				found := false
				for k, pred := range phi.Block().Preds {
					if pred == path[i-1] {
						v = phi.Edges[k]
						found = true
						break
					}
				}
				if !found {
					return v
				}
			}
		}
		var f facts
		for i := 0; i+1 < len(path); i++ {
			if iff, isIf := path[i].Instrs[len(path[i].Instrs)-1].(*ssa.If); isIf && path[i].Succs[0] != path[i].Succs[1] {
				classify(iff.Cond, path[i+1] == path[i].Succs[0], &f)
			}
		}
		if f.sur && f.notSur || f.pairValid && f.pairInvalid {
			continue // contradictory branch outcomes: not a feasible path
		}
		n, isC := constBig(resolve(ret.Results[1]))
		okc, isB := resolve(ret.Results[2]).(*ssa.Const)
		if !isC || !isB || okc.Value == nil {
			fail("return-shape", "bytes handled / ok are not determined by the path taken", ret.Pos())
			continue
		}
		if !constant.BoolVal(okc.Value) {
			continue
		}
		// the rune encoded on this path: the last EncodeRune / AppendRune executed
		var enc *ssa.Call
		for _, b := range path {
			for _, ins := range b.Instrs {
				if c, isCall := ins.(*ssa.Call); isCall && c.Call.StaticCallee() != nil && c.Call.StaticCallee().Pkg != nil && c.Call.StaticCallee().Pkg.Pkg.Path() == "unicode/utf8" && len(c.Call.Args) == 2 {
					if nm := c.Call.StaticCallee().Name(); nm == "EncodeRune" || nm == "AppendRune" {
						enc = c
					}
				}
			}
		}
		if enc == nil {
			fail("encode", "a success path does not encode a rune", ret.Pos())
			continue
		}
		R := resolve(enc.Call.Args[1])
		switch n.Int64() {
		case 12:
			if !f.sur {
				fail("pair-guard", "12 bytes are reported without the first unit being a surrogate", ret.Pos())
			}
			if !f.pairValid {
				fail("pair-valid", "12 bytes are reported although the pair may be invalid (DecodeRune returned U+FFFD)", ret.Pos())
			}
			if R != ssa.Value(dec) {
				fail("pair-encode", "the rune written for a valid pair is not DecodeRune's result", ret.Pos())
			}
		case 6:
			if f.sur && f.pairValid {
				fail("single-count", "a valid surrogate pair is reported as 6 bytes", ret.Pos())
			}
			good := false
			switch {
			case R == ssa.Value(first):
				good = f.notSur // the code unit itself is right only when it is not a surrogate
			case R == ssa.Value(dec):
				good = f.sur && f.pairInvalid // DecodeRune's result was found to be U+FFFD on this path
			default:
				if k, isK := constBig(R); isK && k.Int64() == 0xFFFD {
					good = f.sur && f.pairInvalid // the replacement character only for an unpaired surrogate
				}
			}
			if !good {
				fail("single-encode", "the rune written for a single escape is not the code unit itself (U+FFFD for an unpaired surrogate)", ret.Pos())
			}
		default:
			fail("count", fmt.Sprintf("a success path reports %d bytes handled (must be 6 or 12)", n.Int64()), ret.Pos())
		}
		// what is returned: the destination followed by exactly the bytes EncodeRune produced for that rune
		if msg := x.encodedOutput(resolve(ret.Results[0]), enc, R, dst, resolve); msg != "" {
			r.Undecided(rs, "unescapeUnicodeChar:output", w.Pos(ret.Pos()), msg)
			ok = false
		}
	}
	if ok {
		rs.OK(1)
		rs.Sample("unescapeUnicodeChar: (…,12,true) only for a valid surrogate pair, encoding DecodeRune's result; otherwise 6 with the unit or U+FFFD; false only for a malformed first escape")
	}
}

// stringContentRules: R06b-e.
func (x *Ctx) stringContentRules(r *core.Result) {
	b := r.Rule("R06b", "content: on every path of both string machines each raw byte is emitted exactly once from the recorded segment start (unchanged, whatever its value), each simple escape emits exactly its RFC 8259 code point, the \\u helper is invoked exactly at the fourth hex digit with the slice starting at the backslash, the skipped second escape of a pair is consistent, and nothing is pending at acceptance; the hand-written prefix loops copy data[start:p] once")
	for _, n := range []string{"appendRemainderOfString", "unescapeStringContent"} {
		m := x.Machine(n)
		if m == nil {
			r.Undecided(b, n, "-", "machine not found")
			continue
		}
		x.reportMachineProblems(r, b, n)
		x.emissionTypestate(r, b, m, n == "unescapeStringContent")
	}
	x.fastLoopRule(r, b, "ReadStringBytes")
	x.fastLoopRule(r, b, "ReadString")
	r.CheckFloor(b, 4)

	c := r.Rule("R06c", "UnescapeStringContent: for every well-formed string content (the bytes between the quotes) it succeeds and consumes all of it (reference-driven simulation; its tolerance of \\' lies outside the reference and is ignored)")
	if m := x.Machine("unescapeStringContent"); m != nil {
		x.bisim(r, c, "unescapeStringContent", m.LTS, ref.StringContent(), product.Options{RefDriven: true})
		x.wrapperIdentity(r, c, "UnescapeStringContent", "unescapeStringContent")
	} else {
		r.Undecided(c, "unescapeStringContent", "-", "machine not found")
	}
	r.CheckFloor(c, 2)

	d := r.Rule("R06d", "getu4: the hex-digit switch evaluated for all 256 bytes equals the hexadecimal table; non-negative results require len >= 6, a backslash and 'u'; accumulation is r*16 + nibble over exactly data[2:6]")
	x.getu4Rule(r, d)
	r.CheckFloor(d, 1)

	e := r.Rule("R06e", "unescapeUnicodeChar: reports 12 bytes exactly when the first unit is a surrogate and utf16.DecodeRune(first, getu4(s[6:])) is valid, writing that rune; otherwise writes the unit itself (U+FFFD for an unpaired surrogate) and reports 6; fails only when the first escape is malformed; s[6:] is evaluated only after the first escape was validated")
	x.unescapeUnicodeRule(r, e)
	r.CheckFloor(e, 1)
}

// globalWritten: the package-level variable g may be modified: some use of it is not an element load
// (`g[i]` read) or a whole-value load.
func (x *Ctx) globalWritten(g *ssa.Global) bool {
	for _, fn := range x.W.SrcFuncs() {
		for _, b := range fn.Blocks {
			for _, ins := range b.Instrs {
				for _, op := range ins.Operands(nil) {
					if *op != ssa.Value(g) {
						continue
					}
					switch t := ins.(type) {
					case *ssa.IndexAddr:
						for _, ref := range *t.Referrers() {
							if ld, ok := ref.(*ssa.UnOp); !ok || ld.Op != token.MUL {
								if _, isDbg := ref.(*ssa.DebugRef); !isDbg {
									return true
								}
							}
						}
					case *ssa.UnOp:
						if t.Op != token.MUL {
							return true
						}
					case *ssa.DebugRef:
					default:
						return true
					}
				}
			}
		}
	}
	return false
}

// encodedOutput: out is the destination dst followed by exactly the encoding of the rune R that the call enc
// produced: dst'[:len(dst)+w] with enc = EncodeRune(dst'[len(dst):], R) and w its result (or RuneLen(R)), or
// append(dst, buf[:w]...) with enc = EncodeRune(buf[:], R), or utf8.AppendRune(dst, R). "" if so.
func (x *Ctx) encodedOutput(out ssa.Value, enc *ssa.Call, R ssa.Value, dst *ssa.Parameter, resolve func(ssa.Value) ssa.Value) string {
	isLenDst := func(v ssa.Value) bool {
		c, ok := resolve(v).(*ssa.Call)
		if !ok {
			return false
		}
		bi, ok := c.Call.Value.(*ssa.Builtin)
		return ok && bi.Name() == "len" && resolve(c.Call.Args[0]) == ssa.Value(dst)
	}
	isWidth := func(v ssa.Value) bool {
		v = resolve(v)
		if v == ssa.Value(enc) && enc.Call.StaticCallee().Name() == "EncodeRune" {
			return true
		}
		if c, ok := v.(*ssa.Call); ok && c.Call.StaticCallee() != nil && c.Call.StaticCallee().Pkg != nil && c.Call.StaticCallee().Pkg.Pkg.Path() == "unicode/utf8" && c.Call.StaticCallee().Name() == "RuneLen" {
			return resolve(c.Call.Args[0]) == R
		}
		return false
	}
	switch o := out.(type) {
	case *ssa.Call:
		if o == enc && enc.Call.StaticCallee().Name() == "AppendRune" {
			if resolve(enc.Call.Args[0]) == ssa.Value(dst) {
				return ""
			}
			return "utf8.AppendRune is not applied to the destination"
		}
		if bi, ok := o.Call.Value.(*ssa.Builtin); ok && bi.Name() == "append" && len(o.Call.Args) == 2 {
			if resolve(o.Call.Args[0]) != ssa.Value(dst) {
				return "the encoded bytes are appended to something other than the destination"
			}
			piece, ok := resolve(o.Call.Args[1]).(*ssa.Slice)
			if !ok || piece.Low != nil || piece.High == nil || !isWidth(piece.High) {
				return "the bytes appended are not buf[:w] with w the width EncodeRune reported"
			}
			target, ok := resolve(enc.Call.Args[0]).(*ssa.Slice)
			if !ok || target.X != piece.X || target.Low != nil {
				return "the bytes appended do not come from the array EncodeRune wrote into"
			}
			return ""
		}
	case *ssa.Slice:
		if o.Low != nil || o.High == nil {
			return "the result is not destination[:len+w]"
		}
		hi, ok := resolve(o.High).(*ssa.BinOp)
		if !ok || hi.Op != token.ADD || !((isLenDst(hi.X) && isWidth(hi.Y)) || (isLenDst(hi.Y) && isWidth(hi.X))) {
			return "the result's length is not the destination's length plus the width of the rune written"
		}
		target, ok := resolve(enc.Call.Args[0]).(*ssa.Slice)
		if !ok || resolve(target.X) != resolve(o.X) || target.High != nil || target.Low == nil || !isLenDst(target.Low) {
			return "the rune is not encoded at the destination's old end (dst[len:])"
		}
		return ""
	}
	return fmt.Sprintf("the form of the returned slice is not understood (%T)", out)
}
