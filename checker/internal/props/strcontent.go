package props

import "rjverif/internal/core"

func (x *Ctx) stringContentRules(r *core.Result) {}
