package props

import (
	"fmt"
	"go/token"
	"go/types"
	"sort"
	"strings"

	"golang.org/x/tools/go/callgraph"
	"golang.org/x/tools/go/ssa"

	"rjverif/internal/core"
	"rjverif/internal/ssarules"
)

// vrField returns the index of a ValueReader field by name (-1 if absent).
func (x *Ctx) vrStruct() *types.Struct {
	obj := x.W.Root.Types.Scope().Lookup("ValueReader")
	if obj == nil {
		return nil
	}
	st, _ := obj.Type().Underlying().(*types.Struct)
	return st
}

func fieldIdx(st *types.Struct, name string) int {
	for i := 0; i < st.NumFields(); i++ {
		if st.Field(i).Name() == name {
			return i
		}
	}
	return -1
}

// containerFresh: in reader (ReadObject/ReadArray) the container field is assigned a fresh make that dominates the
// traversal call, the traversal is given the receiver itself as handler, and the returned container is that field's
// value after the traversal.
func (x *Ctx) containerFresh(r *core.Result, rs *core.RuleStat, fname, field, traversal string) {
	w := x.W
	fn := x.Func(fname)
	st := x.vrStruct()
	if fn == nil || st == nil {
		r.Undecided(rs, fname, "-", "function or type not found")
		return
	}
	rs.Instances++
	fi := fieldIdx(st, field)
	key := fnKey(fn) + ":" + field
	var mk *ssa.Store
	var trav *ssa.Call
	for _, b := range fn.Blocks {
		for _, ins := range b.Instrs {
			switch t := ins.(type) {
			case *ssa.Store:
				if fa, ok := t.Addr.(*ssa.FieldAddr); ok && structOfType(fa.X.Type()) == st && fa.Field == fi {
					switch t.Val.(type) {
					case *ssa.MakeMap, *ssa.MakeSlice:
						if mk != nil {
							r.Fail(rs, key+":make-twice", w.Pos(t.Pos()), "the container is allocated at more than one place")
						}
						mk = t
					default:
						// clearing the field (moving the finished container out of the reader) cannot bring an old container back
						if !isNilConst(t.Val) {
							r.Fail(rs, key+":assign", w.Pos(t.Pos()), "the container field is assigned something other than a fresh make (a container from an earlier call could be reused and mutated)")
						}
					}
				}
			case *ssa.Call:
				if callee := t.Call.StaticCallee(); callee != nil && callee.Name() == traversal {
					trav = t
				}
			}
		}
	}
	if mk == nil {
		r.Fail(rs, key+":no-make", w.Pos(fn.Pos()), "no fresh container is allocated per call")
		return
	}
	if trav == nil {
		r.Fail(rs, key+":no-traversal", w.Pos(fn.Pos()), "the traversal call "+traversal+" was not found")
		return
	}
	ok := true
	// the make store is unconditional: its block dominates the traversal and is not itself behind a branch on the old field value
	if !(mk.Block() == trav.Block() || mk.Block().Dominates(trav.Block())) {
		r.Fail(rs, key+":dominance", w.Pos(mk.Pos()), "the fresh allocation does not happen on every path before the traversal: a container left over from an earlier (e.g. failed) call could be reused, so results would depend on the reader's history and earlier results could be mutated")
		ok = false
	}
	if mk.Block() == trav.Block() {
		before := false
		for _, ins := range mk.Block().Instrs {
			if ins == ssa.Instruction(mk) {
				before = true
			}
			if ins == ssa.Instruction(trav) && !before {
				r.Fail(rs, key+":order", w.Pos(mk.Pos()), "the container is allocated after the traversal starts")
				ok = false
			}
		}
	}
	// handler argument is the receiver itself
	recvOK := false
	for _, a := range trav.Call.Args {
		if mi, isMI := a.(*ssa.MakeInterface); isMI && sameObject(mi.X, mk.Addr.(*ssa.FieldAddr).X) {
			recvOK = true
		}
	}
	if !recvOK {
		r.Fail(rs, key+":handler", w.Pos(trav.Pos()), "the traversal is not given the reader that owns the fresh container as its handler")
		ok = false
	}
	// success returns return the field's value loaded after the traversal
	for _, b := range fn.Blocks {
		ret, isRet := b.Instrs[len(b.Instrs)-1].(*ssa.Return)
		if !isRet {
			continue
		}
		var vals []ssa.Value
		v := ret.Results[0]
		if ld, isLd := v.(*ssa.UnOp); isLd {
			if al, isAl := ld.X.(*ssa.Alloc); isAl {
				// spilled named result (defer): every value ever stored into it
				for _, ref := range *al.Referrers() {
					if s, isS := ref.(*ssa.Store); isS && s.Addr == ssa.Value(al) {
						if l2, isL := s.Val.(*ssa.UnOp); isL && l2.X == ssa.Value(al) {
							continue // `return val, …` with val the named result itself
						}
						vals = append(vals, s.Val)
					}
				}
			}
		}
		if vals == nil {
			vals = []ssa.Value{v}
		}
		for _, v := range vals {
			if isNilConst(v) {
				continue
			}
			ld, isLd := v.(*ssa.UnOp)
			good := false
			if isLd {
				if fa, isFa := ld.X.(*ssa.FieldAddr); isFa && fa.Field == fi && structOfType(fa.X.Type()) == st {
					good = true
				}
			}
			if !good {
				r.Fail(rs, key+":result", w.Pos(ret.Pos()), "a non-nil result is not the container built by this call")
				ok = false
			}
		}
	}
	if ok {
		rs.OK(1)
		rs.Sample(key + ": fresh make on every path before " + traversal + "(…, h, …); the result is that container")
	}
}

// C15 — a reused ValueReader matches a fresh one and never mutates returned values.
func C15(x *Ctx, r *core.Result) {
	w := x.W
	r.Trusted = append(r.Trusted, "go/ssa dominance; sync.Pool semantics (Get returns a previously Put value or nil); C14 for the embedded Buffer")
	st := x.vrStruct()
	if st == nil {
		rs := r.Rule("R15", "ValueReader field discipline")
		r.Undecided(rs, "ValueReader", "-", "type not found")
		return
	}
	var fields []string
	for i := 0; i < st.NumFields(); i++ {
		fields = append(fields, st.Field(i).Name())
	}
	r.Notes = append(r.Notes, "ValueReader fields: "+strings.Join(fields, " "))

	a := r.Rule("R15a", "containers: ReadObject / ReadArray assign a fresh make to objVal / arrVal on every path before the traversal, hand the traversal the same reader as handler and return exactly that container")
	x.containerFresh(r, a, "ValueReader.ReadObject", x.fld("objVal"), "HandleObjectValues")
	x.containerFresh(r, a, "ValueReader.ReadArray", x.fld("arrVal"), "HandleArrayValues")
	r.CheckFloor(a, 2)

	b := r.Rule("R15b", "who may write a container: element writes (map store, append) to objVal / arrVal happen only in the handler methods, which the library calls only from the traversal machines; no other function writes through these fields (returnValueReader only re-slices)")
	x.containerWriters(r, b, st)
	r.CheckFloor(b, 4)

	c := r.Rule("R15c", "depth: every top-level entry sets depth before it is read and resets it to 0 by a deferred store registered on the same branch; borrowed children get parent depth + 1 (R03d)")
	x.depthExactness(r, c)
	r.CheckFloor(c, 6)

	d := r.Rule("R15d", "scratch buffers stringBuf / fieldNameBuf are only ever used re-sliced to length 0 and copied out by string(...) (R16d)")
	x.scratchRules(r, d)

	e := r.Rule("R15e", "size hints are capacity-only: values loaded from the hint fields flow only into capacity operands of make, into other hint fields and into comparisons — never into a length, an index, a map key or value, a returned value or a call argument")
	x.hintsCapacityOnly(r, e, st)
	r.CheckFloor(e, 3)

	f := r.Rule("R15f", "every other field is a Buffer (C14) or the child pool; pooled children are re-initialised by the rules above when borrowed")
	known := map[string]bool{x.fld("buf"): true, x.fld("pool"): true, x.fld("objVal"): true, x.fld("arrVal"): true, x.fld("fieldNameBuf"): true, x.fld("stringBuf"): true, x.fld("depth"): true}
	_, _, hints := x.hintFields()
	for i := 0; i < st.NumFields(); i++ {
		f.Instances++
		n := st.Field(i).Name()
		switch {
		case known[n] || hints[i]:
			f.OK(1)
		case x.fieldNeverReadStale(st, i):
			f.OK(1)
		case x.fieldInert(st, i):
			f.OK(1)
			f.Sample("field " + n + ": its value flows only back into itself and into functions outside the reading API (a counter)")
		default:
			r.Undecided(f, "field "+n, w.Pos(st.Field(i).Pos()), "field "+n+" is not covered by any discipline rule: its stale value may influence results")
		}
	}
	r.NotDecided = append(r.NotDecided, "\"equals a brand-new reader's result\" as a computed equality: it follows from the field discipline (no field carries result-relevant state across calls) and is stated as an argument",
		"direct calls of the exported handler methods HandleArrayValue / HandleObjectValue by a user (outside the property's quantifier)")
	r.Explain = "for each field of ValueReader: re-initialised before read, capacity-only, truncated before use, or a Buffer"
}

func init() { Registry["C15"] = Prop{"other", C15} }

// containerWriters: R15b.
func (x *Ctx) containerWriters(r *core.Result, rs *core.RuleStat, st *types.Struct) {
	w := x.W
	allowed := map[string]string{
		"ValueReader.ReadObject:" + x.fld("objVal"):        "make",
		"ValueReader.ReadArray:" + x.fld("arrVal"):         "make",
		"ValueReader.HandleObjectValue:" + x.fld("objVal"): "mapupdate",
		"ValueReader.HandleArrayValue:" + x.fld("arrVal"):  "append",
		"ValueReader.returnValueReader:" + x.fld("arrVal"): "reslice",
	}
	// functions are named by their role (a renamed returnValueReader is still the pool's return function)
	fnKey := func(fn *ssa.Function) string {
		k := fnKey(fn)
		if c := x.canon(fn); c != fn.Name() {
			k = strings.TrimSuffix(k, fn.Name()) + c
		}
		// the pool functions keep their role when they are plain functions instead of methods
		for _, role := range []string{"ValueReader.borrowValueReader", "ValueReader.returnValueReader"} {
			if x.Role(role) == fn {
				k = role
			}
		}
		return k
	}
	oi, ai := fieldIdx(st, x.fld("objVal")), fieldIdx(st, x.fld("arrVal"))
	for _, fn := range w.SrcFuncs() {
		for _, b := range fn.Blocks {
			for _, ins := range b.Instrs {
				var field, kind string
				switch t := ins.(type) {
				case *ssa.Store:
					fa, ok := t.Addr.(*ssa.FieldAddr)
					if !ok || structOfType(fa.X.Type()) != st || (fa.Field != oi && fa.Field != ai) {
						// element store through a loaded container?
						if ia, ok := t.Addr.(*ssa.IndexAddr); ok && x.isContainerLoad(ia.X, st, oi, ai) != "" {
							field, kind = x.isContainerLoad(ia.X, st, oi, ai), "element-store"
						} else {
							continue
						}
					} else {
						field = st.Field(fa.Field).Name()
						switch v := t.Val.(type) {
						case *ssa.MakeMap, *ssa.MakeSlice:
							kind = "make"
						case *ssa.Slice:
							kind = "reslice"
							_ = v
						case *ssa.Call:
							if bi, ok := v.Call.Value.(*ssa.Builtin); ok && bi.Name() == "append" {
								kind = "append"
							} else {
								kind = "assign"
							}
						case *ssa.Const:
							if v.Value == nil {
								kind = "assign-nil" // drops the reference; nothing that was returned earlier is touched
							} else {
								kind = "assign"
							}
						default:
							kind = "assign"
						}
					}
				case *ssa.MapUpdate:
					if f := x.isContainerLoad(t.Map, st, oi, ai); f != "" {
						field, kind = f, "mapupdate"
					} else {
						continue
					}
				default:
					continue
				}
				rs.Instances++
				if kind == "assign-nil" {
					rs.OK(1)
					continue
				}
				if st0, isSt := ins.(*ssa.Store); isSt && kind == "make" && x.onlyWhenFieldNil(st0) {
					// a fresh container made only when the reader holds none: nothing under construction is replaced
					// and nothing returned earlier is touched
					rs.OK(1)
					rs.Sample(fnKey(fn) + ":" + field + ": make only when the field is nil")
					continue
				}
				k := fnKey(fn) + ":" + field
				if allowed[k] != kind {
					// a private helper inherits the permission of its callers when all of them have it
					if owner := x.soleOwner(fn, func(g *ssa.Function) bool { return allowed[fnKey(g)+":"+field] == kind }); owner != "" {
						k = owner + ":" + field
					}
				}
				if allowed[k] == kind {
					rs.OK(1)
					rs.Sample(k + ": " + kind)
				} else {
					r.Fail(rs, k+":"+kind, w.Pos(ins.Pos()), fmt.Sprintf("%s writes the %s container (%s); only a fresh make in the reader, the handler methods' own store and the pool's re-slice may", fnKey(fn), field, kind))
				}
			}
		}
	}
	// the handler methods are called (inside the library) only from the traversal machines
	for _, n := range []string{"ValueReader.HandleArrayValue", "ValueReader.HandleObjectValue"} {
		fn := x.Func(n)
		if fn == nil {
			continue
		}
		rs.Instances++
		node := w.CG().Nodes[fn]
		bad := false
		if node != nil {
			for _, e := range node.In {
				caller := e.Caller.Func
				if caller == nil || !w.InLib(caller) {
					continue
				}
				if x.Machine(caller.Name()) == nil && caller.Synthetic == "" {
					r.Fail(rs, n+":caller", w.Pos(e.Site.Pos()), fmt.Sprintf("%s is called from %s, not from a traversal machine: a container returned earlier could be written", n, caller.Name()))
					bad = true
				}
			}
		}
		if !bad {
			rs.OK(1)
		}
	}
}

func (x *Ctx) isContainerLoad(v ssa.Value, st *types.Struct, oi, ai int) string {
	ld, ok := v.(*ssa.UnOp)
	if !ok || ld.Op != token.MUL {
		return ""
	}
	fa, ok := ld.X.(*ssa.FieldAddr)
	if !ok || structOfType(fa.X.Type()) != st {
		return ""
	}
	if fa.Field == oi || fa.Field == ai {
		return st.Field(fa.Field).Name()
	}
	return ""
}

// hintsCapacityOnly: R15e.
func (x *Ctx) hintsCapacityOnly(r *core.Result, rs *core.RuleStat, st *types.Struct) {
	w := x.W
	_, _, hints := x.hintFields()
	funcs := w.SrcFuncs()
	scope := map[*ssa.Function]bool{}
	for _, f := range funcs {
		scope[f] = true
	}
	isHintLoad := func(v ssa.Value) bool {
		ld, ok := v.(*ssa.UnOp)
		if !ok || ld.Op != token.MUL {
			return false
		}
		fa, ok := ld.X.(*ssa.FieldAddr)
		return ok && structOfType(fa.X.Type()) == st && hints[fa.Field]
	}
	t := &ssarules.Taint{Funcs: scope, CG: w.CG(), IsSource: isHintLoad, Arith: true, ThroughLoad: func(types.Type) bool { return false }}
	t.Run()
	var names []string
	for f := range hints {
		names = append(names, st.Field(f).Name())
	}
	sort.Strings(names)
	rs.Instances = len(names)
	bad := 0
	for _, fn := range funcs {
		for _, b := range fn.Blocks {
			for _, ins := range b.Instrs {
				fail := func(what string) {
					bad++
					r.Fail(rs, fnKey(fn)+":hint-flow:"+what, w.Pos(ins.Pos()), "a size-hint value flows into "+what+": state kept across calls would influence a result, not just a capacity")
				}
				switch v := ins.(type) {
				case *ssa.MakeSlice:
					if t.Tainted[v.Len] {
						fail("the length of a slice")
					}
				case *ssa.IndexAddr:
					if t.Tainted[v.Index] {
						fail("an index")
					}
				case *ssa.Slice:
					if (v.Low != nil && t.Tainted[v.Low]) || (v.High != nil && t.Tainted[v.High]) {
						fail("a slice bound")
					}
				case *ssa.Return:
					// a private single-result helper that computes the hint (sliceSizeHint()) hands it to its callers,
					// where the flow is followed further
					if x.isPrivateHelper(fn) && fn.Signature.Results().Len() == 1 {
						continue
					}
					for _, res := range v.Results {
						if t.Tainted[res] {
							fail("a returned value")
						}
					}
				case *ssa.MapUpdate:
					if t.Tainted[v.Key] || t.Tainted[v.Value] {
						fail("a map element")
					}
				case *ssa.Store:
					if t.Tainted[v.Val] {
						fa, ok := v.Addr.(*ssa.FieldAddr)
						if !(ok && structOfType(fa.X.Type()) == st && hints[fa.Field]) {
							if _, isAlloc := v.Addr.(*ssa.Alloc); !isAlloc {
								fail("memory other than a hint field")
							}
						}
					}
				case *ssa.Call:
					if _, isB := v.Call.Value.(*ssa.Builtin); isB {
						continue
					}
					for _, a := range v.Call.Args {
						if t.Tainted[a] {
							fail("a call argument")
						}
					}
				}
			}
		}
	}
	// a comparison on a hint may only choose between hint values: the part of the function that runs only because the
	// comparison came out one way (the blocks dominated by a single-predecessor successor of the branch) must not
	// return, call, or write anything but hint fields and locals
	for _, fn := range funcs {
		for _, b := range fn.Blocks {
			iff, ok := b.Instrs[len(b.Instrs)-1].(*ssa.If)
			if !ok {
				continue
			}
			be, ok := iff.Cond.(*ssa.BinOp)
			if !ok || !(t.Tainted[be.X] || t.Tainted[be.Y]) {
				continue
			}
			for _, sc := range b.Succs {
				if len(sc.Preds) != 1 {
					continue // the join: reached either way
				}
				for _, rb := range fn.Blocks {
					if !(rb == sc || sc.Dominates(rb)) {
						continue
					}
					for _, ins := range rb.Instrs {
						what := ""
						switch v := ins.(type) {
						case *ssa.Return:
							// a helper that computes the hint returns one hint value or another: still only a choice
							// between hint values
							hintOnly := x.isPrivateHelper(fn) && fn.Signature.Results().Len() == 1
							for _, res := range v.Results {
								if _, isC := res.(*ssa.Const); !isC && !t.Tainted[res] {
									hintOnly = false
								}
							}
							if !hintOnly {
								what = "a return"
							}
						case *ssa.Panic:
							what = "a panic"
						case *ssa.MapUpdate, *ssa.Send, *ssa.Go, *ssa.Defer:
							what = "an effect"
						case *ssa.Call:
							if bi, isB := v.Call.Value.(*ssa.Builtin); !isB || (bi.Name() != "len" && bi.Name() != "cap") {
								what = "a call"
							}
						case *ssa.Store:
							fa, isFa := v.Addr.(*ssa.FieldAddr)
							_, isAlloc := v.Addr.(*ssa.Alloc)
							if !(isAlloc || (isFa && structOfType(fa.X.Type()) == st && hints[fa.Field])) {
								what = "a store"
							}
						}
						if what != "" {
							bad++
							r.Fail(rs, fnKey(fn)+":hint-control", w.Pos(ins.Pos()), "a comparison on a size hint (at "+w.Pos(iff.Cond.Pos())+") decides whether "+what+" happens: state kept across calls would influence a result, not just a capacity")
						}
					}
				}
			}
		}
	}
	if bad == 0 {
		rs.OK(len(names))
		rs.Sample("hint fields " + strings.Join(names, ", ") + ": values reach only make capacities, other hint fields and comparisons that choose between hint values")
	}
}

// fieldNeverReadStale: the field is never loaded anywhere (or never stored): trivially harmless.
func (x *Ctx) fieldNeverReadStale(st *types.Struct, idx int) bool {
	for _, fn := range x.W.SrcFuncs() {
		for _, b := range fn.Blocks {
			for _, ins := range b.Instrs {
				if ld, ok := ins.(*ssa.UnOp); ok && ld.Op == token.MUL {
					if fa, ok := ld.X.(*ssa.FieldAddr); ok && structOfType(fa.X.Type()) == st && fa.Field == idx {
						return false
					}
				}
			}
		}
	}
	return true
}

// soleOwner: fn is an unexported library function all of whose (transitive, in-library) callers satisfy ok — it
// acts on their behalf. Returns the name of one such caller, "" otherwise.
func (x *Ctx) soleOwner(fn *ssa.Function, ok func(*ssa.Function) bool) string {
	w := x.W
	seen := map[*ssa.Function]bool{}
	owner := ""
	var rec func(f *ssa.Function) bool
	rec = func(f *ssa.Function) bool {
		if ok(f) {
			owner = fnKey(f)
			return true
		}
		if seen[f] {
			return true
		}
		seen[f] = true
		if f.Object() == nil || f.Object().Exported() || !w.InLib(f) {
			return false
		}
		node := w.CG().Nodes[f]
		if node == nil || len(node.In) == 0 {
			return false
		}
		n := 0
		for _, e := range node.In {
			c := e.Caller.Func
			if c == nil {
				return false
			}
			if !w.InLib(c) {
				if c.Synthetic != "" {
					continue
				}
				return false
			}
			n++
			if !rec(c) {
				return false
			}
		}
		return n > 0
	}
	if rec(fn) {
		return owner
	}
	return ""
}

// fieldInert: whatever is loaded from the field flows only into stores to the same field, or into results of
// functions that the readers never call (a statistics counter read by String()): it cannot influence a result of
// ReadValue / ReadObject / ReadArray or of the handler methods.
func (x *Ctx) fieldInert(st *types.Struct, idx int) bool {
	w := x.W
	funcs := w.SrcFuncs()
	scope := map[*ssa.Function]bool{}
	for _, f := range funcs {
		scope[f] = true
	}
	isLoad := func(v ssa.Value) bool {
		ld, ok := v.(*ssa.UnOp)
		if !ok || ld.Op != token.MUL {
			return false
		}
		fa, ok := ld.X.(*ssa.FieldAddr)
		return ok && structOfType(fa.X.Type()) == st && fa.Field == idx
	}
	t := &ssarules.Taint{Funcs: scope, CG: w.CG(), IsSource: isLoad, Arith: true, ThroughLoad: func(types.Type) bool { return false }}
	t.Run()
	// the reading API and everything it reaches
	var roots []*ssa.Function
	for _, n := range []string{"ValueReader.ReadValue", "ValueReader.ReadObject", "ValueReader.ReadArray", "ValueReader.HandleArrayValue", "ValueReader.HandleObjectValue", "ReadValue", "ReadObject", "ReadArray"} {
		if fn := x.Func(n); fn != nil {
			roots = append(roots, fn)
		}
	}
	reach := w.Reachable(roots, func(e *callgraph.Edge) bool { return w.InLib(e.Caller.Func) })
	for _, fn := range funcs {
		if !reach[fn] {
			continue
		}
		for _, b := range fn.Blocks {
			for _, ins := range b.Instrs {
				switch v := ins.(type) {
				case *ssa.If:
					if t.Tainted[v.Cond] {
						return false
					}
				case *ssa.Return:
					for _, res := range v.Results {
						if t.Tainted[res] {
							return false
						}
					}
				case *ssa.Store:
					if t.Tainted[v.Val] {
						fa, ok := v.Addr.(*ssa.FieldAddr)
						if !(ok && structOfType(fa.X.Type()) == st && fa.Field == idx) {
							if _, isAlloc := v.Addr.(*ssa.Alloc); !isAlloc {
								return false
							}
						}
					}
				case *ssa.MapUpdate:
					if t.Tainted[v.Key] || t.Tainted[v.Value] {
						return false
					}
				case *ssa.IndexAddr:
					if t.Tainted[v.Index] {
						return false
					}
				case *ssa.Slice:
					if (v.Low != nil && t.Tainted[v.Low]) || (v.High != nil && t.Tainted[v.High]) {
						return false
					}
				case *ssa.MakeSlice:
					if t.Tainted[v.Len] || t.Tainted[v.Cap] {
						return false
					}
				case *ssa.Call:
					if _, isB := v.Call.Value.(*ssa.Builtin); isB {
						continue
					}
					for _, a := range v.Call.Args {
						if t.Tainted[a] {
							return false
						}
					}
				}
			}
		}
	}
	return true
}

// onlyWhenFieldNil: the store `base.f = …` is reached only through the true edge of `base.f == nil` (or the false
// edge of `base.f != nil`) on the same base object.
func (x *Ctx) onlyWhenFieldNil(st *ssa.Store) bool {
	fa, ok := st.Addr.(*ssa.FieldAddr)
	if !ok {
		return false
	}
	for d := st.Block(); d != nil; d = d.Idom() {
		dom := d.Idom()
		if dom == nil {
			return false
		}
		iff, ok := dom.Instrs[len(dom.Instrs)-1].(*ssa.If)
		if !ok {
			continue
		}
		be, ok := iff.Cond.(*ssa.BinOp)
		if !ok || (be.Op != token.EQL && be.Op != token.NEQ) || !isNilConst(be.Y) {
			continue
		}
		ld, ok := be.X.(*ssa.UnOp)
		if !ok || ld.Op != token.MUL {
			continue
		}
		fa2, ok := ld.X.(*ssa.FieldAddr)
		if !ok || fa2.Field != fa.Field || !sameObject(fa2.X, fa.X) {
			continue
		}
		edge := 0
		if be.Op == token.NEQ {
			edge = 1
		}
		sc := dom.Succs[edge]
		if (sc == d || sc.Dominates(d)) && len(sc.Preds) == 1 {
			return true
		}
	}
	return false
}
