package props

import (
	"fmt"

	"golang.org/x/tools/go/ssa"

	"rjverif/internal/core"
	"rjverif/internal/lts"
	"rjverif/internal/product"
	"rjverif/internal/ref"
	"rjverif/internal/scan"
)

// scannerVsRef: E2 model of a reader (machine calls flattened) compared with a reference.
func (x *Ctx) scannerVsRef(r *core.Result, rs *core.RuleStat, name string, mk func(fn *ssa.Function) *scan.Spec, rf *lts.LTS, o product.Options) (*lts.LTS, *scan.Result) {
	flat, res, fp := x.Flat(name, mk)
	if res == nil {
		r.Undecided(rs, name, "-", "function "+name+" not found in /repo (anchor missing)")
		return nil, nil
	}
	x.reportScanProblems(r, rs, res)
	for _, p := range fp {
		r.Undecided(rs, name+":compose", "-", p)
	}
	x.unsafeReads(r, rs, res)
	rs.Obligations += res.Reads
	rs.Discharged += res.Reads
	x.bisim(r, rs, name, flat, rf, o)
	return flat, res
}

// firstBytes: the non-whitespace bytes b such that some accepted input is ws* b …
func firstBytes(l *lts.LTS) lts.ByteSet {
	// states reachable from the start through whitespace only
	ws := map[int]bool{l.Start: true}
	st := []int{l.Start}
	for len(st) > 0 {
		id := st[len(st)-1]
		st = st[:len(st)-1]
		s := l.States[id]
		if s == nil {
			continue
		}
		for _, e := range s.Edges {
			if e.Term.Kind == lts.Move && !e.Bytes.And(ref.WS).Empty() && !ws[e.Term.To] {
				ws[e.Term.To] = true
				st = append(st, e.Term.To)
			}
		}
	}
	// states from which a successful exit is reachable
	can := map[int]bool{}
	for changed := true; changed; {
		changed = false
		for id, s := range l.States {
			if can[id] {
				continue
			}
			ok := false
			for _, o := range s.EOF {
				if o.OK {
					ok = true
				}
			}
			for _, e := range s.Edges {
				switch e.Term.Kind {
				case lts.Exit:
					if e.Term.OK {
						ok = true
					}
				case lts.Move:
					if can[e.Term.To] {
						ok = true
					}
				case lts.Call:
					if can[e.Term.To] || can[e.Term.Ret] {
						ok = true
					}
				case lts.Ret:
					ok = true
				}
			}
			if ok {
				can[id] = true
				changed = true
			}
		}
	}
	var out lts.ByteSet
	for id := range ws {
		s := l.States[id]
		if s == nil {
			continue
		}
		for _, e := range s.Edges {
			set := e.Bytes.Minus(ref.WS)
			if set.Empty() {
				continue
			}
			switch e.Term.Kind {
			case lts.Exit:
				if e.Term.OK {
					out = out.Or(set)
				}
			case lts.Move:
				if can[e.Term.To] {
					out = out.Or(set)
				}
			case lts.Call:
				out = out.Or(set)
			}
		}
	}
	return out
}

// intReaders lists the integer readers with (signed?).
var intReaders = []struct {
	name   string
	signed bool
}{
	{"ReadUint64", false}, {"ReadInt64", true}, {"ReadUint32", false}, {"ReadInt32", true}, {"ReadUint", false}, {"ReadInt", true},
}

// C05 — integer readers exact and range-checked.
func C05(x *Ctx, r *core.Result) {
	r.Trusted = append(r.Trusted, trustedAutomata...)
	a := r.Rule("R05a", "each integer reader accepts exactly ws* -? (0|[1-9][0-9]*) not followed by . e E, with the offset just after the last digit; the only other failures are the designated value-dependent range exits")
	for _, ir := range intReaders {
		x.scannerVsRef(r, a, ir.name, specOffErr(1, 2), ref.Integer(ir.signed), product.Options{IgnoreVDepErr: true})
	}
	r.CheckFloor(a, 6)
	x.intervalRules(r)
	r.NotDecided = append(r.NotDecided,
		"the relational fact `val*10+v wrapped <=> newVal < val` inside ReadUint64's checked loop (only its hand-derived precondition on the cutoff constant is checked, R05d)",
	)
	r.Explain = "token grammar and offsets decided exactly by product construction (E2 model vs reference); value ranges decided by interval rules on SSA; the wrap test's arithmetic exactness is not decided"
}

func init() {
	Registry["C05"] = Prop{"other", C05}
}

var _ = fmt.Sprint
