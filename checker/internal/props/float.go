package props

import (
	"rjverif/internal/core"
	"rjverif/internal/product"
	"rjverif/internal/ref"
)

// C04 — number to float64.
func C04(x *Ctx, r *core.Result) {
	r.Trusted = append(r.Trusted, trustedAutomata...)
	d := r.Rule("R04d", "ReadFloat64 = ws* then ParseJSONFloatPrefix; the accepted prefix and the returned offset are bisimilar to the RFC 8259 number (1. -> error, 01 -> offset 1, - -> error, 1.5e -> error, -0 accepted); only value-dependent exits (range error, slow-path refusal) may fail a well-formed literal")
	x.scannerVsRef(r, d, "ReadFloat64", specOffErr(1, 2), ref.Number(), product.Options{IgnoreVDepErr: true})
	r.CheckFloor(d, 1)
	x.floatRules(r)
	r.NotDecided = append(r.NotDecided,
		"that exact arithmetic / Eisel-Lemire / decimal fallback compute the nearest float64 for every literal (the published correctness argument of the algorithms and the trusted reference strconv; R04f shows the port is that program, R04a-c check the constants, guards and tables)",
		"adequacy of the 800-digit decimal buffer",
	)
	r.Explain = "literal grammar/offset decided by product construction; tables re-derived with math/big; tier guards by dominance; the ported arithmetic shown to be the same program as GOROOT's strconv by lockstep co-execution (strconv's own correctness is trusted); rounding correctness as a mathematical fact is not decided"
}

func init() {
	Registry["C04"] = Prop{"other", C04}
}
