package props

import (
	"fmt"
	"go/token"
	"go/types"

	"golang.org/x/tools/go/callgraph"
	"golang.org/x/tools/go/ssa"

	"rjverif/internal/core"
	"rjverif/internal/product"
	"rjverif/internal/ref"
)

// offsetResultIdx: index of the offset result of a library function that reads from a []byte/string parameter:
// the result named p or n, else the first result of type int. -1 if none.
func offsetResultIdx(fn *ssa.Function) int {
	if r := fn.Signature.Results(); r.Len() == 3 && isByteSliceT(r.At(0).Type()) && isIntT(r.At(1).Type()) {
		if b, ok := r.At(2).Type().Underlying().(*types.Basic); ok && b.Kind() == types.Bool && fn.Signature.Params().Len() == 2 {
			return -1 // unescapeUnicodeChar's shape: a byte count relative to its own argument; handled by the string content rules
		}
	}
	hasInput := false
	for _, p := range fn.Params {
		if isBytesOrString(p.Type()) {
			hasInput = true
		}
	}
	if !hasInput {
		return -1
	}
	res := fn.Signature.Results()
	for i := 0; i < res.Len(); i++ {
		if n := res.At(i).Name(); (n == "p" || n == "n") && isIntT(res.At(i).Type()) {
			return i
		}
	}
	for i := 0; i < res.Len(); i++ {
		if isIntT(res.At(i).Type()) && res.At(i).Name() == "" {
			return i
		}
	}
	return -1
}

func isIntT(t types.Type) bool {
	b, ok := t.Underlying().(*types.Basic)
	return ok && b.Kind() == types.Int
}

// rebaseRule: R08a.
func (x *Ctx) rebaseRule(r *core.Result, rs *core.RuleStat) {
	w := x.W
	reach := w.Reachable(w.APIRoots(), func(e *callgraph.Edge) bool { return w.InLib(e.Caller.Func) })
	var fns []*ssa.Function
	for fn := range reach {
		if w.InLib(fn) && fn.Blocks != nil && fn.Synthetic == "" {
			fns = append(fns, fn)
		}
	}
	sortFuncs(fns)
	for _, fn := range fns {
		ownIdx := offsetResultIdx(fn)
		for _, b := range fn.Blocks {
			for _, ins := range b.Instrs {
				call, ok := ins.(*ssa.Call)
				if !ok {
					continue
				}
				var callee *ssa.Function
				var args []ssa.Value
				if c := call.Call.StaticCallee(); c != nil && w.InLib(c) {
					callee = c
					args = call.Call.Args
					if c.Signature.Recv() != nil && len(args) > 0 {
						args = args[1:]
					}
				}
				if callee == nil || len(args) == 0 {
					continue
				}
				oi := offsetResultIdx(callee)
				if oi < 0 {
					continue
				}
				sl, ok := args[0].(*ssa.Slice)
				if !ok || sl.Low == nil || sl.High != nil {
					continue
				}
				// proper sub-slice data[x:]
				rs.Instances++
				key := fmt.Sprintf("%s:call %s(data[x:])#%d", fnKey(fn), callee.Name(), rs.Instances)
				var res ssa.Value
				if callee.Signature.Results().Len() == 1 {
					res = call
				} else if ex := extractOf(call, oi); ex != nil {
					res = ex
				}
				if res == nil {
					rs.OK(1) // offset discarded: nothing to re-base
					rs.Sample(key + ": offset discarded")
					continue
				}
				if msg := x.checkRebased(fn, res, sl.Low, sl.X, ownIdx); msg != "" {
					r.Fail(rs, fmt.Sprintf("%s:rebase %s", fnKey(fn), callee.Name()), w.Pos(call.Pos()), msg)
				} else {
					rs.OK(1)
					rs.Sample(fmt.Sprintf("%s: offset of %s(data[x:]) is used only as result + x", fnKey(fn), callee.Name()))
				}
			}
		}
	}
}

func sortFuncs(fns []*ssa.Function) {
	for i := 1; i < len(fns); i++ {
		for j := i; j > 0 && fns[j].String() < fns[j-1].String(); j-- {
			fns[j], fns[j-1] = fns[j-1], fns[j]
		}
	}
}

func isZeroConst(v ssa.Value) bool {
	c, ok := v.(*ssa.Const)
	if !ok || c.Value == nil {
		return false
	}
	return c.Int64() == 0 && c.Value.String() == "0"
}

// checkRebased: every flow of the callee-relative offset `raw` into the caller's returned offset, into an index
// or slice bound of the un-sliced input, or into a comparison with its length adds the slice's low bound exactly once.
func (x *Ctx) checkRebased(fn *ssa.Function, raw, low, whole ssa.Value, ownIdx int) string {
	if isZeroConst(low) || knownZeroLoad(low) {
		return "" // data[0:]: relative and absolute offsets coincide
	}
	// state per value: 1 = still relative to the sub-slice, 2 = re-based
	state := map[ssa.Value]int{raw: 1}
	work := []ssa.Value{raw}
	var problem string
	set := func(v ssa.Value, s int) {
		if old, ok := state[v]; ok {
			if old != s {
				problem = "a value merges an offset relative to the sub-slice with one relative to the whole input"
			}
			return
		}
		state[v] = s
		work = append(work, v)
	}
	isWholeLen := func(v ssa.Value) bool {
		c, ok := v.(*ssa.Call)
		if !ok {
			return false
		}
		bi, ok := c.Call.Value.(*ssa.Builtin)
		return ok && bi.Name() == "len" && len(c.Call.Args) == 1 && c.Call.Args[0] == whole
	}
	// a constant start (data[1:]) is the same start wherever the constant is written again
	sameLow := func(v ssa.Value) bool {
		if v == low {
			return true
		}
		a, ok1 := constBig(v)
		b, ok2 := constBig(low)
		return ok1 && ok2 && a.Cmp(b) == 0
	}
	for len(work) > 0 && problem == "" {
		v := work[len(work)-1]
		work = work[:len(work)-1]
		s := state[v]
		refs := v.Referrers()
		if refs == nil {
			continue
		}
		for _, ref := range *refs {
			switch u := ref.(type) {
			case *ssa.BinOp:
				other := u.X
				if other == v {
					other = u.Y
				}
				switch u.Op {
				case token.ADD:
					if sameLow(v) && state[other] == 1 {
						// the slice's start (itself a re-based position when the call sits in a loop) plus the relative offset
						set(u, 2)
					} else if sameLow(other) {
						if s == 1 {
							set(u, 2)
						} else if _, isConst := other.(*ssa.Const); isConst {
							set(u, s) // a re-based position plus a constant that happens to equal a constant start
						} else {
							problem = "the slice's start is added to the callee's offset twice"
						}
					} else if st, ok := state[other]; ok && st != s {
						problem = "offsets with different bases are added"
					} else {
						set(u, s)
					}
				case token.SUB:
					set(u, s)
				case token.EQL, token.NEQ, token.LSS, token.LEQ, token.GTR, token.GEQ:
					if s == 1 && isWholeLen(other) {
						problem = "an offset relative to the sub-slice is compared with the length of the whole input"
					}
				default:
					set(u, s)
				}
			case *ssa.Phi:
				set(u, s)
			case *ssa.Convert:
				set(u, s)
			case *ssa.IndexAddr:
				if u.Index == v && u.X == whole && s == 1 {
					problem = "an offset relative to the sub-slice indexes the whole input"
				}
			case *ssa.Slice:
				if (u.Low == v || u.High == v) && u.X == whole && s == 1 {
					problem = "an offset relative to the sub-slice is used as a bound of the whole input"
				}
			case *ssa.Return:
				for i, res := range u.Results {
					if res == v && i == ownIdx && s == 1 {
						problem = "the function returns the callee's offset without adding the start of the sub-slice it passed (the caller would resume at the wrong place)"
					}
				}
			case *ssa.Store:
				// stored into a variable (named result spilled because of defer): follow loads of the same cell
				if u.Val == v {
					if al, ok := u.Addr.(*ssa.Alloc); ok {
						for _, r2 := range *al.Referrers() {
							if ld, ok := r2.(*ssa.UnOp); ok && ld.Op == token.MUL {
								set(ld, s)
							}
						}
					}
				}
			}
		}
	}
	return problem
}

// C08 — offsets compose.
func C08(x *Ctx, r *core.Result) {
	r.Trusted = append(r.Trusted, trustedAutomata...)
	a := r.Rule("R08a", "re-basing discipline: for every library call on a proper sub-slice data[x:] whose callee returns an offset, every flow of that offset into the caller's own returned offset, an index/bound of the un-sliced input or a comparison with its length adds x exactly once")
	x.rebaseRule(r, a)
	r.CheckFloor(a, 10)
	b := r.Rule("R08b", "machine re-synchronisation: after a handler call that keeps its offset the next byte read is p+pp-1, the last byte of the value the handler consumed (R07c)")
	x.handlerSites(r, b, nil)
	r.CheckFloor(b, 6)
	c := r.Rule("R08c", "each reader's own (success, offset) is exact: SkipValue, SkipValueFast (on well-formed input), the typed readers and the token functions are bisimilar with outcomes to their references (C02, C04d, C05a, C06a, C11, C13)")
	x.scannerVsRef(r, c, "SkipValue", specOffErr(0, 1), ref.SkipValue(), product.Options{})
	x.scannerVsRef(r, c, "ReadStringBytes", specOffErr(1, 2), ref.StringToken(), product.Options{})
	x.scannerVsRef(r, c, "ReadString", specOffErr(1, 2), ref.StringToken(), product.Options{})
	x.scannerVsRef(r, c, "ReadFloat64", specOffErr(1, 2), ref.Number(), product.Options{IgnoreVDepErr: true})
	x.scannerVsRef(r, c, "ReadNull", specOffErr(0, 1), ref.Literal("R-null", map[string]string{"null": ""}), product.Options{})
	x.scannerVsRef(r, c, "ReadBool", specOffErr(1, 2), ref.Literal("R-bool", map[string]string{"true": "", "false": ""}), product.Options{})
	for _, ir := range intReaders {
		x.scannerVsRef(r, c, ir.name, specOffErr(1, 2), ref.Integer(ir.signed), product.Options{IgnoreVDepErr: true})
	}
	for _, hm := range handlerMachines {
		x.handlerBisim(r, c, hm.name, hm.ref(), hm.isObj)
	}
	// SkipValueFast: success-with-offset inclusion in SkipValue (C11)
	if A, _ := x.Composed("skipValue"); A != nil {
		if B, _ := x.Composed("skipValueFast"); B != nil && A.CheckTotal() == nil && B.CheckTotal() == nil {
			st, mm := product.Inclusion(A, B)
			c.Instances++
			c.Obligations += st.Cells
			c.Discharged += st.Cells - min(len(mm), st.Cells)
			for i, m := range mm {
				if i >= 4 {
					break
				}
				r.Findings = append(r.Findings, core.Finding{Rule: c.Rule, Key: "skipValueFast:" + m.Key(), Pos: m.ImplPos, Msg: "SkipValueFast disagrees with SkipValue on well-formed input: " + m.Msg, Witness: fmt.Sprintf("%q", m.Witness), Reason: "violation"})
			}
		}
	}
	r.CheckFloor(c, 15)
	wr := r.Rule("R08w", "the exported wrappers SkipValueFast, HandleArrayValues, HandleObjectValues and UnescapeStringContent return exactly what the machine they wrap returned (value, offset and error), so the machines' exact results are what a user-written decoder sees")
	x.wrapperPassThrough(r, wr, "SkipValueFast", "HandleArrayValues", "HandleObjectValues", "UnescapeStringContent")
	r.CheckFloor(wr, 4)
	r.NotDecided = append(r.NotDecided, "the universally quantified family of user-written decoders itself: the result follows by induction on nesting from R08a-c (a decoder that returns the offset a library call reported hands the machine the exact length relative to the slice it was given; the machine resumes on the value's last byte and validates what was declined) — argued in DESIGN.md, not computed")
	r.Explain = "library-side obligations of offset composition decided on SSA (linear re-basing) and on the extracted transition systems"
}

func init() { Registry["C08"] = Prop{"other", C08} }

// knownZeroLoad: v loads a zero-initialised local cell (a named result spilled because of a defer) that no
// store can have reached yet.
func knownZeroLoad(v ssa.Value) bool {
	ld, ok := v.(*ssa.UnOp)
	if !ok || ld.Op != token.MUL {
		return false
	}
	al, ok := ld.X.(*ssa.Alloc)
	if !ok {
		return false
	}
	for _, ref := range *al.Referrers() {
		switch r := ref.(type) {
		case *ssa.Store:
			if r.Addr != ssa.Value(al) {
				return false // address escapes into memory
			}
			if blockReaches(r.Block(), ld.Block(), r, ld) {
				return false
			}
		case *ssa.UnOp, *ssa.DebugRef:
		case *ssa.MakeClosure:
			// captured by a deferred closure: it runs at function exit, after the load
		default:
			return false
		}
	}
	return true
}

// blockReaches: instruction a (in block ab) can execute before instruction b (in block bb).
func blockReaches(ab, bb *ssa.BasicBlock, a, b ssa.Instruction) bool {
	if ab == bb {
		for _, ins := range ab.Instrs {
			if ins == a {
				return true
			}
			if ins == b {
				break
			}
		}
		// a after b in the same block: only through a cycle
	}
	seen := map[*ssa.BasicBlock]bool{}
	st := append([]*ssa.BasicBlock(nil), ab.Succs...)
	for len(st) > 0 {
		c := st[len(st)-1]
		st = st[:len(st)-1]
		if seen[c] {
			continue
		}
		seen[c] = true
		if c == bb {
			return true
		}
		st = append(st, c.Succs...)
	}
	return false
}
