package props

import (
	"fmt"
	"go/constant"
	"go/token"
	"go/types"
	"os"
	"strings"

	"golang.org/x/tools/go/ssa"

	"rjverif/internal/core"
	"rjverif/internal/lts"
)

// R04g / R04h — bookkeeping of the decimal point and of the exponent in decimal.set.
//
// decimal.set walks the literal once. The position of the decimal point is taken from a counter expression X
// (`dp = X` at the '.' and after the digits). R04g: every trip round the digit loop that consumes a digit of the
// integer part — any digit trip not known to come after the '.', except the "leading zero, nothing stored yet" trip —
// must increase X by exactly one, whether or not the digit could be stored. (The 800-digit buffer makes "stored" and
// "counted" different things; counting only stored digits misplaces the point for longer integers.)
// R04h: the exponent accumulator must not saturate at a bound that does not grow with the literal, because the
// decimal point it is added to can be as far as len(data) away.

type digitLoop struct {
	head  *ssa.BasicBlock
	idx   *ssa.Phi  // position variable
	load  *ssa.UnOp // data[idx]
	order int
}

// byteLoops: loops of fn that read data[i] for a position phi i advanced by one per trip, in source order.
func byteLoops(fn *ssa.Function, data ssa.Value) []digitLoop {
	var out []digitLoop
	seen := map[*ssa.Phi]bool{}
	for _, b := range fn.Blocks {
		for _, ins := range b.Instrs {
			ld, ok := ins.(*ssa.UnOp)
			if !ok || ld.Op != token.MUL {
				continue
			}
			ia, ok := ld.X.(*ssa.IndexAddr)
			if !ok || ia.X != data {
				continue
			}
			ph, ok := ia.Index.(*ssa.Phi)
			if !ok || seen[ph] {
				continue
			}
			inc := false
			for _, e := range ph.Edges {
				if add, isAdd := e.(*ssa.BinOp); isAdd && add.Op == token.ADD && add.X == ssa.Value(ph) {
					if k, isK := constBig(add.Y); isK && k.Int64() == 1 {
						inc = true
					}
				}
			}
			if !inc || !ph.Block().Dominates(b) {
				continue
			}
			seen[ph] = true
			out = append(out, digitLoop{head: ph.Block(), idx: ph, load: ld, order: len(out)})
		}
	}
	return out
}

type trip struct {
	blocks []*ssa.BasicBlock
	bytes  lts.ByteSet
	bools  map[ssa.Value]bool // boolean values tested on the way and their outcome
	ints   map[string]bool    // "field:<i>==0" style facts
}

// trips enumerates the ways round a loop (head back to head), refining the byte under the cursor by the comparisons
// made on it.
func (x *Ctx) trips(fn *ssa.Function, lp digitLoop, st *types.Struct) []trip {
	var out []trip
	inBody := func(b *ssa.BasicBlock) bool { return lp.head.Dominates(b) && canReach(b, lp.head) }
	isByte := func(v ssa.Value) bool {
		ld, ok := v.(*ssa.UnOp)
		if !ok || ld.Op != token.MUL {
			return false
		}
		ia, ok := ld.X.(*ssa.IndexAddr)
		return ok && ia.X == lp.load.X.(*ssa.IndexAddr).X && ia.Index == ssa.Value(lp.idx)
	}
	var walk func(b *ssa.BasicBlock, t trip, depth int)
	walk = func(b *ssa.BasicBlock, t trip, depth int) {
		if depth > 60 || len(out) > 400 {
			return
		}
		t.blocks = append(append([]*ssa.BasicBlock(nil), t.blocks...), b)
		last := b.Instrs[len(b.Instrs)-1]
		iff, isIf := last.(*ssa.If)
		for i, s := range b.Succs {
			nt := trip{blocks: t.blocks, bytes: t.bytes, bools: map[ssa.Value]bool{}, ints: map[string]bool{}}
			for k, v := range t.bools {
				nt.bools[k] = v
			}
			for k, v := range t.ints {
				nt.ints[k] = v
			}
			if isIf {
				truth := i == 0
				cond := iff.Cond
				if u, ok := cond.(*ssa.UnOp); ok && u.Op == token.NOT {
					cond, truth = u.X, !truth
				}
				// `case a && b:` evaluates the conjunction into a phi: on this path it is the value that came in
				// through the predecessor actually taken
				infeasible := false
				for hops := 0; hops < 4; hops++ {
					ph, isPhi := cond.(*ssa.Phi)
					if !isPhi {
						break
					}
					resolved := false
					for j := len(t.blocks) - 1; j >= 1; j-- {
						if t.blocks[j] != ph.Block() {
							continue
						}
						for pi, pr := range ph.Block().Preds {
							if pr == t.blocks[j-1] {
								cond = ph.Edges[pi]
								resolved = true
							}
						}
						break
					}
					if !resolved {
						break
					}
					if u, ok := cond.(*ssa.UnOp); ok && u.Op == token.NOT {
						cond, truth = u.X, !truth
					}
				}
				if c, ok := cond.(*ssa.Const); ok && c.Value != nil && c.Value.Kind() == constant.Bool {
					if constant.BoolVal(c.Value) != truth {
						infeasible = true
					}
				}
				if infeasible {
					continue
				}
				if be, ok := cond.(*ssa.BinOp); ok {
					if k, isK := constBig(be.Y); isK && isByte(be.X) && k.IsInt64() {
						var set lts.ByteSet
						kv := int(k.Int64())
						switch be.Op {
						case token.EQL:
							set = lts.Range(kv, kv)
						case token.NEQ:
							set = lts.Range(kv, kv).Not()
						case token.LSS:
							set = lts.Range(0, kv-1)
						case token.LEQ:
							set = lts.Range(0, kv)
						case token.GTR:
							set = lts.Range(kv+1, 255)
						case token.GEQ:
							set = lts.Range(kv, 255)
						default:
							set = lts.Full()
						}
						if !truth {
							set = set.Not()
						}
						nt.bytes = nt.bytes.And(set)
						if nt.bytes.Empty() {
							continue
						}
					} else if isK && k.Sign() == 0 && (be.Op == token.EQL || be.Op == token.NEQ) {
						if ld, ok := be.X.(*ssa.UnOp); ok && ld.Op == token.MUL {
							if fa, ok := ld.X.(*ssa.FieldAddr); ok && structOfType(fa.X.Type()) == st {
								nt.ints[fmt.Sprintf("field:%d==0", fa.Field)] = (be.Op == token.EQL) == truth
							}
						}
					}
				} else {
					nt.bools[cond] = truth
				}
			}
			if s == lp.head {
				nt.blocks = append(append([]*ssa.BasicBlock(nil), nt.blocks...), s)
				out = append(out, nt)
				continue
			}
			if !inBody(s) {
				continue
			}
			walk(s, nt, depth+1)
		}
	}
	walk(lp.head, trip{bytes: lts.Full(), bools: map[ssa.Value]bool{}, ints: map[string]bool{}}, 0)
	return out
}

// deltaOnTrip: by how much the loop-carried integer ph changes on the trip (its back-edge value resolved along the
// trip's blocks); ok=false when that is not "ph + constant".
func deltaOnTrip(ph *ssa.Phi, t trip) (int64, bool) {
	n := len(t.blocks)
	if n < 2 {
		return 0, false
	}
	pred := t.blocks[n-2]
	pi := -1
	for i, p := range ph.Block().Preds {
		if p == pred {
			pi = i
		}
	}
	if pi < 0 {
		return 0, false
	}
	onPath := func(b *ssa.BasicBlock) int {
		for i := len(t.blocks) - 2; i >= 0; i-- {
			if t.blocks[i] == b {
				return i
			}
		}
		return -1
	}
	var res func(v ssa.Value, depth int) (int64, bool)
	res = func(v ssa.Value, depth int) (int64, bool) {
		if depth > 20 {
			return 0, false
		}
		if v == ssa.Value(ph) {
			return 0, true
		}
		switch u := v.(type) {
		case *ssa.BinOp:
			if k, ok := constBig(u.Y); ok && k.IsInt64() && (u.Op == token.ADD || u.Op == token.SUB) {
				d, ok := res(u.X, depth+1)
				if !ok {
					return 0, false
				}
				if u.Op == token.ADD {
					return d + k.Int64(), true
				}
				return d - k.Int64(), true
			}
		case *ssa.Phi:
			bi := onPath(u.Block())
			if bi <= 0 {
				return 0, false
			}
			from := t.blocks[bi-1]
			for i, p := range u.Block().Preds {
				if p == from {
					return res(u.Edges[i], depth+1)
				}
			}
		}
		return 0, false
	}
	return res(ph.Edges[pi], 0)
}

func (x *Ctx) decimalPointAccounting(r *core.Result, g, h *core.RuleStat) {
	w := x.W
	fn := x.Func("fp.decimal.set")
	if fn == nil || len(fn.Params) < 2 {
		r.Undecided(g, "decimal.set", "-", "function not found")
		return
	}
	recv, data := fn.Params[0], fn.Params[1]
	st := structOfType(recv.Type())
	loops := byteLoops(fn, data)
	// the exponent scan: the second loop over the literal, or — when it has been moved into a private helper
	// (scanExponent(data, p)) — the call of a helper that is handed the literal and loops over it
	var expCall *ssa.Call
	if len(loops) == 1 {
		for _, b := range fn.Blocks {
			for _, ins := range b.Instrs {
				c, ok := ins.(*ssa.Call)
				if !ok || !loops[0].head.Dominates(b) || canReach(b, loops[0].head) {
					continue
				}
				hf := c.Call.StaticCallee()
				if hf == nil || !x.isPrivateHelper(hf) || hf.Blocks == nil || len(hf.Params) != len(c.Call.Args) {
					continue
				}
				for i, a := range c.Call.Args {
					if a == ssa.Value(data) && len(byteLoops(hf, hf.Params[i])) > 0 && expCall == nil {
						expCall = c
					}
				}
			}
		}
	}
	if st == nil || len(loops) < 1 || (len(loops) < 2 && expCall == nil) {
		r.Undecided(g, "decimal.set:loops", w.Pos(fn.Pos()), fmt.Sprintf("expected the digit loop and the exponent loop over the literal, found %d loops", len(loops)))
		return
	}
	// afterExponent: the instruction comes after the exponent scan has started
	afterExponent := func(ins ssa.Instruction) bool {
		if expCall != nil {
			if ins.Block() == expCall.Block() {
				return instrIndex(ins) > instrIndex(expCall)
			}
			return expCall.Block().Dominates(ins.Block())
		}
		return loops[1].head.Dominates(ins.Block())
	}
	digits := lts.Range('0', '9')
	// ---- R04g
	func() {
		g.Instances++
		// X: what the decimal point is set from — stores `recv.F = V` where V is not F's own value adjusted by a constant
		type xform struct {
			field  map[int]bool      // fields of recv loaded
			phis   map[*ssa.Phi]bool // loop-carried locals
			dpFld  int
			stores int
		}
		X := xform{field: map[int]bool{}, phis: map[*ssa.Phi]bool{}, dpFld: -1}
		var parse func(v ssa.Value) bool
		parse = func(v ssa.Value) bool {
			switch t := v.(type) {
			case *ssa.BinOp:
				if t.Op == token.ADD {
					return parse(t.X) && parse(t.Y)
				}
			case *ssa.UnOp:
				if t.Op == token.MUL {
					if fa, ok := t.X.(*ssa.FieldAddr); ok && unspill(fa.X) == ssa.Value(recv) {
						X.field[fa.Field] = true
						return true
					}
				}
			case *ssa.Phi:
				X.phis[t] = true
				return true
			}
			return false
		}
		// stores `recv.F = V` before the exponent loop where V is neither a constant nor F's own value adjusted
		type cstore struct {
			sto    *ssa.Store
			fld    int
			fields map[int]bool
			phis   map[*ssa.Phi]bool
			ok     bool
		}
		var cands []cstore
		for _, b := range fn.Blocks {
			for _, ins := range b.Instrs {
				sto, ok := ins.(*ssa.Store)
				if !ok || afterExponent(sto) {
					continue // the exponent's own adjustment of dp comes later
				}
				fa, ok := sto.Addr.(*ssa.FieldAddr)
				if !ok || unspill(fa.X) != ssa.Value(recv) || !isIntKind(sto.Val.Type()) {
					continue
				}
				selfAdj := false
				if bo, ok := sto.Val.(*ssa.BinOp); ok {
					if ld, ok := bo.X.(*ssa.UnOp); ok && ld.Op == token.MUL {
						if fa2, ok := ld.X.(*ssa.FieldAddr); ok && fa2.Field == fa.Field && unspill(fa2.X) == ssa.Value(recv) {
							if _, isK := constBig(bo.Y); isK {
								selfAdj = true
							}
						}
					}
				}
				if _, isC := sto.Val.(*ssa.Const); isC || selfAdj {
					continue
				}
				X.field, X.phis = map[int]bool{}, map[*ssa.Phi]bool{}
				okp := parse(sto.Val)
				cands = append(cands, cstore{sto, fa.Field, X.field, X.phis, okp})
			}
		}
		// the decimal point: the field that some store sets from a sum of counters
		X.dpFld = -1
		for _, c := range cands {
			if c.ok && X.dpFld < 0 {
				X.dpFld, X.field, X.phis = c.fld, c.fields, c.phis
			}
		}
		for _, c := range cands {
			if c.fld != X.dpFld {
				continue
			}
			X.stores++
			same := c.ok && len(c.fields) == len(X.field) && len(c.phis) == len(X.phis)
			for f := range c.fields {
				if !X.field[f] {
					same = false
				}
			}
			for ph := range c.phis {
				if !X.phis[ph] {
					same = false
				}
			}
			if !same {
				r.Fail(g, "decimal.set:point-expression", w.Pos(c.sto.Pos()), "the decimal point is set here from an expression that is not the same sum of digit counters it is set from elsewhere: the two places would count different digits")
				return
			}
		}
		if X.stores == 0 {
			r.Undecided(g, "decimal.set:point", w.Pos(fn.Pos()), "no assignment of the decimal point from the digit counters found")
			return
		}
		okG := true
		nTrips := 0
		for _, t := range x.trips(fn, loops[0], st) {
			if os.Getenv("VERIF_TRACE_FP") != "" {
				fmt.Println("ALLTRIP", t.bytes, len(t.blocks), t.ints)
			}
			if t.bytes.Empty() || t.bytes.And(digits) != t.bytes {
				continue // not a digit trip
			}
			// digits that are not stored: the truncation flag is raised exactly for the non-zero ones (a dropped zero
			// changes nothing; a dropped non-zero digit must break ties upwards) — before and after the '.'
			if !(t.bytes == lts.Of('0') && t.ints[fmt.Sprintf("field:%d==0", firstKey(X.field))]) {
				stored, setsFlag := false, false
				for _, b := range t.blocks[:len(t.blocks)-1] {
					for _, ins := range b.Instrs {
						sto, ok := ins.(*ssa.Store)
						if !ok {
							continue
						}
						fa, ok := sto.Addr.(*ssa.FieldAddr)
						if !ok || unspill(fa.X) != ssa.Value(recv) {
							continue
						}
						if X.field[fa.Field] {
							stored = true
						}
						if c, ok := sto.Val.(*ssa.Const); ok && c.Value != nil && c.Value.Kind() == constant.Bool && constant.BoolVal(c.Value) {
							// a boolean field of the receiver set to true — but not the loop's own "seen a digit" locals
							setsFlag = true
						}
					}
				}
				if os.Getenv("VERIF_TRACE_FP") != "" {
					fmt.Println("TRIP", t.bytes, "stored", stored, "setsFlag", setsFlag, t.ints)
				}
				if !stored {
					hasZero, hasNonZero := t.bytes.Has('0'), !t.bytes.And(lts.Range('1', '9')).Empty()
					switch {
					case hasNonZero && !hasZero && !setsFlag:
						r.Fail(g, "decimal.set:dropped-digit-not-flagged", w.Pos(fn.Pos()), fmt.Sprintf("a non-zero digit (byte in %s) that does not fit the buffer is dropped without raising the truncation flag: halfway cases beyond the buffer round the wrong way", t.bytes))
						okG = false
					case hasZero && !hasNonZero && setsFlag:
						r.Fail(g, "decimal.set:dropped-zero-flagged", w.Pos(fn.Pos()), "a zero that does not fit the buffer raises the truncation flag: an exact halfway literal padded with zeros would be rounded up")
						okG = false
					case hasZero && hasNonZero:
						r.Undecided(g, "decimal.set:dropped-digit", w.Pos(fn.Pos()), "a dropped digit is handled the same way whether it is zero or not")
						okG = false
					}
				}
			}
			// after the '.': some boolean known true on the way whose meaning is "the point has been seen" — any boolean
			// loop variable tested true exempts the trip only if it is the one set on the '.' trip; approximated by:
			// a loop-carried boolean phi tested on the way
			afterDot := false
			for v, truth := range t.bools {
				if ph, ok := v.(*ssa.Phi); ok && ph.Block() == loops[0].head && truth {
					afterDot = true
				}
			}
			if afterDot {
				continue
			}
			leadingZero := false
			for k, v := range t.ints {
				if v && k == fmt.Sprintf("field:%d==0", firstKey(X.field)) && t.bytes == lts.Of('0') {
					leadingZero = true
				}
			}
			if leadingZero {
				continue
			}
			nTrips++
			var delta int64
			known := true
			for f := range X.field {
				// stores recv.f = recv.f + k on the trip
				for _, b := range t.blocks[:len(t.blocks)-1] {
					for _, ins := range b.Instrs {
						sto, ok := ins.(*ssa.Store)
						if !ok {
							continue
						}
						fa, ok := sto.Addr.(*ssa.FieldAddr)
						if !ok || fa.Field != f || unspill(fa.X) != ssa.Value(recv) {
							continue
						}
						bo, ok := sto.Val.(*ssa.BinOp)
						k, okk := constBig(boY(bo))
						if !ok || !okk || (bo.Op != token.ADD && bo.Op != token.SUB) {
							known = false
							continue
						}
						if bo.Op == token.ADD {
							delta += k.Int64()
						} else {
							delta -= k.Int64()
						}
					}
				}
			}
			for ph := range X.phis {
				if ph.Block() != loops[0].head {
					known = false
					continue
				}
				d, ok := deltaOnTrip(ph, t)
				if !ok {
					known = false
				}
				delta += d
			}
			if !known {
				r.Undecided(g, "decimal.set:trip", w.Pos(t.blocks[len(t.blocks)-2].Instrs[0].Pos()), "the effect of a digit trip on the decimal point counters is not a constant")
				okG = false
				continue
			}
			if delta != 1 {
				okG = false
				pos := w.Pos(fn.Pos())
				for _, b := range t.blocks {
					for _, ins := range b.Instrs {
						if ins.Pos().IsValid() {
							pos = w.Pos(ins.Pos())
						}
					}
				}
				r.Fail(g, "decimal.set:integer-digit-not-counted", pos, fmt.Sprintf("a digit of the integer part (byte in %s) passes without moving the decimal point (the counters it is set from change by %d, not 1): an integer longer than the digit buffer is scaled by the wrong power of ten", t.bytes, delta))
				break
			}
		}
		if nTrips == 0 {
			r.Undecided(g, "decimal.set:trips", w.Pos(fn.Pos()), "no digit trip of the integer part found")
			okG = false
		}
		if okG {
			g.OK(nTrips)
			g.Sample(fmt.Sprintf("decimal.set: %d kinds of integer-digit trip, each moves the decimal point by one (stored or not)", nTrips))
		}
	}()
	// ---- R04h: saturation of the exponent accumulators (decimal.set and readFloat)
	for _, name := range []string{"fp.decimal.set", "fp.readFloat"} {
		f2 := x.Func(name)
		if f2 == nil {
			continue
		}
		var d2 ssa.Value
		for _, p := range f2.Params {
			if isByteSliceT(p.Type()) {
				d2 = p
			}
		}
		if d2 == nil {
			continue
		}
		var blocks []*ssa.BasicBlock
		for _, g2 := range x.helperClosure(f2) {
			blocks = append(blocks, g2.Blocks...) // the exponent scan may sit in a private helper (readExponent)
		}
		for _, b := range blocks {
			for _, ins := range b.Instrs {
				// e = e*10 + digit
				add, ok := ins.(*ssa.BinOp)
				if !ok || add.Op != token.SUB && add.Op != token.ADD {
					continue
				}
				var acc *ssa.Phi
				var mulv *ssa.BinOp
				var find func(v ssa.Value, depth int)
				find = func(v ssa.Value, depth int) {
					if depth > 3 {
						return
					}
					if m, ok := v.(*ssa.BinOp); ok {
						if m.Op == token.MUL {
							if k, ok := constBig(m.Y); ok && k.Int64() == 10 {
								if ph, ok := m.X.(*ssa.Phi); ok && isIntT(ph.Type()) {
									acc, mulv = ph, m
								}
							}
							return
						}
						find(m.X, depth+1)
						find(m.Y, depth+1)
					}
				}
				find(add, 0)
				if acc == nil || mulv == nil {
					continue
				}
				// is `add` (or a value derived from it by ±const) the back-edge value of acc?
				feeds := false
				for _, e := range acc.Edges {
					if e == ssa.Value(add) {
						feeds = true
					}
					if ph2, ok := e.(*ssa.Phi); ok {
						for _, e2 := range ph2.Edges {
							if e2 == ssa.Value(add) {
								feeds = true
							}
						}
					}
				}
				if !feeds {
					continue
				}
				bt, _ := acc.Type().Underlying().(*types.Basic)
				if bt == nil || bt.Kind() != types.Int {
					continue // the mantissa accumulators are uint64
				}
				// the guard: acc < K on the edge to the multiplication
				h.Instances++
				key := fmt.Sprintf("%s:exponent-saturation", strings.TrimPrefix(name, "fp."))
				guardConst := false
				found := false
				for dd := mulv.Block(); dd != nil; dd = dd.Idom() {
					dom := dd.Idom()
					if dom == nil {
						break
					}
					iff, ok := dom.Instrs[len(dom.Instrs)-1].(*ssa.If)
					if !ok {
						continue
					}
					be, ok := iff.Cond.(*ssa.BinOp)
					if !ok || be.X != ssa.Value(acc) || (be.Op != token.LSS && be.Op != token.LEQ) {
						continue
					}
					found = true
					if _, isK := constBig(be.Y); isK {
						guardConst = true
					}
				}
				switch {
				case !found:
					// no guard on the accumulator at all: e*10+d wraps after 19 digits (10 on a 32-bit platform) and the
					// wrapped exponent moves the decimal point somewhere arbitrary
					r.Fail(h, strings.TrimSuffix(key, "saturation")+"unguarded", w.Pos(mulv.Pos()), "the exponent accumulator is multiplied by ten without any bound on its current value: a long run of exponent digits makes it wrap, and a literal that must overflow (or underflow) is read as an arbitrary finite number")
				case guardConst:
					r.Fail(h, key, w.Pos(mulv.Pos()), "the exponent accumulator saturates at a constant, but the decimal point it is added to can be len(data) places away: for a literal longer than that bound whose exponent cancels its length (0.000…1e100001 with 100000 zeros is 1) the result is 0 or an overflow error instead of the nearest float64")
				default:
					h.OK(1)
					h.Sample(key + ": the saturation bound grows with the literal")
				}
			}
		}
	}
}

func boY(b *ssa.BinOp) ssa.Value {
	if b == nil {
		return nil
	}
	return b.Y
}

func firstKey(m map[int]bool) int {
	best := -1
	for k := range m {
		if best < 0 || k < best {
			best = k
		}
	}
	return best
}
