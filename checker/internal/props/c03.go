package props

import (
	"fmt"
	"go/constant"
	"go/token"
	"go/types"
	"sort"
	"strings"

	"golang.org/x/tools/go/ssa"

	"rjverif/internal/core"
)

// tokenConstName maps a TokenType constant operand to its name.
func (x *Ctx) tokenConstName(v ssa.Value) string {
	c, ok := v.(*ssa.Const)
	if !ok || c.Value == nil || c.Value.Kind() != constant.Int {
		return ""
	}
	n, _ := constant.Int64Val(c.Value)
	return x.tokenTypeNames()[fmt.Sprint(n)]
}

// dispatchTable: for a function that switches on a TokenType value tkn, the in-library callees reached in each case
// ("default" = none of the tested constants). Cases are discovered from the chain of `tkn == CONST` tests.
func (x *Ctx) dispatchTable(fn *ssa.Function, tkn ssa.Value) map[string][]string {
	out := map[string][]string{}
	tested := map[*ssa.BasicBlock]bool{} // blocks that are case bodies
	var lastFalse *ssa.BasicBlock
	for _, b := range fn.Blocks {
		iff, ok := b.Instrs[len(b.Instrs)-1].(*ssa.If)
		if !ok {
			continue
		}
		be, ok := iff.Cond.(*ssa.BinOp)
		if !ok || be.Op != token.EQL || be.X != tkn {
			continue
		}
		name := x.tokenConstName(be.Y)
		if name == "" {
			continue
		}
		body := b.Succs[0]
		tested[body] = true
		out[name] = append(out[name], x.calleesInRegion(fn, body)...)
		lastFalse = b.Succs[1]
	}
	if lastFalse != nil && !tested[lastFalse] {
		out["default"] = x.calleesInRegion(fn, lastFalse)
	}
	for k := range out {
		sort.Strings(out[k])
		out[k] = dedupe(out[k])
	}
	return out
}

func dedupe(s []string) []string {
	var o []string
	for i, v := range s {
		if i == 0 || v != s[i-1] {
			o = append(o, v)
		}
	}
	return o
}

// calleesInRegion: in-library callees called in the blocks dominated by `head` (a case body), excluding the join.
func (x *Ctx) calleesInRegion(fn *ssa.Function, head *ssa.BasicBlock) []string {
	var out []string
	for _, b := range fn.Blocks {
		if !head.Dominates(b) {
			continue
		}
		out = append(out, x.calleesOfBlock(b, map[*ssa.Function]bool{fn: true})...)
	}
	return out
}

// dispatchLeaves: the unexported functions that R03a's tables name; every other unexported helper is looked through.
var dispatchLeaves = map[string]bool{"readSimpleValue": true, "borrowValueReader": true, "returnValueReader": true}

// calleesOfBlock: the in-library callees of one block; an unexported helper that is not itself one of the names the
// dispatch tables speak about is replaced by what it calls (so `h.readChildObject(data)` counts as borrow,
// ReadObject, return).
func (x *Ctx) calleesOfBlock(b *ssa.BasicBlock, seen map[*ssa.Function]bool) []string {
	var out []string
	for _, ins := range b.Instrs {
		c, ok := ins.(*ssa.Call)
		if !ok {
			continue
		}
		callee := c.Call.StaticCallee()
		if callee == nil || !x.W.InLib(callee) {
			continue
		}
		if x.isPrivateHelper(callee) && !dispatchLeaves[x.canon(callee)] && !seen[callee] {
			seen[callee] = true
			for _, hb := range callee.Blocks {
				out = append(out, x.calleesOfBlock(hb, seen)...)
			}
			continue
		}
		out = append(out, x.canon(callee))
	}
	return out
}

// isPrivateHelper: an unexported library function with a body that is not a generated machine.
func (x *Ctx) isPrivateHelper(fn *ssa.Function) bool {
	return fn != nil && x.W.InLib(fn) && len(fn.Blocks) > 0 && fn.Object() != nil && !fn.Object().Exported() && x.Machine(fn.Name()) == nil
}

func sameSet(a []string, b ...string) bool {
	sort.Strings(b)
	if len(a) != len(b) {
		return false
	}
	for i := range a {
		if a[i] != b[i] {
			return false
		}
	}
	return true
}

// nextTokenTypeValue: the TokenType result of the NextTokenType(data) call in fn.
func nextTokenTypeValue(fn *ssa.Function) (call *ssa.Call, tkn ssa.Value) {
	for _, b := range fn.Blocks {
		for _, ins := range b.Instrs {
			if c, ok := ins.(*ssa.Call); ok {
				if callee := c.Call.StaticCallee(); callee != nil && callee.Name() == "NextTokenType" {
					if ex := extractOf(c, 0); ex != nil {
						return c, ex
					}
				}
			}
		}
	}
	return nil, nil
}

// C03 — generic decoding yields the same value tree as encoding/json.
func C03(x *Ctx, r *core.Result) {
	r.Trusted = append(r.Trusted, "go/ssa dominance and value identity; results of C02 (skip), C04 (numbers), C06 (strings), C07 (members, order, key bytes), C13 (literals)")
	w := x.W
	a := r.Rule("R03a", "dispatch: readSimpleValue maps Null->ReadNull, String->ReadStringBytes(+copying string conversion), Number->ReadFloat64, True/False->ReadBool; the three token-type switches (ReadValue, HandleArrayValue, HandleObjectValue) map ObjectStart->borrowed child ReadObject, ArrayStart->borrowed child ReadArray, everything else->readSimpleValue with the same token type; the sites agree with each other")
	if fn := x.Func("ValueReader.readSimpleValue"); fn != nil && len(fn.Params) == 3 {
		a.Instances++
		tab := x.dispatchTable(fn, fn.Params[2])
		want := map[string][]string{"NullType": {"ReadNull"}, "StringType": {"ReadStringBytes"}, "NumberType": {"ReadFloat64"}, "TrueType": {"ReadBool"}, "FalseType": {"ReadBool"}}
		ok := true
		for k, v := range want {
			if !sameSet(tab[k], v...) {
				r.Fail(a, "readSimpleValue:case "+k, w.Pos(fn.Pos()), fmt.Sprintf("token type %s is decoded by %v, must be %v", k, tab[k], v))
				ok = false
			}
		}
		for k, v := range tab {
			if _, known := want[k]; !known && len(v) > 0 {
				r.Fail(a, "readSimpleValue:case "+k, w.Pos(fn.Pos()), fmt.Sprintf("token type %s unexpectedly reaches %v", k, v))
				ok = false
			}
		}
		// the string case returns a copying conversion
		if !x.returnsStringCopy(fn) {
			r.Fail(a, "readSimpleValue:string-copy", w.Pos(fn.Pos()), "the decoded string is not returned as a copying string(...) conversion of the scratch buffer")
			ok = false
		}
		if ok {
			a.OK(1)
			a.Sample("readSimpleValue: " + fmt.Sprint(tab))
		}
	} else {
		r.Undecided(a, "readSimpleValue", "-", "function not found")
	}
	var siteTabs []string
	for _, n := range []string{"ValueReader.ReadValue", "ValueReader.HandleArrayValue", "ValueReader.HandleObjectValue"} {
		fn := x.Func(n)
		if fn == nil {
			r.Undecided(a, n, "-", "function not found")
			continue
		}
		a.Instances++
		call, tkn := nextTokenTypeValue(fn)
		if call == nil {
			r.Fail(a, n+":peek", w.Pos(fn.Pos()), "the token type is not obtained from NextTokenType")
			continue
		}
		// the switch may live in an unexported helper that is handed the peeked token type
		site, stkn, via := x.dispatchSite(fn, tkn)
		tab := x.dispatchTable(site, stkn)
		ok := true
		if !sameSet(tab["ObjectStartType"], "ReadObject", "borrowValueReader", "returnValueReader") {
			r.Fail(a, n+":object", w.Pos(fn.Pos()), fmt.Sprintf("object start is handled by %v, must be borrow, ReadObject on the child, return", tab["ObjectStartType"]))
			ok = false
		}
		if !sameSet(tab["ArrayStartType"], "ReadArray", "borrowValueReader", "returnValueReader") {
			r.Fail(a, n+":array", w.Pos(fn.Pos()), fmt.Sprintf("array start is handled by %v, must be borrow, ReadArray on the child, return", tab["ArrayStartType"]))
			ok = false
		}
		if !sameSet(tab["default"], "readSimpleValue") {
			r.Fail(a, n+":default", w.Pos(fn.Pos()), fmt.Sprintf("other token types are handled by %v, must be readSimpleValue", tab["default"]))
			ok = false
		}
		for k := range tab {
			if k != "ObjectStartType" && k != "ArrayStartType" && k != "default" {
				r.Fail(a, n+":case "+k, w.Pos(fn.Pos()), "unexpected extra case in the token-type switch")
				ok = false
			}
		}
		// readSimpleValue receives the same token type and the re-sliced data; child readers read the same re-sliced data
		if msg := x.dispatchArgs(site, stkn, via); msg != "" {
			r.Fail(a, n+":args", w.Pos(fn.Pos()), msg)
			ok = false
		}
		siteTabs = append(siteTabs, fmt.Sprint(tab))
		if ok {
			a.OK(1)
		}
	}
	for i := 1; i < len(siteTabs); i++ {
		if siteTabs[i] != siteTabs[0] {
			r.Fail(a, "sites:agreement", "-", "the three token-type switches do not agree with each other")
		}
	}
	r.CheckFloor(a, 4)

	b := r.Rule("R03b", "stores: HandleArrayValue appends the decoded value to the array exactly once, only when the error is nil; HandleObjectValue performs exactly one map store whose key is string(fieldname) after the unescape step and whose value is the decoded value; the key is unescaped iff it contains a backslash, with the prefix before the backslash preserved")
	x.storeRules(r, b)
	r.CheckFloor(b, 2)

	c := r.Rule("R03c", "null: ReadObject / ReadArray never succeed on the literal null: when the container is empty the first token is re-examined and null leads to an error return")
	for _, n := range []string{"ValueReader.ReadObject", "ValueReader.ReadArray"} {
		x.nullGuard(r, c, n)
	}
	r.CheckFloor(c, 2)

	d := r.Rule("R03d", "depth: every recursive ReadObject/ReadArray call on a borrowed child is dominated by `child.depth > 10000 -> error`, the borrow sets child.depth = parent.depth + 1, and a top-level ReadObject/ReadArray starts at depth 1 — so nesting up to exactly 10,000 is accepted on every route and 10,001 refused")
	x.depthExactness(r, d)
	r.CheckFloor(d, 6)

	e := r.Rule("R03e", "offsets: re-basing rule R08a for every sub-slice call")
	x.rebaseRule(r, e)
	r.CheckFloor(e, 10)
	wr := r.Rule("R03w", "the package-level ReadValue / ReadObject / ReadArray call the method of the same name on a fresh zero ValueReader with their own data and return its results unchanged")
	for _, n := range []string{"ReadValue", "ReadObject", "ReadArray"} {
		x.freshReaderWrapper(r, wr, n)
	}
	r.CheckFloor(wr, 3)
	f := r.Rule("R03f", "scratch integrity: the key and string scratch buffers are owned by one reader each, used only truncated to length 0 and copied out by string(...) — so the unescaped key a member is stored under cannot be overwritten while its value is being decoded (R16d)")
	x.scratchRules(r, f)
	r.NotDecided = append(r.NotDecided,
		"equality of whole value trees with encoding/json as a computed fact: it is the composition of C07 (members once, in order, key bytes), C06 (strings), C04 (numbers) and C13 (literals) with the dispatch/store/guard rules above — an argument, not a computation",
		"float values beyond C04's scope")
	r.Explain = "structural clauses of generic decoding decided on SSA (dispatch tables, stores, guards, depth arithmetic, offset re-basing)"
}

func init() { Registry["C03"] = Prop{"other", C03} }

// returnsStringCopy: in the StringType case the value returned is MakeInterface(Convert string <- []byte load of the scratch field).
func (x *Ctx) returnsStringCopy(fn *ssa.Function) bool {
	for _, b := range fn.Blocks {
		for _, ins := range b.Instrs {
			mi, ok := ins.(*ssa.MakeInterface)
			if !ok {
				continue
			}
			cv, ok := mi.X.(*ssa.Convert)
			if !ok {
				continue
			}
			if bt, ok := cv.Type().Underlying().(*types.Basic); ok && bt.Kind() == types.String && isByteSliceT(cv.X.Type()) {
				return true
			}
		}
	}
	return false
}

// dispatchArgs: the child readers and readSimpleValue are given the slice data[p:] that starts at the token, and
// readSimpleValue receives the peeked token type itself.
func (x *Ctx) dispatchArgs(fn *ssa.Function, tkn ssa.Value, via *ssa.Call) string {
	// reader calls of fn and of the private helpers it hands its data to, with arguments resolved to fn's own values
	type rcall struct {
		name      string
		data, tkn ssa.Value
	}
	var calls []rcall
	var collect func(f *ssa.Function, bind map[ssa.Value]ssa.Value, depth int)
	collect = func(f *ssa.Function, bind map[ssa.Value]ssa.Value, depth int) {
		res := func(v ssa.Value) ssa.Value {
			if b, ok := bind[v]; ok {
				return b
			}
			return v
		}
		for _, b := range f.Blocks {
			for _, ins := range b.Instrs {
				c, ok := ins.(*ssa.Call)
				if !ok {
					continue
				}
				callee := c.Call.StaticCallee()
				if callee == nil {
					continue
				}
				switch x.canon(callee) {
				case "ReadObject", "ReadArray", "readSimpleValue":
					rc := rcall{name: x.canon(callee)}
					if len(c.Call.Args) >= 2 {
						rc.data = res(c.Call.Args[1])
					}
					if len(c.Call.Args) >= 3 {
						rc.tkn = res(c.Call.Args[2])
					}
					calls = append(calls, rc)
				default:
					if x.isPrivateHelper(callee) && !dispatchLeaves[x.canon(callee)] && depth < 3 {
						nb := map[ssa.Value]ssa.Value{}
						for i, p := range callee.Params {
							if i < len(c.Call.Args) {
								nb[p] = res(c.Call.Args[i])
							}
						}
						collect(callee, nb, depth+1)
					}
				}
			}
		}
	}
	collect(fn, nil, 0)
	var sl ssa.Value
	for _, rc := range calls {
		if rc.data == nil {
			return "reader called without data"
		}
		if sl == nil {
			sl = rc.data
		} else if sl != rc.data {
			return "the branches read different slices of the input"
		}
		if rc.name == "readSimpleValue" && rc.tkn != tkn {
			return "readSimpleValue is not given the token type that was peeked"
		}
	}
	// when the switch lives in a helper, the data it reads must be the parameter the caller fills with the re-sliced data
	if via != nil {
		par, ok := sl.(*ssa.Parameter)
		if !ok {
			return "the helper does not read the data it was given unchanged"
		}
		sl = nil
		for i, fp := range fn.Params {
			if fp == par && i < len(via.Call.Args) {
				sl = via.Call.Args[i]
			}
		}
		if sl == nil {
			return "the helper's data parameter is not bound at the call"
		}
	}
	// the slice must start at (NextTokenType's offset - 1)
	s, ok := sl.(*ssa.Slice)
	if !ok {
		return "the readers are not given the re-sliced data starting at the token"
	}
	if s.High != nil || s.Max != nil {
		return "the data handed to the readers is cut short"
	}
	sub, ok := s.Low.(*ssa.BinOp)
	if !ok || sub.Op != token.SUB {
		return "the data is not re-sliced at (token offset - 1)"
	}
	if c, ok := constBig(sub.Y); !ok || c.Int64() != 1 {
		return "the data is not re-sliced at (token offset - 1)"
	}
	ex, ok := sub.X.(*ssa.Extract)
	if !ok || ex.Index != 1 {
		return "the data is not re-sliced at (token offset - 1)"
	}
	return ""
}

// dispatchSite: the function that holds the token-type switch for fn. That is fn itself when it compares the peeked
// token type with constants; otherwise the single unexported library function that fn hands the token type to and
// that does compare it (a shared "read child" helper).
func (x *Ctx) dispatchSite(fn *ssa.Function, tkn ssa.Value) (*ssa.Function, ssa.Value, *ssa.Call) {
	if x.testsToken(fn, tkn) {
		return fn, tkn, nil
	}
	for _, b := range fn.Blocks {
		for _, ins := range b.Instrs {
			c, ok := ins.(*ssa.Call)
			if !ok {
				continue
			}
			callee := c.Call.StaticCallee()
			if callee == nil || !x.W.InLib(callee) || callee.Object() == nil || callee.Object().Exported() || len(callee.Blocks) == 0 {
				continue
			}
			for i, a := range c.Call.Args {
				if a == tkn && i < len(callee.Params) && x.testsToken(callee, callee.Params[i]) {
					if _, has := x.dispatchTable(callee, callee.Params[i])["ObjectStartType"]; has {
						return callee, callee.Params[i], c
					}
				}
			}
		}
	}
	return fn, tkn, nil
}

func (x *Ctx) testsToken(fn *ssa.Function, tkn ssa.Value) bool {
	for _, b := range fn.Blocks {
		if iff, ok := b.Instrs[len(b.Instrs)-1].(*ssa.If); ok {
			if be, ok := iff.Cond.(*ssa.BinOp); ok && be.Op == token.EQL && be.X == tkn && x.tokenConstName(be.Y) != "" {
				return true
			}
		}
	}
	return false
}

// storeRules: R03b.
func (x *Ctx) storeRules(r *core.Result, rs *core.RuleStat) {
	w := x.W
	if fn := x.Func("ValueReader.HandleArrayValue"); fn != nil {
		rs.Instances++
		var appends []*ssa.Store
		for _, b := range fn.Blocks {
			for _, ins := range b.Instrs {
				st, ok := ins.(*ssa.Store)
				if !ok {
					continue
				}
				fa, ok := st.Addr.(*ssa.FieldAddr)
				if !ok {
					continue
				}
				s := structOfType(fa.X.Type())
				if s == nil || s.Field(fa.Field).Name() != x.fld("arrVal") {
					continue
				}
				appends = append(appends, st)
			}
		}
		ok := true
		if len(appends) != 1 {
			r.Fail(rs, "HandleArrayValue:append-count", w.Pos(fn.Pos()), fmt.Sprintf("%d stores to the array under construction, expected exactly one append", len(appends)))
			ok = false
		} else {
			st := appends[0]
			call, isCall := st.Val.(*ssa.Call)
			bi, _ := func() (*ssa.Builtin, bool) {
				if !isCall {
					return nil, false
				}
				b, ok := call.Call.Value.(*ssa.Builtin)
				return b, ok
			}()
			if !isCall || bi == nil || bi.Name() != "append" {
				r.Fail(rs, "HandleArrayValue:append", w.Pos(st.Pos()), "the array is not extended by append")
				ok = false
			} else {
				// dominated by err == nil on the merged error
				blk := st.Block()
				dom := blk.Idom()
				good := false
				for d := blk; d != nil && dom != nil; d, dom = dom, dom.Idom() {
					if iff, isIf := dom.Instrs[len(dom.Instrs)-1].(*ssa.If); isIf {
						if be, isBe := iff.Cond.(*ssa.BinOp); isBe && isErrT(be.X.Type()) && isNilConst(be.Y) {
							succ := dom.Succs[0]
							if be.Op == token.NEQ {
								succ = dom.Succs[1]
							}
							if succ.Dominates(blk) && x.isMergedCallError(be.X) {
								good = true
							}
						}
					}
				}
				if !good {
					r.Fail(rs, "HandleArrayValue:append-guard", w.Pos(st.Pos()), "the value is appended although its decoding may have failed (append not dominated by err == nil of the decoders' error)")
					ok = false
				}
				// the appended element is the decoded value (phi of the call values)
				if !x.appendsDecodedValue(call) {
					r.Fail(rs, "HandleArrayValue:append-value", w.Pos(st.Pos()), "the element appended is not the decoded value")
					ok = false
				}
			}
		}
		if ok {
			rs.OK(1)
			rs.Sample("HandleArrayValue: arrVal = append(arrVal, val) once, under err == nil")
		}
	} else {
		r.Undecided(rs, "HandleArrayValue", "-", "function not found")
	}
	if fn := x.Func("ValueReader.HandleObjectValue"); fn != nil {
		rs.Instances++
		var ups []*ssa.MapUpdate
		for _, b := range fn.Blocks {
			for _, ins := range b.Instrs {
				if mu, ok := ins.(*ssa.MapUpdate); ok {
					ups = append(ups, mu)
				}
			}
		}
		ok := true
		if len(ups) != 1 {
			r.Fail(rs, "HandleObjectValue:store-count", w.Pos(fn.Pos()), fmt.Sprintf("%d map stores, expected exactly one", len(ups)))
			ok = false
		} else {
			mu := ups[0]
			// map is the objVal field
			ld, isLd := mu.Map.(*ssa.UnOp)
			okMap := false
			if isLd {
				if fa, isFa := ld.X.(*ssa.FieldAddr); isFa {
					if s := structOfType(fa.X.Type()); s != nil && s.Field(fa.Field).Name() == x.fld("objVal") {
						okMap = true
					}
				}
			}
			if !okMap {
				r.Fail(rs, "HandleObjectValue:map", w.Pos(mu.Pos()), "the store is not into the object under construction")
				ok = false
			}
			// key = string(fieldname-phi)
			cv, isCv := mu.Key.(*ssa.Convert)
			if !isCv || !isByteSliceT(cv.X.Type()) || !x.isFieldnameOrUnescaped(fn, cv.X, map[ssa.Value]bool{}) {
				r.Fail(rs, "HandleObjectValue:key", w.Pos(mu.Pos()), "the key stored is not string(fieldname) (raw, or unescaped when it contains a backslash)")
				ok = false
			}
			if !x.isDecodedValue(mu.Value, map[ssa.Value]bool{}) {
				r.Fail(rs, "HandleObjectValue:value", w.Pos(mu.Pos()), "the value stored is not the decoded value")
				ok = false
			}
			// every nil-error return is preceded by the store: the store's block dominates the final return
			for _, b := range fn.Blocks {
				if ret, isRet := b.Instrs[len(b.Instrs)-1].(*ssa.Return); isRet && len(ret.Results) == 2 && !x.knownNonNilError(ret.Results[1]) {
					if x.isErrExtractTested(ret.Results[1], b) || x.correlatedNonNil(ret.Results[1], b) {
						continue // return of an error known non-nil on this path
					}
					if !mu.Block().Dominates(b) {
						r.Fail(rs, "HandleObjectValue:store-missing", w.Pos(ret.Pos()), "a return whose error may be nil is reachable without the member having been stored")
						ok = false
					}
				}
			}
		}
		if msg := x.unescapeKeyShape(fn); msg != "" {
			r.Fail(rs, "HandleObjectValue:unescape", w.Pos(fn.Pos()), msg)
			ok = false
		}
		if ok {
			rs.OK(1)
			rs.Sample("HandleObjectValue: objVal[string(fieldname)] = val once; key unescaped from the first backslash with the prefix preserved")
		}
	} else {
		r.Undecided(rs, "HandleObjectValue", "-", "function not found")
	}
}

// isErrExtractTested: v is an error value that a dominating test has shown to be non-nil in block b.
func (x *Ctx) isErrExtractTested(v ssa.Value, b *ssa.BasicBlock) bool {
	for d := b; d != nil; d = d.Idom() {
		dom := d.Idom()
		if dom == nil {
			break
		}
		iff, ok := dom.Instrs[len(dom.Instrs)-1].(*ssa.If)
		if !ok {
			continue
		}
		be, ok := iff.Cond.(*ssa.BinOp)
		if !ok || be.X != v || !isNilConst(be.Y) {
			continue
		}
		nonNil := dom.Succs[0]
		if be.Op == token.EQL {
			nonNil = dom.Succs[1]
		}
		if nonNil.Dominates(b) || nonNil == b {
			return true
		}
	}
	return false
}

// isMergedCallError: v is (a phi of) error results of in-library calls.
func (x *Ctx) isMergedCallError(v ssa.Value) bool {
	switch t := v.(type) {
	case *ssa.Extract:
		_, ok := t.Tuple.(*ssa.Call)
		return ok && isErrT(t.Type())
	case *ssa.Phi:
		for _, e := range t.Edges {
			if !x.isMergedCallError(e) {
				return false
			}
		}
		return len(t.Edges) > 0
	}
	return false
}

// isDecodedValue: v is (a phi of) value results (index 0) of ReadObject / ReadArray / readSimpleValue, boxed.
func (x *Ctx) isDecodedValue(v ssa.Value, seen map[ssa.Value]bool) bool {
	if seen[v] {
		return true
	}
	seen[v] = true
	switch t := v.(type) {
	case *ssa.MakeInterface:
		return x.isDecodedValue(t.X, seen)
	case *ssa.Extract:
		if c, ok := t.Tuple.(*ssa.Call); ok && t.Index == 0 {
			if callee := c.Call.StaticCallee(); callee != nil {
				switch x.canon(callee) {
				case "ReadObject", "ReadArray", "readSimpleValue":
					return true
				}
				// a private helper that hands on a decoded value: each of its returns carries a decoded value
				// or a known non-nil error
				if x.W.InLib(callee) && callee.Object() != nil && !callee.Object().Exported() && len(callee.Blocks) > 0 {
					n := 0
					for _, b := range callee.Blocks {
						ret, isRet := b.Instrs[len(b.Instrs)-1].(*ssa.Return)
						if !isRet || len(ret.Results) < 2 {
							continue
						}
						for _, rc := range splitReturn(ret) {
							n++
							last := rc.vals[len(rc.vals)-1]
							if isErrT(last.Type()) && x.knownNonNilError(last) {
								continue
							}
							if !x.isDecodedValue(rc.vals[0], seen) {
								return false
							}
						}
					}
					return n > 0
				}
			}
		}
	case *ssa.Phi:
		for _, e := range t.Edges {
			if !x.isDecodedValue(e, seen) {
				return false
			}
		}
		return len(t.Edges) > 0
	}
	return false
}

func (x *Ctx) appendsDecodedValue(call *ssa.Call) bool {
	// append(arr, varargs...) where varargs = slice of new [1]interface{} storing the value
	if len(call.Call.Args) != 2 {
		return false
	}
	sl, ok := call.Call.Args[1].(*ssa.Slice)
	if !ok {
		return false
	}
	al, ok := sl.X.(*ssa.Alloc)
	if !ok {
		return false
	}
	for _, ref := range *al.Referrers() {
		if ia, ok := ref.(*ssa.IndexAddr); ok {
			for _, r2 := range *ia.Referrers() {
				if st, ok := r2.(*ssa.Store); ok {
					return x.isDecodedValue(st.Val, map[ssa.Value]bool{})
				}
			}
		}
	}
	return false
}

// isFieldnameOrUnescaped: v is (a phi of) the fieldname parameter or the load of the fieldNameBuf field (the unescaped key).
func (x *Ctx) isFieldnameOrUnescaped(fn *ssa.Function, v ssa.Value, seen map[ssa.Value]bool) bool {
	if len(fn.Params) < 2 {
		return false
	}
	return x.keyValue(v, fn.Params[1], seen, 0)
}

// keyValue: v is the key's bytes: the fieldname itself, the reader's unescape buffer, the result of
// UnescapeStringContent, a phi of such, or what a private helper given the fieldname returns (each of its returns
// again such a value; nil only together with an error).
func (x *Ctx) keyValue(v, fieldname ssa.Value, seen map[ssa.Value]bool, depth int) bool {
	if seen[v] {
		return true
	}
	seen[v] = true
	if v == fieldname {
		return true
	}
	viaCall := func(c *ssa.Call, idx int) bool {
		callee := c.Call.StaticCallee()
		if callee == nil {
			return false
		}
		if x.canon(callee) == "UnescapeStringContent" && idx == 0 {
			return true
		}
		if !x.isPrivateHelper(callee) || callee.Blocks == nil || depth >= 3 || len(callee.Params) != len(c.Call.Args) {
			return false
		}
		var fp ssa.Value
		for i, a := range c.Call.Args {
			if a == fieldname {
				fp = callee.Params[i]
			}
		}
		if fp == nil {
			return false
		}
		n := 0
		for _, b := range callee.Blocks {
			ret, ok := b.Instrs[len(b.Instrs)-1].(*ssa.Return)
			if !ok || idx >= len(ret.Results) {
				continue
			}
			n++
			res := ret.Results[idx]
			if isNilConst(res) {
				withErr := false
				for _, o := range ret.Results {
					if isErrT(o.Type()) && !isNilConst(o) {
						withErr = true
					}
				}
				if !withErr {
					return false
				}
				continue
			}
			if !x.keyValue(res, fp, map[ssa.Value]bool{}, depth+1) {
				return false
			}
		}
		return n > 0
	}
	switch t := v.(type) {
	case *ssa.Phi:
		for _, e := range t.Edges {
			if !x.keyValue(e, fieldname, seen, depth) {
				return false
			}
		}
		return true
	case *ssa.UnOp:
		if fa, ok := t.X.(*ssa.FieldAddr); ok {
			if s := structOfType(fa.X.Type()); s != nil && s.Field(fa.Field).Name() == x.fld("fieldNameBuf") {
				return true
			}
		}
	case *ssa.Extract:
		if c, ok := t.Tuple.(*ssa.Call); ok {
			return viaCall(c, t.Index)
		}
	case *ssa.Call:
		return viaCall(t, 0)
	}
	return false
}

// unescapeKeyShape: UnescapeStringContent(fieldname[i:], append(buf[:0], fieldname[:i]...)) under fieldname[i] == '\\'.
func (x *Ctx) unescapeKeyShape(fn *ssa.Function) string {
	if len(fn.Params) < 2 {
		return "unexpected signature"
	}
	// the step may sit in a private helper that is handed the fieldname
	type cand struct {
		fn        *ssa.Function
		fieldname ssa.Value
	}
	cands := []cand{{fn, fn.Params[1]}}
	for i := 0; i < len(cands) && i < 6; i++ {
		for _, b := range cands[i].fn.Blocks {
			for _, ins := range b.Instrs {
				if c, ok := ins.(*ssa.Call); ok {
					if h := c.Call.StaticCallee(); h != nil && x.isPrivateHelper(h) && h.Blocks != nil && len(h.Params) == len(c.Call.Args) {
						for ai, a := range c.Call.Args {
							if a == cands[i].fieldname {
								cands = append(cands, cand{h, h.Params[ai]})
							}
						}
					}
				}
			}
		}
	}
	for _, cd := range cands {
		if msg, found := x.unescapeKeyShapeIn(cd.fn, cd.fieldname); found {
			return msg
		}
	}
	return "no unescape step for keys that contain a backslash"
}

func (x *Ctx) unescapeKeyShapeIn(fn *ssa.Function, fieldname ssa.Value) (string, bool) {
	for _, b := range fn.Blocks {
		for _, ins := range b.Instrs {
			c, ok := ins.(*ssa.Call)
			if !ok {
				continue
			}
			callee := c.Call.StaticCallee()
			if callee == nil || x.canon(callee) != "UnescapeStringContent" {
				continue
			}
			src, ok := c.Call.Args[0].(*ssa.Slice)
			if !ok || src.X != ssa.Value(fieldname) || src.Low == nil || src.High != nil {
				return "the key is not unescaped from fieldname[i:]", true
			}
			idx := src.Low
			ap, ok := c.Call.Args[1].(*ssa.Call)
			if !ok {
				return "the unescape destination is not append(buf[:0], fieldname[:i]...)", true
			}
			if bi, ok := ap.Call.Value.(*ssa.Builtin); !ok || bi.Name() != "append" {
				return "the unescape destination is not append(buf[:0], fieldname[:i]...)", true
			}
			pre, ok := ap.Call.Args[1].(*ssa.Slice)
			if !ok || pre.X != ssa.Value(fieldname) || pre.Low != nil || pre.High != idx {
				return "the bytes before the first backslash are not carried over (fieldname[:i])", true
			}
			// guard: the call is control-dependent on fieldname[i] == '\\'
			guard := false
			for d := b; d != nil; d = d.Idom() {
				dom := d.Idom()
				if dom == nil {
					break
				}
				if iff, ok := dom.Instrs[len(dom.Instrs)-1].(*ssa.If); ok {
					// fieldname[i] == '\\' on the true edge, or fieldname[i] != '\\' on the false edge (`if c != '\\' { continue }`)
					if be, ok := iff.Cond.(*ssa.BinOp); ok && (be.Op == token.EQL || be.Op == token.NEQ) {
						if k, ok := constBig(be.Y); ok && k.Int64() == '\\' {
							if ld, ok := be.X.(*ssa.UnOp); ok {
								if ia, ok := ld.X.(*ssa.IndexAddr); ok && ia.X == ssa.Value(fieldname) && ia.Index == idx {
									edge := 0
									if be.Op == token.NEQ {
										edge = 1
									}
									if sc := dom.Succs[edge]; (sc == d || sc.Dominates(d)) && len(sc.Preds) == 1 {
										guard = true
									}
								}
							}
						}
					}
				}
			}
			if !guard {
				guard = indexByteGuard(b, idx, fieldname)
			}
			if !guard {
				return "the unescape step is not guarded by fieldname[i] == '\\\\' for the same i (or i = bytes.IndexByte(fieldname, '\\\\') with i >= 0)", true
			}
			return "", true
		}
	}
	return "", false
}

// nullGuard: R03c.
func (x *Ctx) nullGuard(r *core.Result, rs *core.RuleStat, name string) {
	fn := x.Func(name)
	if fn == nil || len(fn.Params) < 2 {
		r.Undecided(rs, name, "-", "function not found")
		return
	}
	rs.Instances++
	nullName := ""
	for v, n := range x.tokenTypeNames() {
		if n == "NullType" {
			nullName = v
		}
	}
	// the peek at the function's own data
	var peek *ssa.Call
	for _, b := range fn.Blocks {
		for _, ins := range b.Instrs {
			if c, ok := ins.(*ssa.Call); ok && c.Call.StaticCallee() != nil && c.Call.StaticCallee().Name() == "NextTokenType" && x.W.InLib(c.Call.StaticCallee()) {
				if len(c.Call.Args) == 1 && unspill(c.Call.Args[0]) == ssa.Value(fn.Params[1]) {
					peek = c
				} else {
					r.Fail(rs, name+":null-data", x.W.Pos(c.Pos()), "the null re-check does not look at the function's own data")
					return
				}
			}
		}
	}
	// the re-check may sit in a private predicate helper (firstTokenIsNull(data) bool)
	var predCall *ssa.Call
	predFalseCertifies, predTrueCertifies := false, false
	if peek == nil {
		for _, b := range fn.Blocks {
			for _, ins := range b.Instrs {
				c, ok := ins.(*ssa.Call)
				if !ok || predCall != nil {
					continue
				}
				h := c.Call.StaticCallee()
				if h == nil || !x.isPrivateHelper(h) || h.Blocks == nil || h.Signature.Results().Len() != 1 || len(h.Params) != len(c.Call.Args) {
					continue
				}
				if bt, isB := h.Signature.Results().At(0).Type().Underlying().(*types.Basic); !isB || bt.Kind() != types.Bool {
					continue
				}
				for i, a := range c.Call.Args {
					if unspill(a) == ssa.Value(fn.Params[1]) {
						if f, t, ok := x.nullPredicate(h, h.Params[i], nullName); ok {
							predCall, predFalseCertifies, predTrueCertifies = c, f, t
						}
					}
				}
			}
		}
	}
	if peek == nil && predCall == nil {
		r.Fail(rs, name+":null", x.W.Pos(fn.Pos()), "no re-check of the first token against null: the handler machines accept the literal null, so "+name+" would succeed on it")
		return
	}
	// An edge certifies "not (container empty and first token null)" when it is taken only if the container is
	// non-empty, the peek failed, or the peeked token is not null. Success returns must not be reachable from the
	// entry without passing such an edge.
	certifies := func(b *ssa.BasicBlock, succ int) bool {
		iff, ok := b.Instrs[len(b.Instrs)-1].(*ssa.If)
		if !ok {
			return false
		}
		onTrue := succ == 0
		if predCall != nil {
			c, inv := iff.Cond, false
			if u, isNot := c.(*ssa.UnOp); isNot && u.Op == token.NOT {
				c, inv = u.X, true
			}
			if c == ssa.Value(predCall) {
				taken := onTrue != inv // the predicate's value on this edge
				return (taken && predTrueCertifies) || (!taken && predFalseCertifies)
			}
		}
		be, ok := iff.Cond.(*ssa.BinOp)
		if !ok {
			return false
		}
		// len(container) ? k
		if lc, ok := be.X.(*ssa.Call); ok {
			if bi, isB := lc.Call.Value.(*ssa.Builtin); isB && bi.Name() == "len" && len(lc.Call.Args) == 1 && x.isContainerField(lc.Call.Args[0]) {
				k, okc := constBig(be.Y)
				if !okc {
					return false
				}
				kv := k.Int64()
				switch {
				case be.Op == token.EQL && kv == 0, be.Op == token.LEQ && kv == 0, be.Op == token.LSS && kv == 1:
					return !onTrue
				case be.Op == token.NEQ && kv == 0, be.Op == token.GTR && kv == 0, be.Op == token.GEQ && kv == 1:
					return onTrue
				}
			}
			return false
		}
		ex, ok := be.X.(*ssa.Extract)
		if !ok || peek == nil || ex.Tuple != ssa.Value(peek) {
			return false
		}
		switch {
		case isErrT(ex.Type()) && isNilConst(be.Y):
			return (be.Op == token.NEQ && onTrue) || (be.Op == token.EQL && !onTrue)
		case ex.Index == 0:
			if k, okc := constBig(be.Y); okc && fmt.Sprint(k) == nullName {
				return (be.Op == token.NEQ && onTrue) || (be.Op == token.EQL && !onTrue)
			}
		}
		return false
	}
	reach := map[*ssa.BasicBlock]bool{fn.Blocks[0]: true}
	work := []*ssa.BasicBlock{fn.Blocks[0]}
	for len(work) > 0 {
		b := work[len(work)-1]
		work = work[:len(work)-1]
		for i, s := range b.Succs {
			if certifies(b, i) || reach[s] {
				continue
			}
			reach[s] = true
			work = append(work, s)
		}
	}
	succ := 0
	for _, b := range fn.Blocks {
		ret, ok := b.Instrs[len(b.Instrs)-1].(*ssa.Return)
		if !ok {
			continue
		}
		if x.returnsKnownError(ret) {
			continue
		}
		succ++
		if reach[b] {
			r.Fail(rs, name+":null-return", x.W.Pos(ret.Pos()), "a return whose error may be nil is reachable with an empty container and without the first token having been found not to be null: the handler machines accept the literal null, so "+name+" would succeed on it")
			return
		}
	}
	if succ == 0 {
		r.Undecided(rs, name+":returns", x.W.Pos(fn.Pos()), "no successful return found")
		return
	}
	rs.OK(1)
	rs.Sample(name + ": every successful return lies behind `container non-empty`, a failed peek, or `first token != null`")
}

// isContainerField: v is a load of a map- or slice-typed field of a ValueReader.
func (x *Ctx) isContainerField(v ssa.Value) bool {
	v = cellValue(v)
	ld, ok := v.(*ssa.UnOp)
	if !ok || ld.Op != token.MUL {
		return false
	}
	fa, ok := ld.X.(*ssa.FieldAddr)
	if !ok || structOfType(fa.X.Type()) == nil || structOfType(fa.X.Type()) != x.vrStruct() {
		return false
	}
	switch ld.Type().Underlying().(type) {
	case *types.Map, *types.Slice:
		return true
	}
	return false
}

// returnsKnownError: the error a Return carries is known to be non-nil — a fresh or sentinel error, or a value that
// a dominating test found non-nil; named results spilled into cells (functions with defer) are looked through.
func (x *Ctx) returnsKnownError(ret *ssa.Return) bool {
	if len(ret.Results) == 0 {
		return false
	}
	b := ret.Block()
	e := ret.Results[len(ret.Results)-1]
	if !isErrT(e.Type()) {
		return false
	}
	v := e
	var cell *ssa.Alloc
	if ld, ok := e.(*ssa.UnOp); ok && ld.Op == token.MUL {
		if al, ok := ld.X.(*ssa.Alloc); ok {
			cell = al
			v = nil
			for _, ins := range b.Instrs {
				if st, ok := ins.(*ssa.Store); ok && st.Addr == ssa.Value(al) {
					v = st.Val
				}
			}
		}
	}
	if v != nil {
		if x.knownNonNilError(v) || x.isErrExtractTested(v, b) || x.correlatedNonNil(v, b) {
			return true
		}
		if ld, ok := v.(*ssa.UnOp); ok && ld.Op == token.MUL {
			if al, ok := ld.X.(*ssa.Alloc); ok {
				cell = al
			} else {
				return false
			}
		} else {
			return false
		}
	}
	if cell == nil {
		return false
	}
	// the cell's current content was tested non-nil: a dominating `*cell != nil` edge with no store to the cell on
	// the way from that edge to this block
	for d := b; d != nil; d = d.Idom() {
		dom := d.Idom()
		if dom == nil {
			break
		}
		iff, ok := dom.Instrs[len(dom.Instrs)-1].(*ssa.If)
		if !ok {
			continue
		}
		be, ok := iff.Cond.(*ssa.BinOp)
		if !ok || !isNilConst(be.Y) {
			continue
		}
		tl, ok := be.X.(*ssa.UnOp)
		if !ok || tl.Op != token.MUL || tl.X != ssa.Value(cell) {
			continue
		}
		nonNil := dom.Succs[0]
		if be.Op == token.EQL {
			nonNil = dom.Succs[1]
		} else if be.Op != token.NEQ {
			continue
		}
		if !(nonNil == b || nonNil.Dominates(b)) || len(nonNil.Preds) != 1 {
			continue
		}
		// no store to the cell after the tested load in dom, nor in the blocks between
		clean := true
		after := false
		for _, ins := range dom.Instrs {
			if ins == ssa.Instruction(tl) {
				after = true
			}
			if st, ok := ins.(*ssa.Store); ok && after && st.Addr == ssa.Value(cell) {
				clean = false
			}
		}
		for _, mb := range b.Parent().Blocks {
			if mb == b || !nonNil.Dominates(mb) && mb != nonNil {
				continue
			}
			if !canReach(mb, b) {
				continue
			}
			for _, ins := range mb.Instrs {
				if st, ok := ins.(*ssa.Store); ok && st.Addr == ssa.Value(cell) {
					clean = false
				}
			}
		}
		// within b: stores before the returned load were handled above (v would be that store's value)
		if clean {
			return true
		}
	}
	return false
}

func canReach(from, to *ssa.BasicBlock) bool {
	seen := map[*ssa.BasicBlock]bool{from: true}
	work := []*ssa.BasicBlock{from}
	for len(work) > 0 {
		b := work[len(work)-1]
		work = work[:len(work)-1]
		if b == to {
			return true
		}
		for _, s := range b.Succs {
			if !seen[s] {
				seen[s] = true
				work = append(work, s)
			}
		}
	}
	return false
}

// depthExactness: R03d — every recursive call guarded with the exact limit; top-level entry sets depth 1.
func (x *Ctx) depthExactness(r *core.Result, rs *core.RuleStat) {
	w := x.W
	// Recursion sites: the ReadObject / ReadArray calls made on behalf of each handler method — in the handler itself
	// or in the unexported helpers it calls (a shared "read child" helper). One instance per (handler, reader) pair.
	for _, name := range []string{"ValueReader.HandleArrayValue", "ValueReader.HandleObjectValue"} {
		fn := x.Func(name)
		if fn == nil {
			r.Undecided(rs, name, "-", "function not found")
			continue
		}
		found := map[string][]*ssa.Call{}
		for _, g := range x.helperClosure(fn) {
			for _, b := range g.Blocks {
				for _, ins := range b.Instrs {
					c, ok := ins.(*ssa.Call)
					if !ok {
						continue
					}
					callee := c.Call.StaticCallee()
					if callee == nil || !w.InLib(callee) || callee.Signature.Recv() == nil || (callee.Name() != "ReadObject" && callee.Name() != "ReadArray") {
						continue
					}
					found[callee.Name()] = append(found[callee.Name()], c)
				}
			}
		}
		for _, kind := range []string{"ReadObject", "ReadArray"} {
			if len(found[kind]) == 0 {
				continue // R03a reports a handler that does not recurse; nothing to guard here
			}
			rs.Instances++
			key := fmt.Sprintf("%s:%s", fnKey(fn), kind)
			bad := false
			for _, c := range found[kind] {
				if msg := x.depthGuardBefore(c.Parent(), c); msg != "" {
					r.Fail(rs, key, w.Pos(c.Pos()), "recursive call in "+fnKey(c.Parent())+": "+msg)
					bad = true
				}
			}
			if !bad {
				rs.OK(1)
				rs.Sample(key + ": guarded by child.depth > 10000, child.depth = parent.depth + 1")
			}
		}
	}
	// top level: ReadObject / ReadArray set depth = 1 when it is 0 and reset it by a deferred store of 0
	for _, name := range []string{"ValueReader.ReadObject", "ValueReader.ReadArray"} {
		fn := x.Func(name)
		if fn == nil {
			r.Undecided(rs, name, "-", "function not found")
			continue
		}
		rs.Instances++
		setOne, deferred := false, false
		recv := ssa.Value(nil)
		if len(fn.Params) > 0 {
			recv = fn.Params[0]
		}
		for _, fs := range x.fieldStores(fn) {
			if fs.Field == x.fld("depth") && fs.Base.isLeaf(recv) {
				if k, ok := fs.Val.constInt(); ok && k == 1 {
					setOne = true
				}
			}
		}
		for _, b := range fn.Blocks {
			for _, ins := range b.Instrs {
				t, ok := ins.(*ssa.Defer)
				if !ok {
					continue
				}
				// the deferred function — a closure or a method of the same reader — stores depth = 0
				if mc, ok := t.Call.Value.(*ssa.MakeClosure); ok {
					if cf, ok := mc.Fn.(*ssa.Function); ok && x.storesZeroDepth(cf) {
						deferred = true
					}
				} else if df := t.Call.StaticCallee(); df != nil && w.InLib(df) && len(t.Call.Args) > 0 && t.Call.Args[0] == recv && len(df.Params) > 0 {
					for _, fs := range x.fieldStores(df) {
						if fs.Field == x.fld("depth") && fs.Base.isLeaf(df.Params[0]) && fs.Always {
							if k, ok := fs.Val.constInt(); ok && k == 0 {
								deferred = true
							}
						}
					}
				}
			}
		}
		if !setOne || !deferred {
			r.Fail(rs, fnKey(fn)+":top-level-depth", w.Pos(fn.Pos()), fmt.Sprintf("top-level entry does not set depth to 1 (%v) and reset it to 0 by defer (%v)", setOne, deferred))
		} else {
			rs.OK(1)
			rs.Sample(fnKey(fn) + ": depth 0 -> 1 with deferred reset to 0")
		}
	}
	// ReadValue routes through borrow (0 + 1)
	if fn := x.Func("ValueReader.ReadValue"); fn != nil {
		rs.Instances++
		okAll := true
		for _, b := range fn.Blocks {
			for _, ins := range b.Instrs {
				if c, ok := ins.(*ssa.Call); ok {
					if callee := c.Call.StaticCallee(); callee != nil && (callee.Name() == "ReadObject" || callee.Name() == "ReadArray") {
						if msg := x.borrowSetsDepth(c.Call.Args[0]); msg != "" {
							r.Fail(rs, "ValueReader.ReadValue:"+callee.Name(), w.Pos(c.Pos()), msg)
							okAll = false
						}
					}
				}
			}
		}
		if okAll {
			rs.OK(1)
		}
	}
}

func (x *Ctx) storesZeroDepth(fn *ssa.Function) bool {
	for _, b := range fn.Blocks {
		for _, ins := range b.Instrs {
			if st, ok := ins.(*ssa.Store); ok {
				if fa, ok := st.Addr.(*ssa.FieldAddr); ok {
					if s := structOfType(fa.X.Type()); s != nil && s.Field(fa.Field).Name() == x.fld("depth") {
						if k, ok := constBig(st.Val); ok && k.Sign() == 0 {
							return true
						}
					}
				}
			}
		}
	}
	return false
}

var _ = strings.Join

// blockReturnsNonNilError: the block returns and the error it returns is known non-nil — either directly or, when
// the named results are spilled (defer), through the last store to the error result cell in that block.
func (x *Ctx) blockReturnsNonNilError(b *ssa.BasicBlock) bool {
	ret, ok := b.Instrs[len(b.Instrs)-1].(*ssa.Return)
	if !ok || len(ret.Results) == 0 {
		return false
	}
	e := ret.Results[len(ret.Results)-1]
	if x.knownNonNilError(e) {
		return true
	}
	ld, ok := e.(*ssa.UnOp)
	if !ok || ld.Op != token.MUL {
		return false
	}
	var last ssa.Value
	for _, ins := range b.Instrs {
		if st, ok := ins.(*ssa.Store); ok && st.Addr == ld.X {
			last = st.Val
		}
	}
	return last != nil && x.knownNonNilError(last)
}

// freshReaderWrapper: `func ReadX(data) (…) { h := ValueReader{}; return h.ReadX(data) }`.
func (x *Ctx) freshReaderWrapper(r *core.Result, rs *core.RuleStat, name string) {
	fn := x.Func(name)
	if fn == nil {
		r.Undecided(rs, name, "-", "function not found")
		return
	}
	rs.Instances++
	var call *ssa.Call
	var ret *ssa.Return
	var alloc *ssa.Alloc
	bad := ""
	for _, b := range fn.Blocks {
		for _, ins := range b.Instrs {
			switch t := ins.(type) {
			case *ssa.Call:
				if call != nil {
					bad = "more than one call"
				}
				call = t
			case *ssa.Return:
				ret = t
			case *ssa.Alloc:
				alloc = t
			case *ssa.Store:
				// zero-initialising store of the fresh reader is fine; anything else is not
				if alloc == nil || t.Addr != ssa.Value(alloc) {
					bad = "the wrapper writes memory other than its fresh reader"
				}
			}
		}
	}
	switch {
	case bad != "":
	case call == nil || ret == nil || alloc == nil || call.Call.StaticCallee() == nil:
		bad = "wrapper is not `h := ValueReader{}; return h." + name + "(data)`"
	case call.Call.StaticCallee().Name() != name || call.Call.StaticCallee().Signature.Recv() == nil:
		bad = "wrapper calls " + call.Call.StaticCallee().Name() + ", not the method " + name
	case len(call.Call.Args) != 2 || call.Call.Args[0] != ssa.Value(alloc) || call.Call.Args[1] != ssa.Value(fn.Params[0]):
		bad = "the method is not called on the fresh reader with the wrapper's own data"
	default:
		for i, res := range ret.Results {
			ex, ok := res.(*ssa.Extract)
			if !ok || ex.Tuple != ssa.Value(call) || ex.Index != i {
				bad = fmt.Sprintf("result %d is not the method's result %d", i, i)
			}
		}
	}
	if bad != "" {
		r.Fail(rs, name+":wrapper", x.W.Pos(fn.Pos()), bad)
	} else {
		rs.OK(1)
		rs.Sample(name + ": fresh ValueReader, method of the same name, results unchanged")
	}
}

// indexByteGuard accepts the other common way of locating the first
// backslash: idx is bytes.IndexByte(fieldname, '\\') and block b is only
// reached when idx was found (idx >= 0, idx > -1 or idx != -1).
func indexByteGuard(b *ssa.BasicBlock, idx ssa.Value, fieldname ssa.Value) bool {
	ic, ok := idx.(*ssa.Call)
	if !ok {
		return false
	}
	callee := ic.Call.StaticCallee()
	if callee == nil || callee.Pkg == nil || callee.Pkg.Pkg.Path() != "bytes" || callee.Name() != "IndexByte" {
		return false
	}
	if len(ic.Call.Args) != 2 || ic.Call.Args[0] != fieldname {
		return false
	}
	if k, ok := constBig(ic.Call.Args[1]); !ok || k.Int64() != '\\' {
		return false
	}
	for d := b; d != nil; d = d.Idom() {
		dom := d.Idom()
		if dom == nil {
			break
		}
		iff, ok := dom.Instrs[len(dom.Instrs)-1].(*ssa.If)
		if !ok {
			continue
		}
		be, ok := iff.Cond.(*ssa.BinOp)
		if !ok || be.X != idx {
			continue
		}
		kk, ok := constBig(be.Y)
		if !ok {
			continue
		}
		found := (be.Op == token.GEQ && kk.Int64() == 0) || (be.Op == token.GTR && kk.Int64() == -1) || (be.Op == token.NEQ && kk.Int64() == -1)
		if found && (dom.Succs[0] == d || dom.Succs[0].Dominates(d)) && len(dom.Succs[0].Preds) == 1 {
			return true
		}
		// `if i < 0 { return … }`: the step lies on the other edge
		foundNeg := (be.Op == token.LSS && kk.Int64() == 0) || (be.Op == token.LEQ && kk.Int64() == -1) || (be.Op == token.EQL && kk.Int64() == -1)
		if foundNeg && (dom.Succs[1] == d || dom.Succs[1].Dominates(d)) && len(dom.Succs[1].Preds) == 1 {
			return true
		}
	}
	return false
}

// helperClosure: fn and the unexported library functions it (transitively) calls statically — the unit a shape rule
// about fn has to look at so that moving part of fn into a private helper does not hide the construct.
func (x *Ctx) helperClosure(fn *ssa.Function) []*ssa.Function {
	seen := map[*ssa.Function]bool{fn: true}
	out := []*ssa.Function{fn}
	for i := 0; i < len(out); i++ {
		for _, b := range out[i].Blocks {
			for _, ins := range b.Instrs {
				c, ok := ins.(*ssa.Call)
				if !ok {
					continue
				}
				callee := c.Call.StaticCallee()
				if callee == nil || seen[callee] || !x.W.InLib(callee) || len(callee.Blocks) == 0 {
					continue
				}
				if callee.Object() != nil && callee.Object().Exported() {
					continue
				}
				if x.Machine(callee.Name()) != nil {
					continue
				}
				seen[callee] = true
				out = append(out, callee)
			}
		}
	}
	return out
}

// correlatedNonNil: v is the error result of a call to a library helper and block b is reached only when a boolean
// result of the same call was true, where the helper returns that boolean as true only together with a known
// non-nil error (`val, n, tooDeep, err := h.readChild(…); if tooDeep { return p, err }`).
func (x *Ctx) correlatedNonNil(v ssa.Value, b *ssa.BasicBlock) bool {
	ex, ok := v.(*ssa.Extract)
	if !ok || !isErrT(ex.Type()) {
		return false
	}
	call, ok := ex.Tuple.(*ssa.Call)
	if !ok {
		return false
	}
	h := call.Call.StaticCallee()
	if h == nil || !x.W.InLib(h) || len(h.Blocks) == 0 {
		return false
	}
	for _, ref := range *call.Referrers() {
		flag, ok := ref.(*ssa.Extract)
		if !ok || flag == ex {
			continue
		}
		if bt, isB := flag.Type().Underlying().(*types.Basic); !isB || bt.Info()&types.IsBoolean == 0 {
			continue
		}
		if !x.dominatedByBool(b, flag, true) {
			continue
		}
		good, n := true, 0
		for _, hb := range h.Blocks {
			ret, isRet := hb.Instrs[len(hb.Instrs)-1].(*ssa.Return)
			if !isRet {
				continue
			}
			for _, rc := range splitReturn(ret) {
				n++
				if k, isK := rc.vals[flag.Index].(*ssa.Const); isK && !constant.BoolVal(k.Value) {
					continue
				}
				if !x.knownNonNilError(rc.vals[ex.Index]) {
					good = false
				}
			}
		}
		if good && n > 0 {
			return true
		}
	}
	return false
}

// nullPredicate: h is a loop-free boolean helper that peeks at the first token of its parameter data. Its paths are
// enumerated (phis resolved by the edge taken); "the null situation" is: the peek succeeded and the token is null.
// falseCertifies: h never returns false in the null situation (so its false outcome proves "not null or peek failed");
// trueCertifies: h never returns true in the null situation.
func (x *Ctx) nullPredicate(h *ssa.Function, data *ssa.Parameter, nullName string) (falseCertifies, trueCertifies, ok bool) {
	var peek *ssa.Call
	for _, b := range h.Blocks {
		for _, ins := range b.Instrs {
			if c, isC := ins.(*ssa.Call); isC && c.Call.StaticCallee() != nil && c.Call.StaticCallee().Name() == "NextTokenType" && x.W.InLib(c.Call.StaticCallee()) {
				if len(c.Call.Args) != 1 || unspill(c.Call.Args[0]) != ssa.Value(data) || peek != nil {
					return false, false, false
				}
				peek = c
			}
		}
	}
	if peek == nil {
		return false, false, false
	}
	// value of a boolean expression in the null situation: 1 true, 0 false, -1 unknown
	var inNull func(v ssa.Value) int
	inNull = func(v ssa.Value) int {
		switch t := v.(type) {
		case *ssa.Const:
			if t.Value != nil && t.Value.Kind() == constant.Bool {
				if constant.BoolVal(t.Value) {
					return 1
				}
				return 0
			}
		case *ssa.UnOp:
			if t.Op == token.NOT {
				if r := inNull(t.X); r >= 0 {
					return 1 - r
				}
			}
		case *ssa.BinOp:
			ex, isEx := t.X.(*ssa.Extract)
			if !isEx || ex.Tuple != ssa.Value(peek) || (t.Op != token.EQL && t.Op != token.NEQ) {
				return -1
			}
			eq := -1
			if isErrT(ex.Type()) && isNilConst(t.Y) {
				eq = 1 // the peek succeeded: err == nil
			} else if ex.Index == 0 {
				if k, okc := constBig(t.Y); okc {
					if fmt.Sprint(k) == nullName {
						eq = 1
					} else {
						eq = 0 // compared with another token type: differs from null
					}
				}
			}
			if eq < 0 {
				return -1
			}
			if t.Op == token.NEQ {
				return 1 - eq
			}
			return eq
		}
		return -1
	}
	falseCertifies, trueCertifies = true, true
	npaths := 0
	var walk func(b, pred *ssa.BasicBlock, env map[*ssa.Phi]ssa.Value, depth int) bool
	walk = func(b, pred *ssa.BasicBlock, env map[*ssa.Phi]ssa.Value, depth int) bool {
		if depth > 40 || npaths > 200 {
			return false
		}
		ne := map[*ssa.Phi]ssa.Value{}
		for k, v := range env {
			ne[k] = v
		}
		res := func(v ssa.Value) ssa.Value {
			for i := 0; i < 10; i++ {
				ph, isPhi := v.(*ssa.Phi)
				if !isPhi {
					break
				}
				r, okr := ne[ph]
				if !okr {
					break
				}
				v = r
			}
			return v
		}
		if pred != nil {
			for _, ins := range b.Instrs {
				ph, isPhi := ins.(*ssa.Phi)
				if !isPhi {
					break
				}
				for i, p := range b.Preds {
					if p == pred {
						ne[ph] = res(ph.Edges[i])
					}
				}
			}
		}
		switch t := b.Instrs[len(b.Instrs)-1].(type) {
		case *ssa.Return:
			npaths++
			switch inNull(res(t.Results[0])) {
			case 1:
				trueCertifies = false
			case 0:
				falseCertifies = false
			default:
				trueCertifies, falseCertifies = false, false
			}
			return true
		case *ssa.Jump:
			return walk(b.Succs[0], b, ne, depth+1)
		case *ssa.If:
			v := inNull(res(t.Cond))
			for i, sc := range b.Succs {
				// an edge that cannot be taken in the null situation is of no interest
				if (v == 1 && i == 1) || (v == 0 && i == 0) {
					continue
				}
				if !walk(sc, b, ne, depth+1) {
					return false
				}
			}
			return true
		case *ssa.Panic:
			return true
		}
		return false
	}
	if !walk(h.Blocks[0], nil, map[*ssa.Phi]ssa.Value{}, 0) || npaths == 0 {
		return false, false, false
	}
	return falseCertifies, trueCertifies, falseCertifies || trueCertifies
}
