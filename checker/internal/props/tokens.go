package props

import (
	"fmt"
	"go/constant"
	"go/types"

	"golang.org/x/tools/go/ssa"

	"rjverif/internal/core"
	"rjverif/internal/lts"
	"rjverif/internal/product"
	"rjverif/internal/ref"
	"rjverif/internal/scan"
)

// tableRules: R13a — the 256-entry tables equal their definitions.
func (x *Ctx) tableRules(r *core.Result, rs *core.RuleStat) {
	names := x.tokenTypeNames()
	// tokenTypes
	if obj := x.varRole(x.W.Root, "tokenTypes"); obj != nil {
		rs.Instances++
		if t := core.ReadTable256(x.W.Root, obj); t != nil {
			for i := 0; i < 256; i++ {
				v, _ := constant.Int64Val(constant.ToInt(t[i]))
				got := names[fmt.Sprint(v)]
				want := refTokenClass(byte(i))
				if got != want {
					r.Fail(rs, fmt.Sprintf("tokenTypes[0x%02x]", i), x.W.Pos(obj.Pos()), fmt.Sprintf("byte %q is classified %s, the JSON token table says %s", rune(i), got, want))
				} else {
					rs.OK(1)
				}
			}
			rs.Sample("tokenTypes: 256 entries compared with the JSON token table")
		} else {
			r.Undecided(rs, "tokenTypes", x.W.Pos(obj.Pos()), "table is not a constant composite literal")
		}
	} else {
		r.Undecided(rs, "tokenTypes", "-", "table not found")
	}
	x.boolTable(r, rs, x.W.Root, "whitespace", ref.WS, "JSON whitespace {0x20,0x09,0x0A,0x0D}")
}

func (x *Ctx) boolTable(r *core.Result, rs *core.RuleStat, pkg interface{}, name string, want lts.ByteSet, desc string) {
	p := x.W.Root
	if pp, ok := pkg.(string); ok && pp == "fp" {
		p = x.W.FP
	}
	obj := p.Types.Scope().Lookup(name)
	if _, isVar := obj.(*types.Var); !isVar {
		// under another name? a [256]bool table with exactly this content
		if o := x.boolTableByContent(p, want); o != nil {
			rs.Instances++
			rs.OK(256)
			rs.Sample(fmt.Sprintf("%s.%s: the table with content %s", p.Types.Name(), o.Name(), desc))
			return
		}
		// no such table: whatever tables the scanners do use are read entry by entry by the scanner interpreter (E2),
		// so a wrong class of bytes shows up in the automaton comparisons
		r.Notes = append(r.Notes, fmt.Sprintf("no [256]bool table with content %s in package %s (looked for %q); byte classes are judged where they are used", desc, p.Types.Name(), name))
		return
	}
	rs.Instances++
	t := core.ReadTable256(p, obj)
	if t == nil {
		r.Undecided(rs, p.Types.Name()+"."+name, x.W.Pos(obj.Pos()), "table is not a constant composite literal")
		return
	}
	for i := 0; i < 256; i++ {
		got := t[i].Kind() == constant.Bool && constant.BoolVal(t[i])
		if got != want.Has(byte(i)) {
			r.Fail(rs, fmt.Sprintf("%s.%s[0x%02x]", p.Types.Name(), name, i), x.W.Pos(obj.Pos()), fmt.Sprintf("entry for byte %q is %v; the table must be exactly %s", rune(i), got, desc))
		} else {
			rs.OK(1)
		}
	}
	rs.Sample(fmt.Sprintf("%s.%s: 256 entries = %s", p.Types.Name(), name, desc))
}

// C13 — token classification, literals, type exclusivity.
func C13(x *Ctx, r *core.Result) {
	r.Trusted = append(r.Trusted, trustedAutomata...)
	a := r.Rule("R13a", "tokenTypes equals the JSON token table for all 256 bytes; whitespace is exactly {space, tab, CR, LF}")
	x.tableRules(r, a)
	r.CheckFloor(a, 2)

	b := r.Rule("R13b", "NextToken / NextTokenType skip exactly ws*, classify the next byte by the table, report index+1, and report io.EOF exactly for empty / all-whitespace input")
	names := x.tokenTypeNames()
	// NextTokenType: Extra = numeric TokenType -> name
	flat, res, _ := x.Flat("NextTokenType", func(fn *ssa.Function) *scan.Spec { return scan.FuncSpec(fn, 1, 2, -1, 0) })
	if res == nil {
		r.Undecided(b, "NextTokenType", "-", "function not found")
	} else {
		x.reportScanProblems(r, b, res)
		x.unsafeReads(r, b, res)
		renameExtra(flat, names)
		x.bisim(r, b, "NextTokenType", flat, ref.Token(refTokenClass, false), product.Options{CompareExtra: true})
		x.eofIsIOEOF(r, b, "NextTokenType", flat)
	}
	flat2, res2, _ := x.Flat("NextToken", func(fn *ssa.Function) *scan.Spec { return scan.FuncSpec(fn, 1, 2, -1, 0) })
	if res2 == nil {
		r.Undecided(b, "NextToken", "-", "function not found")
	} else {
		x.reportScanProblems(r, b, res2)
		x.unsafeReads(r, b, res2)
		x.bisim(r, b, "NextToken", flat2, ref.Token(func(c byte) string {
			if refTokenClass(c) == "InvalidType" {
				return "InvalidType"
			}
			return "=byte"
		}, true), product.Options{CompareExtra: true})
		x.eofIsIOEOF(r, b, "NextToken", flat2)
	}
	r.CheckFloor(b, 2)

	c := r.Rule("R13c", "readNull / readBool (E1) and their exported wrappers accept exactly ws* null / ws* (true|false), offset just after the literal, value true on `true` and false on `false`")
	x.reportMachineProblems(r, c, "readNull", "readBool")
	marks := func(e *lts.Edge) []string {
		var out []string
		for _, p := range e.Prims {
			if p.Kind == "SETVAL" {
				out = append(out, "SETVAL("+p.Arg+")")
			}
		}
		return out
	}
	if m := x.Machine("readNull"); m != nil {
		x.bisim(r, c, "readNull", m.LTS, ref.Literal("R-null", map[string]string{"null": ""}), product.Options{ImplMarks: marks, RefMarks: marks})
	}
	if m := x.Machine("readBool"); m != nil {
		x.bisim(r, c, "readBool", m.LTS, ref.Literal("R-bool", map[string]string{"true": "true", "false": "false"}), product.Options{ImplMarks: marks, RefMarks: marks})
		// the value returned is the variable the SETVAL actions assign
		if m.ValVar == "" || m.Returns != "var:"+m.ValVar+",p,nil," {
			r.Fail(c, "readBool:return", x.W.Pos(m.Decl.Pos()), fmt.Sprintf("readBool does not return (the variable set by the literal actions, p, nil): returns %q, value variable %q", m.Returns, m.ValVar))
		} else {
			c.OK(1)
		}
	}
	x.scannerVsRef(r, c, "ReadNull", specOffErr(0, 1), ref.Literal("R-null", map[string]string{"null": ""}), product.Options{})
	x.scannerVsRef(r, c, "ReadBool", specOffErr(1, 2), ref.Literal("R-bool", map[string]string{"true": "", "false": ""}), product.Options{})
	x.wrapperIdentity(r, c, "ReadBool", "readBool")
	x.wrapperIdentity(r, c, "ReadNull", "readNull")
	r.CheckFloor(c, 4)

	d := r.Rule("R13d", "type exclusivity: the first non-whitespace byte of any input a typed reader accepts is classified by tokenTypes as that reader's type")
	x.exclusivity(r, d)
	r.CheckFloor(d, 10)
	e13 := r.Rule("R13e", "the container readers and null (shared with R03c): the handler machines accept the literal null, so ReadObject / ReadArray re-examine the first token whenever the container came out empty and refuse null — a successful return is reachable only behind `container non-empty`, a failed peek or `first token != null`, whatever the reader's history")
	for _, n := range []string{"ValueReader.ReadObject", "ValueReader.ReadArray"} {
		x.nullGuard(r, e13, n)
	}
	r.CheckFloor(e13, 2)
	r.Exhaustive = true
	r.Explain = "tables compared entry by entry; token functions and literal machines by product construction; exclusivity from the first-byte sets of the extracted models"
}

func init() { Registry["C13"] = Prop{"proof", C13} }

func renameExtra(l *lts.LTS, names map[string]string) {
	if l == nil {
		return
	}
	for _, s := range l.States {
		for i := range s.Edges {
			if n, ok := names[s.Edges[i].Term.Extra]; ok {
				s.Edges[i].Term.Extra = n
			}
		}
	}
}

// eofIsIOEOF: at end of input the error is io.EOF; on any byte it is not.
func (x *Ctx) eofIsIOEOF(r *core.Result, rs *core.RuleStat, what string, l *lts.LTS) {
	if l == nil {
		return
	}
	for _, id := range l.IDs() {
		s := l.States[id]
		for _, o := range s.EOF {
			if !o.OK && o.Err != "EOF" {
				r.Fail(rs, what+":eof-error", s.Pos, "end of input is reported with "+o.Err+", not io.EOF")
			} else {
				rs.OK(1)
			}
		}
		for _, e := range s.Edges {
			if e.Term.Kind == lts.Exit && !e.Term.OK && e.Term.Err == "EOF" {
				r.Fail(rs, what+":eof-on-byte", e.Pos, fmt.Sprintf("io.EOF is reported although a byte %s is present", e.Bytes))
			} else {
				rs.OK(1)
			}
		}
	}
}

// wrapperIdentity: an exported function consists of `return inner(args…)` with its own parameters, unchanged.
func (x *Ctx) wrapperIdentity(r *core.Result, rs *core.RuleStat, outer, inner string) {
	fn := x.Func(outer)
	if fn == nil {
		r.Undecided(rs, outer, "-", "function not found")
		return
	}
	rs.Instances++
	key := outer + ":wrapper"
	var call *ssa.Call
	var ret *ssa.Return
	n := 0
	for _, b := range fn.Blocks {
		for _, ins := range b.Instrs {
			switch ins := ins.(type) {
			case *ssa.Call:
				call = ins
				n++
			case *ssa.Return:
				ret = ins
				n++
			case *ssa.Extract, *ssa.DebugRef:
			default:
				n += 10
			}
		}
	}
	if call == nil || ret == nil || n != 2 || call.Call.StaticCallee() == nil || x.canon(call.Call.StaticCallee()) != inner {
		r.Fail(rs, key, x.W.Pos(fn.Pos()), "wrapper is not a plain `return "+inner+"(…)`")
		return
	}
	for i, a := range call.Call.Args {
		if i >= len(fn.Params) || a != fn.Params[i] {
			r.Fail(rs, key, x.W.Pos(call.Pos()), fmt.Sprintf("argument %d of %s is not the wrapper's own parameter", i, inner))
			return
		}
	}
	for i, res := range ret.Results {
		ex, ok := res.(*ssa.Extract)
		if !ok || ex.Tuple != call || ex.Index != i {
			r.Fail(rs, key, x.W.Pos(ret.Pos()), fmt.Sprintf("result %d is not result %d of %s unchanged", i, i, inner))
			return
		}
	}
	rs.OK(1)
	rs.Sample(outer + " returns " + inner + "(…) unchanged")
}

// exclusivity: R13d.
func (x *Ctx) exclusivity(r *core.Result, rs *core.RuleStat) {
	type rd struct {
		name  string
		spec  func(fn *ssa.Function) *scan.Spec
		class []string
	}
	readers := []rd{
		{"ReadNull", specOffErr(0, 1), []string{"NullType"}},
		{"ReadBool", specOffErr(1, 2), []string{"TrueType", "FalseType"}},
		{"ReadString", specOffErr(1, 2), []string{"StringType"}},
		{"ReadStringBytes", specOffErr(1, 2), []string{"StringType"}},
		{"ReadFloat64", specOffErr(1, 2), []string{"NumberType"}},
	}
	for _, ir := range intReaders {
		readers = append(readers, rd{ir.name, specOffErr(1, 2), []string{"NumberType"}})
	}
	// bytes per class according to the repository's own table (R13a proves the table right)
	names := x.tokenTypeNames()
	byClass := map[string]lts.ByteSet{}
	if obj := x.varRole(x.W.Root, "tokenTypes"); obj != nil {
		if t := core.ReadTable256(x.W.Root, obj); t != nil {
			for i := 0; i < 256; i++ {
				v, _ := constant.Int64Val(constant.ToInt(t[i]))
				n := names[fmt.Sprint(v)]
				byClass[n] = byClass[n].Or(lts.Of(byte(i)))
			}
		}
	}
	for _, rd := range readers {
		flat, res, _ := x.Flat(rd.name, rd.spec)
		if res == nil || flat == nil {
			r.Undecided(rs, rd.name, "-", "reader not found")
			continue
		}
		rs.Instances++
		fb := firstBytes(flat)
		var allowed lts.ByteSet
		for _, c := range rd.class {
			allowed = allowed.Or(byClass[c])
		}
		if extra := fb.Minus(allowed); !extra.Empty() {
			r.Fail(rs, rd.name+":first-byte", res.LTS.States[res.LTS.Start].Pos, fmt.Sprintf("%s can succeed on input starting with %s, which the token table does not classify as %v", rd.name, extra, rd.class))
		} else {
			rs.OK(1)
			rs.Sample(fmt.Sprintf("%s: accepted first bytes %s ⊆ %v", rd.name, fb, rd.class))
		}
	}
}
