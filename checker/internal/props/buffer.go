package props

import (
	"fmt"
	"go/token"
	"go/types"

	"golang.org/x/tools/go/ssa"

	"rjverif/internal/core"
	"rjverif/internal/lts"
)

// depthClasses: states reachable with an empty machine stack (d0) and with a non-empty one (d1).
func depthClasses(l *lts.LTS) (d0, d1 map[int]bool) {
	d0, d1 = map[int]bool{}, map[int]bool{}
	var w0, w1 []int
	add := func(m map[int]bool, w *[]int, id int) {
		if !m[id] {
			m[id] = true
			*w = append(*w, id)
		}
	}
	add(d0, &w0, l.Start)
	for len(w0) > 0 || len(w1) > 0 {
		if len(w0) > 0 {
			id := w0[len(w0)-1]
			w0 = w0[:len(w0)-1]
			if s := l.States[id]; s != nil {
				for _, e := range s.Edges {
					switch e.Term.Kind {
					case lts.Move:
						add(d0, &w0, e.Term.To)
					case lts.Call:
						add(d1, &w1, e.Term.To)
						add(d0, &w0, e.Term.Ret)
					}
				}
			}
			continue
		}
		id := w1[len(w1)-1]
		w1 = w1[:len(w1)-1]
		if s := l.States[id]; s != nil {
			for _, e := range s.Edges {
				switch e.Term.Kind {
				case lts.Move:
					add(d1, &w1, e.Term.To)
				case lts.Call:
					add(d1, &w1, e.Term.To)
					add(d1, &w1, e.Term.Ret)
				}
			}
		}
	}
	return
}

// bufferRules: R14a-c on a machine that takes a stack.
func (x *Ctx) bufferRules(r *core.Result, rs *core.RuleStat, names ...string) {
	for _, n := range names {
		m := x.Machine(n)
		if m == nil {
			r.Undecided(rs, n, "-", "machine not found")
			continue
		}
		if m.Roles.Stack == nil || m.Roles.Top == nil {
			r.Undecided(rs, n+":stack", x.W.Pos(m.Decl.Pos()), "machine takes no stack / has no depth counter")
			continue
		}
		x.reportMachineProblems(r, rs, n)
		rs.Instances++
		// R14a: top = 0 in the prologue is part of the scaffolding identities (a missing reset is a Problem above).
		rs.OK(1)
		// R14b/c: depth typestate
		d0, d1 := depthClasses(m.LTS)
		nRet, nH := 0, 0
		for _, id := range m.LTS.IDs() {
			s := m.LTS.States[id]
			for _, e := range s.Edges {
				if e.Term.Kind == lts.Ret {
					nRet++
					if d0[id] {
						r.Fail(rs, fmt.Sprintf("%s:state %d:fret", n, id), e.Pos, "pop (fret) in a state reachable with an empty stack: it would read a slot this call never wrote (stale buffer contents / index -1)")
					} else if !d1[id] {
						rs.OK(1) // unreachable state
					} else {
						rs.OK(1)
					}
				}
				for _, p := range e.Prims {
					if p.Kind == "HANDLER_FULL" || p.Kind == "HANDLER_SIMPLE" {
						nH++
						if d1[id] {
							r.Fail(rs, fmt.Sprintf("%s:state %d:handler", n, id), e.Pos, "handler invoked while the machine's own stack is not empty: a re-entrant use of the shared buffer could overwrite slots that are read back")
						} else {
							rs.OK(1)
						}
					}
				}
			}
		}
		rs.Sample(fmt.Sprintf("%s: %d states with empty stack, %d inside nested regions, %d pop edges, %d handler edges", n, len(d0), len(d1), nRet, nH))
		// growth + store discipline (R10c) is checked by stackRules
	}
}

// wrapperSymmetry: R14d — an exported function taking *Buffer calls the same function with the same arguments
// in the nil and non-nil branch, passes buffer.stackBuf and stores the returned slice back.
func (x *Ctx) wrapperSymmetry(r *core.Result, rs *core.RuleStat, names ...string) {
	x.wrapperSymmetryOpt(r, rs, false, names...)
}

// wrapperSymmetryOpt: with storeBack the grown stack must also be stored back into the Buffer (needed for the
// allocation properties C19/C20, irrelevant for result equality C14).
func (x *Ctx) wrapperSymmetryOpt(r *core.Result, rs *core.RuleStat, storeBack bool, names ...string) {
	for _, n := range names {
		fn := x.Func(n)
		if fn == nil {
			r.Undecided(rs, n, "-", "wrapper function not found")
			continue
		}
		rs.Instances++
		var bufParam *ssa.Parameter
		for _, p := range fn.Params {
			if pt, ok := p.Type().(*types.Pointer); ok {
				if nt, ok := pt.Elem().(*types.Named); ok && nt.Obj().Name() == "Buffer" {
					bufParam = p
				}
			}
		}
		if bufParam == nil {
			r.Undecided(rs, n+":buffer", x.W.Pos(fn.Pos()), "no *Buffer parameter")
			continue
		}
		var calls []*ssa.Call
		for _, b := range fn.Blocks {
			for _, ins := range b.Instrs {
				if c, ok := ins.(*ssa.Call); ok {
					if callee := c.Call.StaticCallee(); callee != nil && x.W.InLib(callee) && x.Machine(callee.Name()) != nil {
						calls = append(calls, c)
					}
				}
			}
		}
		if storeBack {
			// nothing but the stack a machine handed back is ever stored into the buffer's stack (here or in a private
			// helper given the buffer): a wrapper that afterwards drops it (`buffer.stackBuf = nil` when it has grown
			// large) leaves the next successful call to allocate again
			for _, fs := range x.fieldStores(fn) {
				if !fs.Base.isLeaf(bufParam) || !isIntSlice(fs.Store.Val.Type()) {
					continue
				}
				v := fs.Val
				fromMachine := v != nil && v.Call != nil && v.Call.Call.StaticCallee() != nil && x.Machine(v.Call.Call.StaticCallee().Name()) != nil
				if !fromMachine {
					r.Fail(rs, n+":stack-dropped", x.W.Pos(fs.Store.Pos()), "the buffer's stack is overwritten with something other than the stack a machine handed back (the warmed stack is dropped; the next successful call allocates)")
				}
			}
		}
		key := n + ":wrapper"
		if len(calls) == 1 {
			// single-call shape: the stack handed to the machine is nil or buffer.stackBuf (chosen by a nil test on the buffer);
			// data / handler are the wrapper's own parameters; the grown stack is stored back under buffer != nil
			if msg := x.singleCallWrapper(fn, calls[0], bufParam, storeBack); msg != "" {
				r.Fail(rs, key, x.W.Pos(calls[0].Pos()), msg)
			} else {
				rs.OK(1)
				rs.Sample(n + ": one call of " + calls[0].Call.StaticCallee().Name() + "; the buffer only chooses the stack argument")
			}
			continue
		}
		if len(calls) == 0 {
			// delegation: the only use of the buffer is to hand it, with the wrapper's own data, to another wrapper
			// that is itself one of the checked ones
			if dn := x.delegatesTo(fn, bufParam, bufferWrappers); dn != "" {
				rs.OK(1)
				rs.Sample(n + ": hands its data and buffer to " + dn + " (checked as a wrapper itself)")
				listed := false
				for _, m := range names {
					if m == dn {
						listed = true
					}
				}
				if !listed {
					x.wrapperSymmetryOpt(r, rs, storeBack, dn)
				}
				continue
			}
		}
		if len(calls) != 2 {
			r.Fail(rs, key, x.W.Pos(fn.Pos()), fmt.Sprintf("expected one machine call per branch (nil / non-nil buffer), found %d", len(calls)))
			continue
		}
		a, b := calls[0], calls[1]
		if a.Call.StaticCallee() != b.Call.StaticCallee() {
			r.Fail(rs, key, x.W.Pos(b.Pos()), "the two buffer branches call different functions")
			continue
		}
		// find the condition separating them: a block ending in If on buffer == nil
		okCond := false
		for _, blk := range fn.Blocks {
			if iff, ok := blk.Instrs[len(blk.Instrs)-1].(*ssa.If); ok {
				if be, ok := iff.Cond.(*ssa.BinOp); ok && (be.Op == token.EQL || be.Op == token.NEQ) {
					if (be.X == bufParam && isNilConst(be.Y)) || (be.Y == bufParam && isNilConst(be.X)) {
						okCond = true
					}
				}
			}
		}
		if !okCond {
			r.Fail(rs, key, x.W.Pos(fn.Pos()), "no `buffer == nil` test separates the two calls")
			continue
		}
		// classify which call uses the buffer
		usesBuf := func(c *ssa.Call) (stackArg int, ok bool) {
			for i, arg := range c.Call.Args {
				if u, isU := arg.(*ssa.UnOp); isU && u.Op == token.MUL {
					if fa, isF := u.X.(*ssa.FieldAddr); isF && fa.X == bufParam {
						return i, true
					}
				}
			}
			return -1, false
		}
		ia, oka := usesBuf(a)
		ib, okb := usesBuf(b)
		var withBuf, without *ssa.Call
		var si int
		switch {
		case oka && !okb:
			withBuf, without, si = a, b, ia
		case okb && !oka:
			withBuf, without, si = b, a, ib
		default:
			r.Fail(rs, key, x.W.Pos(a.Pos()), "exactly one branch must pass buffer.stackBuf")
			continue
		}
		bad := false
		for i := range withBuf.Call.Args {
			if i == si {
				if !isNilConst(without.Call.Args[i]) {
					r.Fail(rs, key, x.W.Pos(without.Pos()), "the nil-buffer branch does not pass a nil stack")
					bad = true
				}
				continue
			}
			if withBuf.Call.Args[i] != without.Call.Args[i] {
				r.Fail(rs, key, x.W.Pos(without.Pos()), fmt.Sprintf("argument %d differs between the buffer branches", i))
				bad = true
			}
		}
		// store-back of the returned slice
		stored := false
		for _, ref := range *withBuf.Referrers() {
			if ex, ok := ref.(*ssa.Extract); ok && isIntSlice(ex.Type()) {
				for _, u := range *ex.Referrers() {
					if st, ok := u.(*ssa.Store); ok {
						if fa, ok := st.Addr.(*ssa.FieldAddr); ok && fa.X == bufParam {
							stored = true
						}
					}
				}
			}
		}
		if !stored && storeBack {
			r.Fail(rs, key+":storeback", x.W.Pos(withBuf.Pos()), "the grown stack is not stored back into the buffer")
			bad = true
		}
		// results used identically: the same result index flows to the same phi or to the same return position
		useSig := func(c *ssa.Call) map[string]bool {
			sig := map[string]bool{}
			for _, ref := range *c.Referrers() {
				ex, ok := ref.(*ssa.Extract)
				if !ok || isIntSlice(ex.Type()) {
					continue
				}
				for _, u := range *ex.Referrers() {
					switch u := u.(type) {
					case *ssa.Phi:
						sig[fmt.Sprintf("%d->phi:%s", ex.Index, u.Name())] = true
					case *ssa.Return:
						for i, res := range u.Results {
							if res == ex {
								sig[fmt.Sprintf("%d->return[%d]", ex.Index, i)] = true
							}
						}
					case *ssa.DebugRef:
					default:
						sig[fmt.Sprintf("%d->other:%T", ex.Index, u)] = true
					}
				}
			}
			return sig
		}
		sa, sb := useSig(withBuf), useSig(without)
		for k := range sa {
			if !sb[k] {
				r.Fail(rs, key, x.W.Pos(without.Pos()), "results are used differently in the two buffer branches ("+k+" only with a buffer)")
				bad = true
			}
		}
		for k := range sb {
			if !sa[k] {
				r.Fail(rs, key, x.W.Pos(without.Pos()), "results are used differently in the two buffer branches ("+k+" only without a buffer)")
				bad = true
			}
		}
		if !bad {
			rs.OK(1)
			rs.Sample(n + ": both branches call " + a.Call.StaticCallee().Name() + " with equal arguments; grown stack stored back")
		}
	}
}

func isNilConst(v ssa.Value) bool {
	c, ok := v.(*ssa.Const)
	return ok && c.Value == nil
}

func isIntSlice(t types.Type) bool {
	s, ok := t.Underlying().(*types.Slice)
	if !ok {
		return false
	}
	b, ok := s.Elem().Underlying().(*types.Basic)
	return ok && b.Kind() == types.Int
}

// singleCallWrapper: the wrapper calls the machine once; the buffer influences only the stack argument (and the store-back).
func (x *Ctx) singleCallWrapper(fn *ssa.Function, c *ssa.Call, buf *ssa.Parameter, storeBack bool) string {
	// fromBufferOf: v is a load of a field of the buffer value b
	fromBufferOf := func(v, b ssa.Value) bool {
		u, ok := v.(*ssa.UnOp)
		if !ok || u.Op != token.MUL {
			return false
		}
		fa, ok := u.X.(*ssa.FieldAddr)
		return ok && fa.X == b
	}
	// bufferArg: the parameter of the private helper h that receives the buffer at call c (nil if none or several)
	bufferArg := func(c *ssa.Call, b ssa.Value) (*ssa.Function, *ssa.Parameter) {
		h := c.Call.StaticCallee()
		if h == nil || !x.isPrivateHelper(h) || h.Blocks == nil || len(h.Params) != len(c.Call.Args) {
			return nil, nil
		}
		var bp *ssa.Parameter
		for i, a := range c.Call.Args {
			if a == b {
				if bp != nil {
					return nil, nil
				}
				bp = h.Params[i]
			}
		}
		return h, bp
	}
	var stackOKOf func(v, b ssa.Value, seen map[ssa.Value]bool, depth int) bool
	stackOKOf = func(v, b ssa.Value, seen map[ssa.Value]bool, depth int) bool {
		if seen[v] {
			return true
		}
		seen[v] = true
		if isNilConst(v) || fromBufferOf(v, b) {
			return true
		}
		if phi, ok := v.(*ssa.Phi); ok {
			for _, e := range phi.Edges {
				if !stackOKOf(e, b, seen, depth) {
					return false
				}
			}
			return true
		}
		// a private helper that picks the stack from the buffer: each of its returns is nil or its buffer's stack
		if hc, ok := v.(*ssa.Call); ok && depth < 3 {
			if h, hb := bufferArg(hc, b); h != nil && hb != nil && h.Signature.Results().Len() == 1 {
				n := 0
				for _, blk := range h.Blocks {
					if ret, ok := blk.Instrs[len(blk.Instrs)-1].(*ssa.Return); ok {
						n++
						if !stackOKOf(ret.Results[0], hb, map[ssa.Value]bool{}, depth+1) {
							return false
						}
					}
				}
				return n > 0
			}
		}
		return false
	}
	stackOK := func(v ssa.Value, seen map[ssa.Value]bool) bool { return stackOKOf(v, buf, seen, 0) }
	// storedInto: the value v is stored into a field of the buffer b, here or in a private helper handed both
	var storedInto func(v, b ssa.Value, depth int) bool
	storedInto = func(v, b ssa.Value, depth int) bool {
		for _, u := range *v.Referrers() {
			switch u := u.(type) {
			case *ssa.Store:
				if fa, ok := u.Addr.(*ssa.FieldAddr); ok && fa.X == b && u.Val == v {
					return true
				}
			case *ssa.Call:
				if depth >= 3 {
					continue
				}
				if h, hb := bufferArg(u, b); h != nil && hb != nil {
					for i, a := range u.Call.Args {
						if a == v && storedInto(h.Params[i], hb, depth+1) {
							return true
						}
					}
				}
			}
		}
		return false
	}
	nStack := 0
	for _, a := range c.Call.Args {
		if isIntSlice(a.Type()) {
			nStack++
			if !stackOK(a, map[ssa.Value]bool{}) {
				return "the stack handed to the machine is neither nil nor the buffer's stack"
			}
			continue
		}
		if _, isParam := a.(*ssa.Parameter); !isParam {
			if mi, isMI := a.(*ssa.MakeInterface); !isMI || func() bool { _, p := mi.X.(*ssa.Parameter); return !p }() {
				return "an argument of the machine call is not the wrapper's own parameter"
			}
		}
	}
	if nStack != 1 {
		return "the machine call does not take exactly one stack argument"
	}
	if storeBack {
		stored := false
		for _, ref := range *c.Referrers() {
			if ex, ok := ref.(*ssa.Extract); ok && isIntSlice(ex.Type()) && storedInto(ex, buf, 0) {
				stored = true
			}
		}
		if !stored {
			return "the grown stack is not stored back into the buffer"
		}
	}
	return ""
}

// delegatesTo: fn uses its buffer in exactly one place: as the buffer argument of a call of one of the named
// wrappers, whose other arguments are fn's own parameters. Returns that wrapper's name.
func (x *Ctx) delegatesTo(fn *ssa.Function, buf *ssa.Parameter, names []string) string {
	refs := *buf.Referrers()
	var call *ssa.Call
	for _, ref := range refs {
		switch u := ref.(type) {
		case *ssa.DebugRef:
		case *ssa.Call:
			if call != nil {
				return ""
			}
			call = u
		default:
			return ""
		}
	}
	if call == nil {
		return ""
	}
	callee := call.Call.StaticCallee()
	if callee == nil {
		return ""
	}
	for _, a := range call.Call.Args {
		if _, ok := a.(*ssa.Parameter); !ok {
			return ""
		}
	}
	for _, n := range names {
		if x.Func(n) == callee && callee != fn {
			return n
		}
	}
	return ""
}
