package props

import (
	"fmt"
	"go/constant"
	"go/token"
	"go/types"
	"math/big"

	"golang.org/x/tools/go/ssa"

	"rjverif/internal/core"
)

var (
	two63   = new(big.Int).Lsh(big.NewInt(1), 63)
	two64   = new(big.Int).Lsh(big.NewInt(1), 64)
	maxU64  = new(big.Int).Sub(two64, big.NewInt(1))
	maxI64  = new(big.Int).Sub(two63, big.NewInt(1))
	minI64  = new(big.Int).Neg(two63)
	maxU32  = big.NewInt(1<<32 - 1)
	maxI32  = big.NewInt(1<<31 - 1)
	minI32  = big.NewInt(-(1 << 31))
	bigZero = big.NewInt(0)
)

func constBig(v ssa.Value) (*big.Int, bool) {
	c, ok := v.(*ssa.Const)
	if !ok || c.Value == nil || c.Value.Kind() != constant.Int {
		return nil, false
	}
	b, ok := new(big.Int).SetString(c.Value.ExactString(), 10)
	return b, ok
}

// typeRange of a basic integer type on the analysed architecture.
func (x *Ctx) typeRange(t types.Type) (lo, hi *big.Int, ok bool) {
	b, isB := t.Underlying().(*types.Basic)
	if !isB {
		return nil, nil, false
	}
	sz := x.W.Root.TypesSizes.Sizeof(t)
	bits := uint(sz * 8)
	if b.Info()&types.IsUnsigned != 0 {
		return big.NewInt(0), new(big.Int).Sub(new(big.Int).Lsh(big.NewInt(1), bits), big.NewInt(1)), true
	}
	if b.Info()&types.IsInteger != 0 {
		h := new(big.Int).Lsh(big.NewInt(1), bits-1)
		return new(big.Int).Neg(h), new(big.Int).Sub(h, big.NewInt(1)), true
	}
	return nil, nil, false
}

// pathState: symbolic state along one acyclic path of a loop-free function.
type pathState struct {
	lo, hi *big.Int          // interval of the tracked value V (result 0 of the inner reader)
	holes  int               // disequalities / non-interval constraints on V (make the success set inexact)
	errNil int               // inner error: 0 unknown, 1 known nil, 2 known non-nil
	byteEq map[ssa.Value]int // byte comparisons taken (cond value -> 1 true / 2 false)
}

type retInfo struct {
	ret     *ssa.Return
	st      pathState
	valExpr string // shape of the returned value in terms of V: "V", "-V", "0", "conv(V)", "?"
	errKind int    // 1 nil for sure, 2 non-nil for sure, 0 the inner error (nil iff errNil==1)
	conds   []ssa.Value
	taken   []bool
}

// enumeratePaths walks all acyclic paths of fn (which must be loop-free apart from unreachable parts).
func (x *Ctx) enumeratePaths(fn *ssa.Function, V, E ssa.Value, vlo, vhi *big.Int) ([]retInfo, string) {
	var out []retInfo
	var problem string
	type frame struct {
		b     *ssa.BasicBlock
		pred  *ssa.BasicBlock
		st    pathState
		env   map[ssa.Value]ssa.Value // phi resolution
		conds []ssa.Value
		taken []bool
		depth int
	}
	var walk func(f frame)
	resolve := func(env map[ssa.Value]ssa.Value, v ssa.Value) ssa.Value {
		for i := 0; i < 20; i++ {
			if r, ok := env[v]; ok {
				v = r
				continue
			}
			break
		}
		return v
	}
	walk = func(f frame) {
		if problem != "" {
			return
		}
		if f.depth > 200 {
			problem = "function has loops or is too large for path enumeration"
			return
		}
		env := f.env
		// phis
		for _, ins := range f.b.Instrs {
			phi, ok := ins.(*ssa.Phi)
			if !ok {
				break
			}
			for k, p := range f.b.Preds {
				if p == f.pred {
					ne := map[ssa.Value]ssa.Value{}
					for a, b := range env {
						ne[a] = b
					}
					ne[phi] = resolve(env, phi.Edges[k])
					env = ne
					break
				}
			}
		}
		last := f.b.Instrs[len(f.b.Instrs)-1]
		switch t := last.(type) {
		case *ssa.Return:
			ri := retInfo{ret: t, st: f.st, conds: f.conds, taken: f.taken}
			if len(t.Results) > 0 {
				ri.valExpr = x.valShape(resolve(env, t.Results[0]), V, env, resolve)
				ev := resolve(env, t.Results[len(t.Results)-1])
				switch {
				case isNilConst(ev):
					ri.errKind = 1
				case ev == E:
					ri.errKind = 0
				case x.knownNonNilError(ev):
					ri.errKind = 2
				default:
					ri.errKind = 3 // unknown
				}
			}
			out = append(out, ri)
		case *ssa.Jump:
			walk(frame{f.b.Succs[0], f.b, f.st, env, f.conds, f.taken, f.depth + 1})
		case *ssa.If:
			cond := resolve(env, t.Cond)
			// a flag set on the way (`neg := false; if … { neg = true }`) is a constant on this path
			known, knownVal := false, false
			{
				c, inv := cond, false
				if u, ok := c.(*ssa.UnOp); ok && u.Op == token.NOT {
					c, inv = resolve(env, u.X), true
				}
				if k, ok := c.(*ssa.Const); ok && k.Value != nil && k.Value.Kind() == constant.Bool {
					known, knownVal = true, constant.BoolVal(k.Value) != inv
				}
			}
			for k := 0; k < 2; k++ {
				st := f.st
				feasible := true
				tk := k == 0
				if known && tk != knownVal {
					continue
				}
				// the same condition value decided earlier on this path fixes the branch
				for i, c := range f.conds {
					if c == cond && f.taken[i] != tk {
						feasible = false
					}
				}
				if be, ok := cond.(*ssa.BinOp); ok {
					l, r := resolve(env, be.X), resolve(env, be.Y)
					switch {
					case (l == E && isNilConst(r)) || (r == E && isNilConst(l)):
						isNE := be.Op == token.NEQ
						nonNil := isNE == tk
						want := 1
						if nonNil {
							want = 2
						}
						if st.errNil != 0 && st.errNil != want {
							feasible = false
						}
						st.errNil = want
					case l == V || r == V:
						c, okc := constBig(r)
						op := be.Op
						if l != V {
							c, okc = constBig(l)
							op = flipOp(op)
						}
						if !okc {
							st.holes++
						} else {
							if !tk {
								op = negOp(op)
							}
							lo, hi := new(big.Int).Set(st.lo), new(big.Int).Set(st.hi)
							switch op {
							case token.LSS:
								hi = minBig(hi, new(big.Int).Sub(c, big.NewInt(1)))
							case token.LEQ:
								hi = minBig(hi, c)
							case token.GTR:
								lo = maxBig(lo, new(big.Int).Add(c, big.NewInt(1)))
							case token.GEQ:
								lo = maxBig(lo, c)
							case token.EQL:
								lo, hi = maxBig(lo, c), minBig(hi, c)
							case token.NEQ:
								st.holes++
							}
							st.lo, st.hi = lo, hi
							if lo.Cmp(hi) > 0 {
								feasible = false
							}
						}
					}
				} else if cond == V {
					st.holes++
				}
				if feasible {
					walk(frame{f.b.Succs[k], f.b, st, env, append(append([]ssa.Value(nil), f.conds...), cond), append(append([]bool(nil), f.taken...), tk), f.depth + 1})
				}
			}
		case *ssa.Panic:
		default:
			problem = fmt.Sprintf("unexpected block terminator %T", last)
		}
	}
	walk(frame{b: fn.Blocks[0], st: pathState{lo: vlo, hi: vhi}, env: map[ssa.Value]ssa.Value{}})
	return out, problem
}

func flipOp(op token.Token) token.Token {
	switch op {
	case token.LSS:
		return token.GTR
	case token.LEQ:
		return token.GEQ
	case token.GTR:
		return token.LSS
	case token.GEQ:
		return token.LEQ
	}
	return op
}

func negOp(op token.Token) token.Token {
	switch op {
	case token.LSS:
		return token.GEQ
	case token.LEQ:
		return token.GTR
	case token.GTR:
		return token.LEQ
	case token.GEQ:
		return token.LSS
	case token.EQL:
		return token.NEQ
	case token.NEQ:
		return token.EQL
	}
	return op
}

func minBig(a, b *big.Int) *big.Int {
	if a.Cmp(b) < 0 {
		return a
	}
	return b
}
func maxBig(a, b *big.Int) *big.Int {
	if a.Cmp(b) > 0 {
		return a
	}
	return b
}

// valShape describes a returned value in terms of V.
func (x *Ctx) valShape(v, V ssa.Value, env map[ssa.Value]ssa.Value, resolve func(map[ssa.Value]ssa.Value, ssa.Value) ssa.Value) string {
	v = resolve(env, v)
	switch t := v.(type) {
	case *ssa.Const:
		if b, ok := constBig(t); ok && b.Sign() == 0 {
			return "0"
		}
		return "const"
	case *ssa.Convert:
		in := x.valShape(t.X, V, env, resolve)
		if in == "V" || in == "conv(V)" {
			return "conv(V)"
		}
		if in == "-V" || in == "-conv(V)" {
			return "-conv(V)"
		}
		return in
	case *ssa.UnOp:
		if t.Op == token.SUB {
			in := x.valShape(t.X, V, env, resolve)
			switch in {
			case "V", "conv(V)":
				return "-conv(V)"
			}
			return "?"
		}
	}
	if v == V {
		return "V"
	}
	return "?"
}

// innerReader finds the single call to another integer reader and its value/error extracts.
func innerReader(fn *ssa.Function, name string) (call *ssa.Call, V, E ssa.Value) {
	for _, b := range fn.Blocks {
		for _, ins := range b.Instrs {
			if c, ok := ins.(*ssa.Call); ok {
				if callee := c.Call.StaticCallee(); callee != nil && callee.Name() == name {
					call = c
				}
			}
		}
	}
	if call == nil {
		return
	}
	if ex := extractOf(call, 0); ex != nil {
		V = ex
	}
	if ex := extractOf(call, 2); ex != nil {
		E = ex
	}
	return
}

// intervalRules: R05b-d.
func (x *Ctx) intervalRules(r *core.Result) {
	b := r.Rule("R05b/c", "range guards as intervals: on every return of ReadInt64 / ReadInt32 / ReadUint32 / ReadInt / ReadUint whose error may be nil, the inner reader's value lies exactly in the target type's range (no wrapped or truncated value can be returned, and no in-range value is refused); the returned value is that value converted (negated for a leading '-')")
	x.readInt64Rule(r, b)
	x.narrowRule(r, b, "ReadInt32", "ReadInt64", minI32, maxI32)
	x.narrowRule(r, b, "ReadUint32", "ReadUint64", bigZero, maxU32)
	// ReadInt / ReadUint: plain conversions of the matching width
	for _, n := range []string{"ReadInt", "ReadUint"} {
		x.widthDispatchRule(r, b, n)
	}
	// ReadInt / ReadUint choose their reader by the platform's int size: the other word size is dead code in this
	// build, so the same rule is applied to the 32-bit build as well (the thorough tier runs everything there)
	if x.W.GOARCH == "" && x.Tier == "quick" {
		if w32, err := core.Load(x.W.Dir, "386", x.W.Tags); err != nil {
			r.Undecided(b, "GOARCH=386:load", "-", err.Error())
		} else {
			x32 := NewCtx(w32, "variant")
			sub := core.NewResult(r.Prop, r.Level, r.Tier)
			sb := sub.Rule("R05b/c", "")
			for _, n := range []string{"ReadInt", "ReadUint"} {
				x32.widthDispatchRule(sub, sb, n)
			}
			for _, f := range sub.Findings {
				f.Key = "[GOARCH=386] " + f.Key
				r.Findings = append(r.Findings, f)
				b.Obligations++
			}
			b.Instances += sb.Instances
			b.Obligations += sb.Discharged
			b.Discharged += sb.Discharged
		}
	}
	r.CheckFloor(b, 5)
	d := r.Rule("R05d", "numeric side conditions of ReadUint64: each digit-accumulating loop is either bounded to N digits with 10^N-1 <= 2^64-1, or refuses val > c before multiplying and refuses a result smaller than the previous value, with floor((2^64-1)/10) <= c <= floor((2^64-10)/9); the digit added is data[p]-'0' of the cursor byte; the accumulated value is what success returns")
	x.uint64LoopRule(r, d)
	r.CheckFloor(d, 2)
}

func (x *Ctx) readInt64Rule(r *core.Result, rs *core.RuleStat) {
	fn := x.Func("ReadInt64")
	if fn == nil {
		r.Undecided(rs, "ReadInt64", "-", "function not found")
		return
	}
	rs.Instances++
	_, V, E := innerReader(fn, "ReadUint64")
	if V == nil || E == nil {
		r.Undecided(rs, "ReadInt64:inner", x.W.Pos(fn.Pos()), "ReadInt64 does not read its magnitude through ReadUint64 (shape changed)")
		return
	}
	paths, prob := x.enumeratePaths(fn, V, E, bigZero, maxU64)
	if prob != "" {
		r.Undecided(rs, "ReadInt64:paths", x.W.Pos(fn.Pos()), prob)
		return
	}
	var posLo, posHi, negLo, negHi *big.Int
	okAll := true
	for _, p := range paths {
		success := p.errKind == 1 || (p.errKind == 0 && p.st.errNil != 2)
		if !success {
			continue
		}
		if p.errKind == 0 && p.st.errNil == 0 {
			// returning the inner error untested: then the value must be unconstrained-safe; treat as success path
		}
		if p.st.holes > 0 {
			r.Fail(rs, "ReadInt64:inexact", x.W.Pos(p.ret.Pos()), "a success path depends on a condition on the value that is not a range bound (some in-range values would be refused or mishandled)")
			okAll = false
		}
		switch p.valExpr {
		case "conv(V)":
			if p.st.hi.Cmp(maxI64) > 0 {
				r.Fail(rs, "ReadInt64:positive-range", x.W.Pos(p.ret.Pos()), fmt.Sprintf("a non-negative value up to %s can be returned as int64 (wraps above 2^63-1)", p.st.hi))
				okAll = false
			}
			posLo, posHi = unionLo(posLo, p.st.lo), unionHi(posHi, p.st.hi)
		case "-conv(V)":
			if p.st.hi.Cmp(two63) > 0 {
				r.Fail(rs, "ReadInt64:negative-range", x.W.Pos(p.ret.Pos()), fmt.Sprintf("a magnitude up to %s can be negated into int64 (wraps above 2^63)", p.st.hi))
				okAll = false
			}
			negLo, negHi = unionLo(negLo, p.st.lo), unionHi(negHi, p.st.hi)
		case "0":
		default:
			r.Fail(rs, "ReadInt64:value", x.W.Pos(p.ret.Pos()), "a success path returns something other than the magnitude converted (and negated for '-'): "+p.valExpr)
			okAll = false
		}
	}
	if posHi == nil || posLo.Sign() != 0 || posHi.Cmp(maxI64) != 0 {
		r.Fail(rs, "ReadInt64:positive-exact", x.W.Pos(fn.Pos()), fmt.Sprintf("non-negative values accepted are [%v, %v], must be exactly [0, 2^63-1]", posLo, posHi))
		okAll = false
	}
	if negHi == nil || negLo.Sign() != 0 || negHi.Cmp(two63) != 0 {
		r.Fail(rs, "ReadInt64:negative-exact", x.W.Pos(fn.Pos()), fmt.Sprintf("magnitudes accepted after '-' are [%v, %v], must be exactly [0, 2^63]", negLo, negHi))
		okAll = false
	}
	// the negated return is taken exactly when the '-' was seen: the branch leading to it tests the same boolean that guarded the sign skip
	if msg := x.signConsistency(fn, paths); msg != "" {
		r.Fail(rs, "ReadInt64:sign", x.W.Pos(fn.Pos()), msg)
		okAll = false
	}
	if okAll {
		rs.OK(1)
		rs.Sample("ReadInt64: magnitude in [0,2^63-1] -> int64(u); after '-' magnitude in [0,2^63] -> -int64(u); nothing else succeeds")
	}
}

func unionLo(a, b *big.Int) *big.Int {
	if a == nil || b.Cmp(a) < 0 {
		return b
	}
	return a
}
func unionHi(a, b *big.Int) *big.Int {
	if a == nil || b.Cmp(a) > 0 {
		return b
	}
	return a
}

// signConsistency: the success paths returning -V are exactly those on which the boolean `first byte == '-'` is true.
func (x *Ctx) signConsistency(fn *ssa.Function, paths []retInfo) string {
	isMinusTest := func(v ssa.Value) bool {
		be, ok := v.(*ssa.BinOp)
		if !ok || be.Op != token.EQL {
			return false
		}
		c, ok := constBig(be.Y)
		if !ok || c.Int64() != '-' {
			return false
		}
		_, isLoad := be.X.(*ssa.UnOp)
		return isLoad
	}
	for _, p := range paths {
		if !(p.errKind == 1 || (p.errKind == 0 && p.st.errNil != 2)) {
			continue
		}
		neg := -1
		for i, c := range p.conds {
			if isMinusTest(c) {
				v := 0
				if p.taken[i] {
					v = 1
				}
				if neg != -1 && neg != v {
					return "inconsistent sign tests along one path"
				}
				neg = v
			}
		}
		switch p.valExpr {
		case "-conv(V)":
			if neg != 1 {
				return "a value is negated on a path where no '-' was seen"
			}
		case "conv(V)":
			if neg != 0 {
				return "a value is returned without negation on a path where '-' was seen"
			}
		}
	}
	return ""
}

// narrowRule: outer = T(inner value) with the inner value's success interval exactly [lo, hi].
func (x *Ctx) narrowRule(r *core.Result, rs *core.RuleStat, outer, inner string, lo, hi *big.Int) {
	fn := x.Func(outer)
	if fn == nil {
		r.Undecided(rs, outer, "-", "function not found")
		return
	}
	rs.Instances++
	call, V, E := innerReader(fn, inner)
	if call == nil || V == nil || E == nil {
		r.Undecided(rs, outer+":inner", x.W.Pos(fn.Pos()), outer+" does not read through "+inner+" (shape changed)")
		return
	}
	ilo, ihi, _ := x.typeRange(V.Type())
	paths, prob := x.enumeratePaths(fn, V, E, ilo, ihi)
	if prob != "" {
		r.Undecided(rs, outer+":paths", x.W.Pos(fn.Pos()), prob)
		return
	}
	var slo, shi *big.Int
	okAll := true
	for _, p := range paths {
		success := p.errKind == 1 || (p.errKind == 0 && p.st.errNil != 2)
		if !success {
			continue
		}
		if p.errKind == 0 && p.st.errNil == 0 {
			// the inner error is returned untested on this path: it is a success exactly when the inner reader succeeded
		}
		if p.st.holes > 0 {
			r.Fail(rs, outer+":inexact", x.W.Pos(p.ret.Pos()), "a success path depends on a condition on the value that is not a range bound")
			okAll = false
		}
		switch p.valExpr {
		case "conv(V)", "V":
			if p.st.lo.Cmp(lo) < 0 || p.st.hi.Cmp(hi) > 0 {
				r.Fail(rs, outer+":range", x.W.Pos(p.ret.Pos()), fmt.Sprintf("a value in [%s, %s] can be narrowed on a path whose error may be nil; the target holds [%s, %s] (truncated value returned)", p.st.lo, p.st.hi, lo, hi))
				okAll = false
			}
			slo, shi = unionLo(slo, p.st.lo), unionHi(shi, p.st.hi)
		case "0":
			// zero returned: fine only together with an error; with a possibly-nil error it would be a wrong value unless V==0
			if !(p.st.lo.Sign() == 0 && p.st.hi.Sign() == 0) && p.errKind != 2 {
				if !(p.errKind == 0 && p.st.errNil == 2) {
					// possible success with value 0 although V may be non-zero
					if p.st.errNil != 2 {
						r.Fail(rs, outer+":zero", x.W.Pos(p.ret.Pos()), "0 is returned on a path whose error may be nil although the value read may be non-zero")
						okAll = false
					}
				}
			}
		default:
			r.Fail(rs, outer+":value", x.W.Pos(p.ret.Pos()), "a success path returns something other than the inner value converted: "+p.valExpr)
			okAll = false
		}
	}
	if slo == nil || slo.Cmp(lo) != 0 || shi.Cmp(hi) != 0 {
		r.Fail(rs, outer+":exact", x.W.Pos(fn.Pos()), fmt.Sprintf("values accepted are [%v, %v], must be exactly [%s, %s]", slo, shi, lo, hi))
		okAll = false
	}
	if okAll {
		rs.OK(1)
		rs.Sample(fmt.Sprintf("%s: succeeds exactly for %s values in [%s, %s], returned converted", outer, inner, lo, hi))
	}
}

// widthDispatchRule: ReadInt / ReadUint return the matching-width reader's value converted without loss.
func (x *Ctx) widthDispatchRule(r *core.Result, rs *core.RuleStat, name string) {
	fn := x.Func(name)
	if fn == nil {
		r.Undecided(rs, name, "-", "function not found")
		return
	}
	rs.Instances++
	tlo, thi, _ := x.typeRange(fn.Signature.Results().At(0).Type())
	okAll := true
	n := 0
	live := liveBlocks(fn)
	for _, b := range fn.Blocks {
		if !live[b] {
			continue // branch for the other word size: the condition is a constant on this architecture
		}
		for _, ins := range b.Instrs {
			c, ok := ins.(*ssa.Call)
			if !ok {
				continue
			}
			callee := c.Call.StaticCallee()
			if callee == nil || !x.W.InLib(callee) || callee.Signature.Results().Len() != 3 {
				continue
			}
			n++
			slo, shi, _ := x.typeRange(callee.Signature.Results().At(0).Type())
			if slo.Cmp(tlo) < 0 || shi.Cmp(thi) > 0 {
				r.Fail(rs, name+":width", x.W.Pos(c.Pos()), fmt.Sprintf("%s's value range [%s, %s] does not fit %s on this architecture", callee.Name(), slo, shi, fn.Signature.Results().At(0).Type()))
				okAll = false
			}
			// results passed through: value converted, offset and error by identity
			v, off, e := extractOf(c, 0), extractOf(c, 1), extractOf(c, 2)
			found := false
			for _, bb := range fn.Blocks {
				if ret, ok := bb.Instrs[len(bb.Instrs)-1].(*ssa.Return); ok && len(ret.Results) == 3 {
					cv, isConv := ret.Results[0].(*ssa.Convert)
					if isConv && v != nil && cv.X == ssa.Value(v) && off != nil && ret.Results[1] == ssa.Value(off) && e != nil && ret.Results[2] == ssa.Value(e) {
						found = true
					}
				}
			}
			if !found {
				r.Fail(rs, name+":passthrough", x.W.Pos(c.Pos()), "the results of "+callee.Name()+" are not returned as (converted value, offset, error)")
				okAll = false
			}
		}
	}
	if n == 0 {
		r.Undecided(rs, name+":inner", x.W.Pos(fn.Pos()), "no inner reader call found")
		return
	}
	if okAll {
		rs.OK(1)
		rs.Sample(name + ": value of the matching-width reader converted without loss; offset and error unchanged")
	}
}

// uint64LoopRule: R05d.
func (x *Ctx) uint64LoopRule(r *core.Result, rs *core.RuleStat) {
	fn := x.Func("ReadUint64")
	if fn == nil {
		r.Undecided(rs, "ReadUint64", "-", "function not found")
		return
	}
	cLo := new(big.Int).Div(maxU64, big.NewInt(10))
	cHi := new(big.Int).Div(new(big.Int).Sub(two64, big.NewInt(10)), big.NewInt(9))
	type accLoop struct {
		acc  *ssa.Phi
		next *ssa.BinOp // acc*10 + digit
		mul  *ssa.BinOp
	}
	var loops []accLoop
	var allBlocks []*ssa.BasicBlock
	for _, g := range x.helperClosure(fn) {
		// the accumulation may sit in a private helper (accumulateDigits(data, p, 18))
		allBlocks = append(allBlocks, g.Blocks...)
	}
	for _, b := range allBlocks {
		for _, ins := range b.Instrs {
			phi, ok := ins.(*ssa.Phi)
			if !ok {
				break
			}
			bt, isB := phi.Type().Underlying().(*types.Basic)
			if !isB || bt.Kind() != types.Uint64 {
				continue
			}
			for _, e := range phi.Edges {
				add, ok := e.(*ssa.BinOp)
				if !ok || add.Op != token.ADD {
					continue
				}
				for _, pair := range [][2]ssa.Value{{add.X, add.Y}, {add.Y, add.X}} {
					mul, ok := pair[0].(*ssa.BinOp)
					if !ok || mul.Op != token.MUL {
						continue
					}
					ten, okc := constBig(mul.Y)
					base := mul.X
					if !okc {
						ten, okc = constBig(mul.X)
						base = mul.Y
					}
					if okc && ten.Int64() == 10 && base == ssa.Value(phi) {
						loops = append(loops, accLoop{phi, add, mul})
					}
				}
			}
		}
	}
	if len(loops) == 0 {
		r.Undecided(rs, "ReadUint64:loops", x.W.Pos(fn.Pos()), "no digit-accumulating loop (val = val*10 + digit) found: the conversion has a shape this rule cannot judge")
		return
	}
	for i, lp := range loops {
		rs.Instances++
		key := fmt.Sprintf("ReadUint64:accumulating loop #%d", i+1)
		okLoop := true
		// digit operand: convert(load data[idx]) - 48
		digit := lp.next.X
		if digit == ssa.Value(lp.mul) {
			digit = lp.next.Y
		}
		if msg := digitShape(digit); msg != "" {
			r.Fail(rs, key+":digit", x.W.Pos(lp.next.Pos()), msg)
			okLoop = false
		}
		// checks on this loop: `acc > C -> error` and `next < acc -> error`
		var cutoff *big.Int
		var cutoffPos, wrapPos token.Pos
		hasWrap := false
		var wrapBad string
		for _, ref := range *lp.acc.Referrers() {
			be, ok := ref.(*ssa.BinOp)
			if !ok {
				continue
			}
			if c, ok := constBig(be.Y); ok && be.X == ssa.Value(lp.acc) && (be.Op == token.GTR || be.Op == token.GEQ) && leadsToErrorReturn(x, be, true) {
				cutoff = new(big.Int).Set(c)
				if be.Op == token.GEQ {
					cutoff.Sub(cutoff, big.NewInt(1))
				}
				cutoffPos = be.Pos()
			}
		}
		for _, ref := range *lp.next.Referrers() {
			be, ok := ref.(*ssa.BinOp)
			if !ok || !isCmpOp(be.Op) {
				continue
			}
			if !leadsToErrorReturn(x, be, true) && !leadsToErrorReturn(x, be, false) {
				continue
			}
			wrapPos = be.Pos()
			// must be next < acc (error when true) or equivalent
			switch {
			case be.X == ssa.Value(lp.next) && be.Y == ssa.Value(lp.acc) && be.Op == token.LSS && leadsToErrorReturn(x, be, true):
				hasWrap = true
			case be.X == ssa.Value(lp.acc) && be.Y == ssa.Value(lp.next) && be.Op == token.GTR && leadsToErrorReturn(x, be, true):
				hasWrap = true
			case be.X == ssa.Value(lp.next) && be.Y == ssa.Value(lp.acc) && be.Op == token.GEQ && leadsToErrorReturn(x, be, false):
				hasWrap = true
			default:
				wrapBad = "the wrap-around test after val*10+digit does not compare the new value with the previous value (`newVal < val`): a wrapped product can pass"
			}
		}
		// digit bound of the loop: exit when (cursor - start) == N
		bound := x.loopDigitBound(lp.acc)
		switch {
		case cutoff != nil || hasWrap || wrapBad != "":
			if wrapBad != "" {
				r.Fail(rs, key+":wrap-test", x.W.Pos(wrapPos), wrapBad)
				okLoop = false
			} else if !hasWrap {
				r.Fail(rs, key+":wrap-test", x.W.Pos(lp.next.Pos()), "a loop that refuses large values before multiplying lacks the wrap-around test on the result")
				okLoop = false
			}
			if cutoff == nil {
				r.Fail(rs, key+":cutoff", x.W.Pos(lp.next.Pos()), "the checked loop multiplies without first refusing val > cutoff: the product can wrap more than once and pass the `newVal < val` test")
				okLoop = false
			} else if cutoff.Cmp(cLo) < 0 || cutoff.Cmp(cHi) > 0 {
				r.Fail(rs, key+":cutoff", x.W.Pos(cutoffPos), fmt.Sprintf("values above %s are refused before multiplying; for the wrap test to be exact and no valid uint64 to be refused the threshold must lie in [%s, %s]", cutoff, cLo, cHi))
				okLoop = false
			}
		case bound >= 0:
			// unchecked loop: at most `bound` digits accumulate from 0
			lim := new(big.Int).Exp(big.NewInt(10), big.NewInt(int64(bound)), nil)
			lim.Sub(lim, big.NewInt(1))
			if lim.Cmp(maxU64) > 0 {
				r.Fail(rs, key+":digits", x.W.Pos(lp.next.Pos()), fmt.Sprintf("the unchecked loop accumulates up to %d digits; 10^%d-1 does not fit uint64", bound, bound))
				okLoop = false
			}
		default:
			r.Fail(rs, key+":unbounded", x.W.Pos(lp.next.Pos()), "a digit-accumulating loop has neither a digit-count bound nor overflow checks")
			okLoop = false
		}
		if okLoop {
			rs.OK(1)
			if cutoff != nil {
				rs.Sample(fmt.Sprintf("%s: checked (refuse val > %s, refuse newVal < val)", key, cutoff))
			} else {
				rs.Sample(fmt.Sprintf("%s: unchecked, at most %d digits", key, bound))
			}
		}
	}
	// the first checked loop starts from the unchecked loop's result after exactly `bound` digits: 10^bound-1 <= cutoff is implied by cLo
	// success returns the accumulated value
	rs.Instances++
	okRet := true
	for _, b := range fn.Blocks {
		ret, ok := b.Instrs[len(b.Instrs)-1].(*ssa.Return)
		if !ok || len(ret.Results) != 3 || !isNilConst(ret.Results[2]) {
			continue
		}
		if !x.isAccOrZero(ret.Results[0], loops[0].acc, map[ssa.Value]bool{}) && !singleDigitReturn(ret, loops[0].acc) {
			r.Fail(rs, "ReadUint64:return-value", x.W.Pos(ret.Pos()), "a success return does not return the accumulated value (or the literal 0 for the token `0`)")
			okRet = false
		}
	}
	if okRet {
		rs.OK(1)
	}
}

func isCmpOp(op token.Token) bool {
	switch op {
	case token.EQL, token.NEQ, token.LSS, token.LEQ, token.GTR, token.GEQ:
		return true
	}
	return false
}

// digitShape: v is convert(load of a []byte element) - '0' (in either order of conversion and subtraction).
func digitShape(v ssa.Value) string {
	sub, ok := v.(*ssa.BinOp)
	if !ok || sub.Op != token.SUB {
		return "the value added per digit is not `data[p] - '0'`"
	}
	c, okc := constBig(sub.Y)
	if !okc || c.Int64() != '0' {
		return "the value added per digit does not subtract '0'"
	}
	x := sub.X
	if cv, ok := x.(*ssa.Convert); ok {
		x = cv.X
	}
	ld, ok := x.(*ssa.UnOp)
	if !ok || ld.Op != token.MUL {
		return "the value added per digit is not read from the input"
	}
	if _, ok := ld.X.(*ssa.IndexAddr); !ok {
		return "the value added per digit is not an element of the input"
	}
	return ""
}

// leadsToErrorReturn: the If on cond, on its `when` edge, reaches a block that returns a non-nil error directly.
func leadsToErrorReturn(x *Ctx, cond *ssa.BinOp, when bool) bool {
	for _, ref := range *cond.Referrers() {
		iff, ok := ref.(*ssa.If)
		if !ok {
			continue
		}
		s := iff.Block().Succs[0]
		if !when {
			s = iff.Block().Succs[1]
		}
		if ret, ok := s.Instrs[len(s.Instrs)-1].(*ssa.Return); ok && len(ret.Results) > 0 {
			e := ret.Results[len(ret.Results)-1]
			if !isNilConst(e) && x.knownNonNilError(e) {
				return true
			}
		}
	}
	return false
}

// loopDigitBound: the loop of the accumulator phi exits when (cursor - start) == N; returns N or -1.
func (x *Ctx) loopDigitBound(acc *ssa.Phi) int {
	blk := acc.Block()
	inLoop := func(b *ssa.BasicBlock) bool { return blk.Dominates(b) && (b == blk || canReach(b, blk)) }
	// a test inside the loop, `cursor - start == N` with the cursor a loop-carried variable advanced by one per trip
	// and start fixed before the loop, whose true edge leaves the loop
	for _, b := range acc.Parent().Blocks {
		if !inLoop(b) {
			continue
		}
		iff, ok := b.Instrs[len(b.Instrs)-1].(*ssa.If)
		if !ok {
			continue
		}
		be, ok := iff.Cond.(*ssa.BinOp)
		if !ok {
			continue
		}
		// the edge on which the count has reached N: `== N` / `>= N` true edge, `!= N` / `< N` false edge
		leave := -1
		switch be.Op {
		case token.EQL, token.GEQ:
			leave = 0
		case token.NEQ, token.LSS:
			leave = 1
		}
		if leave < 0 {
			continue
		}
		c, okc := constBig(be.Y)
		if par, isPar := be.Y.(*ssa.Parameter); !okc && isPar {
			c, okc = x.constArgEverywhere(par)
		}
		sub, isSub := be.X.(*ssa.BinOp)
		if !okc || !isSub || sub.Op != token.SUB {
			continue
		}
		cur, isPhi := sub.X.(*ssa.Phi)
		if !isPhi || cur.Block() != blk {
			continue
		}
		stepsByOne := false
		for _, e := range cur.Edges {
			if add, ok := e.(*ssa.BinOp); ok && add.Op == token.ADD && add.X == ssa.Value(cur) {
				if k, ok := constBig(add.Y); ok && k.Int64() == 1 {
					stepsByOne = true
				}
			}
		}
		if !stepsByOne {
			continue
		}
		// start: defined outside the loop
		if ins, ok := sub.Y.(ssa.Instruction); ok && inLoop(ins.Block()) {
			continue
		}
		// the cursor's entry value must be that start (the count begins at 0)
		entryIsStart := false
		for i, e := range cur.Edges {
			if !inLoop(blk.Preds[i]) && e == sub.Y {
				entryIsStart = true
			}
		}
		if !entryIsStart {
			continue
		}
		if !inLoop(b.Succs[leave]) {
			return int(c.Int64())
		}
	}
	return -1
}

func (x *Ctx) isAccOrZero(v ssa.Value, acc *ssa.Phi, seen map[ssa.Value]bool) bool {
	if seen[v] {
		return true
	}
	seen[v] = true
	if b, ok := constBig(v); ok {
		return b.Sign() == 0
	}
	phi, ok := v.(*ssa.Phi)
	if !ok {
		// the result of a private helper all of whose returns carry an accumulated value
		if ex, isEx := v.(*ssa.Extract); isEx {
			if c, isCall := ex.Tuple.(*ssa.Call); isCall && x.isPrivateHelper(c.Call.StaticCallee()) {
				n := 0
				for _, hb := range c.Call.StaticCallee().Blocks {
					if ret, isRet := hb.Instrs[len(hb.Instrs)-1].(*ssa.Return); isRet && ex.Index < len(ret.Results) {
						n++
						if !x.isAccOrZero(ret.Results[ex.Index], acc, seen) {
							return false
						}
					}
				}
				return n > 0
			}
		}
		// val*10+digit of an accumulator
		if add, ok := v.(*ssa.BinOp); ok && add.Op == token.ADD {
			if mul, ok := add.X.(*ssa.BinOp); ok && mul.Op == token.MUL {
				return x.isAccOrZero(mul.X, acc, seen)
			}
		}
		return false
	}
	bt, isB := phi.Type().Underlying().(*types.Basic)
	if !isB || bt.Kind() != types.Uint64 {
		return false
	}
	for _, e := range phi.Edges {
		if !x.isAccOrZero(e, acc, seen) {
			return false
		}
	}
	return true
}

// liveBlocks: blocks reachable from the entry when branches on compile-time constants are resolved.
func liveBlocks(fn *ssa.Function) map[*ssa.BasicBlock]bool {
	live := map[*ssa.BasicBlock]bool{}
	var st []*ssa.BasicBlock
	if len(fn.Blocks) == 0 {
		return live
	}
	live[fn.Blocks[0]] = true
	st = append(st, fn.Blocks[0])
	for len(st) > 0 {
		b := st[len(st)-1]
		st = st[:len(st)-1]
		succs := b.Succs
		if iff, ok := b.Instrs[len(b.Instrs)-1].(*ssa.If); ok {
			if v, known := constCond(iff.Cond); known {
				if v {
					succs = b.Succs[:1]
				} else {
					succs = b.Succs[1:2]
				}
			}
		}
		for _, s := range succs {
			if !live[s] {
				live[s] = true
				st = append(st, s)
			}
		}
	}
	return live
}

func constCond(v ssa.Value) (bool, bool) {
	switch t := v.(type) {
	case *ssa.Const:
		if t.Value != nil && t.Value.Kind() == constant.Bool {
			return constant.BoolVal(t.Value), true
		}
	case *ssa.BinOp:
		a, ok1 := constBig(t.X)
		b, ok2 := constBig(t.Y)
		if ok1 && ok2 {
			c := a.Cmp(b)
			switch t.Op {
			case token.EQL:
				return c == 0, true
			case token.NEQ:
				return c != 0, true
			case token.LSS:
				return c < 0, true
			case token.LEQ:
				return c <= 0, true
			case token.GTR:
				return c > 0, true
			case token.GEQ:
				return c >= 0, true
			}
		}
	}
	return false, false
}

// constArgEverywhere: the parameter receives a constant at every call of its function inside the library (all calls
// static); returns the largest.
func (x *Ctx) constArgEverywhere(par *ssa.Parameter) (*big.Int, bool) {
	fn := par.Parent()
	idx := -1
	for i, p := range fn.Params {
		if p == par {
			idx = i
		}
	}
	node := x.W.CG().Nodes[fn]
	if idx < 0 || node == nil || len(node.In) == 0 || !x.isPrivateHelper(fn) {
		return nil, false
	}
	var best *big.Int
	for _, e := range node.In {
		call, ok := e.Site.(*ssa.Call)
		if !ok || call.Call.StaticCallee() != fn || idx >= len(call.Call.Args) {
			return nil, false
		}
		c, ok := constBig(call.Call.Args[idx])
		if !ok {
			return nil, false
		}
		if best == nil || c.Cmp(best) > 0 {
			best = c
		}
	}
	return best, best != nil
}

// singleDigitReturn: a one-digit fast path — the value returned is data[s] - '0' for the very position s at which the
// accumulating loop would start, and the offset returned is s + 1 (that this offset is the end of the number is R05a's
// business; with it, the number is that one digit).
func singleDigitReturn(ret *ssa.Return, acc *ssa.Phi) bool {
	if len(ret.Results) < 2 || digitShape(ret.Results[0]) != "" {
		return false
	}
	sub := ret.Results[0].(*ssa.BinOp)
	xv := sub.X
	if cv, ok := xv.(*ssa.Convert); ok {
		xv = cv.X
	}
	idx := xv.(*ssa.UnOp).X.(*ssa.IndexAddr).Index
	// the start: the entry value of the loop's cursor (a phi of the accumulator's block stepping by one)
	var start ssa.Value
	for _, ins := range acc.Block().Instrs {
		ph, ok := ins.(*ssa.Phi)
		if !ok {
			break
		}
		if !isIntT(ph.Type()) {
			continue
		}
		for i, e := range ph.Edges {
			if add, ok := e.(*ssa.BinOp); ok && add.Op == token.ADD && add.X == ssa.Value(ph) {
				if k, ok := constBig(add.Y); ok && k.Int64() == 1 {
					start = ph.Edges[1-i]
				}
			}
		}
	}
	if start == nil || len(acc.Edges) != 2 || idx != start {
		return false
	}
	off, ok := ret.Results[1].(*ssa.BinOp)
	if !ok || off.Op != token.ADD || off.X != start {
		return false
	}
	k, ok := constBig(off.Y)
	return ok && k.Int64() == 1
}
