package props

import "rjverif/internal/core"

// intervalRules: R05b-d (filled in by the SSA rule library).
func (x *Ctx) intervalRules(r *core.Result) {}
