package props

import (
	"fmt"
	"go/constant"
	"go/types"

	"golang.org/x/tools/go/ssa"

	"rjverif/internal/core"
	"rjverif/internal/lts"
	"rjverif/internal/product"
	"rjverif/internal/ref"
	"rjverif/internal/scan"
)

const depthLimit = 10000 // the nesting limit stated in C01/C02/C03

var trustedAutomata = []string{
	"Go-subset semantics implemented by the extractor E1 (goto/switch/if over data[p] in ragel -G2 output) and by the SSA abstract interpreter E2",
	"the reference recognisers in checker/internal/ref (written from RFC 8259 §2-§7 and the property text; reviewable, ~600 lines)",
	"go/packages, go/types, go/ssa from golang.org/x/tools v0.29.0",
}

func specOffErr(off, err int) func(fn *ssa.Function) *scan.Spec {
	return func(fn *ssa.Function) *scan.Spec { return scan.FuncSpec(fn, off, err, -1, -1) }
}

// depthGuards: R01b — every push of the named machine is guarded by `top reaches K` with K = 10,000.
func (x *Ctx) depthGuards(r *core.Result, rs *core.RuleStat, names ...string) {
	for _, n := range names {
		m := x.Machine(n)
		if m == nil {
			r.Undecided(rs, n, "-", "machine not found")
			continue
		}
		if len(m.FCalls) == 0 {
			r.Undecided(rs, n+":fcall", "-", "machine has no push (fcall) site: nesting is not handled where expected")
			continue
		}
		for _, fc := range m.FCalls {
			rs.Instances++
			key := fmt.Sprintf("%s:fcall(ret=%d,entry=%d)", n, fc.Ret, fc.Entry)
			switch {
			case !fc.HasLimit:
				r.Fail(rs, key, x.W.Pos(fc.Pos), "push without a depth guard: nesting deeper than 10,000 is not refused")
			case fc.Limit != depthLimit:
				r.Fail(rs, key, x.W.Pos(fc.Pos), fmt.Sprintf("depth guard refuses the push once %d brackets are open; the limit is %d", fc.Limit, depthLimit))
			default:
				rs.OK(1)
				rs.Sample(key + fmt.Sprintf(" refuses when top reaches %d", fc.Limit))
			}
		}
	}
}

// C01 — Valid accepts exactly the RFC 8259 documents.
func C01(x *Ctx, r *core.Result) {
	r.Trusted = append(r.Trusted, trustedAutomata...)
	r.Trusted = append(r.Trusted, "that encoding/json.Valid implements RFC 8259 with the same 10,000 nesting limit (by its documentation; not re-verified)")
	a := r.Rule("R01a", "skipValue (E1) with its number-tail helpers (E2) is bisimilar, with outcomes, to the RFC 8259 value recogniser: every reachable (state, phase) pair x 256 bytes + end of input")
	x.reportMachineProblems(r, a, "skipValue")
	impl, probs := x.Composed("skipValue")
	for _, p := range probs {
		r.Undecided(a, p.Key, x.W.Pos(p.Pos), p.Msg)
	}
	x.bisim(r, a, "skipValue", impl, ref.SkipValue(), product.Options{})
	r.CheckFloor(a, 1)

	b := r.Rule("R01b", "every push in skipValue and skipValueFast is refused exactly when 10,000 brackets are already open; top starts at 0 and changes only by push/pop")
	x.depthGuards(r, b, "skipValue", "skipValueFast")
	r.CheckFloor(b, 2)

	d := r.Rule("R01d", "Valid as a whole (E2 model of Valid composed with the skipValue model) is bisimilar to `ws* value ws*` and nothing else")
	flat, res, fp := x.Flat("Valid", func(fn *ssa.Function) *scan.Spec { return scan.FuncSpec(fn, -1, -1, 0, -1) })
	x.reportScanProblems(r, d, res)
	for _, p := range fp {
		r.Undecided(d, "Valid:compose", "-", p)
	}
	x.unsafeReads(r, d, res)
	x.bisim(r, d, "Valid", flat, ref.Document(), product.Options{})
	r.CheckFloor(d, 1)

	e := r.Rule("R01e", "buffer independence (R14a-d): top restarts at 0, stack slots are written before they are read, wrappers are symmetric")
	x.bufferRules(r, e, "skipValue")
	x.wrapperSymmetry(r, e, "Valid")
	r.Exhaustive = true
	r.Explain = "language equality decided by product construction over the extracted transition systems; depth limit by guard normal form"
}

// unsafeReads reports index obligations E2 could not prove.
func (x *Ctx) unsafeReads(r *core.Result, rs *core.RuleStat, res *scan.Result) {
	if res == nil {
		return
	}
	for _, u := range res.Unsafe {
		r.Fail(rs, u.Key, x.W.Pos(u.Pos), "index safety not proved: "+u.Msg)
	}
}

// C02 — SkipValue returns the exact end of the first value.
func C02(x *Ctx, r *core.Result) {
	r.Trusted = append(r.Trusted, trustedAutomata...)
	a := r.Rule("R02", "SkipValue (wrapper + skipValue + helpers) is bisimilar with outcomes to the reference: success iff a value is present (maximal munch), success offset identical for every input")
	x.reportMachineProblems(r, a, "skipValue")
	flat, res, fp := x.Flat("SkipValue", specOffErr(0, 1))
	x.reportScanProblems(r, a, res)
	for _, p := range fp {
		r.Undecided(a, "SkipValue:compose", "-", p)
	}
	x.bisim(r, a, "SkipValue", flat, ref.SkipValue(), product.Options{})
	r.CheckFloor(a, 1)

	s := r.Rule("R02a", "every number-tail helper call is h(data, p+1, pe), the helper reports the index of the last byte it consumed, and the machine resumes at the next byte (helpers bisimilar to the RFC fraction/exponent tails)")
	m := x.Machine("skipValue")
	if m != nil {
		for _, hn := range []string{"skipFloatDec", "skipFloatExp"} {
			hr := x.Helper(hn)
			if hr == nil {
				r.Undecided(s, hn, "-", "helper not found")
				continue
			}
			x.reportScanProblems(r, s, hr)
			x.unsafeReads(r, s, hr)
			rf := ref.FracTail()
			if hn == "skipFloatExp" {
				rf = ref.ExpTail()
			}
			x.bisimEOFDelta(r, s, hn, hr.LTS, rf)
		}
		s.Instances += len(m.Splices)
	}
	r.CheckFloor(s, 3)
	b := r.Rule("R01b", "depth limit guards (shared with C01)")
	x.depthGuards(r, b, "skipValue")
	r.Exhaustive = true
	r.Explain = "transducer equality (verdict, offset) decided by product construction"
}

// bisimEOFDelta is bisim plus agreement of the end-of-input offsets (helpers report len-1).
func (x *Ctx) bisimEOFDelta(r *core.Result, rs *core.RuleStat, what string, impl, rf *lts.LTS) {
	x.bisim(r, rs, what, impl, rf, product.Options{})
	if impl == nil {
		return
	}
	for _, s := range impl.States {
		for _, o := range s.EOF {
			if o.OK && o.Delta != -1 {
				r.Fail(rs, what+":eof-offset", s.Pos, fmt.Sprintf("at end of input the helper reports len(data)%+d, expected len(data)-1", o.Delta))
			}
		}
	}
}

// tokenTypeNames maps the numeric value of each exported TokenType constant to its name.
func (x *Ctx) tokenTypeNames() map[string]string {
	out := map[string]string{}
	scope := x.W.Root.Types.Scope()
	tt := scope.Lookup("TokenType")
	if tt == nil {
		return out
	}
	for _, n := range scope.Names() {
		c, ok := scope.Lookup(n).(*types.Const)
		if !ok || !types.Identical(c.Type(), tt.Type()) {
			continue
		}
		if v, ok := constant.Int64Val(c.Val()); ok {
			out[fmt.Sprint(v)] = n
		}
	}
	return out
}

// refTokenClass is the JSON token table of the property text.
func refTokenClass(b byte) string {
	switch {
	case b == 'n':
		return "NullType"
	case b == '"':
		return "StringType"
	case b == '-' || (b >= '0' && b <= '9'):
		return "NumberType"
	case b == 't':
		return "TrueType"
	case b == 'f':
		return "FalseType"
	case b == '{':
		return "ObjectStartType"
	case b == '}':
		return "ObjectEndType"
	case b == '[':
		return "ArrayStartType"
	case b == ']':
		return "ArrayEndType"
	case b == ',':
		return "CommaType"
	case b == ':':
		return "ColonType"
	}
	return "InvalidType"
}
