package props

import (
	"fmt"
	"go/token"
	"go/types"
	"os"
	"path/filepath"
	"sort"
	"strings"

	"golang.org/x/tools/go/callgraph"
	"golang.org/x/tools/go/ssa"

	"rjverif/internal/core"
	"rjverif/internal/ssarules"
)

type sinkHit struct {
	Key string
	Pos token.Pos
	Msg string
}

// globalWriteSinks: R18a on a set of functions: stores through anything derived from a package-level variable.
func globalWriteSinks(funcs []*ssa.Function, cg *callgraph.Graph, isOurGlobal func(g *ssa.Global) bool) []sinkHit {
	scope := map[*ssa.Function]bool{}
	for _, f := range funcs {
		scope[f] = true
	}
	t := &ssarules.Taint{Funcs: scope, CG: cg, IsSource: func(v ssa.Value) bool {
		g, ok := v.(*ssa.Global)
		return ok && isOurGlobal(g)
	}}
	t.Run()
	var hits []sinkHit
	name := func(v ssa.Value) string {
		ch := t.Why(v)
		for _, c := range ch {
			if g, ok := c.(*ssa.Global); ok {
				return g.Name()
			}
		}
		return "a package-level variable"
	}
	for _, fn := range funcs {
		if fn.Name() == "init" || strings.HasPrefix(fn.Name(), "init#") {
			continue
		}
		n := 0
		for _, b := range fn.Blocks {
			for _, ins := range b.Instrs {
				switch ins := ins.(type) {
				case *ssa.Store:
					if t.Tainted[ins.Addr] {
						n++
						hits = append(hits, sinkHit{fmt.Sprintf("%s:store#%d->%s", fn.String(), n, name(ins.Addr)), ins.Pos(), "writes " + name(ins.Addr) + " (package-level state shared by all calls)"})
					}
				case *ssa.MapUpdate:
					if t.Tainted[ins.Map] {
						n++
						hits = append(hits, sinkHit{fmt.Sprintf("%s:mapupdate#%d->%s", fn.String(), n, name(ins.Map)), ins.Pos(), "updates the package-level map " + name(ins.Map)})
					}
				case ssa.CallInstruction:
					cc := ins.Common()
					if b, ok := cc.Value.(*ssa.Builtin); ok {
						if (b.Name() == "append" || b.Name() == "copy") && len(cc.Args) > 0 && t.Tainted[cc.Args[0]] {
							n++
							hits = append(hits, sinkHit{fmt.Sprintf("%s:%s#%d->%s", fn.String(), b.Name(), n, name(cc.Args[0])), ins.Pos(), b.Name() + " into memory of " + name(cc.Args[0])})
						}
						if b.Name() == "delete" && len(cc.Args) > 0 && t.Tainted[cc.Args[0]] {
							n++
							hits = append(hits, sinkHit{fmt.Sprintf("%s:delete#%d", fn.String(), n), ins.Pos(), "deletes from a package-level map"})
						}
						continue
					}
					// a derived pointer handed to a function outside the analysed scope (it might write through it)
					if callee := cc.StaticCallee(); callee != nil && !scope[callee] {
						for _, a := range cc.Args {
							if t.Tainted[a] && ptrLike(a.Type()) && !pureReader(callee) {
								n++
								hits = append(hits, sinkHit{fmt.Sprintf("%s:extern#%d->%s", fn.String(), n, callee.String()), ins.Pos(), "passes memory of " + name(a) + " to " + callee.String() + ", which is not known to be read-only"})
							}
						}
					}
				}
			}
		}
	}
	return hits
}

func ptrLike(t types.Type) bool {
	switch t.Underlying().(type) {
	case *types.Pointer, *types.Slice, *types.Map:
		return true
	}
	return false
}

// pureReader: external functions known not to write through their arguments.
func pureReader(fn *ssa.Function) bool {
	if fn.Pkg == nil {
		return false
	}
	switch fn.Pkg.Pkg.Path() {
	case "bytes", "strings", "unicode/utf8", "unicode/utf16", "unicode", "math", "math/bits", "strconv", "errors":
		return true
	case "fmt":
		return fn.Name() == "Errorf" || fn.Name() == "Sprintf" || fn.Name() == "Sprint"
	}
	return false
}

// statelessPkgs: stdlib packages whose functions used here have no observable package-level mutable state.
var statelessPkgs = map[string]bool{
	"fmt": true, "errors": true, "bytes": true, "strings": true, "strconv": true, "unicode": true, "unicode/utf8": true, "unicode/utf16": true,
	"math": true, "math/bits": true, "sort": true, "io": true, "sync": true, "internal/abi": true,
}

var forbiddenPkgs = map[string]bool{
	"time": true, "math/rand": true, "os": true, "runtime": true, "log": true, "sync/atomic": true, "unsafe": true, "reflect": true, "syscall": true, "os/signal": true,
}

// C18 — independent calls are safe to run concurrently.
func C18(x *Ctx, r *core.Result) {
	r.Trusted = append(r.Trusted,
		"the listed stdlib packages (fmt formatting, errors, bytes, strings, strconv, unicode/*, math, math/bits, sort on local data, io.EOF read, sync.Pool on a per-reader field) have no package-level mutable state observable through the functions used",
		"flow-insensitive may-alias closure over go/ssa with VTA-resolved interface calls")
	w := x.W
	libFuncs := w.SrcFuncs()
	a := r.Rule("R18a", "no instruction in either package (outside init) stores to a package-level variable, to an element of one, or through any pointer derived from one (address flow through fields, indexing, slicing, phi, parameter passing)")
	isOur := func(g *ssa.Global) bool { return g.Pkg == w.SRoot || g.Pkg == w.SFP }
	hits := globalWriteSinks(libFuncs, w.CG(), isOur)
	for _, h := range hits {
		r.Fail(a, h.Key, w.Pos(h.Pos), h.Msg)
	}
	nStores := 0
	for _, fn := range libFuncs {
		for _, b := range fn.Blocks {
			for _, ins := range b.Instrs {
				switch ins.(type) {
				case *ssa.Store, *ssa.MapUpdate:
					nStores++
				}
			}
		}
	}
	a.Instances = len(libFuncs)
	a.OK(nStores)
	a.Sample(fmt.Sprintf("%d functions, %d store/map-update instructions examined, %d derive from a package-level variable", len(libFuncs), nStores, len(hits)))
	// globals inventory
	var globals []string
	for _, sp := range []*ssa.Package{w.SRoot, w.SFP} {
		for _, m := range sp.Members {
			if g, ok := m.(*ssa.Global); ok && !strings.HasPrefix(g.Name(), "init$") {
				globals = append(globals, sp.Pkg.Name()+"."+g.Name())
			}
		}
	}
	sort.Strings(globals)
	r.Notes = append(r.Notes, fmt.Sprintf("package-level variables (%d): %s", len(globals), strings.Join(globals, " ")))
	r.CheckFloor(a, 20)
	// positive control
	pc := r.Rule("R18a+", "positive control: the same rule must fire on /verif/selftest/globalwrite (3 writing functions) and stay silent on its read-only function")
	x.positiveControlGlobals(r, pc)

	b := r.Rule("R18b", "no write through any alias of an input (rule R16a)")
	x.inputWriteRule(r, b)

	c := r.Rule("R18c", "closed world: every function reachable from the exported API that lies outside the two packages belongs to a listed stateless stdlib package; no go statements, no unsafe, no reflect, no calls into time/math/rand/os/runtime/log/sync/atomic")
	x.closedWorld(r, c)
	r.Exhaustive = true
	r.Explain = "a data race needs a location reachable from two calls with one writing; the only shared locations are package-level variables and the read-only input, and neither is ever written"
}

func init() { Registry["C18"] = Prop{"proof", C18} }

func (x *Ctx) selftestDir() string {
	if d := os.Getenv("VERIF_SELFTEST"); d != "" {
		return d
	}
	return filepath.Join("/verif", "selftest")
}

func (x *Ctx) positiveControlGlobals(r *core.Result, rs *core.RuleStat) {
	prog, sps, _, err := core.LoadAny(x.selftestDir(), "./globalwrite")
	if err != nil {
		r.Undecided(rs, "selftest/globalwrite", "-", "cannot load the positive control: "+err.Error())
		return
	}
	funcs := core.FuncsOf(prog, sps...)
	hits := globalWriteSinks(funcs, nil, func(g *ssa.Global) bool { return g.Pkg == sps[0] })
	fired := map[string]bool{}
	for _, h := range hits {
		fired[strings.SplitN(h.Key, ":", 2)[0]] = true
	}
	rs.Instances = len(funcs)
	for _, want := range []string{"selftest/globalwrite.Direct", "selftest/globalwrite.ThroughSlice", "selftest/globalwrite.helper"} {
		if !fired[want] {
			r.Undecided(rs, "selftest:"+want, "-", "the global-write rule did not fire on the positive control "+want+": the rule is broken")
		} else {
			rs.OK(1)
		}
	}
	if fired["selftest/globalwrite.ReadOnly"] {
		r.Undecided(rs, "selftest:ReadOnly", "-", "the global-write rule fired on a read-only function: the rule is broken")
	} else {
		rs.OK(1)
	}
}

// closedWorld: R18c.
func (x *Ctx) closedWorld(r *core.Result, rs *core.RuleStat) {
	w := x.W
	roots := w.APIRoots()
	reach := w.Reachable(roots, func(e *callgraph.Edge) bool {
		// do not walk into the bodies of external functions: only record them
		return w.InLib(e.Caller.Func)
	})
	ext := map[string]map[string]bool{}
	for fn := range reach {
		if w.InLib(fn) {
			continue
		}
		pkg := "(builtin)"
		if fn.Pkg != nil {
			pkg = fn.Pkg.Pkg.Path()
		} else if fn.Signature.Recv() != nil {
			if n, ok := derefNamed(fn.Signature.Recv().Type()); ok && n.Obj().Pkg() != nil {
				pkg = n.Obj().Pkg().Path()
			}
		} else if fn.Synthetic != "" {
			continue
		}
		if pkg == core.RootPath || pkg == core.FPPath {
			continue // synthetic wrappers (interface thunks) of library methods
		}
		if ext[pkg] == nil {
			ext[pkg] = map[string]bool{}
		}
		ext[pkg][fn.Name()] = true
	}
	var pkgs []string
	for p := range ext {
		pkgs = append(pkgs, p)
	}
	sort.Strings(pkgs)
	for _, p := range pkgs {
		rs.Instances++
		var names []string
		for n := range ext[p] {
			names = append(names, n)
		}
		sort.Strings(names)
		switch {
		case forbiddenPkgs[p]:
			r.Fail(rs, "extern:"+p, "-", fmt.Sprintf("the API reaches %s.%s: package with process-wide mutable state / nondeterminism", p, strings.Join(names, ",")))
		case statelessPkgs[p] || p == "(builtin)":
			rs.OK(1)
			rs.Sample(p + ": " + strings.Join(names, ","))
		default:
			r.Undecided(rs, "extern:"+p, "-", fmt.Sprintf("the API reaches %s.%s, a package on neither the stateless nor the forbidden list", p, strings.Join(names, ",")))
		}
	}
	// goroutines, unsafe, reflect, sync objects at package level
	inLibReach := 0
	for fn := range reach {
		if !w.InLib(fn) {
			continue
		}
		inLibReach++
		for _, b := range fn.Blocks {
			for _, ins := range b.Instrs {
				switch ins := ins.(type) {
				case *ssa.Go:
					r.Fail(rs, fn.String()+":go", w.Pos(ins.Pos()), "go statement reachable from the API")
				case *ssa.Convert:
					if isUnsafePtr(ins.Type()) || isUnsafePtr(ins.X.Type()) {
						r.Fail(rs, fn.String()+":unsafe", w.Pos(ins.Pos()), "unsafe.Pointer conversion reachable from the API")
					}
				}
			}
		}
	}
	rs.OK(inLibReach)
	if inLibReach < 40 {
		r.Undecided(rs, "reach", "-", fmt.Sprintf("only %d library functions are reachable from the API roots: the call graph is incomplete", inLibReach))
	}
	// imports of the two packages
	for _, pkg := range w.Pkgs() {
		for path := range pkg.Imports {
			if forbiddenPkgs[path] && path != "runtime" {
				// an import alone is reported only if some reachable function uses it (done above); note it
				r.Notes = append(r.Notes, pkg.PkgPath+" imports "+path)
			}
		}
	}
}

func derefNamed(t types.Type) (*types.Named, bool) {
	if p, ok := t.(*types.Pointer); ok {
		t = p.Elem()
	}
	n, ok := t.(*types.Named)
	return n, ok
}

func isUnsafePtr(t types.Type) bool {
	b, ok := t.Underlying().(*types.Basic)
	return ok && b.Kind() == types.UnsafePointer
}
