package props

import (
	"bufio"
	"bytes"
	"fmt"
	"go/constant"
	"go/token"
	"go/types"
	"os"
	"os/exec"
	"path/filepath"
	"regexp"
	"rjverif/internal/linarith"
	"sort"
	"strconv"
	"strings"

	"golang.org/x/tools/go/callgraph"
	"golang.org/x/tools/go/ssa"

	"rjverif/internal/core"
	"rjverif/internal/lts"
)

// escDiag is one compiler escape-analysis diagnostic.
type escDiag struct {
	file string // absolute
	line int
	msg  string
}

var reDiag = regexp.MustCompile(`^(\S+\.go):(\d+):(\d+): (.*)$`)

// compilerDiags runs the Go compiler's escape analysis (-gcflags=-m) on the two packages; the compiler's own
// static analysis is the ground truth for "this expression allocates on the heap".
func (x *Ctx) compilerDiags(goBin string) ([]escDiag, string, error) {
	dir := x.W.Dir
	cmd := exec.Command(goBin, "build", "-gcflags=-m", ".", "./internal/fp")
	cmd.Dir = dir
	env := []string{}
	for _, e := range os.Environ() {
		if strings.HasPrefix(e, "GOFLAGS=") || strings.HasPrefix(e, "GOWORK=") {
			continue
		}
		env = append(env, e)
	}
	cmd.Env = append(env, "GOFLAGS=-mod=mod", "GOWORK=off", "GOPROXY=off", "GOSUMDB=off", "GOTOOLCHAIN=local", "CGO_ENABLED=0")
	var out bytes.Buffer
	cmd.Stderr = &out
	cmd.Stdout = &out
	err := cmd.Run()
	var diags []escDiag
	sc := bufio.NewScanner(&out)
	sc.Buffer(make([]byte, 1<<20), 1<<24)
	n := 0
	for sc.Scan() {
		m := reDiag.FindStringSubmatch(sc.Text())
		if m == nil {
			continue
		}
		n++
		if !(strings.Contains(m[4], "escapes to heap") || strings.Contains(m[4], "moved to heap")) {
			continue
		}
		ln, _ := strconv.Atoi(m[2])
		f := m[1]
		if !filepath.IsAbs(f) {
			f = filepath.Join(dir, f)
		}
		diags = append(diags, escDiag{file: filepath.Clean(f), line: ln, msg: m[4]})
	}
	if err != nil && n == 0 {
		return nil, "", fmt.Errorf("%s build -gcflags=-m failed: %v: %s", goBin, err, firstLine(out.String()))
	}
	if n == 0 {
		return nil, "", fmt.Errorf("%s build -gcflags=-m printed no diagnostics", goBin)
	}
	ver := ""
	if vo, e := exec.Command(goBin, "version").Output(); e == nil {
		ver = strings.TrimSpace(string(vo))
	}
	return diags, ver, nil
}

func firstLine(s string) string {
	if i := strings.IndexByte(s, '\n'); i >= 0 {
		return s[:i]
	}
	return s
}

// c19Entries: the entry points listed by the property.
var c19Entries = []string{"ReadInt", "ReadInt32", "ReadInt64", "ReadUint", "ReadUint32", "ReadUint64", "ReadFloat64", "ReadBool", "ReadNull",
	"NextToken", "NextTokenType", "DecodeBool", "DecodeFloat64", "DecodeInt", "DecodeInt32", "DecodeInt64", "DecodeUint", "DecodeUint32", "DecodeUint64",
	"SkipValue", "SkipValueFast", "Valid", "HandleArrayValues", "HandleObjectValues", "ReadStringBytes", "UnescapeStringContent"}

type allocSite struct {
	fn   *ssa.Function
	ins  ssa.Instruction
	kind string
	ok   bool
	why  string
}

// errorOnly: every path from the instruction to a function exit ends in a return whose error operand is known non-nil.
func (x *Ctx) errorOnly(ins ssa.Instruction) bool {
	fn := ins.Parent()
	// error-constructor helpers: single result of type error
	res := fn.Signature.Results()
	if res.Len() == 1 && isErrT(res.At(0).Type()) {
		return x.onlyCalledOnErrorPaths(fn)
	}
	blk := ins.Block()
	seen := map[*ssa.BasicBlock]bool{blk: true}
	st := []*ssa.BasicBlock{blk}
	for len(st) > 0 {
		b := st[len(st)-1]
		st = st[:len(st)-1]
		last := b.Instrs[len(b.Instrs)-1]
		if ret, ok := last.(*ssa.Return); ok {
			okRet := false
			for _, o := range ret.Results {
				if isErrT(o.Type()) && !isNilConst(o) && (x.knownNonNilError(o) || x.isErrExtractTested(o, b)) {
					okRet = true
				}
				// the error constructed at `ins` itself is what every return reachable from it carries (through phis)
				if cv, isCall := ins.(*ssa.Call); isCall && isErrT(o.Type()) && x.knownNonNilError(cv) && x.carriesFrom(o, cv, blk, map[ssa.Value]bool{}) {
					okRet = true
				}
			}
			if !okRet {
				return false
			}
		}
		for _, s := range b.Succs {
			if !seen[s] {
				seen[s] = true
				st = append(st, s)
			}
		}
	}
	return true
}

func (x *Ctx) onlyCalledOnErrorPaths(fn *ssa.Function) bool {
	n := x.W.CG().Nodes[fn]
	if n == nil || len(n.In) == 0 {
		return false
	}
	for _, e := range n.In {
		if e.Site == nil {
			return false
		}
		c, ok := e.Site.(*ssa.Call)
		if !ok || !x.errorOnly(c) {
			return false
		}
	}
	return true
}

// capacityGuarded: MakeSlice that runs only when a caller-provided buffer is too small.
func (x *Ctx) capacityGuarded(ms *ssa.MakeSlice, fcallLines map[string]bool) (bool, string) {
	pos := x.W.Fset.Position(ms.Pos())
	if fcallLines[fmt.Sprintf("%s:%d", pos.Filename, pos.Line)] {
		return true, "stack growth of a push, taken only when top+1 >= len(stack) (E1, R10c)"
	}
	// dominated by the false edge of cap(param) >= size (or the true edge of cap(param) < size)
	for d := ms.Block(); d != nil; d = d.Idom() {
		dom := d.Idom()
		if dom == nil {
			break
		}
		iff, ok := dom.Instrs[len(dom.Instrs)-1].(*ssa.If)
		if !ok {
			continue
		}
		be, ok := iff.Cond.(*ssa.BinOp)
		if !ok {
			continue
		}
		capCall := func(v ssa.Value) bool {
			c, ok := v.(*ssa.Call)
			if !ok {
				return false
			}
			bi, ok := c.Call.Value.(*ssa.Builtin)
			if !ok || bi.Name() != "cap" {
				return false
			}
			_, isParam := c.Call.Args[0].(*ssa.Parameter)
			return isParam
		}
		var insufficient *ssa.BasicBlock
		// only the strict forms: `cap > size` / `cap <= size` would also allocate when the capacity is exactly enough
		switch {
		case capCall(be.X) && be.Op == token.GEQ, capCall(be.Y) && be.Op == token.LEQ:
			insufficient = dom.Succs[1]
		case capCall(be.X) && be.Op == token.LSS, capCall(be.Y) && be.Op == token.GTR:
			insufficient = dom.Succs[0]
		}
		if insufficient != nil && (insufficient == ms.Block() || insufficient.Dominates(ms.Block())) {
			return true, "taken only when the caller's buffer has less capacity than requested"
		}
	}
	return false, ""
}

// derivesFromParam: v is (a phi/slice/append/extract chain of) a slice parameter of its function.
func derivesFromParam(v ssa.Value, seen map[ssa.Value]bool) bool {
	if seen[v] {
		return true
	}
	seen[v] = true
	switch t := v.(type) {
	case *ssa.Parameter:
		return true
	case *ssa.Slice:
		return derivesFromParam(t.X, seen)
	case *ssa.Phi:
		for _, e := range t.Edges {
			if !derivesFromParam(e, seen) {
				return false
			}
		}
		return len(t.Edges) > 0
	case *ssa.Call:
		if bi, ok := t.Call.Value.(*ssa.Builtin); ok && bi.Name() == "append" {
			return derivesFromParam(t.Call.Args[0], seen)
		}
		if callee := t.Call.StaticCallee(); callee != nil && len(t.Call.Args) > 0 {
			for _, a := range t.Call.Args {
				if isByteSliceT(a.Type()) && derivesFromParam(a, seen) {
					return true
				}
			}
		}
	case *ssa.Extract:
		return derivesFromParam(t.Tuple, seen)
	}
	return false
}

// C19 — scalar reads, skipping and handler traversal allocate nothing on success.
func C19(x *Ctx, r *core.Result) {
	w := x.W
	r.Trusted = append(r.Trusted, "the Go compiler's escape analysis (go build -gcflags=-m) as the ground truth for which expressions allocate on the heap",
		"append / map / channel runtime behaviour: append allocates only when capacity is short",
		"converting a zero-size or one-byte value to an interface does not allocate (runtime.convT on staticuint64s)")
	r.Assume = append(r.Assume, "preconditions of the property: a Buffer already used on a document at least as deeply nested, a destination with spare capacity of at least the input length, a handler that does not allocate")
	a := r.Rule("R19a/b", "every heap-allocation site the compiler reports (escapes to heap / moved to heap) inside a function reachable from the listed entry points, and every append / string concatenation there, is error-path-only or capacity-guarded (grows a caller-provided buffer only when it is too small)")
	var roots []*ssa.Function
	for _, n := range c19Entries {
		fn := x.Func(n)
		if fn == nil {
			r.Undecided(a, "entry:"+n, "-", "entry point not found")
			continue
		}
		roots = append(roots, fn)
	}
	// reachable set, handler dispatch cut at the interface
	F := w.Reachable(roots, func(e *callgraph.Edge) bool {
		if !w.InLib(e.Caller.Func) {
			return false
		}
		if e.Site != nil && e.Site.Common().IsInvoke() {
			return false
		}
		return true
	})
	var fns []*ssa.Function
	for fn := range F {
		if w.InLib(fn) && fn.Blocks != nil {
			fns = append(fns, fn)
		}
	}
	sortFuncs(fns)
	// positions of stack-growth make calls recognised by E1
	fcallLines := map[string]bool{}
	for _, m := range x.Machines() {
		for _, fc := range m.FCalls {
			p := w.Fset.Position(fc.GrowSize.Pos())
			fcallLines[fmt.Sprintf("%s:%d", p.Filename, p.Line)] = true
		}
	}
	// SSA sites
	byLine := map[string][]*allocSite{}
	var sites []*allocSite
	add := func(fn *ssa.Function, ins ssa.Instruction, kind string) *allocSite {
		s := &allocSite{fn: fn, ins: ins, kind: kind}
		sites = append(sites, s)
		p := w.Fset.Position(ins.Pos())
		byLine[fmt.Sprintf("%s:%d", filepath.Clean(p.Filename), p.Line)] = append(byLine[fmt.Sprintf("%s:%d", filepath.Clean(p.Filename), p.Line)], s)
		return s
	}
	allDischarged := map[*ssa.Function]bool{}
	for _, fn := range fns {
		for _, b := range fn.Blocks {
			for _, ins := range b.Instrs {
				switch t := ins.(type) {
				case *ssa.MakeSlice:
					s := add(fn, ins, "make slice")
					if ok, why := x.capacityGuarded(t, fcallLines); ok {
						s.ok, s.why = true, why
					} else if x.errorOnly(ins) {
						s.ok, s.why = true, "error path only"
					}
				case *ssa.MakeMap, *ssa.MakeChan, *ssa.MakeClosure:
					s := add(fn, ins, fmt.Sprintf("%T", ins))
					if x.errorOnly(ins) {
						s.ok, s.why = true, "error path only"
					}
				case *ssa.Alloc:
					s := add(fn, ins, "variable "+t.Comment)
					s.why = "stack unless the compiler moves it"
					if x.errorOnly(ins) {
						s.ok, s.why = true, "error path only"
					}
				case *ssa.MakeInterface:
					s := add(fn, ins, "interface conversion")
					if x.errorOnly(ins) {
						s.ok, s.why = true, "error path only"
					} else if sz := w.Root.TypesSizes.Sizeof(t.X.Type()); sz <= 1 {
						// the runtime boxes zero-size and one-byte values without allocating (runtime.zeroVal /
						// runtime.staticuint64s); the compiler's "escapes to heap" does not distinguish them
						s.ok, s.why = true, fmt.Sprintf("interface conversion of a %d-byte value: boxed from the runtime's static table, no allocation", sz)
					}
				case *ssa.Convert:
					if isStringType(t.Type()) != isStringType(t.X.Type()) {
						s := add(fn, ins, "string conversion")
						if x.errorOnly(ins) {
							s.ok, s.why = true, "error path only"
						}
					}
				case *ssa.BinOp:
					if t.Op == token.ADD && isStringType(t.Type()) {
						s := add(fn, ins, "string concatenation")
						if x.errorOnly(ins) {
							s.ok, s.why = true, "error path only"
						}
					}
				case *ssa.Call:
					if bi, ok := t.Call.Value.(*ssa.Builtin); ok {
						if bi.Name() == "append" {
							s := add(fn, ins, "append")
							if derivesFromParam(t.Call.Args[0], map[ssa.Value]bool{}) {
								s.ok, s.why = true, "appends to a caller-provided buffer: grows only when its capacity is short"
							} else if x.errorOnly(ins) {
								s.ok, s.why = true, "error path only"
							}
						}
						continue
					}
					if callee := t.Call.StaticCallee(); callee != nil && !w.InLib(callee) && callee.Pkg != nil {
						full := callee.Pkg.Pkg.Path() + "." + callee.Name()
						switch full {
						case "fmt.Errorf", "fmt.Sprintf", "errors.New", "fmt.Sprint":
							s := add(fn, ins, "call of "+full)
							if x.errorOnly(ins) {
								s.ok, s.why = true, "error path only"
							}
						}
					}
				}
			}
		}
	}
	// functions all of whose explicit sites are discharged (used for calls the compiler inlined)
	for _, fn := range fns {
		ok := true
		for _, s := range sites {
			if s.fn == fn && !s.ok {
				if _, isAlloc := s.ins.(*ssa.Alloc); isAlloc {
					continue // decided by the compiler diagnostics below
				}
				if _, isMI := s.ins.(*ssa.MakeInterface); isMI {
					continue
				}
				if _, isCv := s.ins.(*ssa.Convert); isCv {
					continue
				}
				ok = false
			}
		}
		allDischarged[fn] = ok
	}
	// explicit, compiler-independent sites must be discharged
	for _, s := range sites {
		switch s.ins.(type) {
		case *ssa.Alloc, *ssa.MakeInterface, *ssa.Convert:
			continue // only an allocation if the compiler says so
		}
		a.Instances++
		if s.ok {
			a.OK(1)
			if len(a.Samples) < 6 {
				a.Sample(fmt.Sprintf("%s %s at %s: %s", fnKey(s.fn), s.kind, w.Pos(s.ins.Pos()), s.why))
			}
		} else {
			r.Fail(a, fmt.Sprintf("%s:%s", fnKey(s.fn), s.kind), w.Pos(s.ins.Pos()), s.kind+" on a path that can end in success: allocates although the property promises zero allocations")
		}
	}
	// compiler diagnostics
	gobins := []string{"go"}
	if x.Tier == "thorough" {
		gobins = append(gobins, "go1.26.8")
	}
	inF := func(file string, line int) *ssa.Function {
		for _, fn := range fns {
			syn := fn.Syntax()
			if syn == nil {
				continue
			}
			sp, ep := w.Fset.Position(syn.Pos()), w.Fset.Position(syn.End())
			if filepath.Clean(sp.Filename) == file && sp.Line <= line && line <= ep.Line {
				return fn
			}
		}
		return nil
	}
	for _, gb := range gobins {
		c := r.Rule("R19c:"+gb, "compiler cross-check ("+gb+"): each `escapes to heap` / `moved to heap` diagnostic inside the reachable functions corresponds to a discharged site; in particular the slow float path's decimal stays on the stack")
		diags, ver, err := x.compilerDiags(gb)
		if err != nil {
			r.Undecided(c, "compiler:"+gb, "-", err.Error())
			continue
		}
		r.Notes = append(r.Notes, fmt.Sprintf("%s: %d heap diagnostics in the two packages", ver, len(diags)))
		seen := map[string]bool{}
		for _, d := range diags {
			fn := inF(d.file, d.line)
			if fn == nil {
				continue
			}
			k := fmt.Sprintf("%s:%d:%s", d.file, d.line, d.msg)
			if seen[k] {
				continue
			}
			seen[k] = true
			c.Instances++
			key := fmt.Sprintf("%s:%s", fnKey(fn), strings.TrimSpace(d.msg))
			rel, _ := filepath.Rel(w.Dir, d.file)
			pos := fmt.Sprintf("%s:%d", rel, d.line)
			cands := byLine[fmt.Sprintf("%s:%d", d.file, d.line)]
			ok := false
			why := ""
			for _, s := range cands {
				if s.fn == fn && s.ok {
					ok, why = true, s.why
				}
			}
			if !ok {
				// a call on this line to a library function the compiler inlined, whose own sites are discharged
				for _, b := range fn.Blocks {
					for _, ins := range b.Instrs {
						if call, isCall := ins.(*ssa.Call); isCall && w.Fset.Position(call.Pos()).Line == d.line {
							if callee := call.Call.StaticCallee(); callee != nil && w.InLib(callee) && allDischarged[callee] && !strings.Contains(d.msg, "moved to heap") {
								ok, why = true, "inlined call of "+callee.Name()+", whose allocation sites are discharged"
							}
							if x.errorOnly(call) {
								ok, why = true, "argument of a call on an error path"
							}
						}
					}
				}
			}
			if !ok && strings.HasSuffix(d.msg, "escapes to heap") && allDischarged[fn] {
				// an implicit conversion to an interface has no position of its own in SSA: the diagnostic is about
				// one of this function's interface conversions, all of which are discharged (one-byte values, error paths)
				nMI, okMI := 0, true
				for _, s := range sites {
					if _, isMI := s.ins.(*ssa.MakeInterface); isMI && s.fn == fn {
						nMI++
						if !s.ok {
							okMI = false
						}
					}
				}
				expr := strings.TrimSuffix(d.msg, " escapes to heap")
				if nMI > 0 && okMI && !strings.HasPrefix(expr, "make(") && !strings.HasPrefix(expr, "new(") && !strings.HasPrefix(expr, "&") && !strings.HasPrefix(expr, "func literal") && !strings.HasPrefix(expr, "[]") && !strings.Contains(expr, "... argument") {
					ok, why = true, "interface conversion discharged in SSA (no allocation for a value of at most one byte / error path only)"
				}
			}
			if !ok && strings.Contains(d.msg, "... argument") {
				// variadic argument slice of an error-path call is matched above; otherwise fall through
			}
			if ok {
				c.OK(1)
				if len(c.Samples) < 4 {
					c.Sample(fmt.Sprintf("%s (%s): %s", pos, d.msg, why))
				}
			} else {
				r.Fail(c, key, pos, "the compiler reports a heap allocation here ("+d.msg+") on a path that can end in success")
			}
		}
		r.CheckFloor(c, 10)
	}
	r.CheckFloor(a, 30)
	e19 := r.Rule("R19e", "Decode* on null: the call succeeds (null fallback), so the failure of the typed reader on the way is part of a successful call — on the input `ws* null` every failing exit of that reader returns a package-level sentinel, never a constructed error")
	x.decodeNullPath(r, e19, func(fn *ssa.Function) bool {
		// an error constructor none of whose allocation sites survives (e.g. it boxes a one-byte value)
		if fn == nil || !allDischarged[fn] {
			return false
		}
		for _, s := range sites {
			if s.fn == fn && !s.ok {
				if _, isAlloc := s.ins.(*ssa.Alloc); isAlloc {
					continue
				}
				return false
			}
		}
		return true
	})
	r.CheckFloor(e19, 6)
	f19 := r.Rule("R19f", "a reachable call of the growth helper asks for no more than the promised spare capacity covers: the destination's length plus the length of an input parameter, or plus a constant no larger than the input bytes the caller consumes on each of its successful returns (asking for more would allocate although the destination has spare capacity of the input length)")
	x.growthRequests(r, f19, fns)
	r.CheckFloor(f19, 1)
	g19 := r.Rule("R19g", "every exit of a machine that takes a stack — failing exits too — returns that stack (the parameter, grown by append or by make-and-copy, re-sliced): the wrappers store whatever comes back, so an exit that returned nil or a fresh slice would throw the warmed stack away and the next successful call would allocate")
	x.stackReturned(r, g19)
	r.CheckFloor(g19, 4)
	d := r.Rule("R19d", "the grown stack is stored back into the Buffer by every wrapper (otherwise a warmed buffer would not stay warm)")
	x.wrapperSymmetryOpt(r, d, true, bufferWrappers...)
	r.CheckFloor(d, 5)
	var names []string
	for _, fn := range fns {
		names = append(names, fnKey(fn))
	}
	sort.Strings(names)
	r.Notes = append(r.Notes, fmt.Sprintf("functions reachable from the %d entry points (handler dispatch cut): %s", len(roots), strings.Join(names, " ")))
	r.Explain = "allocation sites enumerated from the compiler's escape analysis and from SSA; each must lie on error paths only or grow a caller-provided buffer only when it is too small"
}

func init() { Registry["C19"] = Prop{"other", C19} }

// growthRequests: R19f.
func (x *Ctx) growthRequests(r *core.Result, rs *core.RuleStat, fns []*ssa.Function) {
	h := x.Func("growBytesSliceCapacity")
	if h == nil {
		return // nothing grows a destination ahead of time: append sites are judged by R19a/b
	}
	di, si := -1, -1
	for i, p := range h.Params {
		if isByteSliceT(p.Type()) {
			di = i
		} else if isIntKind(p.Type()) {
			si = i
		}
	}
	if di < 0 || si < 0 {
		r.Undecided(rs, "helper", x.W.Pos(h.Pos()), "the growth helper does not take a destination and a size")
		return
	}
	for _, fn := range fns {
		for _, b := range fn.Blocks {
			for _, ins := range b.Instrs {
				c, ok := ins.(*ssa.Call)
				if !ok || c.Call.StaticCallee() != h {
					continue
				}
				rs.Instances++
				key := fnKey(fn) + ":request"
				dst, size := c.Call.Args[di], c.Call.Args[si]
				bp := x.newBoundsProver(fn, 0)
				bp.site = c
				bp.pathFacts(b)
				sf, ok1 := bp.intForm(size)
				dl, ok2 := bp.lenForm(dst)
				if !ok1 || !ok2 {
					r.Undecided(rs, key, x.W.Pos(c.Pos()), "size or destination of the growth request not understood")
					continue
				}
				why := ""
				for _, p := range fn.Params {
					if p == dst || !isByteSliceT(p.Type()) {
						continue
					}
					pl, _ := bp.lenForm(p)
					if bp.proveSplit(0, linarith.LE(sf, dl.Add(pl))) {
						why = "at most len(destination) + len(" + p.Name() + ")"
						break
					}
				}
				if why == "" {
					// constant request covered by the input bytes consumed on every successful return
					minUsed := int64(-1)
					for _, blk := range fn.Blocks {
						ret, ok := blk.Instrs[len(blk.Instrs)-1].(*ssa.Return)
						if !ok {
							continue
						}
						failing := false
						used := int64(-1)
						for _, o := range ret.Results {
							if cb, ok := o.(*ssa.Const); ok && cb.Value != nil && cb.Value.Kind() == constant.Bool && !constant.BoolVal(cb.Value) {
								failing = true
							}
							if isErrT(o.Type()) && !isNilConst(o) {
								failing = true
							}
							if isIntKind(o.Type()) {
								if k, ok := constBig(o); ok && k.IsInt64() {
									used = k.Int64()
								} else {
									used = 0
								}
							}
						}
						if failing {
							continue
						}
						if used < 0 {
							used = 0
						}
						if minUsed < 0 || used < minUsed {
							minUsed = used
						}
					}
					if minUsed > 0 && bp.proveSplit(0, linarith.LE(sf, dl.Add(linarith.Const(minUsed)))) {
						why = fmt.Sprintf("at most len(destination) + %d, and every successful return consumes at least %d input bytes", minUsed, minUsed)
					}
				}
				if why == "" {
					r.Fail(rs, key, x.W.Pos(c.Pos()), "the growth request is not bounded by len(destination) + len(input) (nor by the input bytes consumed): it can exceed a spare capacity of the input length and allocate on a successful call")
				} else {
					rs.OK(1)
					rs.Sample(fnKey(fn) + ": " + why)
				}
			}
		}
	}
}

var _ = types.Identical

// carriesFrom: on every way from block cb (where the non-nil error v is made) to the use of o, o is v or another
// known non-nil error: o is v, or a phi whose edges from predecessors reachable from cb all carry such a value.
func (x *Ctx) carriesFrom(o, v ssa.Value, cb *ssa.BasicBlock, seen map[ssa.Value]bool) bool {
	if o == v || x.knownNonNilError(o) {
		return true
	}
	ph, ok := o.(*ssa.Phi)
	if !ok || seen[ph] {
		return false
	}
	seen[ph] = true
	n := 0
	for i, e := range ph.Edges {
		pred := ph.Block().Preds[i]
		if pred != cb && !canReach(cb, pred) {
			continue
		}
		n++
		if !x.carriesFrom(e, v, cb, seen) {
			return false
		}
	}
	return n > 0
}

// decodeNullPath: R19e. The reader's flat model (E2 + E1) is walked on the bytes ws* n u l l; every failing exit met
// must carry an error that is a plain package-level variable.
func (x *Ctx) decodeNullPath(r *core.Result, rs *core.RuleStat, noAlloc func(*ssa.Function) bool) {
	w := x.W
	for _, n := range c19Entries {
		if !strings.HasPrefix(n, "Decode") {
			continue
		}
		fn := x.Func(n)
		if fn == nil {
			continue
		}
		// the typed reader: the library callee with results (T, int, error) given the function's data
		var reader *ssa.Function
		for _, b := range fn.Blocks {
			for _, ins := range b.Instrs {
				if c, ok := ins.(*ssa.Call); ok {
					callee := c.Call.StaticCallee()
					if callee != nil && w.InLib(callee) && callee.Signature.Results().Len() == 3 && isErrT(callee.Signature.Results().At(2).Type()) && reader == nil {
						reader = callee
					}
				}
			}
		}
		if reader == nil {
			r.Undecided(rs, n, w.Pos(fn.Pos()), "no typed reader call found")
			continue
		}
		rs.Instances++
		flat, res, probs := x.Flat(reader.Name(), specOffErr(1, 2))
		if flat == nil || res == nil || len(probs) > 0 || len(res.Problems) > 0 {
			r.Undecided(rs, n+":model", w.Pos(reader.Pos()), "no problem-free model of "+reader.Name()+" to walk")
			continue
		}
		type key struct {
			st, k int
		}
		lit := "null"
		seen := map[key]bool{{flat.Start, 0}: true}
		work := []key{{flat.Start, 0}}
		bad := false
		exits := 0
		for len(work) > 0 {
			cur := work[len(work)-1]
			work = work[:len(work)-1]
			st := flat.States[cur.st]
			if st == nil || cur.k >= len(lit) {
				continue
			}
			step := func(by byte, nk int) {
				for _, e := range st.Edges {
					if !e.Bytes.Has(by) {
						continue
					}
					switch e.Term.Kind {
					case lts.Move:
						nx := key{e.Term.To, nk}
						if !seen[nx] {
							seen[nx] = true
							work = append(work, nx)
						}
					case lts.Exit:
						if e.Term.OK {
							continue // the reader accepts (ReadNull-like): not a failure on the way
						}
						exits++
						name := strings.TrimPrefix(e.Term.Err, "err variable = ")
						plain := x.noAllocError(name, noAlloc)
						if mn := strings.TrimSuffix(name, " error"); mn != name && x.Machine(mn) != nil {
							// the error of a machine the reader ran: every failing exit of that machine must be a sentinel
							plain = true
							ml := x.Machine(mn).LTS
							for _, id := range ml.IDs() {
								ms := ml.States[id]
								for _, me := range ms.Edges {
									if me.Term.Kind == lts.Exit && !me.Term.OK && !x.noAllocError(strings.TrimPrefix(me.Term.Err, "err variable = "), noAlloc) {
										plain = false
										name = mn + ": " + me.Term.Err
									}
								}
								for _, o := range ms.EOF {
									if !o.OK && o.Term == nil && !x.noAllocError(strings.TrimPrefix(o.Err, "err variable = "), noAlloc) {
										plain = false
										name = mn + " at end of input: " + o.Err
									}
								}
							}
						}
						if !plain && !bad {
							bad = true
							r.Fail(rs, n+":null-path-error", e.Pos, fmt.Sprintf("%s(`null`) succeeds, but on the way %s fails with a constructed error (%s): an allocation on a successful call", n, reader.Name(), name))
						}
					}
				}
			}
			if cur.k == 0 {
				for _, ws := range []byte{' ', '\t', '\n', '\r'} {
					step(ws, 0)
				}
			}
			step(lit[cur.k], cur.k+1)
		}
		if exits == 0 {
			r.Undecided(rs, n+":null-path", w.Pos(reader.Pos()), reader.Name()+" does not fail on `null` within its four bytes: the fallback path cannot be identified")
			continue
		}
		if !bad {
			rs.OK(1)
			rs.Sample(fmt.Sprintf("%s: %s fails on ws* null at %d exits, each with a sentinel", n, reader.Name(), exits))
		}
	}
}

func isPlainSentinel(name string) bool {
	return name != "" && name != "err variable" && !strings.ContainsAny(name, "( .") && !strings.HasPrefix(name, "undecided")
}

// noAllocError: a sentinel, or a call of a library error constructor that does not allocate.
func (x *Ctx) noAllocError(name string, noAlloc func(*ssa.Function) bool) bool {
	if isPlainSentinel(name) {
		return true
	}
	if fnName := strings.TrimSuffix(name, "(…)"); fnName != name {
		return noAlloc(x.W.SRoot.Func(fnName))
	}
	return false
}

// stackReturned: R19g.
func (x *Ctx) stackReturned(r *core.Result, rs *core.RuleStat) {
	for _, m := range x.Machines() {
		fn := x.W.SRoot.Func(m.Name)
		if fn == nil || fn.Blocks == nil {
			continue
		}
		var sp *ssa.Parameter
		for _, p := range fn.Params {
			if isIntSlice(p.Type()) {
				sp = p
			}
		}
		ri := -1
		res := fn.Signature.Results()
		for i := 0; i < res.Len(); i++ {
			if isIntSlice(res.At(i).Type()) {
				ri = i
			}
		}
		if sp == nil || ri < 0 {
			continue
		}
		rs.Instances++
		derived := map[ssa.Value]bool{sp: true}
		// phis optimistically, then pruned (greatest fixpoint)
		for _, b := range fn.Blocks {
			for _, ins := range b.Instrs {
				if ph, ok := ins.(*ssa.Phi); ok && isIntSlice(ph.Type()) {
					derived[ph] = true
				}
			}
		}
		for changed := true; changed; {
			changed = false
			for _, b := range fn.Blocks {
				for _, ins := range b.Instrs {
					v, ok := ins.(ssa.Value)
					if !ok || !isIntSlice(v.Type()) {
						continue
					}
					is := derived[v]
					want := false
					switch t := ins.(type) {
					case *ssa.Phi:
						want = true
						for _, e := range t.Edges {
							if !derived[e] {
								want = false
							}
						}
					case *ssa.Slice:
						want = derived[t.X]
					case *ssa.Call:
						if bi, ok := t.Call.Value.(*ssa.Builtin); ok && bi.Name() == "append" {
							want = derived[t.Call.Args[0]]
						}
					case *ssa.MakeSlice:
						// make + copy(new, stack) before any other use
						for _, ref := range *t.Referrers() {
							if c, ok := ref.(*ssa.Call); ok {
								if bi, ok := c.Call.Value.(*ssa.Builtin); ok && bi.Name() == "copy" && c.Call.Args[0] == ssa.Value(t) && derived[c.Call.Args[1]] {
									want = true
								}
							}
						}
					default:
						continue
					}
					if is != want {
						if _, isPhi := ins.(*ssa.Phi); isPhi && want {
							continue // a pruned phi stays pruned
						}
						derived[v] = want
						changed = true
					}
				}
			}
		}
		bad := false
		n := 0
		for _, b := range fn.Blocks {
			ret, ok := b.Instrs[len(b.Instrs)-1].(*ssa.Return)
			if !ok || ri >= len(ret.Results) {
				continue
			}
			n++
			if !derived[ret.Results[ri]] {
				r.Fail(rs, m.Name+":exit", x.W.Pos(ret.Pos()), "this exit does not hand back the stack it was given (nil or an unrelated slice): the caller's warmed buffer is lost and the next successful call allocates")
				bad = true
			}
		}
		if !bad {
			rs.OK(1)
			rs.Sample(fmt.Sprintf("%s: all %d exits return the stack parameter (grown / re-sliced)", m.Name, n))
		}
	}
}
