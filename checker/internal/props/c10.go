package props

import (
	"fmt"
	"go/token"
	"go/types"
	"sort"
	"strings"

	"golang.org/x/tools/go/callgraph"
	"golang.org/x/tools/go/ssa"

	"rjverif/internal/core"
	"rjverif/internal/lts"
	"rjverif/internal/machine"
	"rjverif/internal/scan"
)

// keyTypestate: R10d — on every path to a handler call of the object machine a key start mark was followed,
// at least two bytes later, by a key end mark, with no new key start in between.
func (x *Ctx) keyTypestate(r *core.Result, rs *core.RuleStat) {
	m := x.Machine("handleObjectValues")
	if m == nil {
		r.Undecided(rs, "handleObjectValues", "-", "machine not found")
		return
	}
	ks, ke, ok := x.keyVars(r, rs, m)
	if !ok {
		return
	}
	// typestate values: 0 none, 1 start seen (1 byte consumed since), 2 start seen (>=2 bytes since), 3 valid key
	const unvisited = -1
	ts := map[int]int{}
	for id := range m.LTS.States {
		ts[id] = unvisited
	}
	ts[m.LTS.Start] = 0
	work := []int{m.LTS.Start}
	meet := func(a, b int) int {
		if a == unvisited {
			return b
		}
		if b < a {
			return b
		}
		return a
	}
	_, d1 := depthClasses(m.LTS)
	type bad struct {
		pos, msg, key string
	}
	bads := map[string]bad{}
	nH := 0
	for len(work) > 0 {
		id := work[len(work)-1]
		work = work[:len(work)-1]
		s := m.LTS.States[id]
		if s == nil {
			continue
		}
		for _, e := range s.Edges {
			t := ts[id]
			for _, p := range e.Prims {
				switch {
				case p.Kind == "MARK" && p.Arg == ks:
					t = 0 // start recorded at this byte; one byte consumed after the edge
					t = -10
				case p.Kind == "MARK" && p.Arg == ke:
					if t >= 2 {
						t = 3
					} else {
						t = 0
						bads[fmt.Sprintf("state %d:key-end", id)] = bad{e.Pos, "the key end is recorded less than two bytes after the key start (or without one): data[start+1:end-1] would have negative length", fmt.Sprintf("handleObjectValues:state %d:key-end", id)}
					}
				case p.Kind == "HANDLER_FULL" || p.Kind == "HANDLER_SIMPLE":
					if t != 3 {
						bads[fmt.Sprintf("state %d:handler", id)] = bad{e.Pos, "a handler call is reachable without a complete key (start, then end at least two bytes later) since the last key start: the key slice may be out of range", fmt.Sprintf("handleObjectValues:state %d:handler-key", id)}
					}
				}
			}
			// consuming the byte
			switch t {
			case -10:
				t = 1
			case 1:
				t = 2
			}
			var targets []int
			switch e.Term.Kind {
			case lts.Move:
				targets = []int{e.Term.To}
			case lts.Call:
				targets = []int{e.Term.Ret} // the nested region has no marks (checked below); at least one more byte is consumed
				if t == 1 {
					t = 2
				}
			}
			for _, to := range targets {
				n := meet(ts[to], t)
				if n != ts[to] {
					ts[to] = n
					work = append(work, to)
				}
			}
		}
	}
	// second pass for counting / nested-region marks
	for id, s := range m.LTS.States {
		for _, e := range s.Edges {
			for _, p := range e.Prims {
				if p.Kind == "HANDLER_FULL" || p.Kind == "HANDLER_SIMPLE" {
					nH++
				}
				if p.Kind == "MARK" && d1[id] {
					bads[fmt.Sprintf("state %d:mark-nested", id)] = bad{e.Pos, "a key mark is set inside a nested region", fmt.Sprintf("handleObjectValues:state %d:mark-nested", id)}
				}
			}
		}
	}
	rs.Instances += nH
	var keys []string
	for k := range bads {
		keys = append(keys, k)
	}
	sort.Strings(keys)
	for _, k := range keys {
		r.Fail(rs, bads[k].key, bads[k].pos, bads[k].msg)
	}
	if len(bads) == 0 {
		rs.OK(nH)
		rs.Sample(fmt.Sprintf("handleObjectValues: %d handler edges, each preceded on every path by key start then key end >= 2 bytes later", nH))
	}
}

// progress: R10f — no cycle consisting only of offset-jump edges (the only edges that may not consume input).
func (x *Ctx) progress(r *core.Result, rs *core.RuleStat) {
	for _, hm := range handlerMachines {
		m := x.Machine(hm.name)
		if m == nil {
			continue
		}
		rs.Instances++
		adj := map[int][]int{}
		for id, s := range m.LTS.States {
			for _, e := range s.Edges {
				full := false
				for _, p := range e.Prims {
					if p.Kind == "HANDLER_FULL" {
						full = true
					}
				}
				if full && (e.Term.Kind == lts.Move || e.Term.Kind == lts.Call) {
					adj[id] = append(adj[id], e.Term.To)
				}
			}
		}
		// cycle detection
		color := map[int]int{}
		var cyc bool
		var dfs func(n int)
		dfs = func(n int) {
			color[n] = 1
			for _, t := range adj[n] {
				if color[t] == 1 {
					cyc = true
				} else if color[t] == 0 {
					dfs(t)
				}
			}
			color[n] = 2
		}
		for n := range adj {
			if color[n] == 0 {
				dfs(n)
			}
		}
		if cyc {
			r.Fail(rs, hm.name+":progress", x.W.Pos(m.Decl.Pos()), "a cycle of handler-offset jumps exists: a handler returning 1 forever would never consume input")
		} else {
			rs.OK(1)
			rs.Sample(hm.name + ": every cycle contains an edge that consumes a byte (all edges except offset jumps consume exactly one)")
		}
	}
}

// depthGuardedRecursion: R10e / R03d.
// Every cycle of the library call graph reachable from the API contains a call that is dominated by
// `callee-receiver.depth > K -> return` with the receiver's depth = caller's depth + 1, K = 10,000.
func (x *Ctx) depthGuardedRecursion(r *core.Result, rs *core.RuleStat) {
	w := x.W
	cg := w.CG()
	reach := w.Reachable(w.APIRoots(), func(e *callgraph.Edge) bool { return w.InLib(e.Caller.Func) })
	// SCCs (Tarjan) over library functions
	index := map[*ssa.Function]int{}
	low := map[*ssa.Function]int{}
	on := map[*ssa.Function]bool{}
	var stack []*ssa.Function
	var sccs [][]*ssa.Function
	idx := 0
	succ := func(fn *ssa.Function) []*ssa.Function {
		var out []*ssa.Function
		if n := cg.Nodes[fn]; n != nil {
			for _, e := range n.Out {
				c := e.Callee.Func
				if c == nil {
					continue
				}
				// look through synthetic wrappers
				if !w.InLib(c) && c.Synthetic != "" {
					if n2 := cg.Nodes[c]; n2 != nil {
						for _, e2 := range n2.Out {
							if e2.Callee.Func != nil && w.InLib(e2.Callee.Func) {
								out = append(out, e2.Callee.Func)
							}
						}
					}
					continue
				}
				if w.InLib(c) && reach[c] {
					out = append(out, c)
				}
			}
		}
		return out
	}
	var strong func(v *ssa.Function)
	strong = func(v *ssa.Function) {
		index[v] = idx
		low[v] = idx
		idx++
		stack = append(stack, v)
		on[v] = true
		for _, wv := range succ(v) {
			if _, seen := index[wv]; !seen {
				strong(wv)
				if low[wv] < low[v] {
					low[v] = low[wv]
				}
			} else if on[wv] && index[wv] < low[v] {
				low[v] = index[wv]
			}
		}
		if low[v] == index[v] {
			var comp []*ssa.Function
			for {
				n := stack[len(stack)-1]
				stack = stack[:len(stack)-1]
				on[n] = false
				comp = append(comp, n)
				if n == v {
					break
				}
			}
			sccs = append(sccs, comp)
		}
	}
	var fns []*ssa.Function
	for fn := range reach {
		if w.InLib(fn) {
			fns = append(fns, fn)
		}
	}
	sort.Slice(fns, func(i, j int) bool { return fns[i].String() < fns[j].String() })
	for _, fn := range fns {
		if _, seen := index[fn]; !seen {
			strong(fn)
		}
	}
	for _, comp := range sccs {
		cyclic := len(comp) > 1
		if !cyclic {
			for _, s := range succ(comp[0]) {
				if s == comp[0] {
					cyclic = true
				}
			}
		}
		if !cyclic {
			continue
		}
		rs.Instances++
		var names []string
		in := map[*ssa.Function]bool{}
		for _, f := range comp {
			names = append(names, f.Name())
			in[f] = true
		}
		sort.Strings(names)
		key := "cycle{" + strings.Join(names, ",") + "}"
		// exception by type: recursion over a caller-supplied in-memory value tree — no function of the cycle takes
		// JSON input (every parameter is interface{}, []interface{} or map[string]interface{}), so its depth is
		// bounded by a tree that already exists in memory, not by the input
		exc := true
		for _, f := range comp {
			if f.Signature.Recv() != nil || len(f.FreeVars) > 0 {
				exc = false
			}
			for _, p := range f.Params {
				if !isDecodedTreeType(p.Type()) {
					exc = false
				}
			}
		}
		if exc {
			rs.OK(1)
			rs.Sample(key + ": recursion over the caller's in-memory tree (bounded by that tree; listed exception)")
			continue
		}
		// every cycle must pass a guarded call: remove guarded edges and check the component becomes acyclic
		guarded := map[[2]*ssa.Function]bool{}
		nGuard := 0
		for _, f := range comp {
			for _, b := range f.Blocks {
				for _, ins := range b.Instrs {
					c, ok := ins.(*ssa.Call)
					if !ok {
						continue
					}
					callee := c.Call.StaticCallee()
					if callee == nil || !in[callee] {
						continue
					}
					if msg := x.depthGuardBefore(f, c); msg == "" {
						guarded[[2]*ssa.Function{f, callee}] = true
						nGuard++
					}
				}
			}
		}
		// acyclicity after removing guarded static edges
		color := map[*ssa.Function]int{}
		cyc := false
		var dfs func(f *ssa.Function)
		dfs = func(f *ssa.Function) {
			color[f] = 1
			for _, s := range succ(f) {
				if !in[s] || guarded[[2]*ssa.Function{f, s}] {
					continue
				}
				if color[s] == 1 {
					cyc = true
				} else if color[s] == 0 {
					dfs(s)
				}
			}
			color[f] = 2
		}
		for _, f := range comp {
			if color[f] == 0 {
				dfs(f)
			}
		}
		if cyc || nGuard == 0 {
			r.Fail(rs, key, w.Pos(comp[0].Pos()), "recursion reachable from the API without a depth guard on every cycle (unbounded Go-stack growth on deeply nested input)")
		} else {
			rs.OK(1)
			rs.Sample(fmt.Sprintf("%s: %d recursive calls, each dominated by `receiver.depth > %d -> return` with depth = parent depth + 1", key, nGuard, depthLimit))
		}
	}
}

// depthGuardBefore: the call `recv.M(…)` is dominated by `if recv.depth > K { return }` on the same receiver value,
// and recv comes from a borrow function that sets depth = parent.depth + 1.
func (x *Ctx) depthGuardBefore(fn *ssa.Function, c *ssa.Call) string {
	if len(c.Call.Args) == 0 {
		return "no receiver"
	}
	recv := c.Call.Args[0]
	dom := c.Block()
	for b := dom; b != nil; b = b.Idom() {
		idom := b.Idom()
		if idom == nil {
			break
		}
		iff, ok := idom.Instrs[len(idom.Instrs)-1].(*ssa.If)
		if !ok {
			continue
		}
		// the condition, seen through a private predicate helper (`func (h *T) tooDeep() bool { return h.depth > K }`)
		be := x.condRX(iff.Cond)
		if be == nil || be.X == nil || be.Y == nil {
			continue
		}
		if !be.X.isFieldLoad(recv, x.fld("depth")) {
			continue
		}
		kv, ok := be.Y.constInt()
		if !ok {
			continue
		}
		// guard true when depth exceeds the limit: depth > K  or depth >= K+1
		limit := int64(-1)
		switch be.Op {
		case token.GTR:
			limit = kv
		case token.GEQ:
			limit = kv - 1
		}
		if limit != depthLimit {
			return fmt.Sprintf("depth guard uses limit %d, expected %d", limit, depthLimit)
		}
		// the true branch must return; the call must be in the false branch's dominance region
		tb := idom.Succs[0]
		if _, isRet := tb.Instrs[len(tb.Instrs)-1].(*ssa.Return); !isRet {
			return "depth guard does not return"
		}
		if !idom.Succs[1].Dominates(c.Block()) {
			continue
		}
		// receiver must be the result of the borrow function whose depth store is parent.depth+1
		if msg := x.borrowSetsDepth(recv); msg != "" {
			return msg
		}
		return ""
	}
	return "no dominating depth guard on the callee's receiver"
}

// borrowSetsDepth: recv = parent.borrow…(); in that function every return value has had depth = parent.depth + 1 stored.
func (x *Ctx) borrowSetsDepth(recv ssa.Value) string {
	ri := 0
	if ex, isEx := recv.(*ssa.Extract); isEx {
		// `h2, tooDeep := h.borrow()` — the reader is one of several results
		recv, ri = ex.Tuple, ex.Index
	}
	call, ok := recv.(*ssa.Call)
	if !ok || call.Call.StaticCallee() == nil {
		return "recursion receiver does not come from a borrow function"
	}
	bf := call.Call.StaticCallee()
	if len(bf.Params) == 0 {
		return "borrow function has no receiver"
	}
	parent := bf.Params[0]
	stores := x.fieldStores(bf)
	for _, b := range bf.Blocks {
		ret, ok := b.Instrs[len(b.Instrs)-1].(*ssa.Return)
		if !ok {
			continue
		}
		// a store X.depth = parent.depth + 1 (written here or in a private helper) on the way to this return, X the
		// returned value
		found := false
		for _, fs := range stores {
			if ri >= len(ret.Results) || fs.Field != x.fld("depth") || !fs.Always || !fs.Base.isLeaf(ret.Results[ri]) || !(fs.At == b || fs.At.Dominates(b)) {
				continue
			}
			v := fs.Val
			if v == nil || v.Op != token.ADD {
				continue
			}
			if one, ok := v.Y.constInt(); !ok || one != 1 {
				continue
			}
			if v.X.isFieldLoad(parent, x.fld("depth")) {
				found = true
			}
		}
		if !found {
			return bf.Name() + " does not set the child's depth to parent depth + 1 on every return"
		}
	}
	return ""
}

// offsetsInRange: R10g for E2-modelled entry points.
func (x *Ctx) offsetsInRange(r *core.Result, rs *core.RuleStat, name string, l *lts.LTS) {
	if l == nil {
		return
	}
	rs.Instances++
	bad := false
	for _, id := range l.IDs() {
		s := l.States[id]
		for _, e := range s.Edges {
			if e.Term.Kind == lts.Exit && e.Term.OK && (e.Term.Delta < 0 || e.Term.Delta > 1) {
				r.Fail(rs, name+":offset", e.Pos, fmt.Sprintf("a successful return reports offset cursor%+d", e.Term.Delta))
				bad = true
			}
		}
		for _, o := range s.EOF {
			if o.OK && o.Delta != 0 {
				r.Fail(rs, name+":offset-eof", s.Pos, fmt.Sprintf("at end of input a successful return reports offset len(data)%+d", o.Delta))
				bad = true
			}
		}
	}
	if !bad {
		rs.OK(1)
	}
}

// C10 — every entry point is total and memory-safe on hostile input and handlers.
func C10(x *Ctx, r *core.Result) {
	r.Trusted = append(r.Trusted, trustedAutomata...)
	a := r.Rule("R10a", "handler offsets are sanitised without wrap-around: every arithmetic sub-expression on the handler's offset that can reach the cursor is proved to stay inside the int range under the checks that precede it (relational bounds over p, pe, pp)")
	x.handlerSites(r, nil, a)
	r.CheckFloor(a, 6)

	b := r.Rule("R10b", "cursor safety of every machine: data[p] is read only after the p == pe test of a state header or of the entry; the cursor is assigned only by the recognised primitives; number-tail helpers report an index in [p, pe-1]")
	ms := x.Machines()
	for _, m := range ms {
		b.Instances++
		if len(m.Problems) == 0 {
			b.OK(len(m.LTS.States))
		}
		for _, p := range m.Problems {
			r.Undecided(b, p.Key, x.W.Pos(p.Pos), p.Msg)
		}
	}
	b.Sample(fmt.Sprintf("%d machines, every statement of every state and action inside the recognised vocabulary", len(ms)))
	for _, hn := range []string{"skipFloatDec", "skipFloatExp"} {
		hr := x.Helper(hn)
		if hr == nil {
			r.Undecided(b, hn, "-", "helper not found")
			continue
		}
		x.reportScanProblems(r, b, hr)
		for _, id := range hr.LTS.IDs() {
			s := hr.LTS.States[id]
			for _, e := range s.Edges {
				if e.Term.Kind == lts.Exit && e.Term.OK && e.Term.Delta != -1 {
					r.Fail(b, hn+":result", e.Pos, fmt.Sprintf("helper reports index cursor%+d; the machine's p++ then skips or re-reads a byte", e.Term.Delta))
				}
			}
			for _, o := range s.EOF {
				if o.OK && o.Delta != -1 {
					r.Fail(b, hn+":result-eof", s.Pos, fmt.Sprintf("helper reports len(data)%+d at end of input; the machine would index past the end", o.Delta))
				}
			}
		}
		b.OK(1)
	}
	r.CheckFloor(b, 9)

	c := r.Rule("R10c", "stack safety: every push makes index top valid before storing (growth size >= 0 and sufficient, or index already inside), pops occur only at depth >= 1")
	x.stackRules(r, c, false)
	x.bufferRules(r, c, stackMachines...)
	r.CheckFloor(c, 30)

	d := r.Rule("R10d", "key slice safety: on every path to a handler call of the object machine the key start mark is followed, at least two bytes later, by the key end mark")
	x.keyTypestate(r, d)
	r.CheckFloor(d, 18)

	e := r.Rule("R10e", "recursion: every call-graph cycle reachable from the API contains a call dominated by the depth guard of the callee's receiver (limit 10,000, depth = parent + 1)")
	x.depthGuardedRecursion(r, e)
	r.CheckFloor(e, 2)

	f := r.Rule("R10f", "progress: every machine cycle contains a byte-consuming edge other than a handler-offset jump; the hand-written scanners advance the cursor between any two looks at the input (finite abstract exploration)")
	x.progress(r, f)
	r.CheckFloor(f, 2)

	g := r.Rule("R10g/h", "hand-written scanners: every data[i] / data[a:b] is proved in range and every offset returned with a nil error lies in [0, len(data)]")
	type sc struct {
		name string
		spec func(fn *ssa.Function) *scan.Spec
	}
	scs := []sc{{"NextToken", func(fn *ssa.Function) *scan.Spec { return scan.FuncSpec(fn, 1, 2, -1, 0) }},
		{"NextTokenType", func(fn *ssa.Function) *scan.Spec { return scan.FuncSpec(fn, 1, 2, -1, 0) }},
		{"ReadStringBytes", specOffErr(1, 2)}, {"ReadString", specOffErr(1, 2)}, {"ReadFloat64", specOffErr(1, 2)},
		{"SkipValue", specOffErr(0, 1)}, {"ReadNull", specOffErr(0, 1)}, {"ReadBool", specOffErr(1, 2)},
		{"Valid", func(fn *ssa.Function) *scan.Spec { return scan.FuncSpec(fn, -1, -1, 0, -1) }}}
	for _, ir := range intReaders {
		scs = append(scs, sc{ir.name, specOffErr(1, 2)})
	}
	for _, s := range scs {
		flat, res, fp := x.Flat(s.name, s.spec)
		if res == nil {
			r.Undecided(g, s.name, "-", "function not found")
			continue
		}
		x.reportScanProblems(r, g, res)
		for _, p := range fp {
			r.Undecided(g, s.name+":compose", "-", p)
		}
		x.unsafeReads(r, g, res)
		g.Obligations += res.Reads
		g.Discharged += res.Reads
		x.offsetsInRange(r, g, s.name, flat)
	}
	r.CheckFloor(g, 12)
	r.NotDecided = append(r.NotDecided,
		"index safety of internal/fp/decimal.go from first principles: its indexing is discharged by being the same program as strconv's (R04f), whose safety is trusted",
		"negative make sizes and nil map writes (no such construct is reachable; not a rule), StdLibCompatible* recursion depth on a caller-built tree",
		"termination of the shift loops in internal/fp (decimal.Shift / floatBits)",
		"integer wrap-around inside the local linear arguments of R10i (every term is a length or a small constant away from one)")
	ri := r.Rule("R10i", "accounting: every index / slice expression in a library function reachable from the API is discharged by the machine rules, by the scanner interpreter (that very expression was judged), by the compiler's bounds-check elimination (absent from its list of unproven checks) or by a local linear argument — none lies outside all analyses")
	x.boundsAccounting(r, ri)
	r.CheckFloor(ri, 100)
	r.Trusted = append(r.Trusted, "the Go compiler's bounds-check elimination (an index expression absent from -d=ssa/check_bce's list is in range)", "package strconv of the GOROOT in use does not index out of range", "lengths and capacities are far below the int range (no wrap-around in len+4 and the like)", "utf8.EncodeRune in [1,4], utf8.RuneLen in [-1,4] (>= 3 on utf16.DecodeRune's result), utf8.DecodeRune* size in [0,4] and <= len, bytes.IndexByte in [-1, len)")
	r.Explain = "each clause is a for-all-paths property of the extracted transition systems, of SSA dominance, or of a small linear system; R10i accounts for every index/slice expression reachable from the API; what is trusted or not decided is listed"
}

func init() { Registry["C10"] = Prop{"other", C10} }

var _ = types.Identical
var _ = machine.IsMachine

// isDecodedTreeType: interface{}, []interface{} or map[string]interface{} — the types of a decoded value tree.
func isDecodedTreeType(t types.Type) bool {
	isEmptyIface := func(t types.Type) bool {
		i, ok := t.Underlying().(*types.Interface)
		return ok && i.NumMethods() == 0
	}
	switch u := t.Underlying().(type) {
	case *types.Interface:
		return u.NumMethods() == 0
	case *types.Slice:
		return isEmptyIface(u.Elem())
	case *types.Map:
		b, ok := u.Key().Underlying().(*types.Basic)
		return ok && b.Kind() == types.String && isEmptyIface(u.Elem())
	}
	return false
}

// condRX: a branch condition resolved into the frame of the branching function: the comparison itself, or — when the
// condition is the result of a private single-return predicate helper — that helper's returned expression with its
// parameters replaced by the arguments.
func (x *Ctx) condRX(cond ssa.Value) *RX {
	var c *ssa.Call
	idx := 0
	switch t := cond.(type) {
	case *ssa.Call:
		c = t
	case *ssa.Extract:
		// `h2, tooDeep := h.borrow()`: one of several results of a private helper
		if cc, ok := t.Tuple.(*ssa.Call); ok {
			c, idx = cc, t.Index
		}
	}
	if c == nil {
		return resolveRX(cond, nil)
	}
	h := c.Call.StaticCallee()
	if h == nil || !x.isPrivateHelper(h) || len(h.Blocks) == 0 || idx >= h.Signature.Results().Len() || len(h.Params) != len(c.Call.Args) {
		return resolveRX(cond, nil)
	}
	var ret *ssa.Return
	for _, b := range h.Blocks {
		if r, ok := b.Instrs[len(b.Instrs)-1].(*ssa.Return); ok {
			if ret != nil {
				return resolveRX(cond, nil) // several returns: not a simple predicate
			}
			ret = r
		}
	}
	if ret == nil || idx >= len(ret.Results) {
		return resolveRX(cond, nil)
	}
	// the returned expression must be evaluated after everything the helper does: its loads sit in the returning
	// block behind the last store / call
	lastEffect := -1
	for i, ins := range ret.Block().Instrs {
		switch t := ins.(type) {
		case *ssa.Store, *ssa.MapUpdate, *ssa.Send, *ssa.Go, *ssa.Defer:
			lastEffect = i
		case *ssa.Call:
			if _, isB := t.Call.Value.(*ssa.Builtin); !isB {
				lastEffect = i
			}
		}
	}
	okExpr := true
	var visit func(v ssa.Value, depth int)
	visit = func(v ssa.Value, depth int) {
		if depth > 6 {
			okExpr = false
			return
		}
		switch t := v.(type) {
		case *ssa.BinOp:
			visit(t.X, depth+1)
			visit(t.Y, depth+1)
		case *ssa.UnOp:
			if t.Op == token.MUL {
				if t.Block() != ret.Block() || instrIndex(t) < lastEffect {
					okExpr = false
				}
				return
			}
			visit(t.X, depth+1)
		case *ssa.Call:
			okExpr = false
		}
	}
	visit(ret.Results[idx], 0)
	if !okExpr {
		return resolveRX(cond, nil)
	}
	bind := map[ssa.Value]*RX{}
	for i, p := range h.Params {
		bind[p] = resolveRX(c.Call.Args[i], nil)
	}
	// the other results of the helper are, in the caller's frame, the results of this call
	nres := h.Signature.Results().Len()
	for j, rv := range ret.Results {
		if j == idx {
			continue
		}
		if _, isC := rv.(*ssa.Const); isC {
			continue
		}
		if _, bound := bind[rv]; !bound {
			if nres == 1 {
				bind[rv] = &RX{Call: c, Idx: -1}
			} else {
				bind[rv] = &RX{Call: c, Idx: j}
			}
		}
	}
	return resolveRX(ret.Results[idx], bind)
}
