package props

import (
	"fmt"

	"golang.org/x/tools/go/ssa"

	"rjverif/internal/core"
	"rjverif/internal/linarith"
	"rjverif/internal/lts"
	"rjverif/internal/machine"
	"rjverif/internal/product"
	"rjverif/internal/ref"
)

var handlerMachines = []struct {
	name  string
	ref   func() *lts.LTS
	isObj bool
}{
	{"handleArrayValues", ref.HandleArray, false},
	{"handleObjectValues", ref.HandleObject, true},
}

// keyVars determines which mark variables delimit the key slice, from the handler call sites:
// the key argument must be data[KS+1 : KE-1] at every site, with the same two variables.
func (x *Ctx) keyVars(r *core.Result, rs *core.RuleStat, m *machine.Machine) (ks, ke string, ok bool) {
	ok = true
	for _, h := range m.Handlers {
		if h.KeyLo == nil || h.KeyHi == nil {
			r.Fail(rs, fmt.Sprintf("%s:%s:key", m.Name, h.Label), x.W.Pos(h.Pos), "object handler call without a key slice argument")
			ok = false
			continue
		}
		lo, hi := h.KeyLoSym, h.KeyHiSym
		if !h.KeyLo.Equal(linarith.Var(lo).AddK(1)) || !h.KeyHi.Equal(linarith.Var(hi).AddK(-1)) {
			r.Fail(rs, fmt.Sprintf("%s:%s:key", m.Name, h.Label), x.W.Pos(h.Pos),
				fmt.Sprintf("key slice is data[%s:%s]; it must be data[<key start>+1 : <key end>-1], i.e. the raw bytes between the quotes", h.KeyLo, h.KeyHi))
			ok = false
			continue
		}
		if ks == "" {
			ks, ke = lo, hi
		} else if ks != lo || ke != hi {
			r.Fail(rs, fmt.Sprintf("%s:%s:key", m.Name, h.Label), x.W.Pos(h.Pos), "handler call sites disagree on the variables that delimit the key")
			ok = false
		}
		rs.OK(1)
	}
	// strip the "v:" prefix used by linear forms
	if len(ks) > 2 {
		ks = ks[2:]
	}
	if len(ke) > 2 {
		ke = ke[2:]
	}
	return
}

// handlerBisim runs the marked bisimulation of one handler machine (R07a-d).
func (x *Ctx) handlerBisim(r *core.Result, rs *core.RuleStat, name string, rf *lts.LTS, isObj bool) {
	m := x.Machine(name)
	if m == nil {
		r.Undecided(rs, name, "-", "machine not found")
		return
	}
	x.reportMachineProblems(r, rs, name)
	impl, probs := x.Composed(name)
	for _, p := range probs {
		r.Undecided(rs, p.Key, x.W.Pos(p.Pos), p.Msg)
	}
	ks, ke := "", ""
	if isObj {
		var ok bool
		ks, ke, ok = x.keyVars(r, rs, m)
		if !ok {
			return
		}
	}
	implMarks := func(e *lts.Edge) []string {
		var out []string
		for _, p := range e.Prims {
			switch p.Kind {
			case "HANDLER_FULL", "HANDLER_SIMPLE":
				out = append(out, "H")
			case "MARK":
				switch p.Arg {
				case ks:
					out = append(out, "KS")
				case ke:
					out = append(out, "KE")
				default:
					out = append(out, "MARK("+p.Arg+")")
				}
			}
		}
		return out
	}
	refMarks := func(e *lts.Edge) []string {
		var out []string
		for _, p := range e.Prims {
			out = append(out, p.Kind)
		}
		return out
	}
	// R07c: a HANDLER_FULL edge may jump to the value's last byte
	onMatch := func(si, sr int, b byte, ei, er *lts.Edge) ([]string, []product.Extra) {
		full := false
		for _, p := range ei.Prims {
			if p.Kind == "HANDLER_FULL" {
				full = true
			}
		}
		if !full {
			return nil, nil
		}
		var msgs []string
		var extra []product.Extra
		switch {
		case b == '"' && ei.Term.Kind == lts.Move && er.Term.Kind == lts.Move:
			// string: from the state entered after the opening quote, the closing quote must lead where the reference goes after the string
			ms := impl.States[ei.Term.To]
			body := rf.States[er.Term.To]
			if ms == nil || body == nil {
				return []string{"jump target missing"}, nil
			}
			re := body.EdgesFor('"')
			if len(re) != 1 || re[0].Term.Kind != lts.Move {
				return []string{"reference string body has no closing-quote move"}, nil
			}
			for _, e := range ms.EdgesFor('"') {
				if e.Term.Kind != lts.Move || len(implMarks(e)) != 0 {
					msgs = append(msgs, "when the handler consumed a string, the machine resumes on its closing quote in a state that does not simply finish the string")
					continue
				}
				extra = append(extra, product.Extra{Impl: e.Term.To, Ref: re[0].Term.To, Bytes: []byte{'"'}})
			}
		case (b == '[' || b == '{') && ei.Term.Kind == lts.Call && er.Term.Kind == lts.Call:
			closer := byte(']')
			if b == '{' {
				closer = '}'
			}
			ms := impl.States[ei.Term.To]
			if ms == nil {
				return []string{"jump target missing"}, nil
			}
			for _, e := range ms.EdgesFor(closer) {
				if e.Term.Kind != lts.Ret || len(implMarks(e)) != 0 {
					msgs = append(msgs, fmt.Sprintf("when the handler consumed a container, the machine resumes on its closing %q in a state where that byte does not return from the nested region", closer))
				}
			}
		default:
			msgs = append(msgs, fmt.Sprintf("the handler's offset is used for a value starting with %q, which has no closing delimiter to re-synchronise on", b))
		}
		return msgs, extra
	}
	x.bisim(r, rs, name, impl, rf, product.Options{ImplMarks: implMarks, RefMarks: refMarks, OnMatch: onMatch})
}

// handlerSites runs the offset-sanitising analysis on every HANDLER_FULL site (shared by C07 R07c, C08 R08b, C10 R10a).
func (x *Ctx) handlerSites(r *core.Result, spec, ovf *core.RuleStat) {
	for _, hm := range handlerMachines {
		m := x.Machine(hm.name)
		if m == nil {
			if spec != nil {
				r.Undecided(spec, hm.name, "-", "machine not found")
			}
			continue
		}
		for _, h := range m.Handlers {
			if !h.Full {
				continue
			}
			rep := m.AnalyseHandler(h)
			key := fmt.Sprintf("%s:%s", m.Name, siteKey(m, h))
			if spec != nil {
				spec.Instances++
				if len(rep.SpecDiffs) == 0 {
					spec.OK(1)
					spec.Sample(key + ": pp<0 -> error; pp==0 -> unchanged; 1<=pp<=pe-p -> next read at p+pp-1; pp>pe-p -> error")
				}
				for _, d := range rep.SpecDiffs {
					r.Fail(spec, key+":resync", x.W.Pos(h.Pos), d)
				}
			}
			if ovf != nil {
				ovf.Instances++
				if len(rep.Overflows) == 0 {
					ovf.OK(max(rep.ArithOps, 1))
					ovf.Sample(fmt.Sprintf("%s: %d arithmetic sub-expressions proved not to wrap", key, rep.ArithOps))
				}
				for _, d := range rep.Overflows {
					r.Fail(ovf, key+":overflow", x.W.Pos(h.Pos), d)
				}
			}
		}
	}
}

// siteKey identifies a handler site without line numbers or label numbers: by the state it is entered from and the first byte class.
func siteKey(m *machine.Machine, h *machine.HandlerSite) string {
	// the bytes on which this action is taken
	var set lts.ByteSet
	for _, s := range m.LTS.States {
		for _, e := range s.Edges {
			for _, p := range e.Prims {
				if (p.Kind == "HANDLER_FULL" || p.Kind == "HANDLER_SIMPLE") && p.Ref >= 0 && m.Handlers[p.Ref] == h {
					set = set.Or(e.Bytes)
				}
			}
		}
	}
	kind := "first"
	// first member vs later member: distinguish by whether a ',' edge leads to the source state (approximation: use label order)
	idx := 0
	for i, o := range m.Handlers {
		if o == h {
			idx = i
		}
	}
	same := 0
	for i, o := range m.Handlers {
		if i < idx && o.Full == h.Full && siteBytes(m, o) == set {
			same++
		}
	}
	if same > 0 {
		kind = fmt.Sprintf("later#%d", same)
	}
	return fmt.Sprintf("handler on %s (%s member)", set, kind)
}

func siteBytes(m *machine.Machine, h *machine.HandlerSite) lts.ByteSet {
	var set lts.ByteSet
	for _, s := range m.LTS.States {
		for _, e := range s.Edges {
			for _, p := range e.Prims {
				if (p.Kind == "HANDLER_FULL" || p.Kind == "HANDLER_SIMPLE") && p.Ref >= 0 && m.Handlers[p.Ref] == h {
					set = set.Or(e.Bytes)
				}
			}
		}
	}
	return set
}

// C07 — handlers see each member exactly once, in order; traversal still validates.
func C07(x *Ctx, r *core.Result) {
	r.Trusted = append(r.Trusted, trustedAutomata...)
	r.Assume = append(r.Assume, "handler contract of the property: each call returns 0 or the exact end offset of the value it was given (and propagates its own errors)")
	a := r.Rule("R07a-d", "handleArrayValues / handleObjectValues (with helpers) are bisimilar WITH MARKS to the marked reference: H exactly on the first byte of each member value, KS on the key's opening quote, KE on the first byte after its closing quote; declined values validated; final offset; null accepted")
	for _, hm := range handlerMachines {
		x.handlerBisim(r, a, hm.name, hm.ref(), hm.isObj)
	}
	r.CheckFloor(a, 2)
	c := r.Rule("R07c", "offset use after every handler call that keeps its result: pp<0 -> error, pp==0 -> cursor unchanged, 1<=pp<=pe-p -> next byte read is p+pp-1 (the value's last byte), pp>pe-p -> error; simple-kind calls discard the offset")
	x.handlerSites(r, c, nil)
	r.CheckFloor(c, 6)
	w := r.Rule("R07w", "exported wrappers HandleArrayValues / HandleObjectValues pass data, handler and results through unchanged in both buffer branches")
	x.wrapperSymmetry(r, w, "HandleArrayValues", "HandleObjectValues")
	x.wrapperPassThrough(r, w, "HandleArrayValues", "HandleObjectValues")
	r.CheckFloor(w, 2)
	ad := r.Rule("R07x", "the function adapters ArrayValueHandlerFunc / ObjectValueHandlerFunc call the wrapped function with the same arguments in the same order and return its results unchanged")
	x.adapterRule(r, ad)
	r.CheckFloor(ad, 2)
	// every member-value kind has a handler call
	k := r.Rule("R07k", "at least one handler call exists for every member-value kind (string, number, true, false, null, array, object) in each handler machine")
	for _, hm := range handlerMachines {
		m := x.Machine(hm.name)
		if m == nil {
			continue
		}
		var all lts.ByteSet
		for _, h := range m.Handlers {
			all = all.Or(siteBytes(m, h))
			k.Instances++
		}
		want := lts.OfString(`"-0123456789tfn[{`)
		if miss := want.Minus(all); !miss.Empty() {
			r.Fail(k, hm.name+":kinds", x.W.Pos(m.Decl.Pos()), fmt.Sprintf("no handler call for values starting with %s", miss))
		} else {
			k.OK(1)
		}
	}
	r.CheckFloor(k, 14)
	r.Exhaustive = true
	r.Explain = "marked bisimulation over the whole reachable product, both handler strategies (decline / accept) explored at every kept-offset call"
}

func init() { Registry["C07"] = Prop{"proof", C07} }

// adapterRule: `func (fn XHandlerFunc) HandleX(args…) (int, error) { return fn(args…) }`.
func (x *Ctx) adapterRule(r *core.Result, rs *core.RuleStat) {
	for _, n := range []string{"ArrayValueHandlerFunc.HandleArrayValue", "ObjectValueHandlerFunc.HandleObjectValue"} {
		fn := x.Func(n)
		if fn == nil {
			r.Undecided(rs, n, "-", "adapter not found")
			continue
		}
		rs.Instances++
		var call *ssa.Call
		var ret *ssa.Return
		bad := ""
		for _, b := range fn.Blocks {
			for _, ins := range b.Instrs {
				switch t := ins.(type) {
				case *ssa.Call:
					if call != nil {
						bad = "more than one call"
					}
					call = t
				case *ssa.Return:
					ret = t
				case *ssa.Store, *ssa.MapUpdate:
					bad = "adapter has a side effect"
				}
			}
		}
		switch {
		case bad != "":
		case call == nil || ret == nil || len(fn.Params) < 2 || call.Call.Value != ssa.Value(fn.Params[0]):
			bad = "adapter does not call the wrapped function value"
		default:
			if len(call.Call.Args) != len(fn.Params)-1 {
				bad = "argument count differs"
			}
			for i, a := range call.Call.Args {
				if i+1 < len(fn.Params) && a != ssa.Value(fn.Params[i+1]) {
					bad = fmt.Sprintf("argument %d is not passed through in order", i)
				}
			}
			for i, res := range ret.Results {
				ex, ok := res.(*ssa.Extract)
				if !ok || ex.Tuple != ssa.Value(call) || ex.Index != i {
					bad = fmt.Sprintf("result %d is not the wrapped function's result %d", i, i)
				}
			}
		}
		if bad != "" {
			r.Fail(rs, n+":adapter", x.W.Pos(fn.Pos()), bad)
		} else {
			rs.OK(1)
			rs.Sample(n + ": return fn(args…) unchanged")
		}
	}
}
