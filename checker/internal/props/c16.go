package props

import (
	"fmt"
	"go/ast"
	"go/token"
	"go/types"
	"strings"

	"golang.org/x/tools/go/callgraph"
	"golang.org/x/tools/go/ssa"

	"rjverif/internal/core"
	"rjverif/internal/ssarules"
)

func isBytesOrString(t types.Type) bool {
	if isByteSliceT(t) {
		return true
	}
	b, ok := t.Underlying().(*types.Basic)
	return ok && b.Kind() == types.String
}

// inputParams: the parameters through which a caller hands the library read-only input:
// the first []byte/string parameter of every exported function or method, and every []byte parameter of the
// handler-interface methods (HandleArrayValue / HandleObjectValue implementations).
// bytesOnly: only []byte inputs count (for aliasing: a string is immutable, sharing one with the caller is harmless and
// invisible; writing through one needs unsafe, which R16e forbids).
func inputParams(funcs []*ssa.Function, exported func(fn *ssa.Function) bool, bytesOnly ...bool) map[ssa.Value]bool {
	out := map[ssa.Value]bool{}
	for _, fn := range funcs {
		if fn.Parent() != nil {
			continue
		}
		if fn.Name() == "HandleArrayValue" || fn.Name() == "HandleObjectValue" {
			for _, p := range fn.Params {
				if isByteSliceT(p.Type()) {
					out[p] = true
				}
			}
			continue
		}
		if !exported(fn) {
			continue
		}
		params := fn.Params
		if fn.Signature.Recv() != nil && len(params) > 0 {
			params = params[1:]
		}
		for _, p := range params {
			if isBytesOrString(p.Type()) {
				if len(bytesOnly) > 0 && bytesOnly[0] && !isByteSliceT(p.Type()) {
					break
				}
				out[p] = true
				break
			}
		}
	}
	return out
}

// inputAliasSinks runs R16a (writes through an input alias) and R16b (aliases kept or returned).
func inputAliasSinks(funcs []*ssa.Function, cg *callgraph.Graph, sources map[ssa.Value]bool, apiRoots map[*ssa.Function]bool) (writes, keeps []sinkHit, tainted int) {
	scope := map[*ssa.Function]bool{}
	for _, f := range funcs {
		scope[f] = true
	}
	t := &ssarules.Taint{Funcs: scope, CG: cg, IsSource: func(v ssa.Value) bool { return sources[v] },
		ThroughLoad: func(ty types.Type) bool { return ssarules.RefLike(ty) }}
	t.Run()
	tainted = len(t.Tainted)
	for _, fn := range funcs {
		nw, nk := 0, 0
		for _, b := range fn.Blocks {
			for _, ins := range b.Instrs {
				switch ins := ins.(type) {
				case *ssa.Store:
					if t.Tainted[ins.Addr] {
						nw++
						writes = append(writes, sinkHit{fmt.Sprintf("%s:store#%d", fn.String(), nw), ins.Pos(), "stores through an alias of the caller's input"})
					}
					if t.Tainted[ins.Val] && ssarules.RefLike(ins.Val.Type()) {
						switch ins.Addr.(type) {
						case *ssa.FieldAddr, *ssa.IndexAddr:
							nk++
							keeps = append(keeps, sinkHit{fmt.Sprintf("%s:keep#%d", fn.String(), nk), ins.Pos(), "keeps an alias of the caller's input in a field or slice element"})
						case *ssa.Global:
							nk++
							keeps = append(keeps, sinkHit{fmt.Sprintf("%s:keep-global#%d", fn.String(), nk), ins.Pos(), "keeps an alias of the caller's input in a package-level variable"})
						}
					}
				case *ssa.MapUpdate:
					if (t.Tainted[ins.Key] && ssarules.RefLike(ins.Key.Type())) || (t.Tainted[ins.Value] && ssarules.RefLike(ins.Value.Type())) {
						nk++
						keeps = append(keeps, sinkHit{fmt.Sprintf("%s:keep-map#%d", fn.String(), nk), ins.Pos(), "keeps an alias of the caller's input in a map"})
					}
				case *ssa.Return:
					if apiRoots[fn] {
						for i, res := range ins.Results {
							if t.Tainted[res] && ssarules.RefLike(res.Type()) {
								nk++
								keeps = append(keeps, sinkHit{fmt.Sprintf("%s:return[%d]", fn.String(), i), ins.Pos(), "returns a value that aliases the caller's input"})
							}
						}
					}
				case ssa.CallInstruction:
					cc := ins.Common()
					if bi, ok := cc.Value.(*ssa.Builtin); ok {
						if (bi.Name() == "append" || bi.Name() == "copy") && len(cc.Args) > 0 && t.Tainted[cc.Args[0]] {
							nw++
							writes = append(writes, sinkHit{fmt.Sprintf("%s:%s#%d", fn.String(), bi.Name(), nw), ins.Pos(), bi.Name() + " into an alias of the caller's input"})
						}
						continue
					}
					if callee := cc.StaticCallee(); callee != nil && !scope[callee] {
						for _, a := range cc.Args {
							if t.Tainted[a] && ptrLike(a.Type()) && !pureReader(callee) {
								nw++
								writes = append(writes, sinkHit{fmt.Sprintf("%s:extern#%d->%s", fn.String(), nw, callee.String()), ins.Pos(), "passes an alias of the caller's input to " + callee.String() + ", which is not known to be read-only"})
							}
						}
					}
				}
			}
		}
	}
	return
}

func (x *Ctx) apiRootSet() map[*ssa.Function]bool {
	m := map[*ssa.Function]bool{}
	for _, f := range x.W.APIRoots() {
		// the handler-interface methods necessarily receive the input; what they return is an offset
		m[f] = true
	}
	return m
}

// inputWriteRule: R16a on the library (used by C16 and C18).
func (x *Ctx) inputWriteRule(r *core.Result, rs *core.RuleStat) (keeps []sinkHit) {
	w := x.W
	funcs := w.SrcFuncs()
	roots := x.apiRootSet()
	src := inputParams(funcs, func(fn *ssa.Function) bool { return roots[fn] }, true)
	writes, keeps, tainted := inputAliasSinks(funcs, w.CG(), src, roots)
	for _, h := range writes {
		r.Fail(rs, h.Key, w.Pos(h.Pos), h.Msg)
	}
	rs.Instances = len(src)
	rs.OK(tainted)
	rs.Sample(fmt.Sprintf("%d input parameters, alias closure of %d SSA values, %d write sinks reached", len(src), tainted, len(writes)))
	if len(src) < 30 {
		r.Undecided(rs, "inputs", "-", fmt.Sprintf("only %d input parameters identified in the exported API (expected >= 30): anchor missing", len(src)))
	}
	return keeps
}

func (x *Ctx) positiveControlInputs(r *core.Result, rs *core.RuleStat) {
	prog, sps, _, err := core.LoadAny(x.selftestDir(), "./inputwrite")
	if err != nil {
		r.Undecided(rs, "selftest/inputwrite", "-", "cannot load the positive control: "+err.Error())
		return
	}
	funcs := core.FuncsOf(prog, sps...)
	roots := map[*ssa.Function]bool{}
	for _, f := range funcs {
		if ast.IsExported(f.Name()) {
			roots[f] = true
		}
	}
	src := inputParams(funcs, func(fn *ssa.Function) bool { return roots[fn] })
	writes, keeps, _ := inputAliasSinks(funcs, nil, src, roots)
	fired := map[string]bool{}
	for _, h := range append(writes, keeps...) {
		fired[strings.SplitN(h.Key, ":", 2)[0]] = true
	}
	rs.Instances = len(funcs)
	for _, want := range []string{"selftest/inputwrite.Overwrite", "selftest/inputwrite.AppendTo", "selftest/inputwrite.helper", "(*selftest/inputwrite.Keeper).Keep", "selftest/inputwrite.Alias"} {
		if !fired[want] {
			r.Undecided(rs, "selftest:"+want, "-", "the input-alias rule did not fire on the positive control "+want+": the rule is broken")
		} else {
			rs.OK(1)
		}
	}
	if fired["selftest/inputwrite.Fine"] {
		r.Undecided(rs, "selftest:Fine", "-", "the input-alias rule fired on a copying conversion: the rule is broken")
	} else {
		rs.OK(1)
	}
}

// C16 — inputs never modified; append semantics; outputs own their memory.
func C16(x *Ctx, r *core.Result) {
	r.Trusted = append(r.Trusted, "flow-insensitive may-alias closure over go/ssa with VTA-resolved interface calls (no pointer analysis is available in x/tools v0.29.0)",
		"string(b) / []byte(s) conversions copy; append(dst, src...) copies the elements of src")
	a := r.Rule("R16a", "no store, append or copy through any alias of an input parameter (closed under slicing, phi, parameter passing incl. the handler interfaces), and no hand-over of such an alias to an external function not known to be read-only")
	keeps := x.inputWriteRule(r, a)
	b := r.Rule("R16b", "no alias of an input is returned by an exported function or stored into a field, slice element, map or package-level variable (results own their memory)")
	for _, h := range keeps {
		r.Fail(b, h.Key, x.W.Pos(h.Pos), h.Msg)
	}
	b.Instances = a.Instances
	b.OK(a.Instances)
	pc := r.Rule("R16+", "positive control: R16a/R16b must fire on /verif/selftest/inputwrite (5 offending functions) and stay silent on its copying function")
	x.positiveControlInputs(r, pc)
	c := r.Rule("R16c", "destination slices only grow: the destination flows only through append, the growth helper and re-slices whose upper bound is original length + non-negative; stores through it are at indices >= the original length")
	x.destinationRules(r, c)
	d := r.Rule("R16d", "scratch buffers (ReadString's *buf, ValueReader.stringBuf / fieldNameBuf) reach an appending callee only re-sliced to length 0")
	x.scratchRules(r, d)
	e := r.Rule("R16e", "every string returned by an exported function is a constant or a copying conversion (string(bytes) / string(runes)) — never a view of the input or of a buffer; no unsafe.Pointer conversion is reachable from the API")
	x.stringResultsCopied(r, e)
	r.NotDecided = append(r.NotDecided, "\"exactly the bytes they would produce with an empty destination\" is R16c together with C06's content rules")
	r.Explain = "who-may-write and who-may-keep analysis over the alias closure of every input parameter; destination typestate by linear forms on SSA"
}

func init() { Registry["C16"] = Prop{"other", C16} }

// stringResultsCopied: R16e.
func (x *Ctx) stringResultsCopied(r *core.Result, rs *core.RuleStat) {
	w := x.W
	var isCopy func(v ssa.Value, seen map[ssa.Value]bool) string
	isCopy = func(v ssa.Value, seen map[ssa.Value]bool) string {
		if seen[v] {
			return ""
		}
		seen[v] = true
		switch t := v.(type) {
		case *ssa.Const:
			return ""
		case *ssa.Parameter:
			if isStringType(t.Type()) {
				return "" // the caller's own string handed back: immutable, it cannot change later
			}
		case *ssa.Slice:
			if isStringType(t.Type()) {
				return isCopy(t.X, seen) // a substring of an owned or constant string
			}
		case *ssa.Convert:
			if isStringType(t.Type()) {
				switch u := t.X.Type().Underlying().(type) {
				case *types.Slice:
					return "" // string([]byte) / string([]rune) copies
				case *types.Basic:
					if u.Info()&types.IsInteger != 0 {
						return ""
					}
				}
			}
			return "a conversion that does not copy"
		case *ssa.Phi:
			for _, e := range t.Edges {
				if m := isCopy(e, seen); m != "" {
					return m
				}
			}
			return ""
		case *ssa.Extract:
			if c, ok := t.Tuple.(*ssa.Call); ok {
				if callee := c.Call.StaticCallee(); callee != nil && w.InLib(callee) {
					return x.stringResultOf(callee, t.Index, isCopy, seen)
				}
			}
			return "the result of a call outside the library"
		case *ssa.Call:
			if callee := t.Call.StaticCallee(); callee != nil {
				if w.InLib(callee) {
					return x.stringResultOf(callee, 0, isCopy, seen)
				}
				if callee.Pkg != nil && callee.Pkg.Pkg.Path() == "fmt" {
					return ""
				}
			}
			return "the result of a call outside the library"
		case *ssa.BinOp:
			return "" // string concatenation allocates
		case *ssa.Lookup, *ssa.Index:
			return "" // element of a package-level table of string constants
		case *ssa.UnOp:
			if t.Op == token.MUL {
				if _, ok := t.X.(*ssa.IndexAddr); ok {
					return ""
				}
				if fa, ok := t.X.(*ssa.FieldAddr); ok {
					_ = fa
					return "a string loaded from a field"
				}
				return "a string loaded through a pointer (possibly a view of a byte buffer)"
			}
		}
		return fmt.Sprintf("%T", v)
	}
	for _, fn := range w.APIRoots() {
		res := fn.Signature.Results()
		for i := 0; i < res.Len(); i++ {
			if !isStringType(res.At(i).Type()) {
				continue
			}
			rs.Instances++
			ok := true
			for _, b := range fn.Blocks {
				ret, isRet := b.Instrs[len(b.Instrs)-1].(*ssa.Return)
				if !isRet {
					continue
				}
				if m := isCopy(ret.Results[i], map[ssa.Value]bool{}); m != "" {
					r.Fail(rs, fnKey(fn)+":string-result", w.Pos(ret.Pos()), "a returned string is "+m+": it may share memory with the input or a buffer and change later")
					ok = false
				}
			}
			if ok {
				rs.OK(1)
				rs.Sample(fnKey(fn) + ": returned strings are constants or copying conversions")
			}
		}
	}
	// unsafe anywhere in the API-reachable library code
	reach := w.Reachable(w.APIRoots(), func(e *callgraph.Edge) bool { return w.InLib(e.Caller.Func) })
	for fn := range reach {
		if !w.InLib(fn) {
			continue
		}
		for _, b := range fn.Blocks {
			for _, ins := range b.Instrs {
				if cv, ok := ins.(*ssa.Convert); ok && (isUnsafePtr(cv.Type()) || isUnsafePtr(cv.X.Type())) {
					r.Fail(rs, fnKey(fn)+":unsafe", w.Pos(cv.Pos()), "unsafe.Pointer conversion: results may alias buffers")
				}
			}
		}
	}
	if rs.Instances < 3 {
		r.Undecided(rs, "floor", "-", "fewer than 3 exported functions return strings: anchor missing")
	}
}

func (x *Ctx) stringResultOf(callee *ssa.Function, idx int, isCopy func(ssa.Value, map[ssa.Value]bool) string, seen map[ssa.Value]bool) string {
	for _, b := range callee.Blocks {
		if ret, ok := b.Instrs[len(b.Instrs)-1].(*ssa.Return); ok && idx < len(ret.Results) {
			if m := isCopy(ret.Results[idx], seen); m != "" {
				return m
			}
		}
	}
	return ""
}

func isStringType(t types.Type) bool {
	b, ok := t.Underlying().(*types.Basic)
	return ok && b.Kind() == types.String
}
