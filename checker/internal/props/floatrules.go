package props

import (
	"fmt"
	"go/ast"
	"go/constant"
	"go/token"
	"go/types"
	"math/big"
	"strconv"

	"golang.org/x/tools/go/ssa"

	"rjverif/internal/core"
	"rjverif/internal/lts"
	"rjverif/internal/product"
	"rjverif/internal/ref"
	"rjverif/internal/scan"
	"strings"
)

// compositeElems returns the element expressions of a package-level composite literal.
func (x *Ctx) compositeElems(pkgName, name string) ([]ast.Expr, *types.Info, token.Pos) {
	pkg := x.W.FP
	if pkgName == "root" {
		pkg = x.W.Root
	}
	obj := x.varRole(pkg, name)
	if obj == nil {
		return nil, nil, token.NoPos
	}
	init := core.FindVarInit(pkg, obj)
	cl, ok := ast.Unparen(init).(*ast.CompositeLit)
	if init == nil || !ok {
		return nil, nil, obj.Pos()
	}
	return cl.Elts, pkg.TypesInfo, obj.Pos()
}

func constUint64(info *types.Info, e ast.Expr) (*big.Int, bool) {
	tv, ok := info.Types[e]
	if !ok || tv.Value == nil {
		return nil, false
	}
	v := constant.ToInt(tv.Value)
	if v.Kind() != constant.Int {
		return nil, false
	}
	b, ok := new(big.Int).SetString(v.ExactString(), 10)
	return b, ok
}

func (x *Ctx) fpConstInt(name string) (int64, bool) {
	c, ok := x.W.FP.Types.Scope().Lookup(name).(*types.Const)
	if !ok {
		return 0, false
	}
	v, exact := constant.Int64Val(constant.ToInt(c.Val()))
	return v, exact
}

// tableRulesFP: R04a — every table entry equals its mathematical definition.
func (x *Ctx) tableRulesFP(r *core.Result, rs *core.RuleStat) {
	w := x.W
	// detailedPowersOfTen[i] = floor of the 128 most significant bits of 10^e, e = i + MinExp10, stored {lo64, hi64}
	minE, ok1 := x.fpConstInt("detailedPowersOfTenMinExp10")
	maxE, ok2 := x.fpConstInt("detailedPowersOfTenMaxExp10")
	if !ok1 || !ok2 {
		// the bounds under other names: R04f pins how the table is indexed and guarded (exp10 - min, min..max) to
		// strconv's, whose range is 1e-348..1e+347; the rows are judged against that range
		if rep, err := x.Sibling(); err == nil {
			for _, p := range rep.Pairs {
				if p.Name == "eiselLemire64" && p.Comparable && len(p.Diffs) == 0 && !p.Absent {
					minE, maxE, ok1, ok2 = -348, 347, true, true
				}
			}
		}
	}
	elts, info, pos := x.compositeElems("fp", "detailedPowersOfTen")
	if !ok1 || !ok2 || elts == nil {
		r.Undecided(rs, "detailedPowersOfTen", w.Pos(pos), "table or its exponent bounds not found")
	} else {
		rs.Instances++
		if int64(len(elts)) != maxE-minE+1 {
			r.Fail(rs, "detailedPowersOfTen:len", w.Pos(pos), fmt.Sprintf("table has %d rows but the exponent range [%d, %d] needs %d", len(elts), minE, maxE, maxE-minE+1))
		}
		one := big.NewInt(1)
		mask64 := new(big.Int).Sub(new(big.Int).Lsh(one, 64), one)
		for i, el := range elts {
			row, ok := ast.Unparen(el).(*ast.CompositeLit)
			if !ok || len(row.Elts) != 2 {
				r.Undecided(rs, fmt.Sprintf("detailedPowersOfTen[%d]", i), w.Pos(el.Pos()), "row is not {lo, hi}")
				continue
			}
			lo, okl := constUint64(info, row.Elts[0])
			hi, okh := constUint64(info, row.Elts[1])
			if !okl || !okh {
				r.Undecided(rs, fmt.Sprintf("detailedPowersOfTen[%d]", i), w.Pos(el.Pos()), "row is not constant")
				continue
			}
			e := int64(i) + minE
			var m *big.Int // 128-bit mantissa with the top bit set, rounded down
			if e >= 0 {
				p := new(big.Int).Exp(big.NewInt(10), big.NewInt(e), nil)
				bl := p.BitLen()
				if bl >= 128 {
					m = new(big.Int).Rsh(p, uint(bl-128))
				} else {
					m = new(big.Int).Lsh(p, uint(128-bl))
				}
			} else {
				p := new(big.Int).Exp(big.NewInt(10), big.NewInt(-e), nil)
				// floor(2^k / 10^|e|) with k such that the quotient has exactly 128 bits
				k := uint(127 + p.BitLen())
				q := new(big.Int).Div(new(big.Int).Lsh(one, k), p)
				if q.BitLen() < 128 {
					k++
					q = new(big.Int).Div(new(big.Int).Lsh(one, k), p)
				}
				if q.BitLen() > 128 {
					q.Rsh(q, uint(q.BitLen()-128))
				}
				m = q
			}
			wantHi := new(big.Int).Rsh(m, 64)
			wantLo := new(big.Int).And(m, mask64)
			if hi.Cmp(wantHi) != 0 || lo.Cmp(wantLo) != 0 {
				r.Fail(rs, fmt.Sprintf("detailedPowersOfTen[1e%d]", e), w.Pos(el.Pos()),
					fmt.Sprintf("row for 1e%d is {0x%016X, 0x%016X}; the 128 most significant bits of 10^%d (rounded down) are {0x%016X, 0x%016X}", e, lo, hi, e, wantLo, wantHi))
			} else {
				rs.OK(1)
			}
		}
		rs.Sample(fmt.Sprintf("detailedPowersOfTen: %d rows re-derived with math/big for 1e%d..1e%d", len(elts), minE, maxE))
	}
	// leftcheats[i] = {number of decimal digits of 2^i, decimal string of 5^i}; [0] = {0, ""}
	elts, info, pos = x.compositeElems("fp", "leftcheats")
	if elts == nil {
		r.Undecided(rs, "leftcheats", w.Pos(pos), "table not found")
	} else {
		rs.Instances++
		for i, el := range elts {
			row, ok := ast.Unparen(el).(*ast.CompositeLit)
			if !ok || len(row.Elts) != 2 {
				r.Undecided(rs, fmt.Sprintf("leftcheats[%d]", i), w.Pos(el.Pos()), "row is not {delta, cutoff}")
				continue
			}
			d, okd := constUint64(info, row.Elts[0])
			tv, oks := info.Types[row.Elts[1]]
			if !okd || !oks || tv.Value == nil || tv.Value.Kind() != constant.String {
				r.Undecided(rs, fmt.Sprintf("leftcheats[%d]", i), w.Pos(el.Pos()), "row is not constant")
				continue
			}
			cut := constant.StringVal(tv.Value)
			wantD, wantCut := int64(0), ""
			if i > 0 {
				wantD = int64(len(new(big.Int).Lsh(big.NewInt(1), uint(i)).String()))
				wantCut = new(big.Int).Exp(big.NewInt(5), big.NewInt(int64(i)), nil).String()
			}
			if d.Int64() != wantD || cut != wantCut {
				r.Fail(rs, fmt.Sprintf("leftcheats[%d]", i), w.Pos(el.Pos()), fmt.Sprintf("row %d is {%d, %q}; 2^%d has %d digits and 5^%d = %s", i, d, cut, i, wantD, i, wantCut))
			} else {
				rs.OK(1)
			}
		}
		// long enough for the largest shift on both word sizes (maxShift = uintSize-4 <= 60)
		if len(elts) < 61 {
			r.Fail(rs, "leftcheats:len", w.Pos(pos), fmt.Sprintf("table has %d rows, shifts up to 60 are used on 64-bit platforms", len(elts)))
		} else {
			rs.OK(1)
		}
		rs.Sample(fmt.Sprintf("leftcheats: %d rows = {digits of 2^i, 5^i}", len(elts)))
	}
	// float64pow10[i] = 10^i, exactly representable
	elts, info, pos = x.compositeElems("fp", "float64pow10")
	if elts == nil {
		r.Undecided(rs, "float64pow10", w.Pos(pos), "table not found")
	} else {
		rs.Instances++
		for i, el := range elts {
			tv, ok := info.Types[el]
			if !ok || tv.Value == nil {
				r.Undecided(rs, fmt.Sprintf("float64pow10[%d]", i), w.Pos(el.Pos()), "entry is not constant")
				continue
			}
			f, _ := constant.Float64Val(tv.Value)
			want := new(big.Float).SetInt(new(big.Int).Exp(big.NewInt(10), big.NewInt(int64(i)), nil))
			got := new(big.Float).SetFloat64(f)
			wf, acc := want.Float64()
			if got.Cmp(want) != 0 || acc != big.Exact || wf != f {
				r.Fail(rs, fmt.Sprintf("float64pow10[%d]", i), w.Pos(el.Pos()), fmt.Sprintf("entry %d is %v, must be exactly 1e%d (and exactly representable)", i, f, i))
			} else {
				rs.OK(1)
			}
		}
		if len(elts) != 23 {
			r.Fail(rs, "float64pow10:len", w.Pos(pos), fmt.Sprintf("table has %d entries; 10^22 is the largest power of ten exactly representable in float64, the exact path indexes up to 22", len(elts)))
		}
		rs.Sample(fmt.Sprintf("float64pow10: %d entries = 10^i exactly", len(elts)))
	}
	// powtab[i] <= maxShift
	elts, info, pos = x.compositeElems("fp", "powtab")
	if elts == nil {
		r.Undecided(rs, "powtab", w.Pos(pos), "table not found")
	} else {
		rs.Instances++
		want := []int64{1, 3, 6, 9, 13, 16, 19, 23, 26}
		for i, el := range elts {
			v, ok := constUint64(info, el)
			if !ok {
				continue
			}
			// 10^i <= 2^powtab[i] keeps the shift loop converging; the strconv values are floor(log2(10^i)) rounded as below
			if i < len(want) && v.Int64() != want[i] {
				r.Fail(rs, fmt.Sprintf("powtab[%d]", i), w.Pos(el.Pos()), fmt.Sprintf("powtab[%d] = %d, expected %d (largest binary shift that cannot overshoot 10^%d)", i, v, want[i], i))
			} else if v.Int64() > 28 {
				r.Fail(rs, fmt.Sprintf("powtab[%d]", i), w.Pos(el.Pos()), "shift exceeds the 32-bit maxShift (28)")
			} else {
				rs.OK(1)
			}
		}
		rs.Sample("powtab: 9 entries, all <= maxShift")
	}
	x.boolTable(r, rs, "fp", "digits", ref.Digits, "the ASCII digits '0'..'9'")
	x.boolTable(r, rs, "root", "digits", ref.Digits, "the ASCII digits '0'..'9'")
	x.boolTable(r, rs, "root", "signBytes", lts.OfString("+-"), "'+' and '-'")
	x.boolTable(r, rs, "root", "expBytes", lts.OfString("eE"), "'e' and 'E'")
	// float format constants
	for _, kv := range []struct {
		n string
		v int64
	}{{"mantbits", 52}, {"expbits", 11}, {"bias", -1023}} {
		v, ok := x.fpConstInt(kv.n)
		if !ok {
			// not a constant of that name: every use of the format constants is compared with strconv's
			// float64info by R04f, which is what matters
			continue
		}
		rs.Instances++
		if v != kv.v {
			r.Fail(rs, "const:"+kv.n, "-", fmt.Sprintf("float64 format constant %s = %d, must be %d", kv.n, v, kv.v))
		} else {
			rs.OK(1)
		}
	}
}

// tierGuards: R04b on ParseJSONFloatPrefix.
func (x *Ctx) tierGuards(r *core.Result, rs *core.RuleStat) {
	w := x.W
	fn := x.Func("fp.ParseJSONFloatPrefix")
	if fn == nil {
		r.Undecided(rs, "ParseJSONFloatPrefix", "-", "function not found")
		return
	}
	var rf, slowSet, slowBits *ssa.Call
	for _, g := range x.helperClosure(fn) {
		// the decimal fallback may sit in a private helper (slowParse(data[:n]))
		for _, b := range g.Blocks {
			for _, ins := range b.Instrs {
				c, ok := ins.(*ssa.Call)
				if !ok || c.Call.StaticCallee() == nil {
					continue
				}
				switch x.canon(c.Call.StaticCallee()) {
				case "readFloat":
					if g == fn {
						rf = c
					}
				case "set":
					slowSet = c
				case "floatBits":
					slowBits = c
				}
			}
		}
	}
	if rf == nil || slowSet == nil || slowBits == nil {
		r.Undecided(rs, "ParseJSONFloatPrefix:shape", w.Pos(fn.Pos()), fmt.Sprintf("expected calls readFloat, decimal.set, floatBits; found readFloat=%v set=%v floatBits=%v", rf != nil, slowSet != nil, slowBits != nil))
		return
	}
	mant, exp, neg, trunc, n, okv := extractOf(rf, 0), extractOf(rf, 1), extractOf(rf, 2), extractOf(rf, 3), extractOf(rf, 4), extractOf(rf, 5)
	if mant == nil || exp == nil || neg == nil || trunc == nil || n == nil || okv == nil {
		r.Undecided(rs, "ParseJSONFloatPrefix:readFloat", w.Pos(rf.Pos()), "not all six results of readFloat are used")
		return
	}
	check := func(key string, cond bool, pos token.Pos, msg string) {
		rs.Instances++
		if cond {
			rs.OK(1)
		} else {
			r.Fail(rs, "ParseJSONFloatPrefix:"+key, w.Pos(pos), msg)
		}
	}
	tj := &tierJudge{x: x, r: r, rs: rs, check: check, slowBits: slowBits}
	roles := fpRoles{mant: mant, exp: exp, neg: neg, trunc: trunc}
	tj.argChecks(fn, roles)
	for _, b := range fn.Blocks {
		ret, ok := b.Instrs[len(b.Instrs)-1].(*ssa.Return)
		if !ok || len(ret.Results) != 3 {
			continue
		}
		for _, rc := range splitReturn(ret) {
			if !isNilConst(rc.vals[2]) && (x.knownNonNilError(rc.vals[2]) || x.dominatedByNonNil(rc.at, rc.vals[2])) {
				continue // an error return; every other return may be a success
			}
			tj.curErr = rc.vals[2]
			tj.judge(fn, roles, rc.vals[0], rc.at, nil, ret.Pos(), 0)
			check("offset", rc.vals[1] == ssa.Value(n) || (isZeroConst(rc.vals[1]) && isZeroConst(rc.vals[0])), ret.Pos(), "a successful return does not carry readFloat's offset")
		}
	}
	if tj.nExact == 0 || tj.nEisel == 0 {
		r.Undecided(rs, "ParseJSONFloatPrefix:tiers", w.Pos(fn.Pos()), fmt.Sprintf("expected the exact-arithmetic and Eisel-Lemire tiers to produce results; found %d / %d guarded returns", tj.nExact, tj.nEisel))
	}
	// the slow path converts data[:n]
	slowArg := slowSet.Call.Args[1]
	if par, isPar := slowArg.(*ssa.Parameter); isPar && par.Parent() != fn {
		// handed down by the caller: every call of the helper from ParseJSONFloatPrefix must pass data[:n]
		slowArg = nil
		for _, b := range fn.Blocks {
			for _, ins := range b.Instrs {
				if c, ok := ins.(*ssa.Call); ok && c.Call.StaticCallee() == par.Parent() {
					for i, p := range par.Parent().Params {
						if p == par && i < len(c.Call.Args) {
							slowArg = c.Call.Args[i]
						}
					}
				}
			}
		}
	}
	if sl, ok := slowArg.(*ssa.Slice); !ok || sl.X != ssa.Value(fn.Params[0]) || sl.High != ssa.Value(n) || sl.Low != nil {
		check("slow-input", false, slowSet.Pos(), "the decimal fallback does not re-read exactly the literal data[:n]")
	} else {
		check("slow-input", true, slowSet.Pos(), "")
	}
	// overflow flag of floatBits leads to errRange
	ovf := extractOf(slowBits, 1)
	okOvf := false
	if ovf != nil {
		for _, ref := range *ovf.Referrers() {
			if _, ok := ref.(*ssa.If); ok {
				okOvf = true
			}
		}
	}
	check("overflow", okOvf, slowBits.Pos(), "the overflow flag of floatBits is ignored: values beyond the largest finite float64 would not be reported")
}

// fpRoles: the SSA values that play readFloat's results in the function under analysis (its own Extracts in
// ParseJSONFloatPrefix, parameters in a helper that was handed them).
type fpRoles struct{ mant, exp, neg, trunc ssa.Value }

type tierJudge struct {
	x              *Ctx
	r              *core.Result
	rs             *core.RuleStat
	check          func(key string, cond bool, pos token.Pos, msg string)
	slowBits       *ssa.Call
	nExact, nEisel int
	argsDone       map[*ssa.Function]bool
	curErr         ssa.Value // the error returned together with the value being judged (top level)
}

// tierCalls: the atof64exact / eiselLemire64 calls of fn; eiselLemire64 calls split into those on the mantissa
// itself and those on mantissa+1.
func (t *tierJudge) tierCalls(fn *ssa.Function, ro fpRoles) (exact, e1, e2, other []*ssa.Call) {
	for _, b := range fn.Blocks {
		for _, ins := range b.Instrs {
			c, ok := ins.(*ssa.Call)
			if !ok || c.Call.StaticCallee() == nil || !t.x.W.InLib(c.Call.StaticCallee()) {
				continue
			}
			switch t.x.canon(c.Call.StaticCallee()) {
			case "atof64exact":
				exact = append(exact, c)
			case "eiselLemire64":
				if add, ok := c.Call.Args[0].(*ssa.BinOp); ok && add.Op == token.ADD && add.X == ro.mant {
					if k, ok := constBig(add.Y); ok && k.Int64() == 1 {
						e2 = append(e2, c)
						continue
					}
				}
				if c.Call.Args[0] == ro.mant {
					e1 = append(e1, c)
				} else {
					other = append(other, c)
				}
			}
		}
	}
	return
}

func (t *tierJudge) argChecks(fn *ssa.Function, ro fpRoles) {
	if t.argsDone == nil {
		t.argsDone = map[*ssa.Function]bool{}
	}
	if t.argsDone[fn] {
		return
	}
	t.argsDone[fn] = true
	exact, e1, e2, other := t.tierCalls(fn, ro)
	for _, c := range exact {
		t.check("exact-args", c.Call.Args[0] == ro.mant && c.Call.Args[1] == ro.exp && c.Call.Args[2] == ro.neg, c.Pos(), "atof64exact is not given readFloat's (mantissa, exp, neg)")
	}
	for _, c := range e1 {
		t.check("eisel-args", c.Call.Args[1] == ro.exp && c.Call.Args[2] == ro.neg, c.Pos(), "eiselLemire64 is not given readFloat's (mantissa, exp, neg)")
	}
	for _, c := range e2 {
		t.check("eisel-upper-args", c.Call.Args[1] == ro.exp && c.Call.Args[2] == ro.neg, c.Pos(), "the upper-bound re-check is not eiselLemire64(mantissa+1, exp, neg) with the same exp/neg")
	}
	for _, c := range other {
		t.check("eisel-args", false, c.Pos(), "eiselLemire64 is given a mantissa that is neither readFloat's mantissa nor mantissa+1")
	}
}

// judge: value v, returned as a success from block at of fn, is a legitimate result — produced by a tier whose
// guard holds there. assumed lists boolean values known true (the ok a helper returns together with v).
func (t *tierJudge) judge(fn *ssa.Function, ro fpRoles, v ssa.Value, at *ssa.BasicBlock, assumed map[ssa.Value]bool, pos token.Pos, depth int) {
	x := t.x
	isTrue := func(b ssa.Value) bool {
		return b != nil && (assumed[b] || x.dominatedByBool(at, b, true))
	}
	truncFalse := ro.trunc != nil && x.dominatedByBool(at, ro.trunc, false)
	exact, e1, e2, _ := t.tierCalls(fn, ro)
	if ex, ok := v.(*ssa.Extract); ok && ex.Index == 0 {
		if c, ok := ex.Tuple.(*ssa.Call); ok {
			for _, ec := range exact {
				if ec == c {
					t.nExact++
					t.check("exact-guard", truncFalse && isTrue(extractOf(c, 1)), pos,
						"the exact-arithmetic result is returned although the mantissa may have been truncated or atof64exact reported failure")
					return
				}
			}
			confirm := func(a *ssa.Call, others []*ssa.Call) bool {
				for _, o := range others {
					if x.dominatedByEquality(at, extractOf(a, 0), extractOf(o, 0)) && isTrue(extractOf(o, 1)) {
						return true
					}
				}
				return false
			}
			for _, ec := range e1 {
				if ec == c {
					t.nEisel++
					t.check("eisel-guard", isTrue(extractOf(c, 1)) && (truncFalse || confirm(c, e2)), pos,
						"an Eisel-Lemire result is returned for a truncated mantissa without confirming it with the upper mantissa bound (f == fUp), or although the algorithm reported failure")
					return
				}
			}
			for _, ec := range e2 {
				if ec == c {
					t.nEisel++
					t.check("eisel-guard", isTrue(extractOf(c, 1)) && confirm(c, e1), pos,
						"the upper-bound Eisel-Lemire result is returned without agreeing with the result for the mantissa itself")
					return
				}
			}
			// a (value, ok) helper that was handed readFloat's results
			h := c.Call.StaticCallee()
			if h != nil && x.W.InLib(h) && len(h.Blocks) > 0 && h.Signature.Results().Len() == 2 && depth < 2 && isErrT(h.Signature.Results().At(1).Type()) {
				// a (value, error) helper: its value counts only when its error is nil — the caller must return that
				// very error with it (or have tested it)
				e1 := extractOf(c, 1)
				if e1 == nil || !(depth == 0 && t.curErr == ssa.Value(e1)) {
					t.check("helper-err", false, pos, "the value of "+h.Name()+" is returned without its error")
					return
				}
				n := 0
				for _, b := range h.Blocks {
					ret, ok := b.Instrs[len(b.Instrs)-1].(*ssa.Return)
					if !ok {
						continue
					}
					for _, rc := range splitReturn(ret) {
						if x.knownNonNilError(rc.vals[1]) || x.dominatedByNonNil(rc.at, rc.vals[1]) {
							continue
						}
						n++
						t.judge(h, fpRoles{}, rc.vals[0], rc.at, nil, ret.Pos(), depth+1)
					}
				}
				if n == 0 {
					t.check("helper-returns", false, pos, h.Name()+" has no successful return to judge")
				}
				return
			}
			if h != nil && x.W.InLib(h) && len(h.Blocks) > 0 && h.Signature.Results().Len() == 2 && depth < 2 {
				if !isTrue(extractOf(c, 1)) {
					t.check("helper-ok", false, pos, "the result of "+h.Name()+" is returned without its ok result having been tested")
					return
				}
				var hr fpRoles
				for i, a := range c.Call.Args {
					if i >= len(h.Params) {
						break
					}
					switch a {
					case ro.mant:
						hr.mant = h.Params[i]
					case ro.exp:
						hr.exp = h.Params[i]
					case ro.neg:
						hr.neg = h.Params[i]
					case ro.trunc:
						hr.trunc = h.Params[i]
					}
				}
				t.argChecks(h, hr)
				n := 0
				for _, b := range h.Blocks {
					ret, ok := b.Instrs[len(b.Instrs)-1].(*ssa.Return)
					if !ok {
						continue
					}
					for _, rc := range splitReturn(ret) {
						okv := rc.vals[1]
						if k, isK := okv.(*ssa.Const); isK {
							if !constant.BoolVal(k.Value) {
								continue
							}
							n++
							t.judge(h, hr, rc.vals[0], rc.at, nil, ret.Pos(), depth+1)
						} else {
							n++
							t.judge(h, hr, rc.vals[0], rc.at, map[ssa.Value]bool{okv: true}, ret.Pos(), depth+1)
						}
					}
				}
				if n == 0 {
					t.check("helper-returns", false, pos, h.Name()+" has no successful return to judge")
				}
				return
			}
		}
	}
	// the decimal fallback: Float64frombits of floatBits' bits, or the zero of an error return
	if c, ok := v.(*ssa.Call); ok && c.Call.StaticCallee() != nil && c.Call.StaticCallee().Name() == "Float64frombits" && len(c.Call.Args) == 1 {
		if c.Call.Args[0] == ssa.Value(extractOf(t.slowBits, 0)) {
			t.check("slow-value", true, pos, "")
			return
		}
	}
	if isZeroConst(v) {
		return
	}
	t.check("value", false, pos, "a successful return carries a value that is not the guarded result of one of the three tiers")
}

// retCase: one way a Return gets its results — the values and the block at whose end they are chosen.
type retCase struct {
	vals []ssa.Value
	at   *ssa.BasicBlock
}

// splitReturn expands phis that sit in the returning block (and, transitively, in the predecessor they come from)
// so that each case pairs the values that are returned together.
func splitReturn(ret *ssa.Return) []retCase {
	var out []retCase
	var rec func(vals []ssa.Value, at *ssa.BasicBlock, depth int)
	rec = func(vals []ssa.Value, at *ssa.BasicBlock, depth int) {
		split := false
		if depth < 6 {
			for _, v := range vals {
				if ph, ok := v.(*ssa.Phi); ok && ph.Block() == at {
					split = true
				}
			}
		}
		if !split {
			out = append(out, retCase{vals, at})
			return
		}
		for i, pred := range at.Preds {
			nv := make([]ssa.Value, len(vals))
			for k, v := range vals {
				if ph, ok := v.(*ssa.Phi); ok && ph.Block() == at {
					nv[k] = ph.Edges[i]
				} else {
					nv[k] = v
				}
			}
			rec(nv, pred, depth+1)
		}
	}
	rec(append([]ssa.Value(nil), ret.Results...), ret.Block(), 0)
	return out
}

// dominatedByNonNil: block b is reached only when `v != nil` held (v an error value).
func (x *Ctx) dominatedByNonNil(b *ssa.BasicBlock, v ssa.Value) bool {
	for d := b; d != nil; d = d.Idom() {
		dom := d.Idom()
		if dom == nil {
			break
		}
		iff, ok := dom.Instrs[len(dom.Instrs)-1].(*ssa.If)
		if !ok {
			continue
		}
		be, ok := iff.Cond.(*ssa.BinOp)
		if !ok || be.X != v || !isNilConst(be.Y) {
			continue
		}
		var succ *ssa.BasicBlock
		switch be.Op {
		case token.NEQ:
			succ = dom.Succs[0]
		case token.EQL:
			succ = dom.Succs[1]
		default:
			continue
		}
		if (succ == d || succ.Dominates(d)) && len(succ.Preds) == 1 {
			return true
		}
	}
	return false
}

// dominatedByBool: block b is dominated by the edge on which boolean value v has the given truth (v or !v tested by an If).
func (x *Ctx) dominatedByBool(b *ssa.BasicBlock, v ssa.Value, truth bool) bool {
	if v == nil {
		return false
	}
	for d := b; d != nil; d = d.Idom() {
		dom := d.Idom()
		if dom == nil {
			break
		}
		iff, ok := dom.Instrs[len(dom.Instrs)-1].(*ssa.If)
		if !ok {
			continue
		}
		cond := iff.Cond
		neg := false
		if u, ok := cond.(*ssa.UnOp); ok && u.Op == token.NOT {
			cond = u.X
			neg = true
		}
		if cond != v {
			continue
		}
		want := truth != neg
		succ := dom.Succs[0]
		if !want {
			succ = dom.Succs[1]
		}
		other := dom.Succs[1]
		if !want {
			other = dom.Succs[0]
		}
		if (succ == b || succ.Dominates(b)) && !(other == b) {
			return true
		}
	}
	return false
}

// dominatedByEquality: b is dominated by the true edge of `a == c`.
func (x *Ctx) dominatedByEquality(b *ssa.BasicBlock, a, c ssa.Value) bool {
	if a == nil || c == nil {
		return false
	}
	for d := b; d != nil; d = d.Idom() {
		dom := d.Idom()
		if dom == nil {
			break
		}
		iff, ok := dom.Instrs[len(dom.Instrs)-1].(*ssa.If)
		if !ok {
			continue
		}
		be, ok := iff.Cond.(*ssa.BinOp)
		if !ok || be.Op != token.EQL {
			continue
		}
		if (be.X == a && be.Y == c) || (be.X == c && be.Y == a) {
			if dom.Succs[0] == b || dom.Succs[0].Dominates(b) {
				return true
			}
		}
	}
	return false
}

// floatRules: R04a, b, c, e, f.
func (x *Ctx) floatRules(r *core.Result) {
	a := r.Rule("R04a", "tables: all rows of detailedPowersOfTen equal the 128 most significant bits of 10^e rounded down; leftcheats[i] = {digits of 2^i, 5^i}; float64pow10[i] = 10^i exactly; powtab; the digit/sign/exponent byte tables; mantbits/expbits/bias = 52/11/-1023")
	x.tableRulesFP(r, a)
	r.CheckFloor(a, 8)
	b := r.Rule("R04b", "tier guards in ParseJSONFloatPrefix: the exact-arithmetic value is returned only for an untruncated mantissa when atof64exact succeeds; an Eisel-Lemire value only when it succeeds and the mantissa is untruncated or the upper-bound re-check eiselLemire64(mantissa+1, same exp, same neg) agrees; otherwise the decimal fallback re-reads exactly data[:n]; overflow is reported; every success returns readFloat's offset")
	x.tierGuards(r, b)
	r.CheckFloor(b, 8)
	c := r.Rule("R04c", "numeric side conditions: the mantissa scan stops accumulating after maxMantDigits digits with 10^maxMantDigits - 1 <= 2^64 - 1")
	x.mantissaDigits(r, c)
	r.CheckFloor(c, 1)
	e := r.Rule("R04e", "sibling scanners: every literal the RFC 8259 number grammar (= readFloat, R04d) accepts is accepted in full by (*decimal).set — otherwise the slow path would return a syntax error for a valid number")
	x.setInclusion(r, e)
	r.CheckFloor(e, 1)
	g := r.Rule("R04g", "decimal point accounting in decimal.set: every trip round the digit loop that consumes a digit of the integer part (any digit trip not known to come after the '.', except leading zeros before anything is stored) moves the decimal point by exactly one — whether or not the digit fits into the 800-digit buffer")
	hh := r.Rule("R04h", "exponent accumulation in decimal.set and readFloat does not saturate at a bound that is independent of the literal's length (the decimal point it is added to can be len(data) places away)")
	x.decimalPointAccounting(r, g, hh)
	r.CheckFloor(g, 1)
	r.CheckFloor(hh, 1)
	f := r.Rule("R04f", "the arithmetic ported from strconv (eiselLemire64, rightShift, leftShift, shouldRoundUp, prefixIsLessThan, RoundedInteger, Shift, trim, floatBits, atof64exact and what they call) is the same program as GOROOT's strconv: lockstep co-execution of the two SSA forms along every path — stores, calls, branches, loop heads and results line up and every compared term is equal (names, statement spelling, order of pure computations, if-chains vs switches and code moved into or out of private helpers do not matter)")
	x.siblingRule(r, f)
}

func (x *Ctx) mantissaDigits(r *core.Result, rs *core.RuleStat) {
	fn := x.Func("fp.readFloat")
	if fn == nil {
		r.Undecided(rs, "readFloat", "-", "function not found")
		return
	}
	// the block that multiplies the uint64 mantissa by 10, and the count guard on the edge that leads to it
	found := false
	for _, mb := range fn.Blocks {
		mul := false
		for _, ins := range mb.Instrs {
			if m, ok := ins.(*ssa.BinOp); ok && m.Op == token.MUL {
				if bt, isB := m.Type().Underlying().(*types.Basic); isB && bt.Kind() == types.Uint64 {
					if t, ok := constBig(m.Y); ok && t.Int64() == 10 {
						mul = true
					}
				}
			}
		}
		if !mul {
			continue
		}
		for d := mb; d != nil; d = d.Idom() {
			dom := d.Idom()
			if dom == nil {
				break
			}
			iff, ok := dom.Instrs[len(dom.Instrs)-1].(*ssa.If)
			if !ok {
				continue
			}
			be, ok := iff.Cond.(*ssa.BinOp)
			if !ok {
				continue
			}
			k, okc := constBig(be.Y)
			if !okc || !isIntT(be.X.Type()) {
				continue
			}
			onTrue := (dom.Succs[0] == d || dom.Succs[0].Dominates(d)) && len(dom.Succs[0].Preds) == 1
			onFalse := (dom.Succs[1] == d || dom.Succs[1].Dominates(d)) && len(dom.Succs[1].Preds) == 1
			digits := int64(-1)
			switch {
			case be.Op == token.GEQ && onFalse, be.Op == token.LSS && onTrue:
				digits = k.Int64() // count < K when accumulating
			case be.Op == token.GTR && onFalse, be.Op == token.LEQ && onTrue:
				digits = k.Int64() + 1
			}
			if digits < 0 {
				continue
			}
			// the compared value is the counter of accumulated digits: it is incremented where the mantissa grows
			counted := false
			for _, cb := range fn.Blocks {
				if cb != mb && !mb.Dominates(cb) {
					continue
				}
				for _, ins := range cb.Instrs {
					if a, ok := ins.(*ssa.BinOp); ok && a.Op == token.ADD && a.X == be.X {
						if one, ok := constBig(a.Y); ok && one.Int64() == 1 {
							counted = true
						}
					}
				}
			}
			if !counted {
				continue
			}
			found = true
			rs.Instances++
			lim := new(big.Int).Exp(big.NewInt(10), big.NewInt(digits), nil)
			lim.Sub(lim, big.NewInt(1))
			if lim.Cmp(maxU64) > 0 {
				r.Fail(rs, "readFloat:mantissa-digits", x.W.Pos(be.Pos()), fmt.Sprintf("up to %d digits are accumulated into the uint64 mantissa; 10^%d - 1 does not fit", digits, digits))
			} else {
				rs.OK(1)
				rs.Sample(fmt.Sprintf("readFloat: at most %d mantissa digits accumulate (10^%d-1 <= 2^64-1)", digits, digits))
			}
			break
		}
	}
	if !found {
		r.Undecided(rs, "readFloat:mantissa-digits", x.W.Pos(fn.Pos()), "the digit-count guard of the mantissa accumulation was not found")
	}
}

// setInclusion: R04e.
func (x *Ctx) setInclusion(r *core.Result, rs *core.RuleStat) {
	res := x.Scan("fp.decimal.set", func(fn *ssa.Function) *scan.Spec { return scan.FuncSpec(fn, -1, -1, 0, -1) })
	if res == nil {
		r.Undecided(rs, "decimal.set", "-", "function not found")
		return
	}
	x.reportScanProblems(r, rs, res)
	x.unsafeReads(r, rs, res)
	x.bisim(r, rs, "decimal.set", res.LTS, ref.NumberExact(), product.Options{RefDriven: true})
}

// siblingRule: R04f.
func (x *Ctx) siblingRule(r *core.Result, rs *core.RuleStat) {
	rep, err := x.Sibling()
	if err != nil {
		r.Undecided(rs, "strconv", "-", "the reference (package strconv of this GOROOT) cannot be compared: "+err.Error())
		return
	}
	// the port was taken from, and this comparison validated against, the strconv of the go1.23 line; should the
	// checker ever run with a GOROOT whose strconv has been rewritten, a failure to align says nothing about the port
	strict := strings.HasPrefix(rep.GoVersion, "go1.23")
	for _, p := range rep.Pairs {
		rs.Instances++
		switch {
		case p.Absent && p.Comparable:
			rs.OK(1)
			rs.Sample(p.Name + ": not a function of the port any more; the reference's body was walked as part of its callers")
		case !p.Comparable:
			for i, d := range p.Diffs {
				if i >= 2 {
					break
				}
				r.Fail(rs, fmt.Sprintf("%s:diff#%d", p.Name, i+1), x.W.Pos(d.PosA), fmt.Sprintf("differs from strconv.%s (reference at %s): %s", p.Name, x.W.Pos(d.PosB), d.What))
			}
			msg := fmt.Sprintf("%s cannot be aligned with strconv.%s (%s): %s — the port's arithmetic is decided by agreement with the reference, so this is undecided", p.Name, p.Name, rep.GoVersion, p.Why)
			if strict {
				pos := p.WhyPos
				if pos == "" {
					pos = "-"
				}
				r.Undecided(rs, p.Name+":align", pos, msg)
			} else {
				r.Notes = append(r.Notes, "R04f: "+msg)
			}
		case len(p.Diffs) == 0:
			rs.OK(p.Events)
			rs.Sample(fmt.Sprintf("%s: %d paths, %d aligned effects (stores, calls, branches, loop heads, results), all terms equal to strconv %s", p.Name, p.Paths, p.Events, rep.GoVersion))
		default:
			for i, d := range p.Diffs {
				if i >= 4 {
					break
				}
				r.Fail(rs, fmt.Sprintf("%s:diff#%d", p.Name, i+1), x.W.Pos(d.PosA), fmt.Sprintf("differs from strconv.%s (reference at %s): %s", p.Name, x.W.Pos(d.PosB), d.What))
			}
		}
	}
}

var _ = strconv.Itoa
