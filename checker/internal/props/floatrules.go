package props

import "rjverif/internal/core"

func (x *Ctx) floatRules(r *core.Result) {}
