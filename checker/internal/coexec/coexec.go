// Package coexec decides whether two Go functions — a port and the reference it was ported from — are the same
// program up to what cannot change behaviour: names, statement spelling, the order of side-effect-free computations,
// if-chains against switches, early returns against else branches, and code moved into or out of private helpers.
//
// Both functions are read in SSA form and walked in lockstep along every path. Every value becomes a term in one
// shared hash-consed table (constants folded, loads labelled with the number of writes seen so far), so two values
// correspond exactly when their terms are equal. Only events must line up: writes to memory, calls, branches,
// loop heads and returns. A branch on a folded constant is not an event; a call of a private helper that the other
// side does not make at that point is entered (its body becomes part of the caller). Loop heads pair up the
// loop-carried variables lazily: each phi becomes a fresh variable, variables of the two sides are identified when
// first compared (their initial values must agree), and when both sides come back to the head the next-iteration
// values of identified variables must agree.
//
// Outcomes: aligned and every compared term equal (the functions agree); aligned with a term differing at an event
// (a located difference); or not aligned / outside the vocabulary (not comparable). Nothing is executed.
package coexec

import (
	"fmt"
	"go/constant"
	"go/token"
	"go/types"
	"math/big"
	"sort"
	"strings"

	"golang.org/x/tools/go/ssa"

	"rjverif/internal/linarith"
)

// Config tells the walker how the two programs correspond.
type Config struct {
	// Callee maps a function called on side A to the function of side B that plays the same role (nil: none).
	// Functions of packages shared by both programs (the standard library) correspond to themselves by full name.
	Callee func(a *ssa.Function) *ssa.Function
	// Steppable: the function's body may be entered when the other side does not make the corresponding call.
	Steppable func(fn *ssa.Function) bool
	// SkipParam: a parameter of side B that side A does not have (strconv's flt *floatInfo).
	SkipParam func(p *ssa.Parameter) bool
	// FieldConst: a load of this field through v is a known constant (flt.mantbits = 52).
	FieldConst func(v ssa.Value, field string) (int64, bool)
	// GlobalName: the identity of a package-level variable ("" = not shared between the sides).
	GlobalName func(g *ssa.Global) string
	// NonNegField: loads of this field are never negative (an invariant of the port's data structure, established by
	// the caller over all stores to the field).
	NonNegField func(fa *ssa.FieldAddr) bool
	MaxSteps    int
}

// Diff is a located difference at aligned events.
type Diff struct {
	PosA, PosB token.Pos
	What       string
}

// Result of one comparison.
type Result struct {
	Comparable bool
	Why        string // when not comparable
	WhyPos     token.Pos
	Diffs      []Diff
	Events     int                // aligned events compared
	Paths      int                // paths walked to the end
	Calls      [][2]*ssa.Function // corresponding private callees met (to be compared in their own right)
	SteppedB   []*ssa.Function    // functions of the reference side whose bodies were entered
	SteppedA   []*ssa.Function    // functions of the port whose bodies were entered
}

// ---- terms ----------------------------------------------------------------------------------------------------------

type term struct {
	kind string
	aux  string
	args []int
}

type table struct {
	byKey map[string]int
	terms []term
	fresh int
}

func newTable() *table { return &table{byKey: map[string]int{}, terms: []term{{kind: "invalid"}}} }

func (t *table) mk(kind, aux string, args ...int) int {
	var sb strings.Builder
	sb.WriteString(kind)
	sb.WriteByte('|')
	sb.WriteString(aux)
	for _, a := range args {
		fmt.Fprintf(&sb, "|%d", a)
	}
	k := sb.String()
	if id, ok := t.byKey[k]; ok {
		return id
	}
	id := len(t.terms)
	t.terms = append(t.terms, term{kind, aux, append([]int(nil), args...)})
	t.byKey[k] = id
	return id
}

func (t *table) freshTerm(kind, aux string) int {
	t.fresh++
	return t.mk(kind, fmt.Sprintf("%s#%d", aux, t.fresh))
}

func (t *table) str(id int, depth int) string {
	tm := t.terms[id]
	if depth > 4 {
		return "…"
	}
	switch tm.kind {
	case "const":
		return tm.aux
	case "param", "global", "lv", "alloc", "mem":
		return tm.kind + ":" + tm.aux
	}
	var as []string
	for _, a := range tm.args {
		as = append(as, t.str(a, depth+1))
	}
	return tm.kind + "[" + tm.aux + "](" + strings.Join(as, ", ") + ")"
}

// ---- walker ---------------------------------------------------------------------------------------------------------

type frame struct {
	fn    *ssa.Function
	blk   *ssa.BasicBlock
	idx   int
	env   map[ssa.Value]int
	cells map[*ssa.Alloc]int // contents of local cells that do not escape
	call  *ssa.Call          // the call in the parent frame this frame was entered for
	// a loop head about to be entered through a branch (the arrival is an event)
	pendHead, pendPred *ssa.BasicBlock
	nAlloc             int
}

type side struct {
	frames []*frame
	isB    bool
	idx    []int // index / slice terms evaluated on this path (they can panic even when their value is unused)
	idxPos []token.Pos
}

func (s *side) top() *frame { return s.frames[len(s.frames)-1] }

func (s *side) clone() *side {
	n := &side{isB: s.isB, idx: append([]int(nil), s.idx...), idxPos: append([]token.Pos(nil), s.idxPos...)}
	for _, f := range s.frames {
		nf := &frame{fn: f.fn, blk: f.blk, idx: f.idx, env: make(map[ssa.Value]int, len(f.env)), cells: make(map[*ssa.Alloc]int, len(f.cells)), call: f.call,
			pendHead: f.pendHead, pendPred: f.pendPred, nAlloc: f.nAlloc}
		for k, v := range f.env {
			nf.env[k] = v
		}
		for k, v := range f.cells {
			nf.cells[k] = v
		}
		n.frames = append(n.frames, nf)
	}
	return n
}

type loopVar struct {
	phi  *ssa.Phi
	lv   int // the variable term
	init int // incoming term on first arrival
}

type openLoop struct {
	hA, hB *ssa.BasicBlock
	depthA int // frame depth at which the head was met
	depthB int
	varsA  []loopVar
	varsB  []loopVar
}

type path struct {
	a, b  *side
	epoch int         // memory version
	bind  map[int]int // loop variable of A -> loop variable of B (and back)
	loops []openLoop
	facts []fact // branch conditions known on this path
	alone int    // tests one side made alone on this path
}

type fact struct {
	cond  int
	truth bool
}

func (p *path) clone() *path {
	n := &path{a: p.a.clone(), b: p.b.clone(), epoch: p.epoch, bind: make(map[int]int, len(p.bind))}
	for k, v := range p.bind {
		n.bind[k] = v
	}
	n.loops = append([]openLoop(nil), p.loops...)
	n.facts = append([]fact(nil), p.facts...)
	n.alone = p.alone
	return n
}

type event struct {
	kind string // "store", "call", "if", "head", "return", "panic", "stuck"
	ins  ssa.Instruction
	pos  token.Pos
	// store: addr, val; call: args; if: cond; return: results
	terms []int
	call  *ssa.Call
	// head: the block about to be entered and the predecessor
	head, pred *ssa.BasicBlock
	why        string
}

type walker struct {
	cfg     *Config
	tab     *table
	res     *Result
	steps   int
	seen    map[string]bool
	calls   map[[2]*ssa.Function]bool
	stepped map[*ssa.Function]bool
	nonNeg  map[int]bool // load terms of fields that are never negative
}

// Compare walks fa (the port, side A) and fb (the reference, side B).
func Compare(fa, fb *ssa.Function, cfg *Config) *Result {
	w := &walker{cfg: cfg, tab: newTable(), res: &Result{Comparable: true}, seen: map[string]bool{}, calls: map[[2]*ssa.Function]bool{}, stepped: map[*ssa.Function]bool{}}
	if cfg.MaxSteps == 0 {
		cfg.MaxSteps = 400000
	}
	if len(fa.Blocks) == 0 || len(fb.Blocks) == 0 {
		w.res.Comparable = false
		w.res.Why = "a function has no body"
		return w.res
	}
	p := &path{a: &side{}, b: &side{isB: true}, bind: map[int]int{}}
	p.a.frames = []*frame{w.entryFrame(fa, false)}
	p.b.frames = []*frame{w.entryFrame(fb, true)}
	w.run(p)
	for k := range w.calls {
		w.res.Calls = append(w.res.Calls, k)
	}
	sort.Slice(w.res.Calls, func(i, j int) bool { return w.res.Calls[i][0].String() < w.res.Calls[j][0].String() })
	return w.res
}

func (w *walker) entryFrame(fn *ssa.Function, isB bool) *frame {
	f := &frame{fn: fn, blk: fn.Blocks[0], env: map[ssa.Value]int{}, cells: map[*ssa.Alloc]int{}}
	n := 0
	for _, p := range fn.Params {
		if isB && w.cfg.SkipParam != nil && w.cfg.SkipParam(p) {
			f.env[p] = w.tab.mk("param", "skipped:"+p.Name())
			continue
		}
		f.env[p] = w.tab.mk("param", fmt.Sprint(n))
		n++
	}
	return f
}

func (w *walker) fail(why string, pos token.Pos) {
	if w.res.Comparable {
		w.res.Comparable = false
		w.res.Why = why
		w.res.WhyPos = pos
	}
}

func (w *walker) diff(a, b event, what string) {
	for _, d := range w.res.Diffs {
		if d.PosA == a.pos && d.What == what {
			return
		}
	}
	if len(w.res.Diffs) < 20 {
		w.res.Diffs = append(w.res.Diffs, Diff{PosA: a.pos, PosB: b.pos, What: what})
	}
}

// run explores one path (and forks at branches).
func (w *walker) run(p *path) {
	for w.res.Comparable {
		w.steps++
		if w.steps > w.cfg.MaxSteps {
			w.fail("step budget exhausted", token.NoPos)
			return
		}
		ea := w.advance(p, p.a)
		eb := w.advance(p, p.b)
		if !w.res.Comparable {
			return
		}
		// a call that only one side makes (or that has no counterpart): enter it
		if w.tryStep(p, &ea, &eb) {
			continue
		}
		if ea.kind == "stuck" || eb.kind == "stuck" {
			e := ea
			if eb.kind == "stuck" {
				e = eb
			}
			w.fail("outside the vocabulary: "+e.why, e.pos)
			return
		}
		// a test that only one side makes here (the tests come in a different order): that side branches alone; what
		// it learns decides the other side's tests later
		if (ea.kind == "if") != (eb.kind == "if") || (ea.kind == "if" && eb.kind == "if" && !w.sameCond(p, ea.terms[0], eb.terms[0])) {
			s, e := p.a, ea
			if ea.kind != "if" {
				s, e = p.b, eb
			}
			p.alone++
			if p.alone > 12 {
				w.fail(fmt.Sprintf("the next effects differ: %s here, %s in the reference", describe(ea), describe(eb)), ea.pos)
				return
			}
			q := p.clone()
			qs := q.a
			if s == p.b {
				qs = q.b
			}
			q.facts = append(q.facts, fact{e.terms[0], true})
			w.jump(q, qs, 0)
			w.run(q)
			p.facts = append(p.facts, fact{e.terms[0], false})
			w.jump(p, s, 1)
			continue
		}
		if ea.kind != eb.kind {
			w.fail(fmt.Sprintf("the next effects differ: %s here, %s in the reference", describe(ea), describe(eb)), ea.pos)
			return
		}
		w.res.Events++
		switch ea.kind {
		case "store":
			if !w.eq(p, ea.terms[0], eb.terms[0]) {
				w.diff(ea, eb, "a store goes to a different place: "+w.tab.str(ea.terms[0], 0)+" vs "+w.tab.str(eb.terms[0], 0))
			}
			if !w.eq(p, ea.terms[1], eb.terms[1]) {
				w.diff(ea, eb, "a different value is stored: "+w.tab.str(ea.terms[1], 0)+" vs "+w.tab.str(eb.terms[1], 0))
			}
			p.epoch++
			p.a.top().idx++
			p.b.top().idx++
		case "call":
			if !w.sameCallee(ea.call, eb.call) {
				w.fail(fmt.Sprintf("different functions are called: %s here, %s in the reference", calleeName(ea.call), calleeName(eb.call)), ea.pos)
				return
			}
			if len(ea.terms) != len(eb.terms) {
				w.fail("calls with different argument counts", ea.pos)
				return
			}
			for i := range ea.terms {
				if !w.eq(p, ea.terms[i], eb.terms[i]) {
					w.diff(ea, eb, fmt.Sprintf("argument %d of %s differs: %s vs %s", i, calleeName(ea.call), w.tab.str(ea.terms[i], 0), w.tab.str(eb.terms[i], 0)))
				}
			}
			p.epoch++
			r := w.tab.mk("callres", fmt.Sprintf("%s@%d", calleeName(eb.call), p.epoch), eb.terms...)
			p.a.top().env[ea.call] = r
			p.b.top().env[eb.call] = r
			p.a.top().idx++
			p.b.top().idx++
		case "if":
			ca, cb := ea.terms[0], eb.terms[0]
			swap := false
			if !w.eq(p, ca, cb) {
				if w.eq(p, w.not(ca), cb) {
					swap = true
				} else {
					w.diff(ea, eb, "a branch tests a different condition: "+w.tab.str(ca, 0)+" vs "+w.tab.str(cb, 0))
					return
				}
			}
			for i := 0; i < 2; i++ {
				q := p
				if i == 0 {
					q = p.clone()
				}
				j := i
				if swap {
					j = 1 - i
				}
				q.facts = append(q.facts, fact{ca, i == 0})
				w.jump(q, q.a, i)
				w.jump(q, q.b, j)
				if i == 0 {
					w.run(q)
				}
			}
		case "head":
			if done := w.loopHead(p, ea, eb); done {
				w.indexCover(p, ea, eb)
				w.res.Paths++
				return
			}
		case "return":
			if len(ea.terms) != len(eb.terms) {
				w.fail("different numbers of results", ea.pos)
				return
			}
			for i := range ea.terms {
				if !w.eq(p, ea.terms[i], eb.terms[i]) {
					w.diff(ea, eb, fmt.Sprintf("result %d differs: %s vs %s", i, w.tab.str(ea.terms[i], 0), w.tab.str(eb.terms[i], 0)))
				}
			}
			w.indexCover(p, ea, eb)
			w.res.Paths++
			return
		case "panic":
			w.indexCover(p, ea, eb)
			w.res.Paths++
			return
		}
	}
}

func describe(e event) string {
	switch e.kind {
	case "call":
		return "call of " + calleeName(e.call)
	case "head":
		return "loop head"
	}
	return e.kind
}

func calleeName(c *ssa.Call) string {
	if c == nil {
		return "?"
	}
	if f := c.Call.StaticCallee(); f != nil {
		return f.Name()
	}
	if b, ok := c.Call.Value.(*ssa.Builtin); ok {
		return b.Name()
	}
	return "dynamic call"
}

func (w *walker) sameCallee(a, b *ssa.Call) bool {
	fa, fb := a.Call.StaticCallee(), b.Call.StaticCallee()
	if fa == nil || fb == nil {
		ba, ok1 := a.Call.Value.(*ssa.Builtin)
		bb, ok2 := b.Call.Value.(*ssa.Builtin)
		return ok1 && ok2 && ba.Name() == bb.Name()
	}
	if w.cfg.Callee != nil {
		if m := w.cfg.Callee(fa); m != nil {
			if m == fb {
				w.calls[[2]*ssa.Function{fa, fb}] = true
				return true
			}
			return false
		}
	}
	return fullName(fa) == fullName(fb) && fa.Pkg != nil && fb.Pkg != nil && fa.Pkg.Pkg.Path() == fb.Pkg.Pkg.Path()
}

func fullName(f *ssa.Function) string { return f.String() }

// tryStep: when exactly one side is at a call of a steppable function that the other side does not match, enter it.
func (w *walker) tryStep(p *path, ea, eb *event) bool {
	stepA := ea.kind == "call" && ea.call.Call.StaticCallee() != nil && w.cfg.Steppable != nil && w.cfg.Steppable(ea.call.Call.StaticCallee())
	stepB := eb.kind == "call" && eb.call.Call.StaticCallee() != nil && w.cfg.Steppable != nil && w.cfg.Steppable(eb.call.Call.StaticCallee())
	if ea.kind == "call" && eb.kind == "call" && w.sameCalleeQuiet(ea.call, eb.call) {
		return false
	}
	switch {
	case stepA:
		if w.enter(p.a, ea.call, ea.terms) {
			fn := ea.call.Call.StaticCallee()
			if !w.stepped[fn] {
				w.stepped[fn] = true
				w.res.SteppedA = append(w.res.SteppedA, fn)
			}
			return true
		}
	case stepB:
		if w.enter(p.b, eb.call, eb.terms) {
			fn := eb.call.Call.StaticCallee()
			if !w.stepped[fn] {
				w.stepped[fn] = true
				w.res.SteppedB = append(w.res.SteppedB, fn)
			}
			return true
		}
	}
	return false
}

func (w *walker) sameCalleeQuiet(a, b *ssa.Call) bool {
	fa, fb := a.Call.StaticCallee(), b.Call.StaticCallee()
	if fa == nil || fb == nil {
		return false
	}
	if w.cfg.Callee != nil {
		if m := w.cfg.Callee(fa); m != nil {
			return m == fb
		}
	}
	return fullName(fa) == fullName(fb)
}

func (w *walker) enter(s *side, call *ssa.Call, args []int) bool {
	fn := call.Call.StaticCallee()
	if len(fn.Blocks) == 0 || len(s.frames) > 6 {
		return false
	}
	for _, f := range s.frames {
		if f.fn == fn {
			return false // recursion
		}
	}
	nf := &frame{fn: fn, blk: fn.Blocks[0], env: map[ssa.Value]int{}, cells: map[*ssa.Alloc]int{}, call: call}
	for i, prm := range fn.Params {
		if i < len(args) {
			nf.env[prm] = args[i]
		}
	}
	s.frames = append(s.frames, nf)
	return true
}

// jump moves the side's top frame along successor i of its current block; phis are evaluated unless the target is a
// loop head (then the arrival is an event handled by loopHead).
func (w *walker) jump(p *path, s *side, i int) {
	f := s.top()
	from := f.blk
	to := from.Succs[i]
	if isLoopHead(to) {
		f.pendHead, f.pendPred = to, from
		return
	}
	w.enterBlock(f, from, to)
}

func (w *walker) enterBlock(f *frame, from, to *ssa.BasicBlock) {
	// evaluate phis simultaneously
	var phis []*ssa.Phi
	var vals []int
	pi := -1
	for k, pr := range to.Preds {
		if pr == from {
			pi = k
		}
	}
	for _, ins := range to.Instrs {
		ph, ok := ins.(*ssa.Phi)
		if !ok {
			break
		}
		phis = append(phis, ph)
		vals = append(vals, w.value(f, ph.Edges[pi]))
	}
	for k, ph := range phis {
		f.env[ph] = vals[k]
	}
	f.blk = to
	f.idx = len(phis)
}

func isLoopHead(b *ssa.BasicBlock) bool {
	for _, p := range b.Preds {
		if b.Dominates(p) {
			return true
		}
	}
	return false
}

// value returns the term of an operand.
func (w *walker) value(f *frame, v ssa.Value) int {
	switch t := v.(type) {
	case *ssa.Const:
		return w.constTerm(t)
	case *ssa.Global:
		name := ""
		if w.cfg.GlobalName != nil {
			name = w.cfg.GlobalName(t)
		}
		if name == "" {
			name = t.String()
		}
		return w.tab.mk("global", name)
	case *ssa.Function:
		return w.tab.mk("func", t.Name())
	case *ssa.Builtin:
		return w.tab.mk("builtin", t.Name())
	}
	if id, ok := f.env[v]; ok {
		return id
	}
	// a value of an enclosing function cannot appear here (no closures in the vocabulary)
	return w.tab.freshTerm("unknown", v.Name())
}

func typeKey(t types.Type) string {
	return types.TypeString(t, func(p *types.Package) string { return "" })
}

func (w *walker) constTerm(c *ssa.Const) int {
	if c.Value == nil {
		return w.tab.mk("const", "zero:"+typeKey(c.Type()))
	}
	switch c.Value.Kind() {
	case constant.Int:
		if b, ok := c.Type().Underlying().(*types.Basic); ok && b.Info()&types.IsInteger != 0 {
			v, _ := new(big.Int).SetString(c.Value.ExactString(), 10)
			return w.intConst(v, c.Type())
		}
	case constant.Bool:
		return w.boolConst(constant.BoolVal(c.Value))
	}
	return w.tab.mk("const", c.Value.ExactString()+":"+typeKey(c.Type()))
}

func (w *walker) boolConst(b bool) int { return w.tab.mk("const", fmt.Sprintf("%v:bool", b)) }

// intConst: integer constants are identified by value and by the word class of their type (int/uint/int64/uint64
// are interchangeable spellings in the ported code; narrower types are kept apart).
func (w *walker) intConst(v *big.Int, t types.Type) int {
	return w.tab.mk("const", v.String()+":"+intClass(t))
}

func intClass(t types.Type) string {
	b, ok := t.Underlying().(*types.Basic)
	if !ok {
		return typeKey(t)
	}
	switch b.Kind() {
	case types.Int, types.Uint, types.Int64, types.Uint64, types.Uintptr, types.UntypedInt:
		return "word"
	}
	return b.Name()
}

func (w *walker) constVal(id int) (*big.Int, string, bool) {
	tm := w.tab.terms[id]
	if tm.kind != "const" {
		return nil, "", false
	}
	i := strings.LastIndexByte(tm.aux, ':')
	if i < 0 {
		return nil, "", false
	}
	v, ok := new(big.Int).SetString(tm.aux[:i], 10)
	if !ok {
		return nil, "", false
	}
	return v, tm.aux[i+1:], true
}

func (w *walker) boolVal(id int) (bool, bool) {
	tm := w.tab.terms[id]
	if tm.kind != "const" {
		return false, false
	}
	switch tm.aux {
	case "true:bool":
		return true, true
	case "false:bool":
		return false, true
	}
	return false, false
}

func (w *walker) not(id int) int {
	if b, ok := w.boolVal(id); ok {
		return w.boolConst(!b)
	}
	tm := w.tab.terms[id]
	if tm.kind == "un" && tm.aux == "!" {
		return tm.args[0]
	}
	if tm.kind == "bin" {
		// negated comparison
		parts := strings.SplitN(tm.aux, " ", 2)
		neg := map[string]string{"==": "!=", "!=": "==", "<": ">=", "<=": ">"}
		if n, ok := neg[parts[0]]; ok && len(parts) == 2 {
			return w.mkBin(n, parts[1], tm.args[0], tm.args[1])
		}
	}
	return w.tab.mk("un", "!", id)
}

func wrapTo(v *big.Int, t types.Type, sizes types.Sizes) *big.Int {
	b, ok := t.Underlying().(*types.Basic)
	if !ok || b.Info()&types.IsInteger == 0 {
		return v
	}
	bits := uint(sizes.Sizeof(t) * 8)
	mod := new(big.Int).Lsh(big.NewInt(1), bits)
	r := new(big.Int).Mod(v, mod)
	if b.Info()&types.IsUnsigned == 0 {
		half := new(big.Int).Rsh(mod, 1)
		if r.Cmp(half) >= 0 {
			r.Sub(r, mod)
		}
	}
	return r
}

var sizes64 = types.SizesFor("gc", "amd64")

// binop builds the term of x op y (type t, operand type ot), folding integer constants.
func (w *walker) binop(op token.Token, t, ot types.Type, x, y int) int {
	xv, _, okx := w.constVal(x)
	yv, _, oky := w.constVal(y)
	if okx && oky {
		isInt := func(tt types.Type) bool {
			b, ok := tt.Underlying().(*types.Basic)
			return ok && b.Info()&types.IsInteger != 0
		}
		if isInt(ot) {
			r := new(big.Int)
			switch op {
			case token.ADD:
				return w.intConst(wrapTo(r.Add(xv, yv), t, sizes64), t)
			case token.SUB:
				return w.intConst(wrapTo(r.Sub(xv, yv), t, sizes64), t)
			case token.MUL:
				return w.intConst(wrapTo(r.Mul(xv, yv), t, sizes64), t)
			case token.SHL:
				if yv.Sign() >= 0 && yv.IsInt64() && yv.Int64() < 256 {
					return w.intConst(wrapTo(r.Lsh(xv, uint(yv.Int64())), t, sizes64), t)
				}
			case token.SHR:
				if yv.Sign() >= 0 && yv.IsInt64() && yv.Int64() < 256 {
					return w.intConst(wrapTo(r.Rsh(xv, uint(yv.Int64())), t, sizes64), t)
				}
			case token.AND:
				return w.intConst(wrapTo(r.And(xv, yv), t, sizes64), t)
			case token.OR:
				return w.intConst(wrapTo(r.Or(xv, yv), t, sizes64), t)
			case token.XOR:
				return w.intConst(wrapTo(r.Xor(xv, yv), t, sizes64), t)
			case token.EQL:
				return w.boolConst(xv.Cmp(yv) == 0)
			case token.NEQ:
				return w.boolConst(xv.Cmp(yv) != 0)
			case token.LSS:
				return w.boolConst(xv.Cmp(yv) < 0)
			case token.LEQ:
				return w.boolConst(xv.Cmp(yv) <= 0)
			case token.GTR:
				return w.boolConst(xv.Cmp(yv) > 0)
			case token.GEQ:
				return w.boolConst(xv.Cmp(yv) >= 0)
			}
		}
	}
	// the operand type decides what a comparison, shift or division means; for the other operators the result type does
	cls := intClass(t)
	switch op {
	case token.EQL, token.NEQ, token.LSS, token.LEQ, token.GTR, token.GEQ, token.SHR, token.QUO, token.REM:
		cls = signClass(ot)
	}
	return w.mkBin(op.String(), cls, x, y)
}

// mkBin normalises operand order: commutative operators sorted, > and >= written as < and <=.
func (w *walker) mkBin(op, cls string, x, y int) int {
	switch op {
	case "+", "*", "&", "|", "^", "==", "!=":
		if x > y {
			x, y = y, x
		}
	case ">":
		op, x, y = "<", y, x
	case ">=":
		op, x, y = "<=", y, x
	}
	return w.tab.mk("bin", op+" "+cls, x, y)
}

// signClass: like intClass but keeps signed and unsigned words apart (it matters for <, >>, /, %).
func signClass(t types.Type) string {
	b, ok := t.Underlying().(*types.Basic)
	if !ok {
		return typeKey(t)
	}
	switch b.Kind() {
	case types.Int, types.Int64, types.UntypedInt:
		return "sword"
	case types.Uint, types.Uint64, types.Uintptr:
		return "uword"
	}
	return b.Name()
}

// advance runs the side's pure instructions until its next event.
func (w *walker) advance(p *path, s *side) event {
	for {
		w.steps++
		if w.steps > w.cfg.MaxSteps {
			w.fail("step budget exhausted", token.NoPos)
			return event{kind: "stuck", why: "budget"}
		}
		f := s.top()
		if f.pendHead != nil {
			return event{kind: "head", pos: posOf(f.pendHead), head: f.pendHead, pred: f.pendPred}
		}
		if f.idx >= len(f.blk.Instrs) {
			return event{kind: "stuck", why: "fell off a block", pos: f.fn.Pos()}
		}
		ins := f.blk.Instrs[f.idx]
		switch t := ins.(type) {
		case *ssa.DebugRef:
			f.idx++
		case *ssa.Phi:
			f.idx++ // evaluated on entry
		case *ssa.Jump:
			to := f.blk.Succs[0]
			if isLoopHead(to) {
				return event{kind: "head", ins: ins, pos: posOf(to), head: to, pred: f.blk}
			}
			w.enterBlock(f, f.blk, to)
		case *ssa.If:
			c := w.value(f, t.Cond)
			if b, ok := w.boolVal(c); ok {
				i := 1
				if b {
					i = 0
				}
				to := f.blk.Succs[i]
				if isLoopHead(to) {
					return event{kind: "head", ins: ins, pos: posOf(to), head: to, pred: f.blk}
				}
				w.enterBlock(f, f.blk, to)
				continue
			}
			if b, ok := w.decide(p, c); ok {
				// the outcome follows from the branches already taken on this path
				i := 1
				if b {
					i = 0
				}
				to := f.blk.Succs[i]
				if isLoopHead(to) {
					f.pendHead, f.pendPred = to, f.blk
					continue
				}
				w.enterBlock(f, f.blk, to)
				continue
			}
			return event{kind: "if", ins: ins, pos: t.Cond.Pos(), terms: []int{c}}
		case *ssa.Return:
			var rs []int
			for _, r := range t.Results {
				rs = append(rs, w.value(f, r))
			}
			if len(s.frames) > 1 {
				// leave a helper that was entered: bind the call's value in the caller
				call := f.call
				s.frames = s.frames[:len(s.frames)-1]
				pf := s.top()
				switch len(rs) {
				case 0:
				case 1:
					pf.env[call] = rs[0]
				default:
					pf.env[call] = w.tab.mk("tuple", "", rs...)
				}
				pf.idx++
				continue
			}
			return event{kind: "return", ins: ins, pos: t.Pos(), terms: rs}
		case *ssa.Panic:
			return event{kind: "panic", ins: ins, pos: t.Pos()}
		case *ssa.Store:
			if al, ok := t.Addr.(*ssa.Alloc); ok && !al.Heap {
				f.cells[al] = w.value(f, t.Val)
				f.idx++
				continue
			}
			return event{kind: "store", ins: ins, pos: t.Pos(), terms: []int{w.value(f, t.Addr), w.value(f, t.Val)}}
		case *ssa.Call:
			if ev, isEvent := w.callInstr(p, f, t); isEvent {
				return ev
			}
		case ssa.Value:
			id, why := w.pure(p, f, t)
			if why != "" {
				return event{kind: "stuck", why: why, pos: ins.Pos(), ins: ins}
			}
			switch ins.(type) {
			case *ssa.IndexAddr, *ssa.Index, *ssa.Slice, *ssa.Lookup:
				dup := false
				for _, o := range s.idx {
					if o == id {
						dup = true
					}
				}
				if !dup {
					s.idx = append(s.idx, id)
					s.idxPos = append(s.idxPos, ins.Pos())
				}
			}
			f.env[t] = id
			f.idx++
		default:
			return event{kind: "stuck", why: fmt.Sprintf("instruction %T", ins), pos: ins.Pos(), ins: ins}
		}
	}
}

func posOf(b *ssa.BasicBlock) token.Pos {
	for _, ins := range b.Instrs {
		if ins.Pos().IsValid() {
			return ins.Pos()
		}
	}
	return token.NoPos
}

var pureStd = map[string]bool{
	"math/bits.Mul64": true, "math/bits.LeadingZeros64": true, "math/bits.Add64": true, "math/bits.Len64": true, "math/bits.TrailingZeros64": true,
	"math.Float64frombits": true, "math.Float64bits": true, "math.Float32frombits": true, "math.Inf": true,
}

// callInstr: builtins and pure standard functions are values; everything else is an event.
func (w *walker) callInstr(p *path, f *frame, t *ssa.Call) (event, bool) {
	var args []int
	for _, a := range t.Call.Args {
		args = append(args, w.value(f, a))
	}
	if b, ok := t.Call.Value.(*ssa.Builtin); ok {
		switch b.Name() {
		case "len", "cap":
			// the length of an array (or pointer to array) is a constant
			if at := arrayLen(t.Call.Args[0].Type()); at >= 0 {
				f.env[t] = w.intConst(big.NewInt(at), t.Type())
			} else {
				f.env[t] = w.tab.mk("builtin:"+b.Name(), "", args...)
			}
			f.idx++
			return event{}, false
		case "min", "max":
			f.env[t] = w.tab.mk("builtin:"+b.Name(), "", args...)
			f.idx++
			return event{}, false
		}
		return event{kind: "call", ins: t, pos: t.Pos(), terms: args, call: t}, true
	}
	if fn := t.Call.StaticCallee(); fn != nil && fn.Pkg != nil && pureStd[fn.Pkg.Pkg.Path()+"."+fn.Name()] {
		f.env[t] = w.tab.mk("pure:"+fn.Pkg.Pkg.Path()+"."+fn.Name(), "", args...)
		f.idx++
		return event{}, false
	}
	if t.Call.StaticCallee() == nil {
		return event{kind: "stuck", why: "dynamic call", pos: t.Pos(), ins: t}, true
	}
	return event{kind: "call", ins: t, pos: t.Pos(), terms: args, call: t}, true
}

func arrayLen(t types.Type) int64 {
	switch u := t.Underlying().(type) {
	case *types.Array:
		return u.Len()
	case *types.Pointer:
		if a, ok := u.Elem().Underlying().(*types.Array); ok {
			return a.Len()
		}
	}
	return -1
}

// pure evaluates a side-effect-free value instruction.
func (w *walker) pure(p *path, f *frame, v ssa.Value) (int, string) {
	switch t := v.(type) {
	case *ssa.BinOp:
		return w.binop(t.Op, t.Type(), t.X.Type(), w.value(f, t.X), w.value(f, t.Y)), ""
	case *ssa.UnOp:
		x := w.value(f, t.X)
		switch t.Op {
		case token.MUL:
			if al, ok := t.X.(*ssa.Alloc); ok && !al.Heap {
				if c, ok := f.cells[al]; ok {
					return c, ""
				}
				return w.tab.mk("const", "zero:"+typeKey(t.Type())), ""
			}
			// a field of the float format description is a constant
			if fa, ok := t.X.(*ssa.FieldAddr); ok && w.cfg.FieldConst != nil {
				if st, ok := derefStruct(fa.X.Type()); ok {
					if k, ok := w.cfg.FieldConst(fa.X, st.Field(fa.Field).Name()); ok {
						return w.intConst(big.NewInt(k), t.Type()), ""
					}
				}
			}
			ld := w.tab.mk("load", fmt.Sprint(p.epoch), x)
			if fa, ok := t.X.(*ssa.FieldAddr); ok && w.cfg.NonNegField != nil && w.cfg.NonNegField(fa) {
				if w.nonNeg == nil {
					w.nonNeg = map[int]bool{}
				}
				w.nonNeg[ld] = true
			}
			return ld, ""
		case token.NOT:
			return w.not(x), ""
		case token.SUB:
			if xv, _, ok := w.constVal(x); ok {
				return w.intConst(wrapTo(new(big.Int).Neg(xv), t.Type(), sizes64), t.Type()), ""
			}
			return w.tab.mk("un", "-"+intClass(t.Type()), x), ""
		case token.XOR:
			return w.tab.mk("un", "^"+intClass(t.Type()), x), ""
		}
		return 0, "unary " + t.Op.String()
	case *ssa.Convert:
		x := w.value(f, t.X)
		from, to := intClass(t.X.Type()), intClass(t.Type())
		if xv, _, ok := w.constVal(x); ok {
			if b, isB := t.Type().Underlying().(*types.Basic); isB && b.Info()&types.IsInteger != 0 {
				return w.intConst(wrapTo(xv, t.Type(), sizes64), t.Type()), ""
			}
		}
		if from == "word" && to == "word" {
			return x, "" // int/uint/int64/uint64 are spellings of one word
		}
		return w.tab.mk("conv", signClass(t.X.Type())+"->"+signClass(t.Type()), x), ""
	case *ssa.ChangeType:
		return w.value(f, t.X), ""
	case *ssa.FieldAddr:
		if _, ok := derefStruct(t.X.Type()); !ok {
			return 0, "field of a non-struct"
		}
		// fields correspond by position (the port keeps the reference's layout; names are free)
		return w.tab.mk("field", fmt.Sprintf("#%d", t.Field), w.value(f, t.X)), ""
	case *ssa.Field:
		if _, ok := t.X.Type().Underlying().(*types.Struct); !ok {
			return 0, "field of a non-struct"
		}
		return w.tab.mk("fieldval", fmt.Sprintf("#%d", t.Field), w.value(f, t.X)), ""
	case *ssa.IndexAddr:
		return w.tab.mk("index", "", w.value(f, t.X), w.value(f, t.Index)), ""
	case *ssa.Index:
		return w.tab.mk("indexval", "", w.value(f, t.X), w.value(f, t.Index)), ""
	case *ssa.Lookup:
		return w.tab.mk("indexval", "", w.value(f, t.X), w.value(f, t.Index)), ""
	case *ssa.Slice:
		zero := w.intConst(big.NewInt(0), types.Typ[types.Int])
		lo, hi, mx := zero, w.tab.mk("nil", ""), w.tab.mk("nil", "")
		if t.Low != nil {
			lo = w.value(f, t.Low)
		}
		if t.High != nil {
			hi = w.value(f, t.High)
		}
		if t.Max != nil {
			mx = w.value(f, t.Max)
		}
		return w.tab.mk("slice", "", w.value(f, t.X), lo, hi, mx), ""
	case *ssa.Extract:
		tup := w.value(f, t.Tuple)
		tm := w.tab.terms[tup]
		if tm.kind == "tuple" && t.Index < len(tm.args) {
			return tm.args[t.Index], ""
		}
		return w.tab.mk("extract", fmt.Sprint(t.Index), tup), ""
	case *ssa.Alloc:
		f.nAlloc++
		return w.tab.mk("alloc", fmt.Sprintf("%d@%d:%s", f.nAlloc, len(f.cells), typeKey(t.Type()))), ""
	case *ssa.MakeSlice:
		return w.tab.mk("makeslice", typeKey(t.Type()), w.value(f, t.Len), w.value(f, t.Cap)), ""
	}
	return 0, fmt.Sprintf("instruction %T", v)
}

func derefStruct(t types.Type) (*types.Struct, bool) {
	if p, ok := t.Underlying().(*types.Pointer); ok {
		t = p.Elem()
	}
	st, ok := t.Underlying().(*types.Struct)
	return st, ok
}

// ---- loops ----------------------------------------------------------------------------------------------------------

// loopHead: both sides are about to enter a loop head. First arrival: the loop-carried variables become fresh
// variables. Arrival from inside (a back edge): the next-iteration values of identified variables must agree, and
// the path ends. Returns true when the path is finished.
func (w *walker) loopHead(p *path, ea, eb event) bool {
	fa, fb := p.a.top(), p.b.top()
	fa.pendHead, fa.pendPred, fb.pendHead, fb.pendPred = nil, nil, nil, nil
	for li := len(p.loops) - 1; li >= 0; li-- {
		ol := p.loops[li]
		if ol.hA == ea.head && ol.hB == eb.head && ol.depthA == len(p.a.frames) && ol.depthB == len(p.b.frames) {
			// closing the loop: compare the updates of identified variables
			pa, pb := predIndex(ea.head, ea.pred), predIndex(eb.head, eb.pred)
			for _, va := range ol.varsA {
				lb, ok := p.bind[va.lv]
				if !ok {
					continue
				}
				for _, vb := range ol.varsB {
					if vb.lv != lb {
						continue
					}
					na, nb := w.value(fa, va.phi.Edges[pa]), w.value(fb, vb.phi.Edges[pb])
					if !w.eq(p, na, nb) {
						w.diff(ea, eb, fmt.Sprintf("a loop variable (%s here) is updated differently: %s vs %s", va.phi.Comment, w.tab.str(na, 0), w.tab.str(nb, 0)))
					}
				}
			}
			return true
		}
		if ol.hA == ea.head || ol.hB == eb.head {
			w.fail("the loops are not entered and left together", ea.pos)
			return true
		}
	}
	// first arrival
	ol := openLoop{hA: ea.head, hB: eb.head, depthA: len(p.a.frames), depthB: len(p.b.frames)}
	mkVars := func(f *frame, head, pred *ssa.BasicBlock, tag string) []loopVar {
		var vs []loopVar
		pi := predIndex(head, pred)
		for _, ins := range head.Instrs {
			ph, ok := ins.(*ssa.Phi)
			if !ok {
				break
			}
			init := w.value(f, ph.Edges[pi])
			vs = append(vs, loopVar{phi: ph, lv: w.tab.freshTerm("lv", tag), init: init})
		}
		for _, v := range vs {
			f.env[v.phi] = v.lv
		}
		f.blk = head
		f.idx = len(vs)
		return vs
	}
	ol.varsA = mkVars(fa, ea.head, ea.pred, "a")
	ol.varsB = mkVars(fb, eb.head, eb.pred, "b")
	p.loops = append(p.loops, ol)
	p.epoch++ // the loop may have written memory in earlier iterations
	return false
}

func predIndex(b, pred *ssa.BasicBlock) int {
	for i, p := range b.Preds {
		if p == pred {
			return i
		}
	}
	return 0
}

// eq: the two terms denote the same value, identifying loop variables of the two sides on demand.
func (w *walker) eq(p *path, a, b int) bool {
	if a == b {
		return true
	}
	ta, tb := w.tab.terms[a], w.tab.terms[b]
	if ta.kind == "lv" && tb.kind == "lv" {
		if m, ok := p.bind[a]; ok {
			return m == b
		}
		if _, ok := p.bind[b]; ok {
			return false
		}
		// identify them if they belong to the same open loop and start from the same value
		for li := len(p.loops) - 1; li >= 0; li-- {
			ol := p.loops[li]
			var ia, ib *loopVar
			for k := range ol.varsA {
				if ol.varsA[k].lv == a {
					ia = &ol.varsA[k]
				}
			}
			for k := range ol.varsB {
				if ol.varsB[k].lv == b {
					ib = &ol.varsB[k]
				}
			}
			if ia != nil && ib != nil {
				if !w.eq(p, ia.init, ib.init) {
					return false
				}
				p.bind[a] = b
				p.bind[b] = a
				return true
			}
		}
		return false
	}
	if ta.kind != tb.kind || ta.aux != tb.aux || len(ta.args) != len(tb.args) {
		// loads / lengths carry the memory version in aux: versions advance in step on both sides, so differing
		// versions are a real difference
		return false
	}
	if ta.kind == "lv" || len(ta.args) == 0 {
		return false
	}
	if ta.kind == "bin" && len(ta.args) == 2 {
		switch strings.SplitN(ta.aux, " ", 2)[0] {
		case "+", "*", "&", "|", "^", "==", "!=":
			// operand order was fixed by term number, which differs between the sides below a loop variable
			snap := snapshot(p.bind)
			if w.eq(p, ta.args[0], tb.args[0]) && w.eq(p, ta.args[1], tb.args[1]) {
				return true
			}
			p.bind = snap
			snap2 := snapshot(p.bind)
			if w.eq(p, ta.args[0], tb.args[1]) && w.eq(p, ta.args[1], tb.args[0]) {
				return true
			}
			p.bind = snap2
			return false
		}
	}
	for i := range ta.args {
		if !w.eq(p, ta.args[i], tb.args[i]) {
			return false
		}
	}
	return true
}

func snapshot(m map[int]int) map[int]int {
	n := make(map[int]int, len(m))
	for k, v := range m {
		n[k] = v
	}
	return n
}

// sameCond: the two conditions are the same test, possibly negated.
func (w *walker) sameCond(p *path, a, b int) bool {
	snap := snapshot(p.bind)
	if w.eq(p, a, b) {
		return true
	}
	p.bind = snap
	snap = snapshot(p.bind)
	if w.eq(p, w.not(a), b) {
		return true
	}
	p.bind = snap
	return false
}

// decide: the condition's outcome follows from the conditions already known on this path — syntactically (the same
// test or its negation) or, for signed integer comparisons, by linear arithmetic over the compared terms.
func (w *walker) decide(p *path, c int) (bool, bool) {
	if len(p.facts) == 0 {
		return false, false
	}
	for _, f := range p.facts {
		snap := snapshot(p.bind)
		if w.eq(p, c, f.cond) {
			return f.truth, true
		}
		p.bind = snap
		snap = snapshot(p.bind)
		if w.eq(p, w.not(c), f.cond) {
			return !f.truth, true
		}
		p.bind = snap
	}
	goal, ok := w.linAtom(p, c, true)
	if !ok {
		return false, false
	}
	var sys linarith.System
	for _, f := range p.facts {
		if in, ok := w.linAtom(p, f.cond, f.truth); ok {
			sys = append(sys, in...)
		}
	}
	if len(sys) == 0 {
		return false, false
	}
	// invariants of the port's data structure: fields that are never negative
	var nn []int
	for id := range w.nonNeg {
		nn = append(nn, id)
	}
	sort.Ints(nn)
	for _, id := range nn {
		sys = append(sys, linarith.GE(w.lin(p, id, 0), linarith.Const(0)))
	}
	// disequalities sharpen a one-sided bound: x != y with x >= y gives x >= y+1 (integers)
	for round := 0; round < 2; round++ {
		for _, f := range p.facts {
			tm := w.tab.terms[f.cond]
			if tm.kind != "bin" || len(tm.args) != 2 {
				continue
			}
			parts := strings.SplitN(tm.aux, " ", 2)
			if len(parts) != 2 || parts[1] != "sword" || !((parts[0] == "==" && !f.truth) || (parts[0] == "!=" && f.truth)) {
				continue
			}
			x, y := w.lin(p, tm.args[0], 0), w.lin(p, tm.args[1], 0)
			if sys.Implies(linarith.GE(x, y)) {
				sys = append(sys, linarith.GT(x, y))
			} else if sys.Implies(linarith.LE(x, y)) {
				sys = append(sys, linarith.LT(x, y))
			}
		}
	}
	if sys.ImpliesAll(goal...) {
		return true, true
	}
	if ng, ok := w.linAtom(p, c, false); ok && sys.ImpliesAll(ng...) {
		return false, true
	}
	// an (in)equality is refuted by a strict order between its sides: 0 < x decides x == 0
	if tm := w.tab.terms[c]; tm.kind == "bin" && len(tm.args) == 2 {
		parts := strings.SplitN(tm.aux, " ", 2)
		if len(parts) == 2 && (parts[1] == "sword" || parts[1] == "int32" || parts[1] == "int16" || parts[1] == "int8") && (parts[0] == "==" || parts[0] == "!=") {
			x, y := w.lin(p, tm.args[0], 0), w.lin(p, tm.args[1], 0)
			if sys.Implies(linarith.LT(x, y)) || sys.Implies(linarith.GT(x, y)) {
				return parts[0] == "!=", true
			}
		}
	}
	return false, false
}

// linAtom: the condition (with the given truth) as linear inequalities, for signed comparisons and for (in)equalities
// with a true outcome; everything that is not +, - or a constant multiple is an opaque symbol.
func (w *walker) linAtom(p *path, c int, truth bool) ([]linarith.Ineq, bool) {
	tm := w.tab.terms[c]
	if tm.kind != "bin" || len(tm.args) != 2 {
		return nil, false
	}
	parts := strings.SplitN(tm.aux, " ", 2)
	if len(parts) != 2 || (parts[1] != "sword" && parts[1] != "int32" && parts[1] != "int16" && parts[1] != "int8") {
		return nil, false
	}
	x, y := w.lin(p, tm.args[0], 0), w.lin(p, tm.args[1], 0)
	switch parts[0] {
	case "<":
		if truth {
			return []linarith.Ineq{linarith.LT(x, y)}, true
		}
		return []linarith.Ineq{linarith.GE(x, y)}, true
	case "<=":
		if truth {
			return []linarith.Ineq{linarith.LE(x, y)}, true
		}
		return []linarith.Ineq{linarith.GT(x, y)}, true
	case "==":
		if truth {
			return linarith.EQ(x, y), true
		}
	case "!=":
		if !truth {
			return linarith.EQ(x, y), true
		}
	}
	return nil, false
}

func (w *walker) lin(p *path, id int, depth int) linarith.Form {
	if v, _, ok := w.constVal(id); ok {
		return linarith.ConstBig(v)
	}
	tm := w.tab.terms[id]
	if tm.kind == "bin" && len(tm.args) == 2 && depth < 6 {
		parts := strings.SplitN(tm.aux, " ", 2)
		switch parts[0] {
		case "+":
			return w.lin(p, tm.args[0], depth+1).Add(w.lin(p, tm.args[1], depth+1))
		case "-":
			return w.lin(p, tm.args[0], depth+1).Sub(w.lin(p, tm.args[1], depth+1))
		}
	}
	if tm.kind == "un" && strings.HasPrefix(tm.aux, "-") && depth < 6 {
		return w.lin(p, tm.args[0], depth+1).Neg()
	}
	// identified loop variables share one symbol
	if m, ok := p.bind[id]; ok && m < id {
		id = m
	}
	return linarith.Var(fmt.Sprintf("t%d", id))
}

// indexCover: every index / slice expression the port evaluated on this path is one the reference evaluated too —
// an index expression can panic even when nothing uses its value, so it must not escape the comparison.
func (w *walker) indexCover(p *path, ea, eb event) {
	for k, ia := range p.a.idx {
		found := false
		for _, ib := range p.b.idx {
			snap := snapshot(p.bind)
			if w.eq(p, ia, ib) {
				found = true
				break
			}
			p.bind = snap
		}
		if !found {
			e := ea
			e.pos = p.a.idxPos[k]
			w.diff(e, eb, "an index or slice expression has no counterpart in the reference: "+w.tab.str(ia, 0))
		}
	}
}
