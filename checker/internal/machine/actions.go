package machine

import (
	"fmt"
	"go/ast"
	"go/token"
	"go/types"
	"strconv"

	"rjverif/internal/linarith"
	"rjverif/internal/lts"
)

// errState tracks what is known about the machine's error variable inside one action.
type errState int

const (
	errNil    errState = iota // not assigned in this action: still nil (R-errnil: nothing else assigns it)
	errSet                    // assigned a non-nil sentinel
	errNonNil                 // known non-nil by a dominating test
)

// parseAction parses the body under a trN label.
func (x *extractor) parseAction(label string) *action {
	if a, ok := x.trCache[label]; ok {
		return a
	}
	idx, ok := x.labelAt[label]
	if !ok {
		x.problem(token.NoPos, label, "goto to an unknown action label")
		return nil
	}
	end := idx + 1
	for end < len(x.flat) && len(x.isLabel[end]) == 0 {
		end++
	}
	stmts := x.flat[idx:end]
	a := x.parseBody(stmts, label, false)
	if a != nil {
		a.pos = x.flat[idx].Pos()
	}
	x.trCache[label] = a
	return a
}

// parseEOF parses `if p == eof { switch cs { case …: body } }`.
func (x *extractor) parseEOF() {
	idx, ok := x.labelAt["_test_eof"]
	if !ok {
		x.problem(x.m.Decl.Pos(), "eof", "no _test_eof label")
		return
	}
	outIdx, ok2 := x.labelAt["_out"]
	if !ok2 {
		x.problem(x.m.Decl.Pos(), "eof", "no _out label")
		return
	}
	var ifs *ast.IfStmt
	for i := idx; i < outIdx; i++ {
		switch s := x.flat[i].(type) {
		case *ast.BlockStmt:
			if len(s.List) != 0 {
				x.problem(s.Pos(), "eof", "non-empty block in the end-of-input section")
			}
		case *ast.EmptyStmt:
		case *ast.IfStmt:
			if ifs != nil {
				x.problem(s.Pos(), "eof", "more than one if in the end-of-input section")
			}
			ifs = s
		default:
			x.problem(s.Pos(), "eof", "unexpected statement %T in the end-of-input section", s)
		}
	}
	// after _out only empty blocks until the end of the exec block
	for i := outIdx; i < len(x.flat); i++ {
		switch s := x.flat[i].(type) {
		case *ast.BlockStmt:
			if len(s.List) != 0 {
				x.problem(s.Pos(), "out", "non-empty block after _out")
			}
		case *ast.EmptyStmt:
		default:
			x.problem(s.Pos(), "out", "unexpected statement %T after _out", s)
		}
	}
	if ifs == nil {
		return
	}
	if len(ifs.Body.List) != 1 || ifs.Else != nil {
		x.problem(ifs.Pos(), "eof", "end-of-input block is not a single switch")
		return
	}
	sw, ok := ifs.Body.List[0].(*ast.SwitchStmt)
	if !ok || x.obj(sw.Tag) != x.m.Roles.CS {
		x.problem(ifs.Pos(), "eof", "end-of-input block is not `switch cs`")
		return
	}
	for _, c := range sw.Body.List {
		cc := c.(*ast.CaseClause)
		if cc.List == nil {
			x.problem(cc.Pos(), "eof", "default clause in the end-of-input switch")
			continue
		}
		x.curLabel = "eof"
		a := x.parseBody(cc.Body, "eof", true)
		if a == nil {
			continue
		}
		a.pos = cc.Pos()
		for _, v := range cc.List {
			n, ok := x.constInt(v)
			if !ok {
				x.problem(v.Pos(), "eof", "non-constant case in the end-of-input switch")
				continue
			}
			if _, dup := x.eofCases[int(n)]; dup {
				x.problem(v.Pos(), "eof", "state %d listed twice in the end-of-input switch", n)
			}
			x.eofCases[int(n)] = a
		}
	}
}

// terminates reports whether control never flows past s.
func terminates(s ast.Stmt) bool {
	switch s := s.(type) {
	case *ast.ReturnStmt:
		return true
	case *ast.BranchStmt:
		return s.Tok == token.GOTO
	case *ast.BlockStmt:
		for _, t := range s.List {
			if _, isL := t.(*ast.LabeledStmt); isL {
				return false
			}
			if terminates(t) {
				return true
			}
		}
	}
	return false
}

// parseBody recognises a sequence of primitives followed by a terminator.
// atEOF: falling off the end means "continue to _out" (normal return).
func (x *extractor) parseBody(stmts []ast.Stmt, key string, atEOF bool) *action {
	x.lastSetErr = ""
	a := &action{}
	es := errNil
	i := 0
	fail := func(pos token.Pos, format string, args ...interface{}) *action {
		x.problem(pos, key, format, args...)
		return nil
	}
	for i < len(stmts) {
		s := stmts[i]
		// every element read of the input inside an action must be data[p], and only where a byte is present
		if bad := x.unsafeIndex(s, atEOF); bad != nil {
			if atEOF {
				return fail(bad.Pos(), "the input is indexed at end of input (p == len(data)): index out of range")
			}
			return fail(bad.Pos(), "the input is indexed with something other than the cursor inside an action")
		}
		switch s := s.(type) {
		case *ast.EmptyStmt:
			i++
			continue
		case *ast.BranchStmt:
			if s.Tok != token.GOTO {
				return fail(s.Pos(), "unexpected %s in an action", s.Tok)
			}
			if atEOF {
				return fail(s.Pos(), "goto inside an end-of-input clause")
			}
			name := s.Label.Name
			switch {
			case name == "st0":
				a.term = lts.Term{Kind: lts.Exit, OK: es == errNil, Delta: 0, Err: x.errVarName(es == errNil)}
				return a
			case reSt.MatchString(name):
				if es != errNil {
					return fail(s.Pos(), "the machine continues after its error variable was set")
				}
				n, _ := strconv.Atoi(name[2:])
				a.term = lts.Term{Kind: lts.Move, To: n}
				return a
			default:
				return fail(s.Pos(), "goto %s at the end of an action is outside the model", name)
			}
		case *ast.ReturnStmt:
			t, ok := x.returnErr(s)
			if !ok {
				return fail(s.Pos(), "return inside an action whose error result is not a non-nil sentinel")
			}
			a.term = t
			return a
		case *ast.BlockStmt:
			// BREAK, FCALL or FRET
			if t, ok := x.parseBreak(s); ok {
				if es == errNil {
					// leaves with err == nil: a *successful* exit one byte further
					a.term = lts.Term{Kind: lts.Exit, OK: true, Delta: 1}
				} else {
					a.term = t
				}
				return a
			}
			if t, ok := x.parseFRet(s); ok {
				if es != errNil {
					return fail(s.Pos(), "fret after the error variable was set")
				}
				a.term = t
				x.m.FRets = append(x.m.FRets, s.Pos())
				return a
			}
			if t, ok := x.parseFCall(s, key); ok {
				if es != errNil {
					return fail(s.Pos(), "fcall after the error variable was set")
				}
				a.term = t
				return a
			}
			return fail(s.Pos(), "unrecognised block inside an action")
		case *ast.AssignStmt:
			n, prim, nes, ok := x.parseAssign(stmts[i:], key, es)
			if !ok {
				return nil
			}
			es = nes
			if prim != nil {
				a.prims = append(a.prims, *prim)
			}
			i += n
			continue
		default:
			return fail(s.Pos(), "unexpected statement %T inside an action", s)
		}
	}
	if atEOF {
		// falls out of the switch to _out: returns with err as it is
		a.term = lts.Term{Kind: lts.Exit, OK: es == errNil, Err: x.errVarName(es == errNil)}
		return a
	}
	// fell off the action into the following label: treat as goto that label
	return fail(stmts[len(stmts)-1].Pos(), "action does not end in a terminator")
}

// returnErr recognises `return …, E` with E a non-nil sentinel (package-level error variable or a call of
// a function returning error); the other results are unconstrained.
func (x *extractor) returnErr(r *ast.ReturnStmt) (lts.Term, bool) {
	if len(r.Results) == 0 {
		return lts.Term{}, false
	}
	last := ast.Unparen(r.Results[len(r.Results)-1])
	switch e := last.(type) {
	case *ast.Ident:
		o := x.obj(e)
		if v, ok := o.(*types.Var); ok && v.Parent() == v.Pkg().Scope() && isErrorType(v.Type()) {
			return lts.Term{Kind: lts.Exit, OK: false, Err: v.Name()}, true
		}
	case *ast.CallExpr:
		if fn := x.calleeFunc(e); fn != nil {
			sig := fn.Type().(*types.Signature)
			if sig.Results().Len() == 1 && isErrorType(sig.Results().At(0).Type()) && fn.Pkg() == x.m.Pkg.Types {
				return lts.Term{Kind: lts.Exit, OK: false, Err: fn.Name() + "(…)"}, true
			}
		}
	}
	return lts.Term{}, false
}

func isErrorType(t types.Type) bool {
	return types.Identical(t, types.Universe.Lookup("error").Type())
}

// parseBreak: { p++; cs = N; goto _out }
func (x *extractor) parseBreak(b *ast.BlockStmt) (lts.Term, bool) {
	r := x.m.Roles
	if len(b.List) != 3 {
		return lts.Term{}, false
	}
	inc, ok := b.List[0].(*ast.IncDecStmt)
	if !ok || inc.Tok != token.INC || x.obj(inc.X) != r.P {
		return lts.Term{}, false
	}
	as, ok := b.List[1].(*ast.AssignStmt)
	if !ok || len(as.Lhs) != 1 || x.obj(as.Lhs[0]) != r.CS {
		return lts.Term{}, false
	}
	if _, ok := x.constInt(as.Rhs[0]); !ok {
		return lts.Term{}, false
	}
	if !isGoto(b.List[2], "_out") {
		return lts.Term{}, false
	}
	return lts.Term{Kind: lts.Exit, OK: false, Err: x.errVarName(false)}, true
}

// parseFRet: { top--; cs = stack[top]; goto _again }
func (x *extractor) parseFRet(b *ast.BlockStmt) (lts.Term, bool) {
	r := x.m.Roles
	if r.Top == nil || len(b.List) != 3 {
		return lts.Term{}, false
	}
	dec, ok := b.List[0].(*ast.IncDecStmt)
	if !ok || dec.Tok != token.DEC || x.obj(dec.X) != r.Top {
		return lts.Term{}, false
	}
	as, ok := b.List[1].(*ast.AssignStmt)
	if !ok || len(as.Lhs) != 1 || len(as.Rhs) != 1 || x.obj(as.Lhs[0]) != r.CS {
		return lts.Term{}, false
	}
	ie, ok := ast.Unparen(as.Rhs[0]).(*ast.IndexExpr)
	if !ok || x.obj(ie.X) != r.Stack || x.obj(ie.Index) != r.Top {
		return lts.Term{}, false
	}
	if !isGoto(b.List[2], "_again") {
		return lts.Term{}, false
	}
	return lts.Term{Kind: lts.Ret}, true
}

// parseFCall: { [if top OP K { err = E; BREAK }] if <grow cond> { stack = append(stack, make([]int, size)...) } { stack[top] = R; top++; goto stE } }
func (x *extractor) parseFCall(b *ast.BlockStmt, key string) (lts.Term, bool) {
	r := x.m.Roles
	if r.Top == nil || r.Stack == nil {
		return lts.Term{}, false
	}
	site := &FCallSite{Label: x.curLabel, Pos: b.Pos()}
	list := b.List
	if len(list) < 2 || len(list) > 3 {
		return lts.Term{}, false
	}
	i := 0
	if len(list) == 3 {
		// depth guard
		ifs, ok := list[0].(*ast.IfStmt)
		if !ok || ifs.Init != nil || ifs.Else != nil {
			return lts.Term{}, false
		}
		be, ok := ast.Unparen(ifs.Cond).(*ast.BinaryExpr)
		if !ok {
			return lts.Term{}, false
		}
		// body: err = sentinel; BREAK
		if len(ifs.Body.List) != 2 {
			return lts.Term{}, false
		}
		if _, ok := x.isSetErr(ifs.Body.List[0]); !ok {
			return lts.Term{}, false
		}
		bb, ok := ifs.Body.List[1].(*ast.BlockStmt)
		if !ok {
			return lts.Term{}, false
		}
		if _, ok := x.parseBreak(bb); !ok {
			return lts.Term{}, false
		}
		// normalise: top OP K as a linear condition over top
		lf, lok := x.lin(be.X)
		rf, rok := x.lin(be.Y)
		if !lok || !rok {
			x.problem(ifs.Pos(), key, "depth guard is not a linear comparison")
			return lts.Term{}, false
		}
		// smallest value of top for which the guard is true, given top is an integer >= 0
		k, ok := guardThreshold(lf.Sub(rf), be.Op, x.sym(r.Top))
		if !ok {
			x.problem(ifs.Pos(), key, "depth guard does not have the form `top reaches K`")
			return lts.Term{}, false
		}
		site.HasLimit = true
		site.Limit = k
		site.LimitOp = be.Op
		i = 1
	}
	// growth
	ifs, ok := list[i].(*ast.IfStmt)
	if !ok || ifs.Else != nil || len(ifs.Body.List) != 1 {
		return lts.Term{}, false
	}
	if ifs.Init != nil {
		// `if n := <linear expression>; …`: n stands for that expression in the condition and the size
		as, ok := ifs.Init.(*ast.AssignStmt)
		if !ok || as.Tok != token.DEFINE || len(as.Lhs) != 1 || len(as.Rhs) != 1 {
			return lts.Term{}, false
		}
		id, ok := as.Lhs[0].(*ast.Ident)
		if !ok || x.info.Defs[id] == nil {
			return lts.Term{}, false
		}
		if _, ok := x.lin(as.Rhs[0]); !ok {
			return lts.Term{}, false
		}
		if x.aliases == nil {
			x.aliases = map[types.Object]ast.Expr{}
		}
		x.aliases[x.info.Defs[id]] = as.Rhs[0]
	}
	gbe, ok := ast.Unparen(ifs.Cond).(*ast.BinaryExpr)
	if !ok {
		return lts.Term{}, false
	}
	site.GrowCond = &Cond{Op: gbe.Op, L: gbe.X, R: gbe.Y}
	gas, ok := ifs.Body.List[0].(*ast.AssignStmt)
	if !ok || len(gas.Lhs) != 1 || len(gas.Rhs) != 1 || x.obj(gas.Lhs[0]) != r.Stack {
		return lts.Term{}, false
	}
	ap, ok := ast.Unparen(gas.Rhs[0]).(*ast.CallExpr)
	if !ok || !x.isBuiltin(ap.Fun, "append") || len(ap.Args) != 2 || !ap.Ellipsis.IsValid() || x.obj(ap.Args[0]) != r.Stack {
		return lts.Term{}, false
	}
	mk, ok := ast.Unparen(ap.Args[1]).(*ast.CallExpr)
	if !ok || !x.isBuiltin(mk.Fun, "make") || len(mk.Args) != 2 {
		return lts.Term{}, false
	}
	site.GrowSize = mk.Args[1]
	// push
	pb, ok := list[i+1].(*ast.BlockStmt)
	if !ok || len(pb.List) != 3 {
		return lts.Term{}, false
	}
	st, ok := pb.List[0].(*ast.AssignStmt)
	if !ok || len(st.Lhs) != 1 || len(st.Rhs) != 1 {
		return lts.Term{}, false
	}
	ie, ok := ast.Unparen(st.Lhs[0]).(*ast.IndexExpr)
	if !ok || x.obj(ie.X) != r.Stack {
		return lts.Term{}, false
	}
	site.StoreIdx = ie.Index
	ret, ok := x.constInt(st.Rhs[0])
	if !ok {
		return lts.Term{}, false
	}
	inc, ok := pb.List[1].(*ast.IncDecStmt)
	if !ok || inc.Tok != token.INC || x.obj(inc.X) != r.Top {
		return lts.Term{}, false
	}
	site.TopInc = true
	g, ok := pb.List[2].(*ast.BranchStmt)
	if !ok || g.Tok != token.GOTO || !reSt.MatchString(g.Label.Name) {
		return lts.Term{}, false
	}
	entry, _ := strconv.Atoi(g.Label.Name[2:])
	site.Ret = int(ret)
	site.Entry = entry
	x.m.FCalls = append(x.m.FCalls, site)
	return lts.Term{Kind: lts.Call, To: entry, Ret: int(ret), Limit: int(site.Limit)}, true
}

// guardThreshold: for d OP 0 where d = a*top + k (only top), returns the least non-negative top making it true
// provided the condition is monotone (true for all larger top) or an equality on a value reached by unit steps.
func guardThreshold(d linarith.Form, op token.Token, top string) (int64, bool) {
	if len(d.Coef) != 1 || d.Coef[top] == nil || !d.Coef[top].IsInt64() || !d.K.IsInt64() {
		return 0, false
	}
	a, k := d.Coef[top].Int64(), d.K.Int64()
	if a != 1 && a != -1 {
		return 0, false
	}
	// a*top + k OP 0
	switch {
	case a == 1:
		switch op {
		case token.EQL, token.GEQ: // top == -k, top >= -k : since top moves by unit steps from 0, == is reached first at -k
			return -k, -k >= 0
		case token.GTR:
			return -k + 1, -k+1 >= 0
		}
	case a == -1:
		// -top + k OP 0  <=> top (flip) k
		switch op {
		case token.EQL, token.LEQ:
			return k, k >= 0
		case token.LSS:
			return k + 1, k+1 >= 0
		}
	}
	return 0, false
}

func (x *extractor) isBuiltin(f ast.Expr, name string) bool {
	id, ok := ast.Unparen(f).(*ast.Ident)
	if !ok {
		return false
	}
	b, ok := x.info.Uses[id].(*types.Builtin)
	return ok && b.Name() == name
}

// isSetErr: err = <package-level error variable>
func (x *extractor) isSetErr(s ast.Stmt) (name string, ok bool) {
	defer func() {
		if ok {
			x.lastSetErr = name
		}
	}()
	return x.isSetErr1(s)
}

func (x *extractor) isSetErr1(s ast.Stmt) (string, bool) {
	as, ok := s.(*ast.AssignStmt)
	if !ok || as.Tok != token.ASSIGN || len(as.Lhs) != 1 || len(as.Rhs) != 1 {
		return "", false
	}
	if x.m.Roles.Err == nil || x.obj(as.Lhs[0]) != x.m.Roles.Err {
		return "", false
	}
	o := x.obj(as.Rhs[0])
	v, ok := o.(*types.Var)
	if !ok || v.Pkg() == nil || v.Parent() != v.Pkg().Scope() || !isErrorType(v.Type()) {
		// err = f(…): an error constructor of the library that never returns nil, given plain integer arguments
		if c, isCall := ast.Unparen(as.Rhs[0]).(*ast.CallExpr); isCall {
			if fn := x.calleeFunc(c); fn != nil && fn.Pkg() == x.m.Pkg.Types && x.neverNilError(fn) {
				for _, a := range c.Args {
					if _, lin := x.lin(a); !lin {
						return "", false
					}
				}
				return fn.Name() + "(…)", true
			}
		}
		return "", false
	}
	return v.Name(), true
}

// neverNilError: fn returns exactly one result, an error, and every return statement returns a value that cannot be
// nil: a call of fmt.Errorf / errors.New, a package-level error variable, a conversion to a non-interface named type,
// or a call of another such function.
func (x *extractor) neverNilError(fn *types.Func) bool {
	sig, ok := fn.Type().(*types.Signature)
	if !ok || sig.Results().Len() != 1 || !isErrorType(sig.Results().At(0).Type()) {
		return false
	}
	var decl *ast.FuncDecl
	for _, f := range x.m.Pkg.Syntax {
		for _, d := range f.Decls {
			if fd, ok := d.(*ast.FuncDecl); ok && x.m.Pkg.TypesInfo.Defs[fd.Name] == fn {
				decl = fd
			}
		}
	}
	if decl == nil || decl.Body == nil {
		return false
	}
	info := x.m.Pkg.TypesInfo
	ok = true
	n := 0
	ast.Inspect(decl.Body, func(nd ast.Node) bool {
		if _, isLit := nd.(*ast.FuncLit); isLit {
			return false
		}
		ret, isRet := nd.(*ast.ReturnStmt)
		if !isRet {
			return true
		}
		n++
		if len(ret.Results) != 1 {
			ok = false
			return true
		}
		e := ast.Unparen(ret.Results[0])
		switch t := e.(type) {
		case *ast.Ident:
			if v, isVar := info.Uses[t].(*types.Var); isVar && v.Pkg() != nil && v.Parent() == v.Pkg().Scope() && isErrorType(v.Type()) {
				return true
			}
		case *ast.CallExpr:
			// conversion to a concrete named type: a non-nil interface value
			if tv, has := info.Types[t.Fun]; has && tv.IsType() {
				if _, isIface := tv.Type.Underlying().(*types.Interface); !isIface {
					if _, isPtr := tv.Type.Underlying().(*types.Pointer); !isPtr {
						return true
					}
				}
			}
			if f := x.calleeFuncIn(info, t); f != nil {
				full := ""
				if f.Pkg() != nil {
					full = f.Pkg().Path() + "." + f.Name()
				}
				if full == "fmt.Errorf" || full == "errors.New" {
					return true
				}
				if f != fn && f.Pkg() == fn.Pkg() && x.neverNilError(f) {
					return true
				}
			}
		case *ast.CompositeLit, *ast.UnaryExpr:
			return true // a struct value or the address of one
		}
		ok = false
		return true
	})
	return ok && n > 0
}

func (x *extractor) calleeFuncIn(info *types.Info, c *ast.CallExpr) *types.Func {
	switch f := ast.Unparen(c.Fun).(type) {
	case *ast.Ident:
		if fn, ok := info.Uses[f].(*types.Func); ok {
			return fn
		}
	case *ast.SelectorExpr:
		if fn, ok := info.Uses[f.Sel].(*types.Func); ok {
			return fn
		}
	}
	return nil
}

// sym names a variable in linear forms.
func (x *extractor) sym(o types.Object) string {
	r := x.m.Roles
	switch o {
	case r.P:
		return "p"
	case r.PE:
		return "pe"
	case r.EOF:
		return "eof"
	case r.Top:
		return "top"
	case r.CS:
		return "cs"
	}
	return "v:" + o.Name()
}

// lin normalises an integer expression to a linear form over role symbols.
func (x *extractor) lin(e ast.Expr) (linarith.Form, bool) {
	e = ast.Unparen(e)
	if c, ok := x.constInt(e); ok {
		return linarith.Const(c), true
	}
	switch e := e.(type) {
	case *ast.Ident:
		o := x.obj(e)
		if al, ok := x.aliases[o]; ok && o != nil {
			return x.lin(al)
		}
		if v, ok := o.(*types.Var); ok {
			if b, ok := v.Type().Underlying().(*types.Basic); ok && b.Info()&types.IsInteger != 0 {
				return linarith.Var(x.sym(v)), true
			}
		}
	case *ast.BinaryExpr:
		l, lok := x.lin(e.X)
		r, rok := x.lin(e.Y)
		if lok && rok {
			switch e.Op {
			case token.ADD:
				return l.Add(r), true
			case token.SUB:
				return l.Sub(r), true
			case token.MUL:
				if l.IsConst() && l.K.IsInt64() {
					return r.Scale(l.K.Int64()), true
				}
				if r.IsConst() && r.K.IsInt64() {
					return l.Scale(r.K.Int64()), true
				}
			}
		}
	case *ast.UnaryExpr:
		if e.Op == token.SUB {
			if f, ok := x.lin(e.X); ok {
				return f.Neg(), true
			}
		}
	case *ast.CallExpr:
		if x.isBuiltin(e.Fun, "len") && len(e.Args) == 1 {
			if o := x.obj(e.Args[0]); o != nil {
				if o == x.m.Roles.Stack {
					return linarith.Var("len(stack)"), true
				}
				if o == x.m.Roles.Data {
					return linarith.Var("len(data)"), true
				}
				return linarith.Var("len(" + o.Name() + ")"), true
			}
		}
	}
	return linarith.Form{}, false
}

// parseAssign recognises the assignment-led primitives; returns statements consumed.
func (x *extractor) parseAssign(stmts []ast.Stmt, key string, es errState) (int, *lts.Prim, errState, bool) {
	r := x.m.Roles
	as := stmts[0].(*ast.AssignStmt)
	fail := func(format string, args ...interface{}) (int, *lts.Prim, errState, bool) {
		x.problem(as.Pos(), key, format, args...)
		return 0, nil, es, false
	}
	// err = sentinel
	if name, ok := x.isSetErr(as); ok {
		_ = name
		return 1, nil, errSet, true
	}
	if as.Tok != token.ASSIGN {
		return fail("unexpected assignment operator %s inside an action", as.Tok)
	}
	if len(as.Lhs) == 1 && len(as.Rhs) == 1 {
		lo := x.obj(as.Lhs[0])
		if lo == nil {
			return fail("assignment to a non-variable inside an action")
		}
		// MARK: v = p
		if x.obj(as.Rhs[0]) == r.P && lo != r.P && lo != r.PE && lo != r.EOF && lo != r.CS && lo != r.Top {
			if v, ok := lo.(*types.Var); ok && v.Parent() != v.Pkg().Scope() {
				x.m.Marks[v.Name()] = v
				return 1, &lts.Prim{Kind: "MARK", Arg: v.Name(), Ref: -1}, es, true
			}
		}
		// SETVAL: v = true/false
		if tv, ok := x.info.Types[as.Rhs[0]]; ok && tv.Value != nil && tv.Value.Kind() == 1 /* constant.Bool */ {
			if v, ok := lo.(*types.Var); ok && v.Parent() != v.Pkg().Scope() {
				if x.m.ValVar != "" && x.m.ValVar != v.Name() {
					return fail("literal actions assign more than one variable")
				}
				x.m.ValVar = v.Name()
				return 1, &lts.Prim{Kind: "SETVAL", Arg: tv.Value.String(), Ref: -1}, es, true
			}
		}
		// EMIT: dst = append(dst, …)
		if c, ok := ast.Unparen(as.Rhs[0]).(*ast.CallExpr); ok && x.isBuiltin(c.Fun, "append") && len(c.Args) == 2 && x.obj(c.Args[0]) == lo {
			if _, isSlice := lo.Type().Underlying().(*types.Slice); isSlice && lo != r.Stack && lo != r.Data {
				if !c.Ellipsis.IsValid() {
					if v, ok := x.constInt(c.Args[1]); ok && v >= 0 && v <= 255 {
						return 1, &lts.Prim{Kind: "EMIT_CONST", Arg: fmt.Sprintf("0x%02x", v), Ref: -1}, es, true
					}
				} else if se, ok := ast.Unparen(c.Args[1]).(*ast.SliceExpr); ok && x.obj(se.X) == r.Data && se.Low != nil && se.High != nil && se.Max == nil {
					lov := x.obj(se.Low)
					if lov != nil && x.obj(se.High) == r.P {
						if _, isMark := x.m.Marks[lov.Name()]; isMark || true {
							return 1, &lts.Prim{Kind: "EMIT_SEG", Arg: lov.Name(), Ref: -1}, es, true
						}
					}
				}
			}
		}
		return fail("unrecognised assignment inside an action")
	}
	// multi-value: call results
	if len(as.Rhs) != 1 {
		return fail("unexpected tuple assignment inside an action")
	}
	call, ok := ast.Unparen(as.Rhs[0]).(*ast.CallExpr)
	if !ok {
		return fail("unexpected tuple assignment inside an action")
	}
	fn := x.calleeFunc(call)
	if fn == nil {
		return fail("call of an unresolved function inside an action")
	}
	sig := fn.Type().(*types.Signature)
	// handler call: interface method
	if sig.Recv() != nil && types.IsInterface(sig.Recv().Type()) {
		return x.parseHandler(stmts, as, call, fn, key, es)
	}
	if fn.Pkg() != x.m.Pkg.Types {
		return fail("call of %s inside an action is outside the model", fn.FullName())
	}
	// SPLICE: p, err = helper(data, p+1, pe); if err != nil { BREAK }
	if len(as.Lhs) == 2 && x.obj(as.Lhs[0]) == r.P && r.Err != nil && x.obj(as.Lhs[1]) == r.Err && len(call.Args) == 3 {
		site := &SpliceSite{Label: x.curLabel, Pos: as.Pos(), Helper: fn}
		site.DataIsData = x.obj(call.Args[0]) == r.Data
		st, ok := x.lin(call.Args[1])
		if !ok {
			return fail("splice start argument is not linear in the cursor")
		}
		site.Start = st
		site.EndIsPE = x.obj(call.Args[2]) == r.PE
		if len(stmts) < 2 {
			return fail("splice call is not followed by its error test")
		}
		ifs, ok := stmts[1].(*ast.IfStmt)
		if !ok || ifs.Init != nil || ifs.Else != nil || !x.isErrNotNil(ifs.Cond, r.Err) || len(ifs.Body.List) != 1 {
			return fail("splice call is not followed by `if err != nil { break }`")
		}
		bb, ok := ifs.Body.List[0].(*ast.BlockStmt)
		if !ok {
			return fail("splice error branch is not a break block")
		}
		if _, ok := x.parseBreak(bb); !ok {
			return fail("splice error branch is not a break block")
		}
		x.m.Splices = append(x.m.Splices, site)
		return 2, &lts.Prim{Kind: "SPLICE", Arg: fn.Name(), Ref: len(x.m.Splices) - 1}, es, true
	}
	// UNESC_U: dst, n, ok = helper(data[seg:], dst); if !ok { return …sentinel }; if n > c { p += n - c }
	if len(as.Lhs) == 3 && len(call.Args) == 2 {
		site := &UnescSite{Label: x.curLabel, Pos: as.Pos(), Helper: fn}
		dst := x.obj(as.Lhs[0])
		nvar := x.obj(as.Lhs[1])
		okv := x.obj(as.Lhs[2])
		se, isSl := ast.Unparen(call.Args[0]).(*ast.SliceExpr)
		if dst == nil || nvar == nil || okv == nil || !isSl || x.obj(se.X) != r.Data || se.High != nil || se.Low == nil || x.obj(call.Args[1]) != dst {
			return fail("unrecognised three-result call inside an action")
		}
		seg := x.obj(se.Low)
		if seg == nil {
			return fail("\\u helper is not given data[<mark>:]")
		}
		site.SegSym = seg.Name()
		if len(stmts) < 3 {
			return fail("\\u helper call is not followed by its ok test and skip")
		}
		// if !ok { return …, sentinel }
		if1, ok1 := stmts[1].(*ast.IfStmt)
		if !ok1 || if1.Init != nil || if1.Else != nil || len(if1.Body.List) != 1 {
			return fail("\\u helper call is not followed by `if !ok { return … }`")
		}
		un, isNot := ast.Unparen(if1.Cond).(*ast.UnaryExpr)
		if !isNot || un.Op != token.NOT || x.obj(un.X) != okv {
			return fail("\\u helper call is not followed by `if !ok { return … }`")
		}
		rs, isRet := if1.Body.List[0].(*ast.ReturnStmt)
		if !isRet {
			return fail("\\u helper failure branch does not return")
		}
		if _, ok := x.returnErr(rs); !ok {
			return fail("\\u helper failure branch does not return a non-nil error")
		}
		// if n > c { p += n - c }
		if2, ok2 := stmts[2].(*ast.IfStmt)
		if !ok2 || if2.Init != nil || if2.Else != nil || len(if2.Body.List) != 1 {
			return fail("\\u helper call is not followed by the conditional skip")
		}
		be, isBe := ast.Unparen(if2.Cond).(*ast.BinaryExpr)
		if !isBe || be.Op != token.GTR || x.obj(be.X) != nvar {
			return fail("\\u skip condition is not `n > c`")
		}
		c, okc := x.constInt(be.Y)
		if !okc {
			return fail("\\u skip condition is not `n > c`")
		}
		pa, isAs := if2.Body.List[0].(*ast.AssignStmt)
		if !isAs || len(pa.Lhs) != 1 || x.obj(pa.Lhs[0]) != r.P {
			return fail("\\u skip does not assign the cursor")
		}
		var delta linarith.Form
		var okd bool
		switch pa.Tok {
		case token.ADD_ASSIGN:
			delta, okd = x.lin(pa.Rhs[0])
		case token.ASSIGN:
			var f linarith.Form
			f, okd = x.lin(pa.Rhs[0])
			if okd {
				delta = f.Sub(linarith.Var("p"))
			}
		}
		want := linarith.Var("v:" + nvar.Name()).AddK(-c)
		if !okd || !delta.Equal(want) {
			return fail("\\u skip is not `p += n - %d`", c)
		}
		site.SkipBase = c
		site.OK = true
		x.m.Unescs = append(x.m.Unescs, site)
		return 3, &lts.Prim{Kind: "UNESC_U", Arg: seg.Name(), Ref: len(x.m.Unescs) - 1}, es, true
	}
	return fail("call of %s inside an action is outside the model", fn.Name())
}

func (x *extractor) isErrNotNil(e ast.Expr, errv types.Object) bool {
	be, ok := ast.Unparen(e).(*ast.BinaryExpr)
	if !ok || be.Op != token.NEQ {
		return false
	}
	isNil := func(e ast.Expr) bool {
		id, ok := ast.Unparen(e).(*ast.Ident)
		if !ok {
			return false
		}
		_, isNil := x.info.Uses[id].(*types.Nil)
		return isNil
	}
	return (x.obj(be.X) == errv && isNil(be.Y)) || (x.obj(be.Y) == errv && isNil(be.X))
}

// parseHandler: pp, err = handler.M(…); if err != nil { return …, err }; [sanitising steps]
func (x *extractor) parseHandler(stmts []ast.Stmt, as *ast.AssignStmt, call *ast.CallExpr, fn *types.Func, key string, es errState) (int, *lts.Prim, errState, bool) {
	r := x.m.Roles
	fail := func(pos token.Pos, format string, args ...interface{}) (int, *lts.Prim, errState, bool) {
		x.problem(pos, key, format, args...)
		return 0, nil, es, false
	}
	if len(as.Lhs) != 2 || r.Err == nil || x.obj(as.Lhs[1]) != r.Err {
		return fail(as.Pos(), "handler call does not assign (offset, err)")
	}
	site := &HandlerSite{Label: x.curLabel, Pos: as.Pos(), Method: fn, Call: call}
	if id, ok := as.Lhs[0].(*ast.Ident); ok && id.Name == "_" {
		site.Full = false
	} else {
		site.Full = true
		site.PP = x.obj(as.Lhs[0])
		if site.PP == nil || site.PP == r.P {
			return fail(as.Pos(), "handler offset is assigned to an unexpected variable")
		}
	}
	// receiver must be a parameter of interface type
	if sel, ok := ast.Unparen(call.Fun).(*ast.SelectorExpr); ok {
		ro := x.obj(sel.X)
		if ro == nil || !types.IsInterface(ro.Type()) {
			return fail(as.Pos(), "handler receiver is not an interface-typed variable")
		}
	}
	// last argument: data[p:]
	if len(call.Args) == 0 {
		return fail(as.Pos(), "handler call without arguments")
	}
	da, ok := ast.Unparen(call.Args[len(call.Args)-1]).(*ast.SliceExpr)
	if !ok || x.obj(da.X) != r.Data || x.obj(da.Low) != r.P || da.High != nil || da.Max != nil {
		return fail(as.Pos(), "handler is not given data[p:] (the slice starting at the byte under the cursor)")
	}
	if len(call.Args) == 2 {
		ka, ok := ast.Unparen(call.Args[0]).(*ast.SliceExpr)
		if !ok || x.obj(ka.X) != r.Data || ka.Low == nil || ka.High == nil || ka.Max != nil {
			return fail(as.Pos(), "handler key argument is not data[lo:hi]")
		}
		lo, lok := x.lin(ka.Low)
		hi, hok := x.lin(ka.High)
		if !lok || !hok || len(lo.Coef) != 1 || len(hi.Coef) != 1 {
			return fail(as.Pos(), "handler key bounds are not <mark>+c")
		}
		site.KeyLo, site.KeyHi = &lo, &hi
		for s := range lo.Coef {
			site.KeyLoSym = s
		}
		for s := range hi.Coef {
			site.KeyHiSym = s
		}
	} else if len(call.Args) != 1 {
		return fail(as.Pos(), "handler call with %d arguments", len(call.Args))
	}
	// if err != nil { return …, err }
	if len(stmts) < 2 {
		return fail(as.Pos(), "handler call is not followed by its error test")
	}
	ifs, ok := stmts[1].(*ast.IfStmt)
	if !ok || ifs.Init != nil || ifs.Else != nil || !x.isErrNotNil(ifs.Cond, r.Err) || len(ifs.Body.List) != 1 {
		return fail(stmts[1].Pos(), "handler call is not immediately followed by `if err != nil { return …, err }`")
	}
	rs, ok := ifs.Body.List[0].(*ast.ReturnStmt)
	if !ok || len(rs.Results) == 0 || x.obj(rs.Results[len(rs.Results)-1]) != r.Err {
		return fail(stmts[1].Pos(), "the handler's error is not returned as is")
	}
	site.ErrRetOK = true
	n := 2
	if site.Full {
		// sanitising steps: if-statements over pp until something else
		for n < len(stmts) {
			ifs, ok := stmts[n].(*ast.IfStmt)
			if !ok {
				break
			}
			st, ok := x.parseStep(ifs, site.PP, key)
			if !ok {
				return 0, nil, es, false
			}
			site.Steps = append(site.Steps, st)
			site.StepsAST = append(site.StepsAST, ifs)
			n++
		}
	}
	x.m.Handlers = append(x.m.Handlers, site)
	kind := "HANDLER_SIMPLE"
	if site.Full {
		kind = "HANDLER_FULL"
	}
	return n, &lts.Prim{Kind: kind, Arg: fn.Name(), Ref: len(x.m.Handlers) - 1}, es, true
}

func (x *extractor) parseStep(ifs *ast.IfStmt, pp types.Object, key string) (Step, bool) {
	r := x.m.Roles
	if ifs.Init != nil || ifs.Else != nil {
		x.problem(ifs.Pos(), key, "offset-sanitising if has init/else")
		return Step{}, false
	}
	be, ok := ast.Unparen(ifs.Cond).(*ast.BinaryExpr)
	if !ok {
		x.problem(ifs.Pos(), key, "offset-sanitising condition is not a comparison")
		return Step{}, false
	}
	switch be.Op {
	case token.EQL, token.NEQ, token.LSS, token.LEQ, token.GTR, token.GEQ:
	default:
		x.problem(ifs.Pos(), key, "offset-sanitising condition is not a comparison")
		return Step{}, false
	}
	if _, ok := x.lin(be.X); !ok {
		x.problem(ifs.Pos(), key, "offset-sanitising condition is not linear")
		return Step{}, false
	}
	if _, ok := x.lin(be.Y); !ok {
		x.problem(ifs.Pos(), key, "offset-sanitising condition is not linear")
		return Step{}, false
	}
	st := Step{Kind: "if", Cond: &Cond{Op: be.Op, L: be.X, R: be.Y}, Pos: ifs.Pos()}
	body := ifs.Body.List
	i := 0
	for i < len(body) {
		switch s := body[i].(type) {
		case *ast.IfStmt:
			sub, ok := x.parseStep(s, pp, key)
			if !ok {
				return Step{}, false
			}
			st.Body = append(st.Body, sub)
			i++
		case *ast.AssignStmt:
			if _, ok := x.isSetErr(s); ok {
				// must be followed by BREAK
				if i+1 >= len(body) {
					x.problem(s.Pos(), key, "error set without leaving the machine")
					return Step{}, false
				}
				bb, ok := body[i+1].(*ast.BlockStmt)
				if !ok {
					x.problem(s.Pos(), key, "error set without leaving the machine")
					return Step{}, false
				}
				if _, ok := x.parseBreak(bb); !ok {
					x.problem(s.Pos(), key, "error set without leaving the machine")
					return Step{}, false
				}
				st.Body = append(st.Body, Step{Kind: "errexit", Pos: s.Pos()})
				i += 2
				// anything after is dead
				i = len(body)
				continue
			}
			if len(s.Lhs) == 1 && len(s.Rhs) == 1 && s.Tok == token.ASSIGN && x.obj(s.Lhs[0]) == r.P {
				if _, ok := x.lin(s.Rhs[0]); !ok {
					x.problem(s.Pos(), key, "cursor is assigned a non-linear expression")
					return Step{}, false
				}
				st.Body = append(st.Body, Step{Kind: "assignp", Expr: s.Rhs[0], Pos: s.Pos()})
				i++
				continue
			}
			x.problem(s.Pos(), key, "unexpected assignment in the offset-sanitising code")
			return Step{}, false
		case *ast.EmptyStmt:
			i++
		default:
			x.problem(s.Pos(), key, "unexpected statement %T in the offset-sanitising code", s)
			return Step{}, false
		}
	}
	return st, true
}

// unsafeIndex finds an element read data[...] in stmt that is not provably in range:
// at end of input any data[i]; elsewhere anything but data[p].
func (x *extractor) unsafeIndex(stmt ast.Stmt, atEOF bool) ast.Node {
	var bad ast.Node
	ast.Inspect(stmt, func(n ast.Node) bool {
		if bad != nil {
			return false
		}
		ie, ok := n.(*ast.IndexExpr)
		if !ok {
			return true
		}
		if x.obj(ie.X) != x.m.Roles.Data {
			return true
		}
		if atEOF || x.obj(ie.Index) != x.m.Roles.P {
			bad = ie
			return false
		}
		return true
	})
	return bad
}

// errVarName: what the error variable holds at an exit that returns it: the sentinel (or constructor call) assigned
// last in this action, when there was one.
func (x *extractor) errVarName(ok bool) string {
	if !ok && x.lastSetErr != "" {
		return "err variable = " + x.lastSetErr
	}
	return "err variable"
}
