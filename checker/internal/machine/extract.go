// Package machine is engine E1: it reads a Ragel -G2 generated Go function as an exact labelled
// transition system. States are the st_case_N labels; the transition function is obtained by a value-set
// analysis of data[p] over the statements following each label; the embedded actions (trN blocks and the
// end-of-input switch) are summarised into primitives. Anything outside the recognised vocabulary is
// recorded as a Problem (fail-closed).
package machine

import (
	"fmt"
	"go/ast"
	"go/constant"
	"go/token"
	"go/types"
	"regexp"
	"sort"
	"strconv"
	"strings"

	"golang.org/x/tools/go/packages"

	"rjverif/internal/core"
	"rjverif/internal/linarith"
	"rjverif/internal/lts"
)

// Problem is a construct the extractor cannot judge.
type Problem struct {
	Key string
	Pos token.Pos
	Msg string
}

// Roles are the variables of a machine function identified by how they are used.
type Roles struct {
	Data  types.Object // []byte parameter indexed by the cursor
	P     types.Object // cursor
	PE    types.Object // end compared with the cursor in state headers
	EOF   types.Object // end compared in the end-of-input block
	CS    types.Object // current state
	Top   types.Object // stack depth (nil if no stack)
	Stack types.Object // []int parameter (nil if no stack)
	Err   types.Object // error variable (nil if none)
}

// HandlerSite is one call of a handler interface method inside an action.
type HandlerSite struct {
	Label    string // trN
	Pos      token.Pos
	Full     bool // result offset kept (HANDLER_FULL) or discarded (HANDLER_SIMPLE)
	Method   *types.Func
	Call     *ast.CallExpr
	PP       types.Object   // variable receiving the offset (Full only)
	ErrRetOK bool           // `if err != nil { return …, err }` follows immediately, returning the call's own error variable
	KeyLo    *linarith.Form // object machines: lower/upper bound of the key slice data[lo:hi]
	KeyHi    *linarith.Form
	KeyLoSym string // name of the mark variable in KeyLo
	KeyHiSym string
	Steps    []Step // HANDLER_FULL: statements after the error check up to the terminator
	State    int    // state whose first byte triggers the call (filled by the LTS builder)
	StepsAST []ast.Stmt
}

// Step is one statement of the offset-sanitising code after a HANDLER_FULL call.
type Step struct {
	Kind string // "errexit" (set err and leave), "assignp" (cursor assignment), "if"
	Cond *Cond
	Body []Step
	Expr ast.Expr // assignp: the assigned expression
	Pos  token.Pos
}

// Cond is a comparison of two integer expressions.
type Cond struct {
	Op   token.Token
	L, R ast.Expr
}

// FCallSite is one push (fcall).
type FCallSite struct {
	Label     string
	Pos       token.Pos
	Limit     int64 // depth limit constant K (0 if no guard)
	LimitForm *linarith.Form
	LimitOp   token.Token
	HasLimit  bool
	GrowCond  *Cond
	GrowSize  ast.Expr
	StoreIdx  ast.Expr
	Ret       int
	Entry     int
	TopInc    bool
}

// SpliceSite is a call of a hand-written number-tail scanner.
type SpliceSite struct {
	Label      string
	Pos        token.Pos
	Helper     *types.Func
	Start      linarith.Form // start argument as a form over the cursor ("p")
	EndIsPE    bool
	DataIsData bool
	To         int
}

// UnescSite is a call of the \u helper.
type UnescSite struct {
	Label    string
	Pos      token.Pos
	Helper   *types.Func
	SegSym   string // mark variable whose position starts the slice passed
	SkipBase int64  // the constant c in `if n > c { p += n - c }`
	OK       bool   // full expected shape found
}

// Machine is one extracted function.
type Machine struct {
	Name     string
	Pkg      *packages.Package
	Decl     *ast.FuncDecl
	Roles    Roles
	LTS      *lts.LTS
	Handlers []*HandlerSite
	FCalls   []*FCallSite
	FRets    []token.Pos
	Splices  []*SpliceSite
	Unescs   []*UnescSite
	Problems []Problem
	PreGrow  *ast.CallExpr // destination pre-growth call in the prologue, if any
	Returns  string        // shape of the final return
	Marks    map[string]types.Object
	ValVar   string // variable assigned by SETVAL actions
	w        *core.World
	x        *extractor
}

var (
	reSt     = regexp.MustCompile(`^st(\d+)$`)
	reStCase = regexp.MustCompile(`^st_case_(\d+)$`)
	reTr     = regexp.MustCompile(`^tr(\d+)$`)
	reTEOF   = regexp.MustCompile(`^_test_eof(\d+)$`)
)

// IsMachine reports whether fd looks like a -G2 generated machine.
func IsMachine(fd *ast.FuncDecl) bool {
	if fd.Body == nil {
		return false
	}
	found := false
	ast.Inspect(fd.Body, func(n ast.Node) bool {
		if l, ok := n.(*ast.LabeledStmt); ok && reStCase.MatchString(l.Label.Name) {
			found = true
		}
		return !found
	})
	return found
}

// ExtractAll extracts every machine of the root package.
func ExtractAll(w *core.World) []*Machine {
	var out []*Machine
	for _, pkg := range w.Pkgs() {
		for _, f := range pkg.Syntax {
			for _, d := range f.Decls {
				if fd, ok := d.(*ast.FuncDecl); ok && IsMachine(fd) {
					out = append(out, Extract(w, pkg, fd))
				}
			}
		}
	}
	sort.Slice(out, func(i, j int) bool { return out[i].Name < out[j].Name })
	return out
}

type extractor struct {
	m          *Machine
	info       *types.Info
	flat       []ast.Stmt
	labelAt    map[string]int // label -> index into flat
	isLabel    map[int][]string
	trCache    map[string]*action
	eofCases   map[int]*action
	start      int
	curLabel   string
	aliases    map[types.Object]ast.Expr // if-scoped locals standing for an expression (if n := len(stack); …)
	lastSetErr string
}

// action is a parsed trN body / EOF clause.
type action struct {
	prims []lts.Prim
	term  lts.Term
	pos   token.Pos
}

func (x *extractor) problem(pos token.Pos, key, format string, args ...interface{}) {
	x.m.Problems = append(x.m.Problems, Problem{Key: x.m.Name + ":" + key, Pos: pos, Msg: fmt.Sprintf(format, args...)})
}

// Extract reads one machine function.
func Extract(w *core.World, pkg *packages.Package, fd *ast.FuncDecl) *Machine {
	m := &Machine{Name: fd.Name.Name, Pkg: pkg, Decl: fd, w: w, Marks: map[string]types.Object{}}
	m.LTS = lts.New(fd.Name.Name)
	x := &extractor{m: m, info: pkg.TypesInfo, labelAt: map[string]int{}, isLabel: map[int][]string{}, trCache: map[string]*action{}, eofCases: map[int]*action{}}
	m.x = x
	x.run()
	return m
}

func (x *extractor) obj(e ast.Expr) types.Object {
	e = ast.Unparen(e)
	if id, ok := e.(*ast.Ident); ok {
		if o := x.info.Uses[id]; o != nil {
			return o
		}
		return x.info.Defs[id]
	}
	return nil
}

func (x *extractor) constInt(e ast.Expr) (int64, bool) {
	tv, ok := x.info.Types[e]
	if !ok || tv.Value == nil {
		return 0, false
	}
	v := constant.ToInt(tv.Value)
	if v.Kind() != constant.Int {
		return 0, false
	}
	i, exact := constant.Int64Val(v)
	return i, exact
}

func (x *extractor) run() {
	fd := x.m.Decl
	body := fd.Body.List
	// locate the exec block: the block statement that contains st_case labels
	execIdx := -1
	for i, s := range body {
		if b, ok := s.(*ast.BlockStmt); ok {
			for _, t := range b.List {
				if l, ok := t.(*ast.LabeledStmt); ok {
					_ = l
					execIdx = i
					break
				}
			}
		}
	}
	if execIdx < 0 {
		x.problem(fd.Pos(), "exec", "no exec block with labels found")
		return
	}
	exec := body[execIdx].(*ast.BlockStmt)
	x.flatten(exec.List)
	if !x.findRoles(exec) {
		return
	}
	x.checkPrologue(body[:execIdx])
	x.checkEpilogue(body[execIdx+1:])
	x.checkScaffold(exec)
	x.parseEOF()
	// states
	var ids []int
	for name := range x.labelAt {
		if mm := reStCase.FindStringSubmatch(name); mm != nil {
			n, _ := strconv.Atoi(mm[1])
			if n != 0 {
				ids = append(ids, n)
			}
		}
	}
	sort.Ints(ids)
	for _, id := range ids {
		x.buildState(id)
	}
	x.m.LTS.Start = x.start
}

func (x *extractor) flatten(list []ast.Stmt) {
	for _, s := range list {
		for {
			l, ok := s.(*ast.LabeledStmt)
			if !ok {
				break
			}
			if _, dup := x.labelAt[l.Label.Name]; dup {
				x.problem(l.Pos(), "label:"+l.Label.Name, "duplicate label")
			}
			x.labelAt[l.Label.Name] = len(x.flat)
			x.isLabel[len(x.flat)] = append(x.isLabel[len(x.flat)], l.Label.Name)
			s = l.Stmt
		}
		x.flat = append(x.flat, s)
	}
}

// findRoles identifies cursor, end, data from the first state header `if p++; p == pe { goto … }`
// and the first `data[p]` read, cs from the end-of-input switch, etc.
func (x *extractor) findRoles(exec *ast.BlockStmt) bool {
	r := &x.m.Roles
	for _, s := range x.flat {
		ifs, ok := s.(*ast.IfStmt)
		if !ok || ifs.Init == nil {
			continue
		}
		inc, ok := ifs.Init.(*ast.IncDecStmt)
		if !ok || inc.Tok != token.INC {
			continue
		}
		be, ok := ifs.Cond.(*ast.BinaryExpr)
		if !ok || be.Op != token.EQL {
			continue
		}
		p := x.obj(inc.X)
		if p == nil || x.obj(be.X) != p {
			continue
		}
		r.P = p
		r.PE = x.obj(be.Y)
		break
	}
	if r.P == nil || r.PE == nil {
		x.problem(exec.Pos(), "roles", "cannot identify cursor/end variables from a state header")
		return false
	}
	// data: the slice indexed by the cursor in a switch tag or comparison
	ast.Inspect(exec, func(n ast.Node) bool {
		if r.Data != nil {
			return false
		}
		if ie, ok := n.(*ast.IndexExpr); ok && x.obj(ie.Index) == r.P {
			if o := x.obj(ie.X); o != nil {
				if sl, ok := o.Type().Underlying().(*types.Slice); ok {
					if b, ok := sl.Elem().Underlying().(*types.Basic); ok && b.Kind() == types.Uint8 {
						r.Data = o
					}
				}
			}
		}
		return true
	})
	if r.Data == nil {
		x.problem(exec.Pos(), "roles", "cannot identify the data slice")
		return false
	}
	// must be a parameter
	isParam := false
	sig := x.info.Defs[x.m.Decl.Name].Type().(*types.Signature)
	for i := 0; i < sig.Params().Len(); i++ {
		pv := sig.Params().At(i)
		if pv == r.Data {
			isParam = true
		}
		if sl, ok := pv.Type().Underlying().(*types.Slice); ok {
			if b, ok := sl.Elem().Underlying().(*types.Basic); ok && b.Kind() == types.Int {
				r.Stack = pv
			}
		}
	}
	if !isParam {
		x.problem(exec.Pos(), "roles", "data slice is not a parameter")
	}
	// error variable: a local of type error
	ast.Inspect(x.m.Decl.Body, func(n ast.Node) bool {
		if id, ok := n.(*ast.Ident); ok {
			if o := x.info.Defs[id]; o != nil {
				if v, ok := o.(*types.Var); ok && types.Identical(v.Type(), types.Universe.Lookup("error").Type()) && r.Err == nil {
					r.Err = v
				}
			}
		}
		return true
	})
	// eof + cs from the `_test_eof` block: if p == eof { switch cs {…} }
	if idx, ok := x.labelAt["_test_eof"]; ok {
		for i := idx; i < len(x.flat) && i < idx+3; i++ {
			if ifs, ok := x.flat[i].(*ast.IfStmt); ok && ifs.Init == nil {
				if be, ok := ifs.Cond.(*ast.BinaryExpr); ok && be.Op == token.EQL && x.obj(be.X) == r.P {
					r.EOF = x.obj(be.Y)
					if len(ifs.Body.List) == 1 {
						if sw, ok := ifs.Body.List[0].(*ast.SwitchStmt); ok && sw.Tag != nil {
							r.CS = x.obj(sw.Tag)
						}
					}
				}
			}
		}
	}
	if r.EOF == nil || r.CS == nil {
		x.problem(exec.Pos(), "roles", "cannot identify eof/cs from the end-of-input block")
		return false
	}
	if r.Stack != nil {
		// top: the int variable used as stack index in an assignment stack[top] = N
		ast.Inspect(exec, func(n ast.Node) bool {
			if as, ok := n.(*ast.AssignStmt); ok && len(as.Lhs) == 1 {
				if ie, ok := as.Lhs[0].(*ast.IndexExpr); ok && x.obj(ie.X) == r.Stack {
					if o := x.obj(ie.Index); o != nil && r.Top == nil {
						r.Top = o
					}
				}
			}
			return true
		})
		if r.Top == nil {
			x.problem(exec.Pos(), "roles", "stack parameter present but no stack[top] store found")
		}
	}
	return true
}

func (x *extractor) isLenOf(e ast.Expr, o types.Object) bool {
	c, ok := ast.Unparen(e).(*ast.CallExpr)
	if !ok || len(c.Args) != 1 {
		return false
	}
	id, ok := c.Fun.(*ast.Ident)
	if !ok {
		return false
	}
	if b, ok := x.info.Uses[id].(*types.Builtin); !ok || b.Name() != "len" {
		return false
	}
	return x.obj(c.Args[0]) == o
}

// checkPrologue interprets the statements before the exec block.
func (x *extractor) checkPrologue(stmts []ast.Stmt) {
	r := x.m.Roles
	init := map[types.Object]string{} // "0", "len", "const:<n>", "zero"
	setVar := func(lhs ast.Expr, rhs ast.Expr, pos token.Pos) {
		o := x.obj(lhs)
		if o == nil {
			x.problem(pos, "prologue", "assignment to a non-variable before the machine")
			return
		}
		switch {
		case rhs == nil:
			init[o] = "zero"
		case x.isLenOf(rhs, r.Data):
			init[o] = "len"
		case x.obj(rhs) != nil && init[x.obj(rhs)] != "" && init[x.obj(rhs)] != "pregrow":
			// copy of a variable initialised just before (eof := pe)
			init[o] = init[x.obj(rhs)]
		default:
			if v, ok := x.constInt(rhs); ok {
				init[o] = fmt.Sprintf("const:%d", v)
			} else if c, ok := ast.Unparen(rhs).(*ast.CallExpr); ok && o.Name() != "" {
				// destination pre-growth: dst = f(dst, …) where f is a package function
				if fn := x.calleeFunc(c); fn != nil && len(c.Args) >= 1 && x.obj(c.Args[0]) == o {
					if x.m.PreGrow != nil {
						x.problem(pos, "prologue", "more than one pre-growth call")
					}
					x.m.PreGrow = c
					init[o] = "pregrow"
				} else {
					x.problem(pos, "prologue:"+o.Name(), "unrecognised initialiser before the machine")
				}
			} else {
				x.problem(pos, "prologue:"+o.Name(), "unrecognised initialiser before the machine")
			}
		}
	}
	var walk func(s ast.Stmt)
	walk = func(s ast.Stmt) {
		switch s := s.(type) {
		case *ast.DeclStmt:
			gd := s.Decl.(*ast.GenDecl)
			if gd.Tok == token.CONST {
				return
			}
			if gd.Tok != token.VAR {
				x.problem(s.Pos(), "prologue", "unexpected declaration")
				return
			}
			for _, sp := range gd.Specs {
				vs := sp.(*ast.ValueSpec)
				for i, n := range vs.Names {
					if len(vs.Values) > i {
						setVar(n, vs.Values[i], s.Pos())
					} else {
						setVar(n, nil, s.Pos())
					}
				}
			}
		case *ast.AssignStmt:
			if len(s.Lhs) != len(s.Rhs) {
				x.problem(s.Pos(), "prologue", "unexpected multi-value assignment before the machine")
				return
			}
			for i := range s.Lhs {
				setVar(s.Lhs[i], s.Rhs[i], s.Pos())
			}
		case *ast.BlockStmt:
			for _, t := range s.List {
				walk(t)
			}
		case *ast.EmptyStmt:
		default:
			x.problem(s.Pos(), "prologue", "unexpected statement before the machine")
		}
	}
	for _, s := range stmts {
		walk(s)
	}
	want := func(o types.Object, role string, pred func(v string) bool, desc string) {
		if o == nil {
			return
		}
		v, ok := init[o]
		if !ok || !pred(v) {
			x.problem(x.m.Decl.Pos(), "prologue:"+role, "%s must be initialised to %s before the first dispatch (found %q)", role, desc, v)
		}
	}
	isZero := func(v string) bool { return v == "zero" || v == "const:0" }
	want(r.P, "cursor", isZero, "0")
	want(r.PE, "pe", func(v string) bool { return v == "len" }, "len(data)")
	want(r.EOF, "eof", func(v string) bool { return v == "len" }, "len(data)")
	want(r.Top, "top", isZero, "0")
	if r.Err != nil {
		want(r.Err, "err", func(v string) bool { return v == "zero" }, "nil")
	}
	// cs = <start state>
	if v, ok := init[r.CS]; ok && len(v) > 6 && v[:6] == "const:" {
		n, _ := strconv.Atoi(v[6:])
		x.start = n
	} else {
		x.problem(x.m.Decl.Pos(), "prologue:cs", "cs is not initialised to a constant start state")
	}
	// every other initialised variable must be zero-initialised (marks, pp, val, ok, …) or the pre-growth
	for o, v := range init {
		if o == r.P || o == r.PE || o == r.EOF || o == r.Top || o == r.CS || o == r.Err {
			continue
		}
		if v == "zero" || v == "const:0" || v == "pregrow" {
			continue
		}
		x.problem(o.Pos(), "prologue:"+o.Name(), "local %s has a non-zero initial value %q the model does not account for", o.Name(), v)
	}
}

func (x *extractor) calleeFunc(c *ast.CallExpr) *types.Func {
	switch f := ast.Unparen(c.Fun).(type) {
	case *ast.Ident:
		if fn, ok := x.info.Uses[f].(*types.Func); ok {
			return fn
		}
	case *ast.SelectorExpr:
		if sel := x.info.Selections[f]; sel != nil {
			if fn, ok := sel.Obj().(*types.Func); ok {
				return fn
			}
		}
		if fn, ok := x.info.Uses[f.Sel].(*types.Func); ok {
			return fn
		}
	}
	return nil
}

// checkEpilogue: after the exec block the function returns the cursor itself, plus stack/err/dst/val.
func (x *extractor) checkEpilogue(stmts []ast.Stmt) {
	r := x.m.Roles
	// leading `if err != nil { return …, err }` guards: the same results the final return would give when err is set
	guarded := false
	for len(stmts) > 1 {
		ifs, ok := stmts[0].(*ast.IfStmt)
		if !ok || ifs.Init != nil || ifs.Else != nil || r.Err == nil || len(ifs.Body.List) != 1 {
			break
		}
		be, ok := ast.Unparen(ifs.Cond).(*ast.BinaryExpr)
		if !ok || be.Op != token.NEQ || x.obj(be.X) != r.Err || !x.isNil(be.Y) {
			break
		}
		gret, ok := ifs.Body.List[0].(*ast.ReturnStmt)
		if !ok {
			break
		}
		shape, sawP := x.returnShape(gret)
		if !sawP {
			x.problem(gret.Pos(), "epilogue", "the guarded return does not return the cursor variable itself")
		}
		if !strings.Contains(shape, "err,") {
			x.problem(gret.Pos(), "epilogue", "the return taken when err is set does not return err")
		}
		guarded = true
		stmts = stmts[1:]
	}
	if len(stmts) != 1 {
		x.problem(x.m.Decl.Pos(), "epilogue", "expected exactly one return statement after the machine, found %d statements", len(stmts))
		return
	}
	ret, ok := stmts[0].(*ast.ReturnStmt)
	if !ok {
		x.problem(stmts[0].Pos(), "epilogue", "statement after the machine is not a return")
		return
	}
	shape, sawP := x.returnShape(ret)
	if !sawP {
		x.problem(ret.Pos(), "epilogue", "the final return does not return the cursor variable itself")
	}
	if guarded {
		// behind the guard err is nil, so a literal nil in its place is the same result
		shape = strings.Replace(shape, "nil,", "err,", 1)
	}
	if r.Err != nil && !strings.Contains(shape, "err,") {
		x.problem(ret.Pos(), "epilogue", "the final return does not return err: an error set by an action would be dropped")
	}
	x.m.Returns = shape
}

func (x *extractor) isNil(e ast.Expr) bool {
	id, ok := ast.Unparen(e).(*ast.Ident)
	if !ok {
		return false
	}
	_, isNil := x.info.Uses[id].(*types.Nil)
	return isNil
}

func (x *extractor) returnShape(ret *ast.ReturnStmt) (shape string, sawP bool) {
	r := x.m.Roles
	for _, res := range ret.Results {
		o := x.obj(res)
		switch {
		case o != nil && o == r.P:
			sawP = true
			shape += "p,"
		case o != nil && o == r.Stack:
			shape += "stack,"
		case o != nil && o == r.Err:
			shape += "err,"
		case o != nil && o.Name() == "nil":
			shape += "nil,"
		case o != nil:
			shape += "var:" + o.Name() + ","
		default:
			x.problem(res.Pos(), "epilogue", "result expression after the machine is not a plain variable")
			shape += "?,"
		}
	}
	return
}

// checkScaffold verifies the identities of the generated dispatch code.
func (x *extractor) checkScaffold(exec *ast.BlockStmt) {
	r := x.m.Roles
	// first statement: if p == pe { goto _test_eof }
	if len(x.flat) < 2 {
		x.problem(exec.Pos(), "scaffold", "exec block too short")
		return
	}
	okFirst := false
	if ifs, ok := x.flat[0].(*ast.IfStmt); ok && ifs.Init == nil && ifs.Else == nil {
		if be, ok := ifs.Cond.(*ast.BinaryExpr); ok && be.Op == token.EQL && x.obj(be.X) == r.P && x.obj(be.Y) == r.PE {
			if g := singleGoto(ifs.Body); g == "_test_eof" {
				okFirst = true
			}
		}
	}
	if !okFirst {
		x.problem(x.flat[0].Pos(), "scaffold:entry", "exec block does not begin with `if p == pe { goto _test_eof }`")
	}
	// start dispatch: switch cs { case N: goto st_case_N } either at flat[1] or under _resume
	var startSw *ast.SwitchStmt
	if sw, ok := x.flat[1].(*ast.SwitchStmt); ok {
		startSw = sw
	} else if g, ok := x.flat[1].(*ast.BranchStmt); ok && g.Tok == token.GOTO && g.Label.Name == "_resume" {
		if idx, ok := x.labelAt["_resume"]; ok {
			startSw, _ = x.flat[idx].(*ast.SwitchStmt)
		}
	}
	if startSw == nil || x.obj(startSw.Tag) != r.CS {
		x.problem(x.flat[1].Pos(), "scaffold:dispatch", "start dispatch `switch cs` not found")
	} else {
		x.checkDispatch(startSw, "st_case_")
	}
	if idx, ok := x.labelAt["_again"]; ok {
		if sw, ok := x.flat[idx].(*ast.SwitchStmt); ok && x.obj(sw.Tag) == r.CS {
			x.checkDispatch(sw, "st")
		} else {
			x.problem(x.flat[idx].Pos(), "scaffold:again", "_again is not `switch cs`")
		}
	}
	// headers and eof stubs
	for name, idx := range x.labelAt {
		if mm := reSt.FindStringSubmatch(name); mm != nil {
			n, _ := strconv.Atoi(mm[1])
			if n == 0 {
				// st0: cs = 0; goto _out
				if !x.isAssignConst(x.flat[idx], r.CS, 0) || !isGoto(x.at(idx+1), "_out") {
					x.problem(x.flat[idx].Pos(), "scaffold:st0", "st0 is not `cs = 0; goto _out`")
				}
				continue
			}
			ok := false
			if ifs, ok2 := x.flat[idx].(*ast.IfStmt); ok2 && ifs.Else == nil {
				if inc, ok3 := ifs.Init.(*ast.IncDecStmt); ok3 && inc.Tok == token.INC && x.obj(inc.X) == r.P {
					if be, ok4 := ifs.Cond.(*ast.BinaryExpr); ok4 && be.Op == token.EQL && x.obj(be.X) == r.P && x.obj(be.Y) == r.PE {
						if singleGoto(ifs.Body) == "_test_eof"+mm[1] {
							ok = true
						}
					}
				}
			}
			if !ok {
				x.problem(x.flat[idx].Pos(), "scaffold:header:"+name, "state header is not `if p++; p == pe { goto _test_eof%s }`", mm[1])
			}
			// header must be followed by st_case_N
			if c, ok := x.labelAt["st_case_"+mm[1]]; !ok || c != idx+1 {
				x.problem(x.flat[idx].Pos(), "scaffold:header:"+name, "state header is not followed by st_case_%s", mm[1])
			}
		}
		if mm := reTEOF.FindStringSubmatch(name); mm != nil {
			n, _ := strconv.Atoi(mm[1])
			if !x.isAssignConst(x.flat[idx], r.CS, int64(n)) || !isGoto(x.at(idx+1), "_test_eof") {
				x.problem(x.flat[idx].Pos(), "scaffold:eofstub:"+name, "end-of-input stub is not `cs = %d; goto _test_eof`", n)
			}
		}
	}
}

func (x *extractor) at(i int) ast.Stmt {
	if i < 0 || i >= len(x.flat) {
		return nil
	}
	return x.flat[i]
}

func (x *extractor) isAssignConst(s ast.Stmt, o types.Object, v int64) bool {
	as, ok := s.(*ast.AssignStmt)
	if !ok || as.Tok != token.ASSIGN || len(as.Lhs) != 1 || len(as.Rhs) != 1 {
		return false
	}
	if x.obj(as.Lhs[0]) != o {
		return false
	}
	c, ok := x.constInt(as.Rhs[0])
	return ok && c == v
}

func isGoto(s ast.Stmt, label string) bool {
	b, ok := s.(*ast.BranchStmt)
	return ok && b.Tok == token.GOTO && b.Label != nil && b.Label.Name == label
}

func singleGoto(b *ast.BlockStmt) string {
	if b == nil || len(b.List) != 1 {
		return ""
	}
	if g, ok := b.List[0].(*ast.BranchStmt); ok && g.Tok == token.GOTO && g.Label != nil {
		return g.Label.Name
	}
	return ""
}

func (x *extractor) checkDispatch(sw *ast.SwitchStmt, prefix string) {
	seen := map[int]bool{}
	for _, c := range sw.Body.List {
		cc := c.(*ast.CaseClause)
		if len(cc.List) != 1 {
			x.problem(cc.Pos(), "scaffold:dispatch", "dispatch case with %d values", len(cc.List))
			continue
		}
		n, ok := x.constInt(cc.List[0])
		g := ""
		if len(cc.Body) == 1 {
			if b, ok := cc.Body[0].(*ast.BranchStmt); ok && b.Tok == token.GOTO {
				g = b.Label.Name
			}
		}
		if !ok || g != prefix+strconv.FormatInt(n, 10) {
			x.problem(cc.Pos(), "scaffold:dispatch:"+prefix, "dispatch `case %d` goes to %q, expected %s%d", n, g, prefix, n)
		}
		seen[int(n)] = true
	}
	for name := range x.labelAt {
		if mm := reStCase.FindStringSubmatch(name); mm != nil {
			n, _ := strconv.Atoi(mm[1])
			if !seen[n] {
				x.problem(sw.Pos(), "scaffold:dispatch:"+prefix, "state %d has no case in the `%sN` dispatch", n, prefix)
			}
		}
	}
}

// ---- byte-set evaluation of conditions over data[p] ------------------------------------------------

func (x *extractor) isCurByte(e ast.Expr) bool {
	ie, ok := ast.Unparen(e).(*ast.IndexExpr)
	return ok && x.obj(ie.X) == x.m.Roles.Data && x.obj(ie.Index) == x.m.Roles.P
}

// cond evaluates a boolean expression over data[p] to the subset of B where it is true.
func (x *extractor) cond(e ast.Expr, B lts.ByteSet) (lts.ByteSet, bool) {
	e = ast.Unparen(e)
	switch e := e.(type) {
	case *ast.BinaryExpr:
		switch e.Op {
		case token.LAND:
			l, ok := x.cond(e.X, B)
			if !ok {
				return l, false
			}
			return x.cond(e.Y, l)
		case token.LOR:
			l, ok := x.cond(e.X, B)
			if !ok {
				return l, false
			}
			r, ok := x.cond(e.Y, B.Minus(l))
			return l.Or(r), ok
		case token.EQL, token.NEQ, token.LSS, token.LEQ, token.GTR, token.GEQ:
			op := e.Op
			var c int64
			var ok bool
			if x.isCurByte(e.X) {
				c, ok = x.constInt(e.Y)
			} else if x.isCurByte(e.Y) {
				c, ok = x.constInt(e.X)
				// flip
				switch op {
				case token.LSS:
					op = token.GTR
				case token.LEQ:
					op = token.GEQ
				case token.GTR:
					op = token.LSS
				case token.GEQ:
					op = token.LEQ
				}
			}
			if !ok {
				return lts.ByteSet{}, false
			}
			var s lts.ByteSet
			for b := 0; b < 256; b++ {
				v := int64(b)
				t := false
				switch op {
				case token.EQL:
					t = v == c
				case token.NEQ:
					t = v != c
				case token.LSS:
					t = v < c
				case token.LEQ:
					t = v <= c
				case token.GTR:
					t = v > c
				case token.GEQ:
					t = v >= c
				}
				if t {
					s = s.Or(lts.Of(byte(b)))
				}
			}
			return s.And(B), true
		}
	case *ast.UnaryExpr:
		if e.Op == token.NOT {
			s, ok := x.cond(e.X, B)
			return B.Minus(s), ok
		}
	}
	return lts.ByteSet{}, false
}

type rawEdge struct {
	bytes lts.ByteSet
	label string
	pos   token.Pos
}

// dispatch walks a statement list with the byte set B; gotos are collected; returns the set falling out.
func (x *extractor) dispatch(list []ast.Stmt, B lts.ByteSet, out *[]rawEdge, key string) (fall lts.ByteSet) {
	for _, s := range list {
		if B.Empty() {
			return B
		}
		switch s := s.(type) {
		case *ast.BranchStmt:
			if s.Tok != token.GOTO {
				x.problem(s.Pos(), key, "unexpected branch statement %s in a state", s.Tok)
				return lts.ByteSet{}
			}
			*out = append(*out, rawEdge{B, s.Label.Name, s.Pos()})
			return lts.ByteSet{}
		case *ast.IfStmt:
			if s.Init != nil {
				x.problem(s.Pos(), key, "if with init statement inside a state dispatch")
				return lts.ByteSet{}
			}
			t, ok := x.cond(s.Cond, B)
			if !ok {
				x.problem(s.Pos(), key, "condition is not a comparison of data[p] with constants")
				return lts.ByteSet{}
			}
			f := B.Minus(t)
			rest := x.dispatch(s.Body.List, t, out, key)
			if s.Else != nil {
				var el []ast.Stmt
				switch e := s.Else.(type) {
				case *ast.BlockStmt:
					el = e.List
				default:
					el = []ast.Stmt{e}
				}
				f = x.dispatch(el, f, out, key)
			}
			B = rest.Or(f)
		case *ast.SwitchStmt:
			if s.Init != nil {
				x.problem(s.Pos(), key, "switch with init statement inside a state dispatch")
				return lts.ByteSet{}
			}
			rem := B
			var fallOut lts.ByteSet
			var def *ast.CaseClause
			for _, c := range s.Body.List {
				cc := c.(*ast.CaseClause)
				if cc.List == nil {
					def = cc
					continue
				}
				var sel lts.ByteSet
				if s.Tag != nil {
					if !x.isCurByte(s.Tag) {
						x.problem(s.Pos(), key, "switch tag is not data[p]")
						return lts.ByteSet{}
					}
					for _, v := range cc.List {
						c, ok := x.constInt(v)
						if !ok || c < 0 || c > 255 {
							x.problem(v.Pos(), key, "case value is not a byte constant")
							return lts.ByteSet{}
						}
						sel = sel.Or(lts.Of(byte(c)))
					}
					sel = sel.And(rem)
				} else {
					for _, v := range cc.List {
						t, ok := x.cond(v, rem.Minus(sel))
						if !ok {
							x.problem(v.Pos(), key, "case condition is not a comparison of data[p] with constants")
							return lts.ByteSet{}
						}
						sel = sel.Or(t)
					}
				}
				rem = rem.Minus(sel)
				fallOut = fallOut.Or(x.dispatch(cc.Body, sel, out, key))
			}
			if def != nil {
				fallOut = fallOut.Or(x.dispatch(def.Body, rem, out, key))
				rem = lts.ByteSet{}
			}
			B = fallOut.Or(rem)
		case *ast.EmptyStmt:
		default:
			x.problem(s.Pos(), key, "unexpected statement %T in a state dispatch", s)
			return lts.ByteSet{}
		}
	}
	return B
}

func (x *extractor) buildState(id int) {
	key := fmt.Sprintf("st_case_%d", id)
	idx := x.labelAt[key]
	st := x.m.LTS.State(id)
	st.Name = fmt.Sprintf("%d", id)
	st.Pos = x.m.w.Pos(x.flat[idx].Pos())
	// statements of this state: from idx up to the next label
	end := idx + 1
	for end < len(x.flat) && len(x.isLabel[end]) == 0 {
		end++
	}
	var raws []rawEdge
	fall := x.dispatch(x.flat[idx:end], lts.Full(), &raws, key)
	if !fall.Empty() {
		// falls through into the next label
		if end < len(x.flat) && len(x.isLabel[end]) > 0 {
			raws = append(raws, rawEdge{fall, x.isLabel[end][0], x.flat[end].Pos()})
		} else {
			x.problem(x.flat[idx].Pos(), key, "bytes %s fall off the end of the state", fall)
		}
	}
	for _, re := range raws {
		e := lts.Edge{Bytes: re.bytes, Pos: x.m.w.Pos(re.pos)}
		switch {
		case re.label == "st0":
			e.Term = lts.Term{Kind: lts.Exit, OK: true, Delta: 0}
		case reSt.MatchString(re.label):
			n, _ := strconv.Atoi(re.label[2:])
			e.Term = lts.Term{Kind: lts.Move, To: n}
		case reTr.MatchString(re.label):
			x.curLabel = re.label
			a := x.parseAction(re.label)
			if a == nil {
				continue
			}
			e.Prims = a.prims
			e.Term = a.term
			e.Pos = x.m.w.Pos(a.pos)
			// remember which state triggers a handler
			for _, p := range a.prims {
				if (p.Kind == "HANDLER_FULL" || p.Kind == "HANDLER_SIMPLE") && p.Ref >= 0 {
					x.m.Handlers[p.Ref].State = id
				}
			}
		default:
			x.problem(re.pos, key, "goto %s from a state dispatch is outside the model", re.label)
			continue
		}
		st.Edges = append(st.Edges, e)
	}
	// EOF outcome
	if a, ok := x.eofCases[id]; ok {
		st.EOF = []lts.EOFOutcome{{Prims: a.prims, OK: a.term.OK, Err: a.term.Err}}
	} else {
		st.EOF = []lts.EOFOutcome{{OK: true}}
	}
}

// Lin normalises an integer expression of the machine function to a linear form over role symbols
// ("p", "pe", "top", "len(stack)", "v:<local>").
func (m *Machine) Lin(e ast.Expr) (linarith.Form, bool) { return m.x.lin(e) }

// Sym names a variable the way Lin does.
func (m *Machine) Sym(o types.Object) string { return m.x.sym(o) }

// PosStr renders a position.
func (m *Machine) PosStr(p token.Pos) string { return m.w.Pos(p) }
