package machine

import (
	"fmt"

	"rjverif/internal/linarith"
	"rjverif/internal/lts"
)

// Compose completes the SPLICE edges of a machine with the models of the hand-written helpers: a SPLICE
// edge `p, err = h(data, p+1, pe); … goto stM` consumes the current byte, runs h from the next byte and,
// when h stops at a byte it does not consume, continues in state M on that very byte.
// Helper convention (R02a): h returns the index of the last byte it consumed (CUR-1 when it stops looking at
// CUR), because the machine increments the cursor once more. Deviations are modelled literally (a helper
// returning CUR makes the machine skip a byte unexamined), so the product shows the consequence.
func Compose(m *Machine, helpers map[string]*lts.LTS) (*lts.LTS, []Problem) {
	var probs []Problem
	out := lts.New(m.Name + "+helpers")
	out.Start = m.LTS.Start
	maxID := 0
	for id := range m.LTS.States {
		if id > maxID {
			maxID = id
		}
	}
	type hk struct {
		helper string
		h, ret int
	}
	ids := map[hk]int{}
	var todo []hk
	idOf := func(k hk) int {
		if id, ok := ids[k]; ok {
			return id
		}
		maxID++
		ids[k] = maxID
		todo = append(todo, k)
		return maxID
	}
	for id, s := range m.LTS.States {
		ns := out.State(id)
		ns.Name, ns.Pos = s.Name, s.Pos
		ns.EOF = append([]lts.EOFOutcome(nil), s.EOF...)
		for _, e := range s.Edges {
			ne := lts.Edge{Bytes: e.Bytes, Term: e.Term, Pos: e.Pos}
			spl := -1
			for _, p := range e.Prims {
				if p.Kind == "SPLICE" {
					spl = p.Ref
					continue
				}
				ne.Prims = append(ne.Prims, p)
			}
			if spl >= 0 {
				site := m.Splices[spl]
				key := fmt.Sprintf("%s:splice:%s", m.Name, site.Helper.Name())
				h := helpers[site.Helper.Name()]
				switch {
				case h == nil:
					probs = append(probs, Problem{Key: key, Pos: site.Pos, Msg: "no model for helper " + site.Helper.Name()})
				case e.Term.Kind != lts.Move:
					probs = append(probs, Problem{Key: key, Pos: site.Pos, Msg: "splice is not followed by a plain state transition"})
				case !site.DataIsData || !site.EndIsPE || !site.Start.Equal(linarith.Var("p").AddK(1)):
					probs = append(probs, Problem{Key: key, Pos: site.Pos, Msg: fmt.Sprintf("helper is not called as h(data, p+1, pe) (start=%s)", site.Start)})
				default:
					ne.Term = lts.Term{Kind: lts.Move, To: idOf(hk{site.Helper.Name(), h.Start, e.Term.To})}
				}
			}
			ns.Edges = append(ns.Edges, ne)
		}
	}
	for len(todo) > 0 {
		k := todo[0]
		todo = todo[1:]
		h := helpers[k.helper]
		hs := h.States[k.h]
		ms := m.LTS.States[k.ret]
		ns := out.State(ids[k])
		ns.Name = fmt.Sprintf("%s.%s>%d", k.helper, hs.Name, k.ret)
		ns.Pos = hs.Pos
		if ms == nil {
			probs = append(probs, Problem{Key: m.Name + ":splice", Msg: fmt.Sprintf("splice resumes in unknown state %d", k.ret)})
			continue
		}
		for _, e := range hs.Edges {
			switch {
			case e.Term.Kind == lts.Move:
				ns.Edges = append(ns.Edges, lts.Edge{Bytes: e.Bytes, Term: lts.Term{Kind: lts.Move, To: idOf(hk{k.helper, e.Term.To, k.ret})}, Pos: e.Pos})
			case e.Term.Kind == lts.Exit && !e.Term.OK:
				ns.Edges = append(ns.Edges, lts.Edge{Bytes: e.Bytes, Term: e.Term, Pos: e.Pos})
			case e.Term.Kind == lts.Exit && e.Term.OK && e.Term.Delta == -1:
				// resume in M on the same byte
				for _, me := range ms.Edges {
					set := me.Bytes.And(e.Bytes)
					if set.Empty() {
						continue
					}
					ns.Edges = append(ns.Edges, lts.Edge{Bytes: set, Term: me.Term, Prims: me.Prims, Pos: me.Pos})
				}
			case e.Term.Kind == lts.Exit && e.Term.OK && e.Term.Delta == 0:
				// helper returned the index of the byte it stopped at: the machine's p++ skips that byte unexamined
				ns.Edges = append(ns.Edges, lts.Edge{Bytes: e.Bytes, Term: lts.Term{Kind: lts.Move, To: k.ret}, Pos: e.Pos})
			default:
				probs = append(probs, Problem{Key: fmt.Sprintf("%s:splice:%s", m.Name, k.helper), Msg: fmt.Sprintf("helper outcome %s cannot be composed", e.Term)})
				ns.Edges = append(ns.Edges, lts.Edge{Bytes: e.Bytes, Term: lts.Term{Kind: lts.Exit, OK: false, Err: "uncomposable"}, Pos: e.Pos})
			}
		}
		for _, o := range hs.EOF {
			switch {
			case !o.OK:
				ns.EOF = append(ns.EOF, o)
			case o.Delta == -1:
				ns.EOF = append(ns.EOF, ms.EOF...)
			default:
				probs = append(probs, Problem{Key: fmt.Sprintf("%s:splice:%s", m.Name, k.helper), Msg: fmt.Sprintf("helper returns len(data)%+d at end of input: the machine would then index past the end", o.Delta)})
				ns.EOF = append(ns.EOF, lts.EOFOutcome{OK: false, Err: "uncomposable"})
			}
		}
	}
	return out, probs
}
