package machine

import (
	"fmt"
	"go/ast"
	"go/token"
	"math/big"

	"rjverif/internal/linarith"
)

// PathOutcome is one path through the offset-sanitising code after a HANDLER_FULL call.
type PathOutcome struct {
	Conds linarith.System
	Kind  string // "err", "assign", "none"
	P     linarith.Form
}

// SanitizeReport is the result of analysing one handler site's sanitising code.
type SanitizeReport struct {
	Paths     []PathOutcome
	Overflows []string // arithmetic that may wrap around (R10a)
	SpecDiffs []string // deviations from the required piecewise function (R07c)
	ArithOps  int      // arithmetic sub-expressions examined
}

var (
	maxInt = new(big.Int).SetUint64(1<<63 - 1)
	minInt = new(big.Int).Neg(new(big.Int).SetUint64(1 << 63))
)

// baseFacts: 0 <= p <= pe-1, pe <= MaxInt, MinInt <= pp <= MaxInt.
func baseFacts(pp string) linarith.System {
	p, pe, v := linarith.Var("p"), linarith.Var("pe"), linarith.Var(pp)
	return linarith.System{
		linarith.GE(p, linarith.Const(0)),
		linarith.LE(p, pe.AddK(-1)),
		linarith.LE(pe, linarith.ConstBig(maxInt)),
		linarith.GE(v, linarith.ConstBig(minInt)),
		linarith.LE(v, linarith.ConstBig(maxInt)),
	}
}

func condIneqs(op token.Token, l, r linarith.Form, truth bool) [][]linarith.Ineq {
	// returns a disjunction of conjunctions
	if !truth {
		switch op {
		case token.EQL:
			op = token.NEQ
		case token.NEQ:
			op = token.EQL
		case token.LSS:
			op = token.GEQ
		case token.LEQ:
			op = token.GTR
		case token.GTR:
			op = token.LEQ
		case token.GEQ:
			op = token.LSS
		}
	}
	switch op {
	case token.EQL:
		return [][]linarith.Ineq{linarith.EQ(l, r)}
	case token.NEQ:
		return [][]linarith.Ineq{{linarith.LT(l, r)}, {linarith.GT(l, r)}}
	case token.LSS:
		return [][]linarith.Ineq{{linarith.LT(l, r)}}
	case token.LEQ:
		return [][]linarith.Ineq{{linarith.LE(l, r)}}
	case token.GTR:
		return [][]linarith.Ineq{{linarith.GT(l, r)}}
	case token.GEQ:
		return [][]linarith.Ineq{{linarith.GE(l, r)}}
	}
	return nil
}

// AnalyseHandler enumerates the paths of a HANDLER_FULL site and checks overflow-freedom and the
// required piecewise function:
//
//	pp < 0            -> error exit
//	pp == 0           -> cursor unchanged
//	1 <= pp <= pe-p   -> cursor := p+pp-2 (so that the state header's p++ makes the next read index p+pp-1)
//	pp > pe-p         -> error exit
func (m *Machine) AnalyseHandler(h *HandlerSite) *SanitizeReport {
	rep := &SanitizeReport{}
	if !h.Full || h.PP == nil {
		return rep
	}
	pp := m.x.sym(h.PP)
	base := baseFacts(pp)
	type state struct {
		conds linarith.System
		kind  string
		p     linarith.Form
	}
	seenOv := map[string]bool{}
	// overflow check of every arithmetic node of e under premises
	var checkExpr func(e ast.Expr, prem linarith.System)
	checkExpr = func(e ast.Expr, prem linarith.System) {
		e = ast.Unparen(e)
		be, ok := e.(*ast.BinaryExpr)
		if !ok {
			return
		}
		checkExpr(be.X, prem)
		checkExpr(be.Y, prem)
		if be.Op != token.ADD && be.Op != token.SUB && be.Op != token.MUL {
			return
		}
		if _, isConst := m.x.constInt(e); isConst {
			return
		}
		f, ok := m.x.lin(e)
		if !ok {
			return
		}
		rep.ArithOps++
		if !prem.Implies(linarith.LE(f, linarith.ConstBig(maxInt))) || !prem.Implies(linarith.GE(f, linarith.ConstBig(minInt))) {
			msg := fmt.Sprintf("`%s` can wrap around for a handler offset near the integer limits (not bounded by the checks that precede it)", exprString(e))
			if !seenOv[msg] {
				seenOv[msg] = true
				rep.Overflows = append(rep.Overflows, msg)
			}
		}
	}
	var walk func(steps []Step, st state, cont func(st state))
	walk = func(steps []Step, st state, cont func(st state)) {
		if len(steps) == 0 {
			cont(st)
			return
		}
		s := steps[0]
		rest := steps[1:]
		switch s.Kind {
		case "errexit":
			rep.Paths = append(rep.Paths, PathOutcome{Conds: st.conds, Kind: "err"})
		case "assignp":
			checkExpr(s.Expr, st.conds)
			f, _ := m.x.lin(s.Expr)
			// the expression may mention p: it refers to the cursor before the assignment (only one assignment per path is supported)
			if st.kind == "assign" {
				rep.SpecDiffs = append(rep.SpecDiffs, "cursor assigned twice on one path")
			}
			ns := st
			ns.kind = "assign"
			ns.p = f
			walk(rest, ns, cont)
		case "if":
			checkExpr(s.Cond.L, st.conds)
			checkExpr(s.Cond.R, st.conds)
			l, _ := m.x.lin(s.Cond.L)
			r, _ := m.x.lin(s.Cond.R)
			for _, conj := range condIneqs(s.Cond.Op, l, r, true) {
				ns := st
				ns.conds = st.conds.With(conj...)
				if !ns.conds.Feasible() {
					continue
				}
				walk(s.Body, ns, func(after state) { walk(rest, after, cont) })
			}
			for _, conj := range condIneqs(s.Cond.Op, l, r, false) {
				ns := st
				ns.conds = st.conds.With(conj...)
				if !ns.conds.Feasible() {
					continue
				}
				walk(rest, ns, cont)
			}
		}
	}
	walk(h.Steps, state{conds: base, kind: "none"}, func(st state) {
		rep.Paths = append(rep.Paths, PathOutcome{Conds: st.conds, Kind: st.kind, P: st.p})
	})
	// specification regions
	p, pe, v := linarith.Var("p"), linarith.Var("pe"), linarith.Var(pp)
	type region struct {
		name  string
		conds []linarith.Ineq
		kind  string
	}
	regions := []region{
		{"pp < 0", []linarith.Ineq{linarith.LT(v, linarith.Const(0))}, "err"},
		{"pp == 0", linarith.EQ(v, linarith.Const(0)), "none"},
		{"1 <= pp <= pe-p", []linarith.Ineq{linarith.GE(v, linarith.Const(1)), linarith.LE(v, pe.Sub(p))}, "assign"},
		{"pp > pe-p", []linarith.Ineq{linarith.GT(v, pe.Sub(p))}, "err"},
	}
	want := p.Add(v).AddK(-2)
	for _, rg := range regions {
		covered := false
		for _, po := range rep.Paths {
			sys := po.Conds.With(rg.conds...)
			if !sys.Feasible() {
				continue
			}
			covered = true
			if po.Kind != rg.kind {
				rep.SpecDiffs = append(rep.SpecDiffs, fmt.Sprintf("for %s the code does %q, required %q", rg.name, kindText(po.Kind), kindText(rg.kind)))
			} else if po.Kind == "assign" && !po.P.Equal(want) {
				rep.SpecDiffs = append(rep.SpecDiffs, fmt.Sprintf("for %s the cursor becomes %s, required p+pp-2 (next read at the value's last byte p+pp-1)", rg.name, po.P))
			}
		}
		if !covered {
			rep.SpecDiffs = append(rep.SpecDiffs, fmt.Sprintf("no path covers %s", rg.name))
		}
	}
	return rep
}

func kindText(k string) string {
	switch k {
	case "err":
		return "report errPOutOfRange-style error"
	case "none":
		return "leave the cursor unchanged"
	case "assign":
		return "move the cursor"
	}
	return k
}

func exprString(e ast.Expr) string {
	switch e := e.(type) {
	case *ast.Ident:
		return e.Name
	case *ast.BasicLit:
		return e.Value
	case *ast.ParenExpr:
		return "(" + exprString(e.X) + ")"
	case *ast.BinaryExpr:
		return exprString(e.X) + e.Op.String() + exprString(e.Y)
	case *ast.CallExpr:
		s := exprString(e.Fun) + "("
		for i, a := range e.Args {
			if i > 0 {
				s += ","
			}
			s += exprString(a)
		}
		return s + ")"
	case *ast.UnaryExpr:
		return e.Op.String() + exprString(e.X)
	}
	return "?"
}

// StackReport: obligations of one push site (R10c, R20c).
type StackReport struct {
	Problems []string
	Exact    bool // after growth the stack is at most 2*(top+1)+64 long (R20c)
}

// AnalyseFCall checks the growth-before-store discipline of a push:
// under the growth guard the appended size is >= 0 and makes index `top` valid; without growth the index is already valid.
func (m *Machine) AnalyseFCall(fc *FCallSite) *StackReport {
	rep := &StackReport{}
	top, ln := linarith.Var("top"), linarith.Var("len(stack)")
	base := linarith.System{linarith.GE(top, linarith.Const(0)), linarith.GE(ln, linarith.Const(0)), linarith.LE(top, linarith.Const(1<<40)), linarith.LE(ln, linarith.Const(1<<40))}
	idx, ok := m.x.lin(fc.StoreIdx)
	if !ok {
		rep.Problems = append(rep.Problems, "store index is not linear in top")
		return rep
	}
	if !idx.Equal(top) {
		rep.Problems = append(rep.Problems, fmt.Sprintf("return state is stored at stack[%s], but the pop reads stack[top] after top--: push and pop do not pair", idx))
	}
	if !fc.TopInc {
		rep.Problems = append(rep.Problems, "top is not incremented by the push")
	}
	gl, ok1 := m.x.lin(fc.GrowCond.L)
	gr, ok2 := m.x.lin(fc.GrowCond.R)
	size, ok3 := m.x.lin(fc.GrowSize)
	if !ok1 || !ok2 || !ok3 {
		rep.Problems = append(rep.Problems, "growth guard/size is not linear")
		return rep
	}
	okAll := true
	for _, conj := range condIneqs(fc.GrowCond.Op, gl, gr, true) {
		sys := base.With(conj...)
		if !sys.Feasible() {
			continue
		}
		if !sys.Implies(linarith.GE(size, linarith.Const(0))) {
			rep.Problems = append(rep.Problems, "appended size can be negative under the growth guard (make would panic)")
			okAll = false
		}
		if !sys.Implies(linarith.GE(ln.Add(size), idx.AddK(1))) {
			rep.Problems = append(rep.Problems, "after growing, index top may still be outside the stack")
			okAll = false
		}
	}
	for _, conj := range condIneqs(fc.GrowCond.Op, gl, gr, false) {
		sys := base.With(conj...)
		if !sys.Feasible() {
			continue
		}
		if !sys.Implies(linarith.LE(idx.AddK(1), ln)) {
			rep.Problems = append(rep.Problems, "when the stack is not grown, index top may be outside it")
			okAll = false
		}
	}
	_ = okAll
	// bounded need (R20c): after growing, the stack is at most twice as long as the depth reached, plus a constant —
	// exact growth (len + size == top + 1) and geometric growth both qualify; growth by an unrelated quantity does not
	rep.Exact = true
	for _, conj := range condIneqs(fc.GrowCond.Op, gl, gr, true) {
		sys := base.With(conj...)
		if !sys.Feasible() {
			continue
		}
		if !sys.Implies(linarith.LE(ln.Add(size), idx.AddK(1).Scale(2).AddK(64))) {
			rep.Exact = false
		}
	}
	return rep
}
