// Package scan is engine E2: a path-sensitive abstract interpreter over go/ssa for the hand-written
// cursor scanners. It never runs the program on an input: it computes the reachable abstract configurations
// (SSA position + finite abstract store) by worklist and reads the scanner's transition system off them.
//
// Domain (finite):
//   - positions are symbolic marks with a distance from the cursor that is exact below a cap and a lower
//     bound above it; integers are linear forms over marks and END (so bases cancel symbolically);
//   - the byte under the cursor and the byte before it are subsets of {0..255}; values computed from them
//     pointwise (table look-ups, comparisons, c-'0') are kept as functions of that byte;
//   - the relation of the cursor to the end of input is one of {unknown, at end, before end};
//   - booleans, small integer constants and error identities are exact; everything else is ⊤.
package scan

import (
	"fmt"
	"go/constant"
	"go/types"
	"sort"
	"strings"

	"rjverif/internal/lts"
)

const distCap = 24 // distances from the cursor are exact below this value

// Sym is a symbol of a linear form: 0 = END, >0 = mark id.
type Sym int

const END Sym = 0

// Form is Σ coef·sym + K (int64 arithmetic is enough: coefficients are tiny, constants come from source).
type Form struct {
	C map[Sym]int64
	K int64
}

func constForm(k int64) Form { return Form{K: k} }
func symForm(s Sym) Form     { return Form{C: map[Sym]int64{s: 1}} }

func (f Form) isConst() bool { return len(f.C) == 0 }

func (f Form) add(g Form, sign int64) Form {
	r := Form{K: f.K + sign*g.K}
	if len(f.C)+len(g.C) > 0 {
		r.C = map[Sym]int64{}
		for s, c := range f.C {
			r.C[s] = c
		}
		for s, c := range g.C {
			r.C[s] += sign * c
			if r.C[s] == 0 {
				delete(r.C, s)
			}
		}
		if len(r.C) == 0 {
			r.C = nil
		}
	}
	return r
}

func (f Form) scale(k int64) Form {
	r := Form{K: f.K * k}
	if k != 0 && len(f.C) > 0 {
		r.C = map[Sym]int64{}
		for s, c := range f.C {
			r.C[s] = c * k
		}
	}
	return r
}

func (f Form) syms() []Sym {
	var out []Sym
	for s := range f.C {
		out = append(out, s)
	}
	sort.Slice(out, func(i, j int) bool { return out[i] < out[j] })
	return out
}

// Val is an abstract value.
type Val interface{ isVal() }

type (
	// Top: unknown.
	Top struct{}
	// IntV: an integer given by a linear form.
	IntV struct{ F Form }
	// BoolV: exact boolean.
	BoolV struct{ B bool }
	// ByteFn: a value that is a function of the byte at position Pos (0 = under the cursor, -1 = before it).
	ByteFn struct {
		Pos int
		Tab *[256]CV
	}
	// EndFn: a boolean that depends only on whether the cursor is at the end of input.
	EndFn struct{ AtEnd, Before bool }
	// SetV: one of a few integer constants.
	SetV struct{ Vals []int64 }
	// NZ: an integer known to be non-zero (sign domain, used for values only ever compared with 0).
	NZ struct{}
	// SliceV: a sub-slice of the input: element 0 is at position Lo, the end is at Hi (absolute position forms).
	SliceV struct{ Lo, Hi Form }
	// ErrV: an error value.
	ErrV struct {
		Kind ErrKind
		Name string
	}
	// PtrV: address of a table element, an input element, a local cell or something opaque.
	PtrV struct {
		Kind  PtrKind
		Table *Table
		Idx   Val  // PtrTable: index value
		Pos   Form // PtrElem: absolute position of the element
		Slice SliceV
		Cell  *cell
		Glob  types.Object
	}
	// TupleV: multiple results.
	TupleV struct{ Vs []Val }
	// MachOff: the end offset reported by a summarised machine (as a position it is the new cursor).
	Opaque struct{ What string }
)

type ErrKind int

const (
	ErrNil ErrKind = iota
	ErrNonNil
	ErrUnknown
)

type PtrKind int

const (
	PtrOpaque PtrKind = iota
	PtrTable
	PtrElem
	PtrCell
	PtrGlobal
)

func (Top) isVal()    {}
func (IntV) isVal()   {}
func (BoolV) isVal()  {}
func (ByteFn) isVal() {}
func (EndFn) isVal()  {}
func (SetV) isVal()   {}
func (NZ) isVal()     {}
func (SliceV) isVal() {}
func (ErrV) isVal()   {}
func (PtrV) isVal()   {}
func (TupleV) isVal() {}
func (Opaque) isVal() {}

// CV is a concrete value in a byte-function table.
type CV struct {
	IsBool bool
	B      bool
	I      int64
}

func (c CV) String() string {
	if c.IsBool {
		return fmt.Sprint(c.B)
	}
	return fmt.Sprint(c.I)
}

// Table is a constant 256-entry package-level array.
type Table struct {
	Name string
	Obj  types.Object
	Vals [256]CV
}

type cell struct {
	id  int
	val Val
}

// identity byte function
func identFn(pos int) ByteFn {
	var t [256]CV
	for i := range t {
		t[i] = CV{I: int64(i)}
	}
	return ByteFn{Pos: pos, Tab: &t}
}

func (b ByteFn) mapFn(f func(CV) (CV, bool)) (Val, bool) {
	var t [256]CV
	for i := range t {
		v, ok := f(b.Tab[i])
		if !ok {
			return Top{}, false
		}
		t[i] = v
	}
	return ByteFn{Pos: b.Pos, Tab: &t}, true
}

// classes partitions set by the function's value.
func (b ByteFn) classes(set lts.ByteSet) map[CV]lts.ByteSet {
	out := map[CV]lts.ByteSet{}
	for i := 0; i < 256; i++ {
		if set.Has(byte(i)) {
			out[b.Tab[i]] = out[b.Tab[i]].Or(lts.Of(byte(i)))
		}
	}
	return out
}

func constToCV(c constant.Value) (CV, bool) {
	switch c.Kind() {
	case constant.Bool:
		return CV{IsBool: true, B: constant.BoolVal(c)}, true
	case constant.Int:
		if i, ok := constant.Int64Val(c); ok {
			return CV{I: i}, true
		}
		if u, ok := constant.Uint64Val(c); ok {
			return CV{I: int64(u)}, true
		}
	}
	return CV{}, false
}

func valString(v Val) string {
	switch v := v.(type) {
	case nil:
		return "<nil>"
	case Top:
		return "⊤"
	case IntV:
		return "int(" + formString(v.F) + ")"
	case BoolV:
		return fmt.Sprint(v.B)
	case ByteFn:
		return fmt.Sprintf("bytefn@%d", v.Pos)
	case EndFn:
		return fmt.Sprintf("endfn(%v,%v)", v.AtEnd, v.Before)
	case SetV:
		return fmt.Sprint("set", v.Vals)
	case NZ:
		return "nonzero"
	case SliceV:
		return "slice[" + formString(v.Lo) + ":" + formString(v.Hi) + "]"
	case ErrV:
		return fmt.Sprintf("err(%d,%s)", v.Kind, v.Name)
	case PtrV:
		return fmt.Sprintf("ptr(%d)", v.Kind)
	case TupleV:
		var p []string
		for _, x := range v.Vs {
			p = append(p, valString(x))
		}
		return "(" + strings.Join(p, ",") + ")"
	case Opaque:
		return "opaque:" + v.What
	}
	return "?"
}

func formString(f Form) string {
	var p []string
	for _, s := range f.syms() {
		n := "END"
		if s != END {
			n = fmt.Sprintf("m%d", s)
		}
		p = append(p, fmt.Sprintf("%+d*%s", f.C[s], n))
	}
	p = append(p, fmt.Sprintf("%+d", f.K))
	return strings.Join(p, "")
}
