package scan

import (
	"golang.org/x/tools/go/ssa"
)

// HelperEntry binds (data, p, pe) of the number-tail helpers: data is the enclosing input whose start lies
// at an unknown distance behind the cursor, p is the cursor and pe the end of input.
func HelperEntry(e *Engine, c *Config, f *Frame) {
	mB := c.farMark(1)
	cur := c.markAt(0)
	f.Base = mB
	ps := f.Fn.Params
	if len(ps) != 3 {
		e.problem(f.Fn.Pos(), f.Fn.Name(), "helper does not have the signature (data, p, pe)")
		return
	}
	f.Env[ps[0]] = SliceV{Lo: symForm(mB), Hi: symForm(END)}
	f.Env[ps[1]] = IntV{symForm(cur).add(symForm(mB), -1)}
	f.Env[ps[2]] = IntV{symForm(END).add(symForm(mB), -1)}
}

// FuncSpec builds a Spec from result indices.
func FuncSpec(fn *ssa.Function, off, err, boolIdx, extra int) *Spec {
	return &Spec{Fn: fn, OffsetIdx: off, ErrIdx: err, BoolIdx: boolIdx, ExtraIdx: extra}
}

// LastSliceEntry binds the LAST []byte parameter as the whole input (handler methods: HandleObjectValue(key, data)).
func LastSliceEntry(e *Engine, c *Config, f *Frame) {
	m0 := c.markAt(0)
	var last *ssa.Parameter
	for _, p := range f.Fn.Params {
		f.Env[p] = Top{}
		if isByteSlice(p.Type()) {
			last = p
		}
	}
	if last == nil {
		e.problem(f.Fn.Pos(), f.Fn.Name(), "no []byte parameter")
		return
	}
	f.Env[last] = SliceV{Lo: symForm(m0), Hi: symForm(END)}
	f.Base = m0
}
