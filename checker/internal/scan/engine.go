package scan

import (
	"fmt"
	"go/constant"
	"go/token"
	"go/types"
	"sort"
	"strings"
	"time"

	"golang.org/x/tools/go/ssa"

	"rjverif/internal/core"
	"rjverif/internal/lts"
)

// Rel is what is known about END - CUR.
type Rel int

const (
	RelUnknown Rel = iota // >= 0
	RelAtEnd              // == 0
	RelBefore             // >= 1
)

type distV struct {
	D     int
	Exact bool // exact: CUR - mark == D; otherwise CUR - mark >= D
	Rank  int  // inexact marks only: lower rank = further behind the cursor (strict order between distinct marks)
}

// Frame is one activation.
type Frame struct {
	Fn      *ssa.Function
	Block   *ssa.BasicBlock
	Idx     int
	Env     map[ssa.Value]Val
	Cells   map[*ssa.Alloc]*cell
	Base    Sym // mark of element 0 of the frame's data slice (0 = none)
	CallRes ssa.Value
}

// Config is an abstract configuration.
type Config struct {
	Frames  []*Frame
	Bytes   [2]lts.ByteSet // [0] byte under the cursor, [1] byte before it
	Rel     Rel
	Dist    map[Sym]distV
	nextSym Sym
	VDep    bool
	Prims   []lts.Prim
	Cap     int // distances from the cursor are exact below Cap
}

func (c *Config) top() *Frame { return c.Frames[len(c.Frames)-1] }

func (c *Config) clone() *Config {
	n := &Config{Bytes: c.Bytes, Rel: c.Rel, nextSym: c.nextSym, VDep: c.VDep, Cap: c.Cap}
	n.Dist = make(map[Sym]distV, len(c.Dist))
	for k, v := range c.Dist {
		n.Dist[k] = v
	}
	n.Prims = append([]lts.Prim(nil), c.Prims...)
	cellMap := map[*cell]*cell{}
	for _, f := range c.Frames {
		nf := &Frame{Fn: f.Fn, Block: f.Block, Idx: f.Idx, Base: f.Base, CallRes: f.CallRes}
		nf.Env = make(map[ssa.Value]Val, len(f.Env))
		nf.Cells = make(map[*ssa.Alloc]*cell, len(f.Cells))
		for a, cl := range f.Cells {
			nc := &cell{id: cl.id, val: cl.val}
			cellMap[cl] = nc
			nf.Cells[a] = nc
		}
		for k, v := range f.Env {
			nf.Env[k] = v
		}
		n.Frames = append(n.Frames, nf)
	}
	// re-point cell pointers
	for _, f := range n.Frames {
		for k, v := range f.Env {
			if p, ok := v.(PtrV); ok && p.Kind == PtrCell {
				if nc, ok := cellMap[p.Cell]; ok {
					p.Cell = nc
					f.Env[k] = p
				}
			}
		}
	}
	return n
}

// markAt returns the mark at exact distance d from the cursor (CUR - mark == d), creating it if needed.
func (c *Config) markAt(d int) Sym {
	for s, dv := range c.Dist {
		if dv.Exact && dv.D == d {
			return s
		}
	}
	c.nextSym++
	c.Dist[c.nextSym] = distV{D: d, Exact: true}
	return c.nextSym
}

func (c *Config) farMark(lb int) Sym {
	c.nextSym++
	c.Dist[c.nextSym] = distV{D: lb, Exact: false, Rank: c.maxRank() + 1}
	return c.nextSym
}

func (c *Config) maxRank() int {
	m := 0
	for _, dv := range c.Dist {
		if !dv.Exact && dv.Rank > m {
			m = dv.Rank
		}
	}
	return m
}

// posOf: if f denotes a single position (one mark or END with coefficient 1), returns its offset from the
// cursor (position == CUR + off) or from END.
func (c *Config) posOf(f Form) (off int, relEnd bool, exact bool, ok bool) {
	if len(f.C) != 1 {
		return 0, false, false, false
	}
	for s, co := range f.C {
		if co != 1 {
			return 0, false, false, false
		}
		if s == END {
			return int(f.K), true, true, true
		}
		dv := c.Dist[s]
		return int(f.K) - dv.D, false, dv.Exact, true
	}
	return 0, false, false, false
}

// normPos canonicalises a form: the exact marks (positions at a known distance from the cursor) are folded
// together with the constant into a single mark (coefficient sum 1 or -1) or into a constant (sum 0).
func (c *Config) normPos(f Form) Form {
	var sum, dsum int64
	n := 0
	for s, co := range f.C {
		if s == END {
			continue
		}
		if dv := c.Dist[s]; dv.Exact {
			sum += co
			dsum += co * int64(dv.D)
			n++
		}
	}
	if n == 0 || (n == 1 && f.K == 0 && (sum == 1 || sum == -1)) {
		return f
	}
	if sum != 0 && sum != 1 && sum != -1 {
		return f
	}
	// exact part = sum*CUR - dsum + K
	r := Form{}
	for s, co := range f.C {
		if s != END {
			if dv := c.Dist[s]; dv.Exact {
				continue
			}
		}
		if r.C == nil {
			r.C = map[Sym]int64{}
		}
		r.C[s] = co
	}
	switch sum {
	case 0:
		r.K = f.K - dsum
		return r
	case 1:
		nd := dsum - f.K // CUR - nd
		if nd < -4 || nd >= int64(c.Cap) {
			return f
		}
		return r.add(symForm(c.markAt(int(nd))), 1)
	default:
		nd := -(f.K - dsum) // -(CUR - nd') : -CUR - dsum + K = -(CUR - (K - dsum)... )
		// -CUR - dsum + K = -(CUR - (K - dsum))  => mark at distance K - dsum... careful with sign
		nd = f.K - dsum
		if nd < -4 || nd >= int64(c.Cap) {
			return f
		}
		return r.add(symForm(c.markAt(int(nd))), -1)
	}
}

type ival struct {
	lo, hi   int64
	loI, hiI bool // infinite
}

// evalDiff computes the interval of form d (a difference of two ints/positions) in this configuration.
func (c *Config) evalDiff(d Form) (iv ival, ok bool, cE int64, k0 int64, allExact bool) {
	var curCoef int64
	iv = ival{lo: d.K, hi: d.K}
	allExact = true
	k0 = d.K
	type it struct {
		s  Sym
		co int64
		dv distV
	}
	var inex []it
	for s, co := range d.C {
		curCoef += co
		if s == END {
			cE = co
			continue
		}
		dv := c.Dist[s]
		// term: co * (CUR - dist) ; CUR part handled by curCoef, here -co*dist
		if dv.Exact {
			iv.lo += -co * int64(dv.D)
			iv.hi += -co * int64(dv.D)
			k0 += -co * int64(dv.D)
		} else {
			allExact = false
			inex = append(inex, it{s, co, dv})
		}
	}
	if curCoef != 0 {
		return iv, false, cE, k0, allExact
	}
	// pair +1/-1 inexact marks: their difference has a known sign from the rank order
	used := make([]bool, len(inex))
	for i := range inex {
		if used[i] || inex[i].co != 1 {
			continue
		}
		for j := range inex {
			if used[j] || inex[j].co != -1 {
				continue
			}
			used[i], used[j] = true, true
			// m_i - m_j : i further behind (lower rank) => <= -1 ; else >= 1
			if inex[i].dv.Rank < inex[j].dv.Rank {
				iv.hi += -1
				iv.loI = true
			} else {
				iv.lo += 1
				iv.hiI = true
			}
			break
		}
	}
	for i, t := range inex {
		if used[i] {
			continue
		}
		// dist in [D, inf): term = -co*dist
		if t.co > 0 {
			iv.hi += -t.co * int64(t.dv.D)
			iv.loI = true
		} else {
			iv.lo += -t.co * int64(t.dv.D)
			iv.hiI = true
		}
	}
	if cE != 0 {
		switch c.Rel {
		case RelAtEnd:
		case RelBefore:
			if cE > 0 {
				iv.lo += cE
				iv.hiI = true
			} else {
				iv.hi += cE
				iv.loI = true
			}
		default:
			if cE > 0 {
				iv.hiI = true
			} else {
				iv.loI = true
			}
		}
	}
	return iv, true, cE, k0, allExact
}

func decide(op token.Token, iv ival) (bool, bool) {
	// returns (value, decided) for `D op 0`
	loPos := !iv.loI && iv.lo > 0
	loNonNeg := !iv.loI && iv.lo >= 0
	hiNeg := !iv.hiI && iv.hi < 0
	hiNonPos := !iv.hiI && iv.hi <= 0
	isZero := !iv.loI && !iv.hiI && iv.lo == 0 && iv.hi == 0
	switch op {
	case token.EQL:
		if isZero {
			return true, true
		}
		if loPos || hiNeg {
			return false, true
		}
	case token.NEQ:
		if isZero {
			return false, true
		}
		if loPos || hiNeg {
			return true, true
		}
	case token.LSS:
		if hiNeg {
			return true, true
		}
		if loNonNeg {
			return false, true
		}
	case token.LEQ:
		if hiNonPos {
			return true, true
		}
		if loPos {
			return false, true
		}
	case token.GTR:
		if loPos {
			return true, true
		}
		if hiNonPos {
			return false, true
		}
	case token.GEQ:
		if loNonNeg {
			return true, true
		}
		if hiNeg {
			return false, true
		}
	}
	return false, false
}

func cmpConst(op token.Token, d int64) bool {
	switch op {
	case token.EQL:
		return d == 0
	case token.NEQ:
		return d != 0
	case token.LSS:
		return d < 0
	case token.LEQ:
		return d <= 0
	case token.GTR:
		return d > 0
	case token.GEQ:
		return d >= 0
	}
	return false
}

// advance moves the cursor one byte forward.
func (c *Config) advance() {
	for s, dv := range c.Dist {
		dv.D++
		if dv.Exact && dv.D >= c.Cap {
			dv.Exact = false
			dv.D = c.Cap
			dv.Rank = c.maxRank() + 1
		}
		if !dv.Exact && dv.D > c.Cap {
			dv.D = c.Cap
		}
		c.Dist[s] = dv
	}
	old := c.Bytes
	c.Bytes[1] = old[0]
	c.Bytes[0] = lts.Full()
	c.Rel = RelUnknown
	for _, f := range c.Frames {
		for k, v := range f.Env {
			f.Env[k] = shiftVal(v, old)
		}
		for _, cl := range f.Cells {
			cl.val = shiftVal(cl.val, old)
		}
	}
}

// jumpForward: the cursor moves forward by an unknown amount (a summarised machine ran): every distance becomes a
// lower bound; the order between marks is kept.
func (c *Config) jumpForward() {
	type kv struct {
		s  Sym
		dv distV
	}
	var ex []kv
	for s, dv := range c.Dist {
		if dv.Exact {
			ex = append(ex, kv{s, dv})
		}
	}
	sort.Slice(ex, func(i, j int) bool { return ex[i].dv.D > ex[j].dv.D }) // furthest behind first
	r := c.maxRank()
	for _, e := range ex {
		r++
		d := e.dv.D
		if d > c.Cap {
			d = c.Cap
		}
		c.Dist[e.s] = distV{D: d, Exact: false, Rank: r}
	}
}

func shiftVal(v Val, old [2]lts.ByteSet) Val {
	switch v := v.(type) {
	case ByteFn:
		if v.Pos == 0 {
			return ByteFn{Pos: -1, Tab: v.Tab}
		}
		return collapse(v, old[1])
	case PtrV:
		if v.Kind == PtrTable {
			v.Idx = shiftVal(v.Idx, old)
			if _, still := v.Idx.(ByteFn); !still {
				return PtrV{Kind: PtrOpaque}
			}
			return v
		}
	case TupleV:
		n := TupleV{Vs: make([]Val, len(v.Vs))}
		for i, x := range v.Vs {
			n.Vs[i] = shiftVal(x, old)
		}
		return n
	}
	return v
}

// collapse turns a byte function over a byte set into a value that no longer refers to the byte.
func collapse(b ByteFn, set lts.ByteSet) Val {
	cl := b.classes(set)
	if len(cl) == 0 {
		return Top{}
	}
	if len(cl) == 1 {
		for v := range cl {
			if v.IsBool {
				return BoolV{v.B}
			}
			return IntV{constForm(v.I)}
		}
	}
	if len(cl) <= 10 {
		var vals []int64
		for v := range cl {
			if v.IsBool {
				return Top{}
			}
			vals = append(vals, v.I)
		}
		sort.Slice(vals, func(i, j int) bool { return vals[i] < vals[j] })
		return SetV{vals}
	}
	return Top{}
}

// ---- canonical key ---------------------------------------------------------------------------------

func (e *Engine) key(c *Config) string {
	var sb strings.Builder
	ren := map[Sym]int{}
	{
		var far []Sym
		for s, dv := range c.Dist {
			if !dv.Exact {
				far = append(far, s)
			}
		}
		sort.Slice(far, func(i, j int) bool { return c.Dist[far[i]].Rank < c.Dist[far[j]].Rank })
		for i, s := range far {
			ren[s] = i + 1
		}
	}
	rn := func(s Sym) string {
		if s == END {
			return "E"
		}
		dv := c.Dist[s]
		if dv.Exact {
			return fmt.Sprintf("x%d", dv.D)
		}
		return fmt.Sprintf("f%d>=%d", ren[s], dv.D)
	}
	var fs func(f Form) string
	fs = func(f Form) string {
		var p []string
		for s, co := range f.C {
			p = append(p, fmt.Sprintf("%d*%s", co, rn(s)))
		}
		sort.Strings(p)
		return strings.Join(p, "+") + fmt.Sprintf("%+d", f.K)
	}
	var vs func(v Val) string
	vs = func(v Val) string {
		switch v := v.(type) {
		case nil:
			return "nil"
		case Top:
			return "T"
		case IntV:
			return "i:" + fs(v.F)
		case BoolV:
			if v.B {
				return "t"
			}
			return "f"
		case ByteFn:
			// identify by table content restricted to the current set
			set := c.Bytes[0]
			if v.Pos == -1 {
				set = c.Bytes[1]
			}
			cl := v.classes(set)
			var p []string
			for cv, s := range cl {
				p = append(p, cv.String()+":"+s.String())
			}
			sort.Strings(p)
			return fmt.Sprintf("bf%d{%s}", v.Pos, strings.Join(p, ";"))
		case EndFn:
			return fmt.Sprintf("ef%v%v", v.AtEnd, v.Before)
		case SetV:
			return fmt.Sprint("s", v.Vals)
		case NZ:
			return "nz"
		case SliceV:
			return "sl[" + fs(v.Lo) + ":" + fs(v.Hi) + "]"
		case ErrV:
			return fmt.Sprintf("e%d%s", v.Kind, v.Name)
		case PtrV:
			switch v.Kind {
			case PtrTable:
				return "pt:" + v.Table.Name + ":" + vs(v.Idx)
			case PtrElem:
				return "pe:" + fs(v.Pos)
			case PtrCell:
				return fmt.Sprintf("pc%d", v.Cell.id)
			case PtrGlobal:
				return "pg:" + v.Glob.Name()
			}
			return "po"
		case TupleV:
			var p []string
			for _, x := range v.Vs {
				p = append(p, vs(x))
			}
			return "(" + strings.Join(p, ",") + ")"
		case Opaque:
			return "o"
		}
		return "?"
	}
	fmt.Fprintf(&sb, "r%d b0%s b1%s v%v|", c.Rel, c.Bytes[0], c.Bytes[1], c.VDep)
	for _, f := range c.Frames {
		fmt.Fprintf(&sb, "[%s b%d i%d base=%s ", f.Fn.Name(), f.Block.Index, f.Idx, rn(f.Base))
		live := e.liveAt(f.Fn, f.Block, f.Idx)
		var names []string
		byName := map[string]ssa.Value{}
		for v := range f.Env {
			if !live[v] {
				continue
			}
			n := v.Name()
			if _, isP := v.(*ssa.Parameter); isP {
				n = "p:" + n
			}
			names = append(names, n)
			byName[n] = v
		}
		sort.Strings(names)
		for _, n := range names {
			fmt.Fprintf(&sb, "%s=%s ", n, vs(f.Env[byName[n]]))
		}
		var cids []int
		cv := map[int]Val{}
		for _, cl := range f.Cells {
			cids = append(cids, cl.id)
			cv[cl.id] = cl.val
		}
		sort.Ints(cids)
		for _, id := range cids {
			fmt.Fprintf(&sb, "c%d=%s ", id, vs(cv[id]))
		}
		sb.WriteString("]")
	}
	return sb.String()
}

// ---- liveness ------------------------------------------------------------------------------------

type liveInfo struct {
	out map[*ssa.BasicBlock]map[ssa.Value]bool
}

func (e *Engine) liveness(fn *ssa.Function) *liveInfo {
	if li, ok := e.live[fn]; ok {
		return li
	}
	li := &liveInfo{out: map[*ssa.BasicBlock]map[ssa.Value]bool{}}
	in := map[*ssa.BasicBlock]map[ssa.Value]bool{}
	for _, b := range fn.Blocks {
		li.out[b] = map[ssa.Value]bool{}
		in[b] = map[ssa.Value]bool{}
	}
	isTracked := func(v ssa.Value) bool {
		switch v.(type) {
		case *ssa.Const, *ssa.Global, *ssa.Function, *ssa.Builtin:
			return false
		}
		return true
	}
	changed := true
	for changed {
		changed = false
		for i := len(fn.Blocks) - 1; i >= 0; i-- {
			b := fn.Blocks[i]
			out := li.out[b]
			for _, s := range b.Succs {
				for v := range in[s] {
					if !out[v] {
						out[v] = true
						changed = true
					}
				}
				// phi uses along this edge
				pi := -1
				for k, p := range s.Preds {
					if p == b {
						pi = k
					}
				}
				for _, ins := range s.Instrs {
					phi, ok := ins.(*ssa.Phi)
					if !ok {
						break
					}
					if pi >= 0 && isTracked(phi.Edges[pi]) && !out[phi.Edges[pi]] {
						out[phi.Edges[pi]] = true
						changed = true
					}
				}
			}
			cur := map[ssa.Value]bool{}
			for v := range out {
				cur[v] = true
			}
			for k := len(b.Instrs) - 1; k >= 0; k-- {
				ins := b.Instrs[k]
				if v, ok := ins.(ssa.Value); ok {
					delete(cur, v)
				}
				if _, isPhi := ins.(*ssa.Phi); isPhi {
					continue
				}
				for _, op := range ins.Operands(nil) {
					if *op != nil && isTracked(*op) {
						cur[*op] = true
					}
				}
			}
			for v := range cur {
				if !in[b][v] {
					in[b][v] = true
					changed = true
				}
			}
		}
	}
	e.live[fn] = li
	return li
}

// liveAt: values live just before instruction idx of block b.
func (e *Engine) liveAt(fn *ssa.Function, b *ssa.BasicBlock, idx int) map[ssa.Value]bool {
	type k struct {
		b *ssa.BasicBlock
		i int
	}
	key := k{b, idx}
	if m, ok := e.liveCache[key]; ok {
		return m
	}
	li := e.liveness(fn)
	cur := map[ssa.Value]bool{}
	for v := range li.out[b] {
		cur[v] = true
	}
	for i := len(b.Instrs) - 1; i >= idx; i-- {
		ins := b.Instrs[i]
		if v, ok := ins.(ssa.Value); ok {
			delete(cur, v)
		}
		if _, isPhi := ins.(*ssa.Phi); isPhi {
			continue
		}
		for _, op := range ins.Operands(nil) {
			if *op == nil {
				continue
			}
			switch (*op).(type) {
			case *ssa.Const, *ssa.Global, *ssa.Function, *ssa.Builtin:
			default:
				cur[*op] = true
			}
		}
	}
	e.liveCache[key] = cur
	return cur
}

// ---- engine --------------------------------------------------------------------------------------

// Spec tells the engine how to read a function's results.
type Spec struct {
	Fn        *ssa.Function
	OffsetIdx int // result index of the offset (-1 none)
	ErrIdx    int // result index of the error (-1 none)
	BoolIdx   int // result index of a boolean verdict (-1 none); success = true
	ExtraIdx  int // result index reported as Extra on exits (-1 none)
	// Entry binds the parameters; nil = default (first []byte parameter is the whole input, cursor at 0).
	Entry func(e *Engine, c *Config, f *Frame)
}

// Engine holds the analysis context.
type Engine struct {
	subBase      map[*ssa.Function]map[ssa.Value]ssa.Value
	constCmpOnly map[*ssa.Function]map[ssa.Value]bool
	// Checked: positions of the index / slice expressions on the input that any analysis of this engine has judged.
	Checked   map[token.Pos]bool
	W         *core.World
	Inline    map[*ssa.Function]bool
	Machines  map[*ssa.Function]string // summarised machines: callee -> name
	Tables    map[types.Object]*Table
	live      map[*ssa.Function]*liveInfo
	liveCache map[interface{}]map[ssa.Value]bool
	relevant  map[*ssa.Function]map[ssa.Value]bool
	relRes    map[*ssa.Function]map[int]bool
	relParam  map[*ssa.Function]map[int]bool
	idxLike   map[*ssa.Function]map[ssa.Value]bool
	signOnly  map[*ssa.Function]map[ssa.Value]bool
	Problems  []Problem
	Unsafe    []Problem // index/slice obligations that could not be proved
	Reads     int       // index obligations proved
	MaxStates int
	cellSeq   int
	spec      *Spec
	Trace     bool
}

type Problem struct {
	Key string
	Pos token.Pos
	Msg string
}

func NewEngine(w *core.World) *Engine {
	return &Engine{W: w, Inline: map[*ssa.Function]bool{}, Machines: map[*ssa.Function]string{}, Tables: map[types.Object]*Table{},
		live: map[*ssa.Function]*liveInfo{}, liveCache: map[interface{}]map[ssa.Value]bool{},
		relevant: map[*ssa.Function]map[ssa.Value]bool{}, relRes: map[*ssa.Function]map[int]bool{}, relParam: map[*ssa.Function]map[int]bool{},
		MaxStates: 6000}
}

func (e *Engine) problem(pos token.Pos, key, format string, a ...interface{}) {
	e.Problems = append(e.Problems, Problem{Key: key, Pos: pos, Msg: fmt.Sprintf(format, a...)})
}

// leaf of the exploration from one boundary configuration.
type leaf struct {
	kind  string // "return", "advance", "machine", "undecided"
	cfg   *Config
	res   []Val
	next  *Config // advance
	okCfg *Config // machine
	failC *Config
	mach  string
	pos   token.Pos
	msg   string
}

// Result of analysing one function.
type Result struct {
	LTS      *lts.LTS
	Problems []Problem
	Unsafe   []Problem
	Reads    int
	Extra    map[string]bool
}

// Analyse builds the LTS of spec.Fn.
func (e *Engine) Analyse(spec *Spec) *Result {
	e.spec = spec
	e.Problems, e.Unsafe, e.Reads = nil, nil, 0
	e.computeRelevance(spec)
	fn := spec.Fn
	l := lts.New(fn.Name())
	res := &Result{LTS: l, Extra: map[string]bool{}}
	if len(fn.Blocks) == 0 {
		e.problem(fn.Pos(), fn.Name(), "function has no body")
		res.Problems = e.Problems
		return res
	}
	c0 := &Config{Dist: map[Sym]distV{}, Bytes: [2]lts.ByteSet{lts.Full(), lts.Full()}, Cap: e.capFor(fn)}
	f0 := &Frame{Fn: fn, Block: fn.Blocks[0], Env: map[ssa.Value]Val{}, Cells: map[*ssa.Alloc]*cell{}}
	c0.Frames = []*Frame{f0}
	if spec.Entry != nil {
		spec.Entry(e, c0, f0)
	} else {
		e.defaultEntry(c0, f0)
	}
	ids := map[string]int{}
	var cfgs []*Config
	idOf := func(c *Config) int {
		k := e.key(c)
		if id, ok := ids[k]; ok {
			return id
		}
		id := len(ids) + 1
		ids[k] = id
		cfgs = append(cfgs, c)
		if e.Trace {
			fmt.Printf("STATE %d %s\n", id, k)
		}
		return id
	}
	l.Start = idOf(c0)
	began := time.Now()
	for i := 0; i < len(cfgs); i++ {
		if time.Since(began) > 90*time.Second {
			e.problem(fn.Pos(), fn.Name(), "abstract exploration exceeded its time budget (90s, %d states so far): the function is outside the scanner domain", len(cfgs))
			break
		}
		if len(cfgs) > e.MaxStates {
			e.problem(fn.Pos(), fn.Name(), "more than %d abstract states: the function is outside the scanner domain", e.MaxStates)
			break
		}
		b := cfgs[i]
		id := i + 1
		st := l.State(id)
		st.Name = fmt.Sprintf("s%d@%s.b%d", id, b.top().Fn.Name(), b.top().Block.Index)
		st.Pos = e.W.Pos(b.top().Block.Instrs[min(b.top().Idx, len(b.top().Block.Instrs)-1)].Pos())
		start := b.clone()
		start.Prims = nil
		start.VDep = false
		leaves := e.run(start)
		for _, lf := range leaves {
			var term lts.Term
			prims := lf.cfg.Prims
			switch lf.kind {
			case "undecided":
				e.problem(lf.pos, fn.Name()+":"+st.Name, "%s", lf.msg)
				term = lts.Term{Kind: lts.Exit, OK: false, Err: "undecided: " + lf.msg}
			case "advance":
				term = lts.Term{Kind: lts.Move, To: idOf(lf.next)}
			case "machine":
				term = lts.Term{Kind: lts.CallM, Name: lf.mach, To: idOf(lf.okCfg), Fail: idOf(lf.failC)}
			case "return":
				term = e.interpretReturn(lf, res)
			}
			term.VDep = lf.cfg.VDep
			switch lf.cfg.Rel {
			case RelUnknown:
				// applies before looking at anything: both at end of input and for every byte
				st.EOF = append(st.EOF, termToEOF(term, prims))
				if term.Kind == lts.Exit && term.OK {
					// offset relative to END was computed for the EOF copy; for bytes it is relative to CUR
					term2 := e.interpretReturnAt(lf, res, false)
					term2.VDep = lf.cfg.VDep
					st.Edges = append(st.Edges, lts.Edge{Bytes: lts.Full(), Prims: prims, Term: term2, Pos: e.W.Pos(lf.pos)})
				} else {
					st.Edges = append(st.Edges, lts.Edge{Bytes: lts.Full(), Prims: prims, Term: term, Pos: e.W.Pos(lf.pos)})
				}
			case RelAtEnd:
				st.EOF = append(st.EOF, termToEOF(term, prims))
			case RelBefore:
				st.Edges = append(st.Edges, lts.Edge{Bytes: lf.cfg.Bytes[0], Prims: prims, Term: term, Pos: e.W.Pos(lf.pos)})
			}
		}
	}
	res.Problems = e.Problems
	res.Unsafe = e.Unsafe
	res.Reads = e.Reads
	return res
}

func termToEOF(t lts.Term, prims []lts.Prim) lts.EOFOutcome {
	o := lts.EOFOutcome{Prims: prims, OK: t.OK, Err: t.Err, VDep: t.VDep, Delta: t.Delta}
	if t.Kind != lts.Exit {
		o.Term = &t
	}
	return o
}

func (e *Engine) defaultEntry(c *Config, f *Frame) {
	m0 := c.markAt(0)
	first := true
	for _, p := range f.Fn.Params {
		if isByteSlice(p.Type()) && first {
			f.Env[p] = SliceV{Lo: symForm(m0), Hi: symForm(END)}
			f.Base = m0
			first = false
			continue
		}
		f.Env[p] = Top{}
	}
}

func isByteSlice(t types.Type) bool {
	if s, ok := t.Underlying().(*types.Slice); ok {
		if b, ok := s.Elem().Underlying().(*types.Basic); ok && b.Kind() == types.Uint8 {
			return true
		}
	}
	return false
}

// interpretReturn turns the abstract result tuple into a terminator.
func (e *Engine) interpretReturn(lf leaf, res *Result) lts.Term {
	return e.interpretReturnAt(lf, res, lf.cfg.Rel != RelBefore)
}

func (e *Engine) interpretReturnAt(lf leaf, res *Result, atEnd bool) lts.Term {
	sp := e.spec
	c := lf.cfg
	t := lts.Term{Kind: lts.Exit}
	ok := true
	decided := true
	if sp.ErrIdx >= 0 {
		switch v := lf.res[sp.ErrIdx].(type) {
		case ErrV:
			switch v.Kind {
			case ErrNil:
			case ErrNonNil:
				ok = false
				t.Err = v.Name
			default:
				decided = false
			}
		default:
			decided = false
		}
	}
	if sp.BoolIdx >= 0 {
		switch v := lf.res[sp.BoolIdx].(type) {
		case BoolV:
			if !v.B {
				ok = false
				t.Err = "false"
			}
		default:
			decided = false
		}
	}
	if !decided {
		e.problem(lf.pos, sp.Fn.Name()+":return", "verdict of a return is not determined by the scanner state (%s)", valString(TupleV{lf.res}))
		return lts.Term{Kind: lts.Exit, OK: false, Err: "undecided verdict"}
	}
	t.OK = ok
	if sp.ExtraIdx >= 0 && ok {
		switch v := lf.res[sp.ExtraIdx].(type) {
		case IntV:
			if v.F.isConst() {
				t.Extra = fmt.Sprint(v.F.K)
			}
		case BoolV:
			t.Extra = fmt.Sprint(v.B)
		case ByteFn:
			if v.Pos == 0 && isIdentity(v, c.Bytes[0]) {
				t.Extra = "=byte"
			} else {
				t.Extra = "?"
			}
		default:
			t.Extra = "?"
		}
		res.Extra[t.Extra] = true
	}
	if ok && sp.OffsetIdx >= 0 {
		iv, isInt := lf.res[sp.OffsetIdx].(IntV)
		if !isInt {
			e.problem(lf.pos, sp.Fn.Name()+":return", "offset returned with a nil error is not a position (%s)", valString(lf.res[sp.OffsetIdx]))
			return lts.Term{Kind: lts.Exit, OK: false, Err: "undecided offset"}
		}
		// absolute position = base + offset
		abs := iv.F
		if base := c.Frames[0].Base; base != 0 {
			abs = abs.add(symForm(base), 1)
		}
		off, relEnd, exact, okp := c.posOf(abs)
		switch {
		case !okp || !exact:
			e.problem(lf.pos, sp.Fn.Name()+":return", "offset returned with a nil error is not a known position (%s)", formString(abs))
			return lts.Term{Kind: lts.Exit, OK: false, Err: "undecided offset"}
		case relEnd && atEnd:
			t.Delta = off
		case relEnd && !atEnd:
			e.problem(lf.pos, sp.Fn.Name()+":return", "offset len(data)%+d returned while the cursor is before the end", off)
			return lts.Term{Kind: lts.Exit, OK: false, Err: "undecided offset"}
		case atEnd && c.Rel == RelAtEnd:
			t.Delta = off // CUR == END
		default:
			t.Delta = off
		}
	}
	return t
}

// ---- relevance ------------------------------------------------------------------------------------

func (e *Engine) computeRelevance(spec *Spec) {
	e.relevant = map[*ssa.Function]map[ssa.Value]bool{}
	e.relRes = map[*ssa.Function]map[int]bool{}
	e.relParam = map[*ssa.Function]map[int]bool{}
	e.relRes[spec.Fn] = map[int]bool{}
	for _, i := range []int{spec.OffsetIdx, spec.ErrIdx, spec.BoolIdx, spec.ExtraIdx} {
		if i >= 0 {
			e.relRes[spec.Fn][i] = true
		}
	}
	fns := map[*ssa.Function]bool{spec.Fn: true}
	for changed := true; changed; {
		changed = false
		// the value classifications below depend on the relevance computed so far
		e.signOnly, e.constCmpOnly, e.idxLike = nil, nil, nil
		for fn := range fns {
			if e.relevanceOf(fn, fns) {
				changed = true
			}
		}
	}
	e.signOnly, e.constCmpOnly, e.idxLike = nil, nil, nil
}

// relevanceOf recomputes fn's relevant values; reports whether anything (incl. callee result/param demands) grew.
func (e *Engine) relevanceOf(fn *ssa.Function, fns map[*ssa.Function]bool) bool {
	rel := e.relevant[fn]
	if rel == nil {
		rel = map[ssa.Value]bool{}
		e.relevant[fn] = rel
	}
	if e.relRes[fn] == nil {
		e.relRes[fn] = map[int]bool{}
	}
	if e.relParam[fn] == nil {
		e.relParam[fn] = map[int]bool{}
	}
	grew := false
	var work []ssa.Value
	mark := func(v ssa.Value) {
		if v == nil || rel[v] {
			return
		}
		switch v.(type) {
		case *ssa.Const, *ssa.Global, *ssa.Function, *ssa.Builtin:
			return
		}
		rel[v] = true
		grew = true
		work = append(work, v)
	}
	for _, b := range fn.Blocks {
		for _, ins := range b.Instrs {
			switch ins := ins.(type) {
			case *ssa.If:
				mark(ins.Cond)
			case *ssa.IndexAddr:
				mark(ins.Index)
				mark(ins.X)
			case *ssa.Index:
				mark(ins.Index)
				mark(ins.X)
			case *ssa.Slice:
				mark(ins.X)
				mark(ins.Low)
				mark(ins.High)
			case *ssa.Return:
				for i, r := range ins.Results {
					if e.relRes[fn][i] {
						mark(r)
					}
				}
			case *ssa.Call:
				if callee := ins.Call.StaticCallee(); callee != nil {
					if e.Inline[callee] {
						if !fns[callee] {
							fns[callee] = true
							grew = true
						}
						for j, a := range ins.Call.Args {
							if e.relParam[callee] != nil && e.relParam[callee][j] {
								mark(a)
							}
						}
					}
					if _, isM := e.Machines[callee]; isM {
						for _, a := range ins.Call.Args {
							mark(a)
						}
					}
				}
			}
		}
	}
	// already-relevant values need re-propagation too (cheap: whole set)
	for v := range rel {
		work = append(work, v)
	}
	for len(work) > 0 {
		v := work[len(work)-1]
		work = work[:len(work)-1]
		switch v := v.(type) {
		case *ssa.Parameter:
			for j, p := range fn.Params {
				if p == v && !e.relParam[fn][j] {
					e.relParam[fn][j] = true
					grew = true
				}
			}
		case *ssa.BinOp:
			mark(v.X)
			mark(v.Y)
		case *ssa.UnOp:
			mark(v.X)
		case *ssa.Phi:
			for _, x := range v.Edges {
				mark(x)
			}
		case *ssa.Convert:
			mark(v.X)
		case *ssa.ChangeType:
			mark(v.X)
		case *ssa.Extract:
			mark(v.Tuple)
			if call, ok := v.Tuple.(*ssa.Call); ok {
				if callee := call.Call.StaticCallee(); callee != nil && e.Inline[callee] && !e.isCounter(fn, v) {
					if e.relRes[callee] == nil {
						e.relRes[callee] = map[int]bool{}
					}
					if !e.relRes[callee][v.Index] {
						e.relRes[callee][v.Index] = true
						grew = true
					}
				}
			}
		case *ssa.Call:
			if callee := v.Call.StaticCallee(); callee != nil && e.Inline[callee] {
				if callee.Signature.Results().Len() == 1 {
					if e.relRes[callee] == nil {
						e.relRes[callee] = map[int]bool{}
					}
					if !e.relRes[callee][0] {
						e.relRes[callee][0] = true
						grew = true
					}
				}
			}
			if b, ok := v.Call.Value.(*ssa.Builtin); ok && (b.Name() == "len" || b.Name() == "cap") {
				for _, a := range v.Call.Args {
					mark(a)
				}
			}
		case *ssa.Slice:
			mark(v.X)
			mark(v.Low)
			mark(v.High)
		case *ssa.IndexAddr:
			mark(v.X)
			mark(v.Index)
		case *ssa.FieldAddr:
			mark(v.X)
		case *ssa.Field:
			mark(v.X)
		}
	}
	return grew
}

func (e *Engine) isRelevant(fn *ssa.Function, v ssa.Value) bool {
	m := e.relevant[fn]
	return m == nil || m[v]
}

// ---- table reading (E0) --------------------------------------------------------------------------

// LoadTables reads every package-level [256]T array with a composite-literal initialiser.
func (e *Engine) LoadTables() {
	for _, pkg := range e.W.Pkgs() {
		scope := pkg.Types.Scope()
		for _, name := range scope.Names() {
			obj, ok := scope.Lookup(name).(*types.Var)
			if !ok {
				continue
			}
			arr, ok := obj.Type().Underlying().(*types.Array)
			if !ok || arr.Len() != 256 {
				continue
			}
			if t := core.ReadTable256(pkg, obj); t != nil {
				tab := &Table{Name: pkg.Types.Name() + "." + name, Obj: obj}
				okAll := true
				for i := 0; i < 256; i++ {
					cv, ok := constToCV(t[i])
					if !ok {
						okAll = false
						break
					}
					tab.Vals[i] = cv
				}
				if okAll {
					e.Tables[obj] = tab
				}
			}
		}
	}
}

var _ = constant.MakeBool

// capFor: distances from the cursor are kept exact below 1 + the largest small constant that the function (or a
// function it inlines) compares an integer with; larger distances are only lower bounds.
func (e *Engine) capFor(fn *ssa.Function) int {
	seen := map[*ssa.Function]bool{}
	best := int64(2)
	var visit func(f *ssa.Function)
	visit = func(f *ssa.Function) {
		if seen[f] {
			return
		}
		seen[f] = true
		for _, b := range f.Blocks {
			for _, ins := range b.Instrs {
				switch ins := ins.(type) {
				case *ssa.BinOp:
					if !isCmp(ins.Op) {
						continue
					}
					// only comparisons of positions / distances between positions with a constant matter
					posLike := func(v ssa.Value) bool {
						if e.indexLike(f, v) {
							return true
						}
						if b, ok := v.(*ssa.BinOp); ok && b.Op == token.SUB && e.indexLike(f, b.X) && e.indexLike(f, b.Y) {
							return true
						}
						if c, ok := v.(*ssa.Call); ok {
							if bi, ok := c.Call.Value.(*ssa.Builtin); ok && bi.Name() == "len" {
								return true
							}
						}
						return false
					}
					if !posLike(ins.X) && !posLike(ins.Y) {
						continue
					}
					for _, op := range []ssa.Value{ins.X, ins.Y} {
						if k, ok := op.(*ssa.Const); ok && k.Value != nil && isIntegerType(k.Type()) {
							if b, ok := k.Type().Underlying().(*types.Basic); ok && b.Kind() == types.Int {
								if v, ok := constant.Int64Val(k.Value); ok && v > best && v < distCap {
									best = v
								}
							}
						}
					}
				case *ssa.Call:
					if callee := ins.Call.StaticCallee(); callee != nil && e.Inline[callee] {
						visit(callee)
					}
				}
			}
		}
	}
	visit(fn)
	if e.Trace {
		fmt.Printf("CAP %s = %d\n", fn.Name(), best+1)
	}
	return int(best) + 1
}
