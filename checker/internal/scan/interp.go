package scan

import (
	"fmt"
	"go/constant"
	"go/token"
	"go/types"

	"golang.org/x/tools/go/ssa"

	"rjverif/internal/lts"
)

const maxStepsPerState = 200000

// run explores from a boundary configuration to its leaves.
func (e *Engine) run(start *Config) []leaf {
	var leaves []leaf
	stack := []*Config{start}
	steps := 0
	for len(stack) > 0 {
		c := stack[len(stack)-1]
		stack = stack[:len(stack)-1]
		forks, lf := e.exec(c, &steps)
		if lf != nil {
			leaves = append(leaves, *lf)
		}
		stack = append(stack, forks...)
		if steps > maxStepsPerState || len(leaves) > 4000 {
			leaves = append(leaves, leaf{kind: "undecided", cfg: c, msg: "exploration from one state does not terminate within the step budget", pos: c.top().Fn.Pos()})
			break
		}
	}
	return leaves
}

func (e *Engine) undecided(c *Config, pos token.Pos, format string, a ...interface{}) *leaf {
	return &leaf{kind: "undecided", cfg: c, pos: pos, msg: fmt.Sprintf(format, a...)}
}

// exec runs c until it forks or reaches a leaf.
func (e *Engine) exec(c *Config, steps *int) ([]*Config, *leaf) {
	for {
		*steps++
		if *steps > maxStepsPerState {
			return nil, e.undecided(c, c.top().Fn.Pos(), "step budget exceeded")
		}
		f := c.top()
		if f.Idx >= len(f.Block.Instrs) {
			return nil, e.undecided(c, f.Fn.Pos(), "fell off a basic block")
		}
		ins := f.Block.Instrs[f.Idx]
		switch ins := ins.(type) {
		case *ssa.DebugRef:
			f.Idx++
		case *ssa.Jump:
			e.jump(c, f, 0)
		case *ssa.If:
			cond := e.operand(c, f, ins.Cond)
			switch v := cond.(type) {
			case BoolV:
				if v.B {
					e.jump(c, f, 0)
				} else {
					e.jump(c, f, 1)
				}
			case EndFn:
				switch c.Rel {
				case RelAtEnd:
					e.jumpBool(c, f, v.AtEnd)
				case RelBefore:
					e.jumpBool(c, f, v.Before)
				default:
					if v.AtEnd == v.Before {
						e.jumpBool(c, f, v.AtEnd)
						continue
					}
					a, b := c, c.clone()
					a.Rel = RelAtEnd
					resolveEnd(a)
					e.jumpBool(a, a.top(), v.AtEnd)
					b.Rel = RelBefore
					resolveEnd(b)
					e.jumpBool(b, b.top(), v.Before)
					return []*Config{a, b}, nil
				}
			case ByteFn:
				pi := 0
				if v.Pos == -1 {
					pi = 1
				}
				if v.Pos == 0 && c.Rel != RelBefore {
					return nil, e.undecided(c, ins.Pos(), "branch on the byte under the cursor without knowing the cursor is before the end")
				}
				var ts, fs lts.ByteSet
				for cv, s := range v.classes(c.Bytes[pi]) {
					if !cv.IsBool {
						return nil, e.undecided(c, ins.Pos(), "branch on a non-boolean byte function")
					}
					if cv.B {
						ts = ts.Or(s)
					} else {
						fs = fs.Or(s)
					}
				}
				switch {
				case fs.Empty() && ts.Empty():
					return nil, nil // infeasible
				case fs.Empty():
					e.jump(c, f, 0)
				case ts.Empty():
					e.jump(c, f, 1)
				default:
					a, b := c, c.clone()
					a.Bytes[pi] = ts
					e.jump(a, a.top(), 0)
					b.Bytes[pi] = fs
					e.jump(b, b.top(), 1)
					return []*Config{a, b}, nil
				}
			default:
				// value-dependent branch: both ways
				if e.Trace {
					fmt.Printf("VDEP-BRANCH %s %s cond=%s val=%s\n", f.Fn.Name(), e.W.Pos(ins.Pos()), ins.Cond.Name(), valString(cond))
				}
				a, b := c, c.clone()
				a.VDep, b.VDep = true, true
				if iv, ok := ins.Cond.(ssa.Value); ok {
					a.top().Env[iv] = BoolV{true}
					b.top().Env[iv] = BoolV{false}
				}
				e.refineErrTest(a, ins.Cond, true)
				e.refineErrTest(b, ins.Cond, false)
				e.jump(a, a.top(), 0)
				e.jump(b, b.top(), 1)
				return []*Config{a, b}, nil
			}
		case *ssa.Return:
			var res []Val
			for _, r := range ins.Results {
				res = append(res, e.operand(c, f, r))
			}
			if len(c.Frames) == 1 {
				return e.splitReturn(c, res, ins.Pos())
			}
			c.Frames = c.Frames[:len(c.Frames)-1]
			p := c.top()
			if f.CallRes != nil {
				if len(res) == 1 {
					p.Env[f.CallRes] = res[0]
				} else {
					p.Env[f.CallRes] = TupleV{res}
				}
			}
			p.Idx++
		case *ssa.Store:
			addr := e.operand(c, f, ins.Addr)
			if p, ok := addr.(PtrV); ok && p.Kind == PtrCell {
				p.Cell.val = e.operand(c, f, ins.Val)
			}
			f.Idx++
		case *ssa.RunDefers:
			f.Idx++
		case *ssa.Call:
			forks, lf, cont := e.call(c, f, ins)
			if !cont {
				return forks, lf
			}
		case *ssa.BinOp:
			v, adv := e.binop(c, f, ins)
			if adv {
				snap := snapshotForLeaf(c)
				n := c // advance in place; the boundary is this configuration, positioned at the comparison
				n.advance()
				for _, fr := range n.Frames {
					for k, v := range fr.Env {
						if e.isSignOnly(fr.Fn, k) {
							fr.Env[k] = coarsenSign(v)
						}
					}
				}
				n.Prims, n.VDep = nil, false
				e.prune(n)
				return nil, &leaf{kind: "advance", cfg: snap, next: n, pos: ins.Pos()}
			}
			e.set(c, f, ins, v)
			f.Idx++
		case ssa.Value:
			v, lf := e.value(c, f, ins)
			if lf != nil {
				return nil, lf
			}
			e.set(c, f, ins, v)
			f.Idx++
		case *ssa.MapUpdate:
			// a map store has no effect on anything the scanner domain tracks (integers, input slices, errors)
			f.Idx++
		case *ssa.Panic:
			return nil, e.undecided(c, ins.Pos(), "explicit panic reachable")
		default:
			return nil, e.undecided(c, ins.Pos(), "instruction %T is outside the scanner domain", ins)
		}
	}
}

// snapshotForLeaf: the leaf keeps the byte set / prims / VDep of the configuration at the moment of the leaf.
// For an advance the configuration object is reused as the next boundary, so copy the fields that describe the edge.
func snapshotForLeaf(c *Config) *Config {
	return &Config{Bytes: c.Bytes, Rel: c.Rel, VDep: c.VDep, Prims: append([]lts.Prim(nil), c.Prims...), Frames: c.Frames, Dist: c.Dist}
}

func resolveEnd(c *Config) {
	for _, f := range c.Frames {
		for k, v := range f.Env {
			if ef, ok := v.(EndFn); ok {
				if c.Rel == RelAtEnd {
					f.Env[k] = BoolV{ef.AtEnd}
				} else {
					f.Env[k] = BoolV{ef.Before}
				}
			}
		}
	}
}

// refineErrTest: after a ⊤ branch on `err != nil` / `err == nil`, record what the branch taken implies.
func (e *Engine) refineErrTest(c *Config, cond ssa.Value, taken bool) {
	b, ok := cond.(*ssa.BinOp)
	if !ok || (b.Op != token.NEQ && b.Op != token.EQL) {
		return
	}
	var other ssa.Value
	if k, ok := b.Y.(*ssa.Const); ok && k.Value == nil {
		other = b.X
	} else if k, ok := b.X.(*ssa.Const); ok && k.Value == nil {
		other = b.Y
	}
	if other == nil {
		return
	}
	if ev, ok := c.top().Env[other].(ErrV); ok && ev.Kind == ErrUnknown {
		nonNil := (b.Op == token.NEQ) == taken
		if nonNil {
			c.top().Env[other] = ErrV{Kind: ErrNonNil, Name: ev.Name}
		} else {
			c.top().Env[other] = ErrV{Kind: ErrNil}
		}
	}
}

func (e *Engine) jumpBool(c *Config, f *Frame, b bool) {
	if b {
		e.jump(c, f, 0)
	} else {
		e.jump(c, f, 1)
	}
}

func (e *Engine) jump(c *Config, f *Frame, succ int) {
	from := f.Block
	to := from.Succs[succ]
	pi := -1
	for k, p := range to.Preds {
		if p == from {
			pi = k
			break
		}
	}
	// when a block appears twice among the predecessors (if both branches go to the same block) pick by succ order
	if succ == 1 && len(from.Succs) == 2 && from.Succs[0] == from.Succs[1] {
		cnt := 0
		for k, p := range to.Preds {
			if p == from {
				cnt++
				if cnt == 2 {
					pi = k
				}
			}
		}
	}
	var phis []*ssa.Phi
	var vals []Val
	n := 0
	for _, ins := range to.Instrs {
		phi, ok := ins.(*ssa.Phi)
		if !ok {
			break
		}
		n++
		phis = append(phis, phi)
		vals = append(vals, e.operand(c, f, phi.Edges[pi]))
	}
	f.Block = to
	f.Idx = n
	for i, phi := range phis {
		e.set(c, f, phi, vals[i])
	}
}

// set stores a computed value, applying relevance (irrelevant integers are ⊤) and the index-like conversion.
func (e *Engine) set(c *Config, f *Frame, v ssa.Value, val Val) {
	if val == nil {
		val = Top{}
	}
	if !e.isRelevant(f.Fn, v) {
		switch val.(type) {
		case IntV, SetV, ByteFn:
			if isIntegerType(v.Type()) {
				val = Top{}
			}
		}
	}
	if iv, ok := val.(IntV); ok && !iv.F.isConst() {
		val = IntV{c.normPos(iv.F)}
	}
	if e.isCounter(f.Fn, v) {
		switch val.(type) {
		case IntV, SetV, NZ:
			val = Top{}
		}
	}
	if e.isSignOnly(f.Fn, v) {
		if bf, ok := val.(ByteFn); ok {
			set := c.Bytes[0]
			if bf.Pos == -1 {
				set = c.Bytes[1]
			}
			allNZ, allZ := true, true
			for cv := range bf.classes(set) {
				if cv.IsBool || cv.I == 0 {
					allNZ = false
				}
				if cv.IsBool || cv.I != 0 {
					allZ = false
				}
			}
			if allNZ {
				val = NZ{}
			} else if allZ {
				val = IntV{constForm(0)}
			}
		}
		val = coarsenSign(val)
	}
	if false {
		switch vv := val.(type) {
		case IntV:
			if vv.F.isConst() && vv.F.K != 0 {
				val = NZ{}
			} else if !vv.F.isConst() {
				val = Top{}
			}
		case SetV:
			val = NZ{}
			for _, k := range vv.Vals {
				if k == 0 {
					val = Top{}
				}
			}
		}
	}
	if iv, ok := val.(IntV); ok && iv.F.isConst() && f.Base != 0 && e.indexLike(f.Fn, v) {
		base := f.Base
		if sub := e.subSliceBase(f.Fn, v); sub != nil {
			// the value indexes a sub-slice (for i := range data[start:]): it counts from that slice's start
			base = 0
			if sv, ok := f.Env[sub].(SliceV); ok {
				lo := c.normPos(sv.Lo)
				if len(lo.C) == 1 && lo.K == 0 {
					for sy, co := range lo.C {
						if co == 1 && sy != END {
							base = sy
						}
					}
				}
			}
		}
		if dv := c.Dist[base]; base != 0 && dv.Exact {
			nd := dv.D - int(iv.F.K)
			if nd >= -4 && nd < c.Cap && iv.F.K >= 0 {
				val = IntV{symForm(c.markAt(nd)).add(symForm(base), -1)}
			}
		}
	}
	f.Env[v] = val
}

func isIntegerType(t types.Type) bool {
	b, ok := t.Underlying().(*types.Basic)
	return ok && b.Info()&types.IsInteger != 0
}

func (e *Engine) operand(c *Config, f *Frame, v ssa.Value) Val {
	switch v := v.(type) {
	case *ssa.Const:
		return constVal(v)
	case *ssa.Global:
		return PtrV{Kind: PtrGlobal, Glob: v.Object()}
	case *ssa.Function, *ssa.Builtin:
		return Opaque{"func"}
	}
	if val, ok := f.Env[v]; ok {
		return val
	}
	return Top{}
}

func constVal(k *ssa.Const) Val {
	t := k.Type().Underlying()
	if k.Value == nil {
		if types.IsInterface(t) {
			return ErrV{Kind: ErrNil}
		}
		if b, ok := t.(*types.Basic); ok {
			switch {
			case b.Info()&types.IsBoolean != 0:
				return BoolV{false}
			case b.Info()&types.IsInteger != 0:
				return IntV{constForm(0)}
			}
		}
		return Opaque{"zero"}
	}
	switch k.Value.Kind() {
	case constant.Bool:
		return BoolV{constant.BoolVal(k.Value)}
	case constant.Int:
		if b, ok := t.(*types.Basic); ok && b.Info()&types.IsInteger != 0 {
			if i, ok := constant.Int64Val(k.Value); ok {
				return IntV{constForm(i)}
			}
			if u, ok := constant.Uint64Val(k.Value); ok {
				return IntV{constForm(int64(u))}
			}
		}
	}
	return Opaque{"const"}
}

// wrap reduces i to the range of basic integer type t (two's complement).
func wrap(i int64, t types.Type) int64 {
	b, ok := t.Underlying().(*types.Basic)
	if !ok {
		return i
	}
	switch b.Kind() {
	case types.Uint8:
		return int64(uint8(i))
	case types.Int8:
		return int64(int8(i))
	case types.Uint16:
		return int64(uint16(i))
	case types.Int16:
		return int64(int16(i))
	case types.Uint32:
		return int64(uint32(i))
	case types.Int32:
		return int64(int32(i))
	}
	return i
}

func isUnsigned(t types.Type) bool {
	b, ok := t.Underlying().(*types.Basic)
	return ok && b.Info()&types.IsUnsigned != 0
}

func arith(op token.Token, a, b int64, t types.Type) (int64, bool) {
	var r int64
	switch op {
	case token.ADD:
		r = a + b
	case token.SUB:
		r = a - b
	case token.MUL:
		r = a * b
	case token.AND:
		r = a & b
	case token.OR:
		r = a | b
	case token.XOR:
		r = a ^ b
	case token.SHL:
		if b < 0 || b > 63 {
			return 0, false
		}
		r = a << uint(b)
	case token.SHR:
		if b < 0 || b > 63 {
			return 0, false
		}
		if isUnsigned(t) {
			r = int64(uint64(a) >> uint(b))
		} else {
			r = a >> uint(b)
		}
	case token.QUO:
		if b == 0 {
			return 0, false
		}
		if isUnsigned(t) {
			r = int64(uint64(a) / uint64(b))
		} else {
			r = a / b
		}
	case token.REM:
		if b == 0 {
			return 0, false
		}
		if isUnsigned(t) {
			r = int64(uint64(a) % uint64(b))
		} else {
			r = a % b
		}
	default:
		return 0, false
	}
	return wrap(r, t), true
}

func isCmp(op token.Token) bool {
	switch op {
	case token.EQL, token.NEQ, token.LSS, token.LEQ, token.GTR, token.GEQ:
		return true
	}
	return false
}

func cmpInts(op token.Token, a, b int64, unsigned bool) bool {
	if unsigned {
		ua, ub := uint64(a), uint64(b)
		switch op {
		case token.EQL:
			return ua == ub
		case token.NEQ:
			return ua != ub
		case token.LSS:
			return ua < ub
		case token.LEQ:
			return ua <= ub
		case token.GTR:
			return ua > ub
		case token.GEQ:
			return ua >= ub
		}
	}
	return cmpConst(op, a-b) // operands are small
}

// binop evaluates a binary operation; adv reports that the cursor has to advance before the comparison
// can be answered (the caller turns that into a state boundary).
func (e *Engine) binop(c *Config, f *Frame, ins *ssa.BinOp) (Val, bool) {
	x, y := e.operand(c, f, ins.X), e.operand(c, f, ins.Y)
	op := ins.Op
	xt := ins.X.Type()
	if isCmp(op) {
		switch xv := x.(type) {
		case IntV:
			switch yv := y.(type) {
			case IntV:
				if xv.F.isConst() && yv.F.isConst() {
					return BoolV{cmpInts(op, xv.F.K, yv.F.K, isUnsigned(xt))}, false
				}
				return e.cmpForms(c, op, xv.F, yv.F)
			case ByteFn:
				if xv.F.isConst() {
					r, _ := yv.mapFn(func(cv CV) (CV, bool) {
						return CV{IsBool: true, B: cmpInts(op, xv.F.K, cv.I, isUnsigned(xt))}, !cv.IsBool
					})
					return r, false
				}
			case SetV:
				if xv.F.isConst() {
					return cmpSet(op, yv, xv.F.K, true, isUnsigned(xt)), false
				}
			}
		case ByteFn:
			switch yv := y.(type) {
			case IntV:
				if yv.F.isConst() {
					r, _ := xv.mapFn(func(cv CV) (CV, bool) {
						return CV{IsBool: true, B: cmpInts(op, cv.I, yv.F.K, isUnsigned(xt))}, !cv.IsBool
					})
					return r, false
				}
			case BoolV:
				r, _ := xv.mapFn(func(cv CV) (CV, bool) {
					return CV{IsBool: true, B: (cv.B == yv.B) == (op == token.EQL)}, cv.IsBool && (op == token.EQL || op == token.NEQ)
				})
				return r, false
			}
		case SetV:
			if yv, ok := y.(IntV); ok && yv.F.isConst() {
				return cmpSet(op, xv, yv.F.K, false, isUnsigned(xt)), false
			}
		case BoolV:
			if yv, ok := y.(BoolV); ok && (op == token.EQL || op == token.NEQ) {
				return BoolV{(xv.B == yv.B) == (op == token.EQL)}, false
			}
		case NZ:
			if yv, ok := y.(IntV); ok && yv.F.isConst() && yv.F.K == 0 && (op == token.EQL || op == token.NEQ) {
				return BoolV{op == token.NEQ}, false
			}
		case ErrV:
			if yv, ok := y.(ErrV); ok && (op == token.EQL || op == token.NEQ) {
				// comparison with nil
				var o ErrV
				switch {
				case yv.Kind == ErrNil:
					o = xv
				case xv.Kind == ErrNil:
					o = yv
				default:
					return Top{}, false
				}
				switch o.Kind {
				case ErrNil:
					return BoolV{op == token.EQL}, false
				case ErrNonNil:
					return BoolV{op == token.NEQ}, false
				}
				return Top{}, false
			}
		}
		return Top{}, false
	}
	// arithmetic
	t := ins.Type()
	if _, isNZ := x.(NZ); isNZ && (op == token.ADD || op == token.SUB || op == token.OR || op == token.XOR) {
		if yv, ok := y.(IntV); ok && yv.F.isConst() && yv.F.K == 0 {
			return NZ{}, false
		}
	}
	if _, isNZ := y.(NZ); isNZ && (op == token.ADD || op == token.OR || op == token.XOR) {
		if xv, ok := x.(IntV); ok && xv.F.isConst() && xv.F.K == 0 {
			return NZ{}, false
		}
	}
	switch xv := x.(type) {
	case IntV:
		switch yv := y.(type) {
		case IntV:
			if xv.F.isConst() && yv.F.isConst() {
				if r, ok := arith(op, xv.F.K, yv.F.K, t); ok {
					return IntV{constForm(r)}, false
				}
				return Top{}, false
			}
			switch op {
			case token.ADD:
				return IntV{c.normPos(xv.F.add(yv.F, 1))}, false
			case token.SUB:
				return IntV{c.normPos(xv.F.add(yv.F, -1))}, false
			case token.MUL:
				if xv.F.isConst() {
					return IntV{yv.F.scale(xv.F.K)}, false
				}
				if yv.F.isConst() {
					return IntV{xv.F.scale(yv.F.K)}, false
				}
			}
			return Top{}, false
		case ByteFn:
			if xv.F.isConst() {
				r, _ := yv.mapFn(func(cv CV) (CV, bool) {
					if cv.IsBool {
						return cv, false
					}
					v, ok := arith(op, xv.F.K, cv.I, t)
					return CV{I: v}, ok
				})
				return r, false
			}
		case SetV:
			if xv.F.isConst() {
				return arithSet(op, yv, xv.F.K, true, t), false
			}
		}
	case ByteFn:
		if yv, ok := y.(IntV); ok && yv.F.isConst() {
			r, _ := xv.mapFn(func(cv CV) (CV, bool) {
				if cv.IsBool {
					return cv, false
				}
				v, ok := arith(op, cv.I, yv.F.K, t)
				return CV{I: v}, ok
			})
			return r, false
		}
	case SetV:
		if yv, ok := y.(IntV); ok && yv.F.isConst() {
			return arithSet(op, xv, yv.F.K, false, t), false
		}
	case BoolV:
		if yv, ok := y.(BoolV); ok {
			switch op {
			case token.AND:
				return BoolV{xv.B && yv.B}, false
			case token.OR:
				return BoolV{xv.B || yv.B}, false
			}
		}
	}
	return Top{}, false
}

func cmpSet(op token.Token, s SetV, k int64, kLeft bool, unsigned bool) Val {
	var res *bool
	for _, v := range s.Vals {
		var b bool
		if kLeft {
			b = cmpInts(op, k, v, unsigned)
		} else {
			b = cmpInts(op, v, k, unsigned)
		}
		if res == nil {
			res = &b
		} else if *res != b {
			return Top{}
		}
	}
	if res == nil {
		return Top{}
	}
	return BoolV{*res}
}

func arithSet(op token.Token, s SetV, k int64, kLeft bool, t types.Type) Val {
	seen := map[int64]bool{}
	var out []int64
	for _, v := range s.Vals {
		var r int64
		var ok bool
		if kLeft {
			r, ok = arith(op, k, v, t)
		} else {
			r, ok = arith(op, v, k, t)
		}
		if !ok {
			return Top{}
		}
		if !seen[r] {
			seen[r] = true
			out = append(out, r)
		}
	}
	if len(out) == 1 {
		return IntV{constForm(out[0])}
	}
	return SetV{out}
}

// cmpForms compares two linear forms.
func (e *Engine) cmpForms(c *Config, op token.Token, l, r Form) (Val, bool) {
	d := l.add(r, -1)
	iv, ok, cE, k0, allExact := c.evalDiff(d)
	if !ok {
		return Top{}, false
	}
	if v, dec := decide(op, iv); dec {
		return BoolV{v}, false
	}
	if allExact && (cE == 1 || cE == -1) {
		switch c.Rel {
		case RelUnknown:
			if k0 == 0 {
				// D = cE*e : value at e==0 and at e>=1
				return EndFn{AtEnd: cmpConst(op, 0), Before: cmpConst(op, cE)}, false
			}
		case RelBefore:
			if k0 == -cE {
				return nil, true // D = cE*(e-1): advance, then it is the end-of-input test of the next state
			}
		}
	}
	return Top{}, false
}

// prune drops marks nobody refers to.
func (e *Engine) prune(c *Config) {
	used := map[Sym]bool{}
	var visit func(v Val)
	visitForm := func(f Form) {
		for s := range f.C {
			used[s] = true
		}
	}
	visit = func(v Val) {
		switch v := v.(type) {
		case IntV:
			visitForm(v.F)
		case SliceV:
			visitForm(v.Lo)
			visitForm(v.Hi)
		case PtrV:
			if v.Kind == PtrElem {
				visitForm(v.Pos)
				visitForm(v.Slice.Lo)
				visitForm(v.Slice.Hi)
			}
		case TupleV:
			for _, x := range v.Vs {
				visit(x)
			}
		}
	}
	for _, f := range c.Frames {
		used[f.Base] = true
		live := e.liveAt(f.Fn, f.Block, f.Idx)
		for k, v := range f.Env {
			if !live[k] {
				delete(f.Env, k)
				continue
			}
			visit(v)
		}
		for _, cl := range f.Cells {
			visit(cl.val)
		}
	}
	for s := range c.Dist {
		if !used[s] {
			delete(c.Dist, s)
		}
	}
}

// value evaluates the remaining value-producing instructions.
func (e *Engine) value(c *Config, f *Frame, ins ssa.Value) (Val, *leaf) {
	switch ins := ins.(type) {
	case *ssa.Phi:
		return Top{}, e.undecided(c, ins.Pos(), "phi outside block entry")
	case *ssa.UnOp:
		x := e.operand(c, f, ins.X)
		switch ins.Op {
		case token.MUL:
			return e.load(c, f, ins, x)
		case token.NOT:
			switch xv := x.(type) {
			case BoolV:
				return BoolV{!xv.B}, nil
			case EndFn:
				return EndFn{!xv.AtEnd, !xv.Before}, nil
			case ByteFn:
				r, _ := xv.mapFn(func(cv CV) (CV, bool) { return CV{IsBool: true, B: !cv.B}, cv.IsBool })
				return r, nil
			}
			return Top{}, nil
		case token.SUB:
			if xv, ok := x.(IntV); ok {
				return IntV{xv.F.scale(-1)}, nil
			}
			return Top{}, nil
		}
		return Top{}, nil
	case *ssa.Convert:
		x := e.operand(c, f, ins.X)
		if !isIntegerType(ins.Type()) {
			return Opaque{"convert"}, nil
		}
		switch xv := x.(type) {
		case IntV:
			if xv.F.isConst() {
				return IntV{constForm(wrap(xv.F.K, ins.Type()))}, nil
			}
			return xv, nil
		case ByteFn:
			r, _ := xv.mapFn(func(cv CV) (CV, bool) { return CV{I: wrap(cv.I, ins.Type())}, !cv.IsBool })
			return r, nil
		case SetV:
			return arithSet(token.ADD, xv, 0, false, ins.Type()), nil
		case NZ:
			if sizeOf(ins.Type()) >= sizeOf(ins.X.Type()) {
				return NZ{}, nil
			}
		}
		return Top{}, nil
	case *ssa.ChangeType:
		return e.operand(c, f, ins.X), nil
	case *ssa.Extract:
		if t, ok := e.operand(c, f, ins.Tuple).(TupleV); ok && ins.Index < len(t.Vs) {
			return t.Vs[ins.Index], nil
		}
		if isErrorT(ins.Type()) {
			return ErrV{Kind: ErrUnknown}, nil
		}
		return Top{}, nil
	case *ssa.IndexAddr:
		x := e.operand(c, f, ins.X)
		idx := e.operand(c, f, ins.Index)
		switch xv := x.(type) {
		case SliceV:
			iv, ok := idx.(IntV)
			if !ok {
				e.unsafe(c, ins.Pos(), f.Fn.Name(), "input indexed with a value that is not a position (%s)", valString(idx))
				return PtrV{Kind: PtrOpaque}, nil
			}
			pos := c.normPos(xv.Lo.add(iv.F, 1))
			e.checkIndex(c, f, ins.Pos(), pos, xv)
			return PtrV{Kind: PtrElem, Pos: pos, Slice: xv}, nil
		case PtrV:
			if xv.Kind == PtrGlobal {
				if tab := e.Tables[xv.Glob]; tab != nil {
					return PtrV{Kind: PtrTable, Table: tab, Idx: idx}, nil
				}
			}
		}
		return PtrV{Kind: PtrOpaque}, nil
	case *ssa.Slice:
		x := e.operand(c, f, ins.X)
		xv, ok := x.(SliceV)
		if !ok {
			return Opaque{"slice"}, nil
		}
		lo, hi := xv.Lo, xv.Hi
		okForm := true
		if ins.Low != nil {
			if iv, ok := e.operand(c, f, ins.Low).(IntV); ok {
				lo = c.normPos(xv.Lo.add(iv.F, 1))
			} else {
				okForm = false
			}
		}
		if ins.High != nil {
			if iv, ok := e.operand(c, f, ins.High).(IntV); ok {
				hi = c.normPos(xv.Lo.add(iv.F, 1))
			} else {
				okForm = false
			}
		}
		if !okForm {
			e.unsafe(c, ins.Pos(), f.Fn.Name(), "input sliced with a bound that is not a position")
			return Opaque{"slice"}, nil
		}
		e.checkSlice(c, f, ins.Pos(), lo, hi, xv)
		return SliceV{Lo: lo, Hi: hi}, nil
	case *ssa.Alloc:
		e.cellSeq++
		cl := &cell{id: len(f.Cells) + 1 + 100*len(c.Frames), val: zeroOf(ins.Type().(*types.Pointer).Elem())}
		f.Cells[ins] = cl
		return PtrV{Kind: PtrCell, Cell: cl}, nil
	case *ssa.FieldAddr:
		return PtrV{Kind: PtrOpaque}, nil
	case *ssa.MakeInterface:
		return Opaque{"iface"}, nil
	}
	if isErrorT(ins.Type()) {
		return ErrV{Kind: ErrUnknown}, nil
	}
	return Top{}, nil
}

func isErrorT(t types.Type) bool {
	return types.Identical(t, types.Universe.Lookup("error").Type())
}

func zeroOf(t types.Type) Val {
	if isErrorT(t) {
		return ErrV{Kind: ErrNil}
	}
	if b, ok := t.Underlying().(*types.Basic); ok {
		switch {
		case b.Info()&types.IsBoolean != 0:
			return BoolV{false}
		case b.Info()&types.IsInteger != 0:
			return IntV{constForm(0)}
		}
	}
	return Top{}
}

func (e *Engine) unsafe(c *Config, pos token.Pos, fn, format string, a ...interface{}) {
	msg := fmt.Sprintf(format, a...)
	for _, u := range e.Unsafe {
		if u.Pos == pos && u.Msg == msg {
			return
		}
	}
	e.Unsafe = append(e.Unsafe, Problem{Key: fn + ":index", Pos: pos, Msg: msg})
}

// checkIndex: Lo <= pos < Hi must hold.
func (e *Engine) checkIndex(c *Config, f *Frame, pos token.Pos, p Form, s SliceV) {
	e.notePos(pos)
	okHi := false
	if iv, ok, _, _, _ := c.evalDiff(p.add(s.Hi, -1)); ok {
		if v, dec := decide(token.LSS, iv); dec && v {
			okHi = true
		}
	}
	okLo := false
	if iv, ok, _, _, _ := c.evalDiff(s.Lo.add(p, -1)); ok {
		if v, dec := decide(token.LEQ, iv); dec && v {
			okLo = true
		}
	}
	if okHi && okLo {
		e.Reads++
		return
	}
	e.unsafe(c, pos, f.Fn.Name(), "index %s is not proved to lie inside [%s, %s) (lower ok=%v upper ok=%v rel=%d dist=%v)", formString(p), formString(s.Lo), formString(s.Hi), okLo, okHi, c.Rel, c.Dist)
}

func (e *Engine) checkSlice(c *Config, f *Frame, pos token.Pos, lo, hi Form, s SliceV) {
	e.notePos(pos)
	ok1, ok2, ok3 := false, false, false
	if iv, ok, _, _, _ := c.evalDiff(s.Lo.add(lo, -1)); ok {
		if v, dec := decide(token.LEQ, iv); dec && v {
			ok1 = true
		}
	}
	if iv, ok, _, _, _ := c.evalDiff(lo.add(hi, -1)); ok {
		if v, dec := decide(token.LEQ, iv); dec && v {
			ok2 = true
		}
	}
	if iv, ok, _, _, _ := c.evalDiff(hi.add(s.Hi, -1)); ok {
		if v, dec := decide(token.LEQ, iv); dec && v {
			ok3 = true
		}
	}
	if ok1 && ok2 && ok3 {
		e.Reads++
		return
	}
	e.unsafe(c, pos, f.Fn.Name(), "slice bounds [%s:%s] are not proved to lie inside [%s, %s]", formString(lo), formString(hi), formString(s.Lo), formString(s.Hi))
}

// load evaluates *ptr.
func (e *Engine) load(c *Config, f *Frame, ins *ssa.UnOp, x Val) (Val, *leaf) {
	p, ok := x.(PtrV)
	if !ok {
		if isErrorT(ins.Type()) {
			return ErrV{Kind: ErrUnknown}, nil
		}
		return Top{}, nil
	}
	switch p.Kind {
	case PtrCell:
		return p.Cell.val, nil
	case PtrGlobal:
		if isErrorT(ins.Type()) {
			return ErrV{Kind: ErrNonNil, Name: p.Glob.Name()}, nil
		}
		return Top{}, nil
	case PtrTable:
		switch iv := p.Idx.(type) {
		case ByteFn:
			r, _ := iv.mapFn(func(cv CV) (CV, bool) {
				if cv.IsBool || cv.I < 0 || cv.I > 255 {
					return cv, false
				}
				return p.Table.Vals[cv.I], true
			})
			return r, nil
		case IntV:
			if iv.F.isConst() && iv.F.K >= 0 && iv.F.K < 256 {
				cv := p.Table.Vals[iv.F.K]
				if cv.IsBool {
					return BoolV{cv.B}, nil
				}
				return IntV{constForm(cv.I)}, nil
			}
		}
		return Top{}, nil
	case PtrElem:
		off, relEnd, exact, okp := c.posOf(p.Pos)
		if okp && !relEnd && exact && (off == 0 || off == -1) {
			return identFn(off), nil
		}
		return Top{}, nil
	}
	if isErrorT(ins.Type()) {
		return ErrV{Kind: ErrUnknown}, nil
	}
	return Top{}, nil
}

// splitReturn: a return whose results still depend on the byte under the cursor is split by result value.
func (e *Engine) splitReturn(c *Config, res []Val, pos token.Pos) ([]*Config, *leaf) {
	for i, r := range res {
		bf, ok := r.(ByteFn)
		if !ok {
			continue
		}
		pi := 0
		if bf.Pos == -1 {
			pi = 1
		}
		cl := bf.classes(c.Bytes[pi])
		if i == e.spec.ExtraIdx && bf.Pos == 0 && isIdentity(bf, c.Bytes[0]) && len(c.Frames) == 1 {
			continue
		}
		if len(cl) <= 1 {
			res[i] = collapse(bf, c.Bytes[pi])
			continue
		}
		if len(cl) > 16 {
			res[i] = Top{}
			continue
		}
		// fork by class: re-execute the return in each refined configuration
		var forks []*Config
		for _, s := range cl {
			n := c.clone()
			n.Bytes[pi] = s
			forks = append(forks, n)
		}
		return forks, nil
	}
	return nil, &leaf{kind: "return", cfg: c, res: res, pos: pos}
}

// call handles a call instruction. cont=false means the current configuration ended (leaf or forks).
func (e *Engine) call(c *Config, f *Frame, ins *ssa.Call) ([]*Config, *leaf, bool) {
	cc := ins.Call
	if b, ok := cc.Value.(*ssa.Builtin); ok {
		var v Val = Top{}
		switch b.Name() {
		case "len":
			if sv, ok := e.operand(c, f, cc.Args[0]).(SliceV); ok {
				v = IntV{sv.Hi.add(sv.Lo, -1)}
			}
		case "append":
			v = Opaque{"append"}
			e.recordAppend(c, f, ins)
		case "copy":
			v = Top{}
		}
		e.set(c, f, ins, v)
		f.Idx++
		return nil, nil, true
	}
	callee := cc.StaticCallee()
	if callee != nil && e.Inline[callee] && len(callee.Blocks) > 0 {
		if len(c.Frames) > 12 {
			return nil, e.undecided(c, ins.Pos(), "call depth exceeded (recursion?)"), false
		}
		for _, fr := range c.Frames {
			if fr.Fn == callee {
				return nil, e.undecided(c, ins.Pos(), "recursive call of %s", callee.Name()), false
			}
		}
		nf := &Frame{Fn: callee, Block: callee.Blocks[0], Env: map[ssa.Value]Val{}, Cells: map[*ssa.Alloc]*cell{}, CallRes: ins}
		for i, p := range callee.Params {
			if i < len(cc.Args) {
				av := e.operand(c, f, cc.Args[i])
				nf.Env[p] = av
				if sv, ok := av.(SliceV); ok && nf.Base == 0 {
					lo := c.normPos(sv.Lo)
					if len(lo.C) == 1 && lo.K == 0 {
						for s, co := range lo.C {
							if co == 1 && s != END {
								nf.Base = s
							}
						}
					}
					if nf.Base == 0 {
						// give the base its own mark if the position is known
						if off, relEnd, exact, ok := c.posOf(lo); ok && !relEnd && exact {
							nf.Base = c.markAt(-off)
							nf.Env[p] = SliceV{Lo: symForm(nf.Base), Hi: sv.Hi}
						}
					}
				}
			}
		}
		c.Frames = append(c.Frames, nf)
		return nil, nil, true
	}
	if callee != nil {
		if name, ok := e.Machines[callee]; ok {
			return e.machineCall(c, f, ins, callee, name)
		}
	}
	// constructors of fresh non-nil errors
	if callee != nil && callee.Pkg != nil {
		full := callee.Pkg.Pkg.Path() + "." + callee.Name()
		if full == "fmt.Errorf" || full == "errors.New" {
			e.set(c, f, ins, ErrV{Kind: ErrNonNil, Name: full})
			f.Idx++
			return nil, nil, true
		}
	}
	// opaque call
	e.set(c, f, ins, opaqueResult(ins.Type()))
	f.Idx++
	return nil, nil, true
}

func opaqueResult(t types.Type) Val {
	if tup, ok := t.(*types.Tuple); ok {
		vs := make([]Val, tup.Len())
		for i := range vs {
			vs[i] = opaqueResult(tup.At(i).Type())
		}
		return TupleV{vs}
	}
	if isErrorT(t) {
		return ErrV{Kind: ErrUnknown}
	}
	return Top{}
}

// machineCall: the callee is a summarised E1 machine started at the byte under the cursor.
func (e *Engine) machineCall(c *Config, f *Frame, ins *ssa.Call, callee *ssa.Function, name string) ([]*Config, *leaf, bool) {
	if len(ins.Call.Args) == 0 {
		return nil, e.undecided(c, ins.Pos(), "machine call without arguments"), false
	}
	sv, ok := e.operand(c, f, ins.Call.Args[0]).(SliceV)
	if !ok {
		return nil, e.undecided(c, ins.Pos(), "machine %s is not given a slice of the input", name), false
	}
	off, relEnd, exact, okp := c.posOf(c.normPos(sv.Lo))
	hiOK := len(sv.Hi.C) == 1 && sv.Hi.C[END] == 1 && sv.Hi.K == 0
	if !okp || relEnd || !exact || off != 0 || !hiOK {
		return nil, e.undecided(c, ins.Pos(), "machine %s is not started at the byte under the cursor on data[p:] (lo=%s hi=%s)", name, formString(sv.Lo), formString(sv.Hi)), false
	}
	base := c.normPos(sv.Lo)
	res := callee.Signature.Results()
	offIdx, errIdx := -1, -1
	for i := 0; i < res.Len(); i++ {
		if isErrorT(res.At(i).Type()) {
			errIdx = i
		} else if b, ok := res.At(i).Type().Underlying().(*types.Basic); ok && b.Kind() == types.Int && offIdx < 0 {
			offIdx = i
		}
	}
	mk := func(okRun bool) *Config {
		n := c.clone()
		nf := n.top()
		vs := make([]Val, res.Len())
		for i := range vs {
			vs[i] = Opaque{"machine result"}
		}
		if okRun {
			// new cursor = machine's end offset (>= old cursor): every mark becomes a lower bound
			n.jumpForward()
			old := n.Bytes
			for _, fr := range n.Frames {
				for k, v := range fr.Env {
					fr.Env[k] = collapseAll(v, old)
				}
			}
			n.Bytes = [2]lts.ByteSet{lts.Full(), lts.Full()}
			n.Rel = RelUnknown
			cur := n.markAt(0)
			if offIdx >= 0 {
				vs[offIdx] = IntV{symForm(cur).add(base, -1)}
			}
			if errIdx >= 0 {
				vs[errIdx] = ErrV{Kind: ErrNil}
			}
		} else {
			old := n.Bytes
			for _, fr := range n.Frames {
				for k, v := range fr.Env {
					fr.Env[k] = collapseAll(v, old)
				}
			}
			n.Bytes = [2]lts.ByteSet{lts.Full(), lts.Full()}
			n.Rel = RelUnknown
			if offIdx >= 0 {
				vs[offIdx] = Top{}
			}
			if errIdx >= 0 {
				vs[errIdx] = ErrV{Kind: ErrNonNil, Name: name + " error"}
			}
		}
		if len(vs) == 1 {
			nf.Env[ins] = vs[0]
		} else {
			nf.Env[ins] = TupleV{vs}
		}
		nf.Idx++
		n.Prims = nil
		n.VDep = false
		e.prune(n)
		return n
	}
	lf := &leaf{kind: "machine", cfg: snapshotForLeaf(c), mach: name, okCfg: mk(true), failC: mk(false), pos: ins.Pos()}
	return nil, lf, false
}

func collapseAll(v Val, sets [2]lts.ByteSet) Val {
	switch v := v.(type) {
	case ByteFn:
		if v.Pos == 0 {
			return collapse(v, sets[0])
		}
		return collapse(v, sets[1])
	case PtrV:
		if v.Kind == PtrTable || v.Kind == PtrElem {
			return PtrV{Kind: PtrOpaque}
		}
	case TupleV:
		n := TupleV{Vs: make([]Val, len(v.Vs))}
		for i, x := range v.Vs {
			n.Vs[i] = collapseAll(x, sets)
		}
		return n
	}
	return v
}

// recordAppend notes appends of input segments (used by the string content rules).
func (e *Engine) recordAppend(c *Config, f *Frame, ins *ssa.Call) {
	if len(ins.Call.Args) != 2 {
		return
	}
	sv, ok := e.operand(c, f, ins.Call.Args[1]).(SliceV)
	if !ok {
		return
	}
	lo, _, loExact, ok1 := c.posOf(c.normPos(sv.Lo))
	hi, _, hiExact, ok2 := c.posOf(c.normPos(sv.Hi))
	arg := "?"
	if ok1 && ok2 {
		ls, hs := fmt.Sprint(lo), fmt.Sprint(hi)
		if !loExact {
			ls = "far"
		}
		if !hiExact {
			hs = "far"
		}
		arg = ls + ":" + hs
	}
	// identify the low bound's mark so that the content rule can relate it to the token start
	c.Prims = append(c.Prims, lts.Prim{Kind: "EMIT_SEG", Arg: arg, Ref: -1})
}

// indexLike: integer SSA values that flow into an index of / comparison with the input.
func (e *Engine) indexLike(fn *ssa.Function, v ssa.Value) bool {
	m := e.idxLike[fn]
	if m == nil {
		m = e.computeIndexLike(fn)
		if e.idxLike == nil {
			e.idxLike = map[*ssa.Function]map[ssa.Value]bool{}
		}
		e.idxLike[fn] = m
	}
	return m[v]
}

func (e *Engine) computeIndexLike(fn *ssa.Function) map[ssa.Value]bool {
	m := map[ssa.Value]bool{}
	var work []ssa.Value
	mark := func(v ssa.Value) {
		if v == nil || m[v] || !isIntegerType(v.Type()) {
			return
		}
		if _, isC := v.(*ssa.Const); isC {
			return
		}
		m[v] = true
		work = append(work, v)
	}
	isLen := func(v ssa.Value) bool {
		if call, ok := v.(*ssa.Call); ok {
			if b, ok := call.Call.Value.(*ssa.Builtin); ok && b.Name() == "len" && isByteSlice(call.Call.Args[0].Type()) {
				return true
			}
		}
		return false
	}
	for changed := true; changed; {
		changed = false
		before := len(m)
		for _, b := range fn.Blocks {
			for _, ins := range b.Instrs {
				switch ins := ins.(type) {
				case *ssa.IndexAddr:
					if isByteSlice(ins.X.Type()) {
						mark(ins.Index)
					}
				case *ssa.Slice:
					if isByteSlice(ins.X.Type()) {
						mark(ins.Low)
						mark(ins.High)
					}
				case *ssa.BinOp:
					if isCmp(ins.Op) {
						if isLen(ins.X) || m[ins.X] {
							mark(ins.Y)
						}
						if isLen(ins.Y) || m[ins.Y] {
							mark(ins.X)
						}
					}
				case *ssa.Return:
					for i, r := range ins.Results {
						if e.relRes[fn] != nil && e.relRes[fn][i] && isIntegerType(r.Type()) && fn.Signature.Results().At(i).Type().Underlying().(*types.Basic).Kind() == types.Int {
							mark(r)
						}
					}
				case *ssa.Call:
					if callee := ins.Call.StaticCallee(); callee != nil && (e.Inline[callee]) {
						for j, a := range ins.Call.Args {
							if j < len(callee.Params) && isIntegerType(a.Type()) {
								if b, ok := a.Type().Underlying().(*types.Basic); ok && b.Kind() == types.Int {
									mark(a)
								}
							}
						}
					}
				}
			}
		}
		for len(work) > 0 {
			v := work[len(work)-1]
			work = work[:len(work)-1]
			switch v := v.(type) {
			case *ssa.BinOp:
				if v.Op == token.ADD || v.Op == token.SUB {
					mark(v.X)
					mark(v.Y)
				}
			case *ssa.Phi:
				for _, x := range v.Edges {
					mark(x)
				}
			case *ssa.Convert:
				mark(v.X)
			}
		}
		// forward: phi of index-like edges, x+const of index-like
		for _, b := range fn.Blocks {
			for _, ins := range b.Instrs {
				switch ins := ins.(type) {
				case *ssa.Phi:
					for _, x := range ins.Edges {
						if m[x] {
							mark(ins)
						}
					}
				case *ssa.BinOp:
					if (ins.Op == token.ADD || ins.Op == token.SUB) && (m[ins.X] || m[ins.Y]) {
						if _, isC := ins.Y.(*ssa.Const); isC {
							mark(ins)
						}
						if _, isC := ins.X.(*ssa.Const); isC {
							mark(ins)
						}
					}
				}
			}
		}
		if len(m) != before {
			changed = true
		}
	}
	return m
}

func isIdentity(bf ByteFn, set lts.ByteSet) bool {
	for i := 0; i < 256; i++ {
		if set.Has(byte(i)) && (bf.Tab[i].IsBool || bf.Tab[i].I != int64(i)) {
			return false
		}
	}
	return true
}

// isSignOnly: integer values whose whole web (phi / arithmetic / conversion) is only ever compared with the
// constant 0 by == or != are tracked in the sign domain {0, non-zero, ⊤}.
func (e *Engine) isSignOnly(fn *ssa.Function, v ssa.Value) bool {
	if e.signOnly == nil {
		e.signOnly = map[*ssa.Function]map[ssa.Value]bool{}
	}
	m, ok := e.signOnly[fn]
	if !ok {
		m = e.computeSignOnly(fn)
		e.signOnly[fn] = m
		if e.Trace {
			var names []string
			for v := range m {
				names = append(names, v.Name())
			}
			fmt.Printf("SIGNONLY %s: %v\n", fn.Name(), names)
		}
	}
	return m[v]
}

func (e *Engine) computeSignOnly(fn *ssa.Function) map[ssa.Value]bool {
	parent := map[ssa.Value]ssa.Value{}
	var find func(v ssa.Value) ssa.Value
	find = func(v ssa.Value) ssa.Value {
		p, ok := parent[v]
		if !ok {
			parent[v] = v
			return v
		}
		if p == v {
			return v
		}
		r := find(p)
		parent[v] = r
		return r
	}
	union := func(a, b ssa.Value) {
		if a == nil || b == nil {
			return
		}
		if _, isC := a.(*ssa.Const); isC {
			return
		}
		if _, isC := b.(*ssa.Const); isC {
			return
		}
		if !isIntegerType(a.Type()) || !isIntegerType(b.Type()) {
			return
		}
		for _, v := range []ssa.Value{a, b} {
			if u, ok := v.(*ssa.UnOp); ok && u.Op == token.MUL {
				return // values loaded from memory are sources, not members of the web
			}
		}
		ra, rb := find(a), find(b)
		if ra != rb {
			parent[ra] = rb
		}
	}
	bad := map[ssa.Value]bool{}  // class root -> disqualified
	good := map[ssa.Value]bool{} // class root -> has a ==0 / !=0 comparison
	type pend struct {
		v  ssa.Value
		ok bool
		cc bool // compared with a constant (any comparison)
	}
	ccGood := map[ssa.Value]bool{} // class root -> compared with some constant
	ccBad := map[ssa.Value]bool{}  // class root -> compared with a non-constant, or used as index / bound
	var pends []pend
	for _, b := range fn.Blocks {
		for _, ins := range b.Instrs {
			switch ins := ins.(type) {
			case *ssa.Phi:
				for _, x := range ins.Edges {
					union(ins, x)
				}
			case *ssa.BinOp:
				if isCmp(ins.Op) {
					for _, pair := range [][2]ssa.Value{{ins.X, ins.Y}, {ins.Y, ins.X}} {
						v, o := pair[0], pair[1]
						if !isIntegerType(v.Type()) {
							continue
						}
						if _, isC := v.(*ssa.Const); isC {
							continue
						}
						k, isC := o.(*ssa.Const)
						zero := isC && k.Value != nil && constant.Sign(constant.ToInt(k.Value)) == 0
						pends = append(pends, pend{v, zero && (ins.Op == token.EQL || ins.Op == token.NEQ), isC})
					}
				} else if isIntegerType(ins.Type()) {
					union(ins, ins.X)
					union(ins, ins.Y)
				}
			case *ssa.Convert:
				if isIntegerType(ins.Type()) && isIntegerType(ins.X.Type()) {
					// a conversion from a byte read does not join the byte into the web
					if _, isLoad := ins.X.(*ssa.UnOp); !isLoad {
						union(ins, ins.X)
					}
				}
			case *ssa.IndexAddr:
				pends = append(pends, pend{ins.Index, false, false})
			case *ssa.Slice:
				if ins.Low != nil {
					pends = append(pends, pend{ins.Low, false, false})
				}
				if ins.High != nil {
					pends = append(pends, pend{ins.High, false, false})
				}
			}
		}
	}
	for _, p := range pends {
		if _, isC := p.v.(*ssa.Const); isC || p.v == nil {
			continue
		}
		r := find(p.v)
		if p.ok {
			good[r] = true
		} else {
			bad[r] = true
		}
		if p.cc {
			ccGood[r] = true
		} else {
			ccBad[r] = true
		}
	}
	// counters: webs that are only ever compared with constants (and are neither positions nor results) — their
	// exact value cannot matter for which bytes are consumed, so they are not tracked at all (every such comparison
	// branches both ways); without this a counter like `exp` compared with 308 multiplies the abstract states
	cc := map[ssa.Value]bool{}
	for v := range parent {
		r := find(v)
		if ccGood[r] && !ccBad[r] && !(good[r] && !bad[r]) && !e.indexLike(fn, v) {
			if u, ok := v.(*ssa.UnOp); ok && u.Op == token.MUL {
				continue
			}
			cc[v] = true
		}
	}
	if e.constCmpOnly == nil {
		e.constCmpOnly = map[*ssa.Function]map[ssa.Value]bool{}
	}
	e.constCmpOnly[fn] = cc
	out := map[ssa.Value]bool{}
	for v := range parent {
		r := find(v)
		if good[r] && !bad[r] && !e.indexLike(fn, v) {
			// byte loads themselves stay exact
			if u, ok := v.(*ssa.UnOp); ok && u.Op == token.MUL {
				continue
			}
			out[v] = true
		}
	}
	return out
}

func coarsenSign(val Val) Val {
	switch vv := val.(type) {
	case IntV:
		if vv.F.isConst() && vv.F.K != 0 {
			return NZ{}
		}
	case SetV:
		for _, k := range vv.Vals {
			if k == 0 {
				return Top{}
			}
		}
		return NZ{}
	}
	return val
}

func sizeOf(t types.Type) int {
	b, ok := t.Underlying().(*types.Basic)
	if !ok {
		return 0
	}
	switch b.Kind() {
	case types.Int8, types.Uint8:
		return 1
	case types.Int16, types.Uint16:
		return 2
	case types.Int32, types.Uint32:
		return 4
	}
	return 8
}

// subSliceBase: for an integer value that indexes, or is compared with the length of, exactly one derived slice
// `data[lo:…]` (and never the input itself), that slice. Propagated through phis and ±constant.
func (e *Engine) subSliceBase(fn *ssa.Function, v ssa.Value) ssa.Value {
	if e.subBase == nil {
		e.subBase = map[*ssa.Function]map[ssa.Value]ssa.Value{}
	}
	m, ok := e.subBase[fn]
	if !ok {
		m = computeSubBase(fn)
		e.subBase[fn] = m
	}
	return m[v]
}

func computeSubBase(fn *ssa.Function) map[ssa.Value]ssa.Value {
	type slot struct {
		base     ssa.Value
		conflict bool
	}
	m := map[ssa.Value]*slot{}
	changed := true
	put := func(v ssa.Value, base ssa.Value, conflict bool) {
		if v == nil || !isIntegerType(v.Type()) {
			return
		}
		if _, isC := v.(*ssa.Const); isC {
			return
		}
		sl := m[v]
		if sl == nil {
			m[v] = &slot{base, conflict}
			changed = true
			return
		}
		if conflict && !sl.conflict {
			sl.conflict = true
			changed = true
		}
		if base != nil && sl.base != base {
			if sl.base == nil {
				sl.base = base
			} else if !sl.conflict {
				sl.conflict = true
			} else {
				return
			}
			changed = true
		}
	}
	lenOf := func(v ssa.Value) (ssa.Value, bool) {
		if call, ok := v.(*ssa.Call); ok {
			if b, ok := call.Call.Value.(*ssa.Builtin); ok && b.Name() == "len" && isByteSlice(call.Call.Args[0].Type()) {
				return call.Call.Args[0], true
			}
		}
		return nil, false
	}
	derived := func(x ssa.Value) bool {
		sl, ok := x.(*ssa.Slice)
		return ok && sl.Low != nil
	}
	for changed {
		changed = false
		for _, b := range fn.Blocks {
			for _, ins := range b.Instrs {
				switch ins := ins.(type) {
				case *ssa.IndexAddr:
					if isByteSlice(ins.X.Type()) {
						if derived(ins.X) {
							put(ins.Index, ins.X, false)
						} else {
							put(ins.Index, nil, true)
						}
					}
				case *ssa.Slice:
					if isByteSlice(ins.X.Type()) {
						for _, bnd := range []ssa.Value{ins.Low, ins.High} {
							if bnd == nil {
								continue
							}
							if derived(ins.X) {
								put(bnd, ins.X, false)
							} else {
								put(bnd, nil, true)
							}
						}
					}
				case *ssa.BinOp:
					if isCmp(ins.Op) {
						for _, pr := range [][2]ssa.Value{{ins.X, ins.Y}, {ins.Y, ins.X}} {
							if of, ok := lenOf(pr[0]); ok {
								if derived(of) {
									put(pr[1], of, false)
								} else {
									put(pr[1], nil, true)
								}
							}
						}
					}
					if ins.Op == token.ADD || ins.Op == token.SUB {
						if _, isC := ins.Y.(*ssa.Const); isC {
							if sl := m[ins]; sl != nil {
								put(ins.X, sl.base, sl.conflict)
							}
							if sl := m[ins.X]; sl != nil {
								put(ins, sl.base, sl.conflict)
							}
						} else {
							// start + i: i keeps its base, the sum is a position of the input
							put(ins, nil, true)
						}
					}
				case *ssa.Phi:
					if sl := m[ins]; sl != nil {
						for _, ed := range ins.Edges {
							put(ed, sl.base, sl.conflict)
						}
					}
					for _, ed := range ins.Edges {
						if sl := m[ed]; sl != nil {
							put(ins, sl.base, sl.conflict)
						}
					}
				}
			}
		}
	}
	out := map[ssa.Value]ssa.Value{}
	for v, sl := range m {
		if !sl.conflict && sl.base != nil {
			out[v] = sl.base
		}
	}
	return out
}

// notePos records that the index / slice expression at pos was judged by this engine (whatever the verdict).
func (e *Engine) notePos(pos token.Pos) {
	if e.Checked == nil {
		e.Checked = map[token.Pos]bool{}
	}
	e.Checked[pos] = true
}

// isCounter: v belongs to a web of integers that is only ever compared with constants (see computeSignOnly).
func (e *Engine) isCounter(fn *ssa.Function, v ssa.Value) bool {
	e.isSignOnly(fn, v) // computes both classifications
	return e.constCmpOnly[fn][v]
}
