// Package linarith is a tiny relational abstract domain: conjunctions of linear inequalities over a
// handful of integer symbols, decided by Fourier–Motzkin elimination over the rationals after integer
// tightening of strict inequalities. It is used for bound/overflow obligations on three or four
// variables (cursor, end, handler offset, stack top) — not as a general solver.
package linarith

import (
	"fmt"
	"math/big"
	"sort"
	"strings"
)

// Form is Σ Coef[s]·s + K.
type Form struct {
	Coef map[string]*big.Int
	K    *big.Int
}

func Const(k int64) Form { return Form{Coef: map[string]*big.Int{}, K: big.NewInt(k)} }
func ConstBig(k *big.Int) Form {
	return Form{Coef: map[string]*big.Int{}, K: new(big.Int).Set(k)}
}
func Var(s string) Form {
	return Form{Coef: map[string]*big.Int{s: big.NewInt(1)}, K: big.NewInt(0)}
}

func (f Form) clone() Form {
	g := Form{Coef: map[string]*big.Int{}, K: new(big.Int).Set(f.K)}
	for s, c := range f.Coef {
		g.Coef[s] = new(big.Int).Set(c)
	}
	return g
}

func (f Form) Add(o Form) Form {
	g := f.clone()
	for s, c := range o.Coef {
		if g.Coef[s] == nil {
			g.Coef[s] = new(big.Int)
		}
		g.Coef[s].Add(g.Coef[s], c)
		if g.Coef[s].Sign() == 0 {
			delete(g.Coef, s)
		}
	}
	g.K.Add(g.K, o.K)
	return g
}

func (f Form) Scale(k int64) Form {
	g := Form{Coef: map[string]*big.Int{}, K: new(big.Int).Mul(f.K, big.NewInt(k))}
	if k == 0 {
		return g
	}
	for s, c := range f.Coef {
		g.Coef[s] = new(big.Int).Mul(c, big.NewInt(k))
	}
	return g
}

func (f Form) Neg() Form         { return f.Scale(-1) }
func (f Form) Sub(o Form) Form   { return f.Add(o.Neg()) }
func (f Form) AddK(k int64) Form { return f.Add(Const(k)) }

func (f Form) IsConst() bool { return len(f.Coef) == 0 }

func (f Form) Equal(o Form) bool {
	d := f.Sub(o)
	return d.IsConst() && d.K.Sign() == 0
}

func (f Form) String() string {
	var keys []string
	for s := range f.Coef {
		keys = append(keys, s)
	}
	sort.Strings(keys)
	var parts []string
	for _, s := range keys {
		c := f.Coef[s]
		switch {
		case c.Cmp(big.NewInt(1)) == 0:
			parts = append(parts, "+"+s)
		case c.Cmp(big.NewInt(-1)) == 0:
			parts = append(parts, "-"+s)
		default:
			parts = append(parts, fmt.Sprintf("%+d*%s", c, s))
		}
	}
	if f.K.Sign() != 0 || len(parts) == 0 {
		parts = append(parts, fmt.Sprintf("%+d", f.K))
	}
	return strings.TrimPrefix(strings.Join(parts, ""), "+")
}

// Ineq is F <= 0.
type Ineq struct{ F Form }

// LE: a <= b.
func LE(a, b Form) Ineq { return Ineq{a.Sub(b)} }

// LT over the integers: a < b  <=>  a <= b-1.
func LT(a, b Form) Ineq { return Ineq{a.Sub(b).AddK(1)} }
func GE(a, b Form) Ineq { return LE(b, a) }
func GT(a, b Form) Ineq { return LT(b, a) }

// Not over the integers: ¬(F <= 0) <=> F >= 1 <=> -F+1 <= 0.
func (i Ineq) Not() Ineq { return Ineq{i.F.Neg().AddK(1)} }

func (i Ineq) String() string { return i.F.String() + " <= 0" }

// System is a conjunction.
type System []Ineq

// EQ returns the two inequalities of a == b.
func EQ(a, b Form) []Ineq { return []Ineq{LE(a, b), LE(b, a)} }

type row struct {
	c map[string]*big.Rat
	k *big.Rat
}

func toRow(i Ineq) row {
	r := row{c: map[string]*big.Rat{}, k: new(big.Rat).SetInt(i.F.K)}
	for s, c := range i.F.Coef {
		r.c[s] = new(big.Rat).SetInt(c)
	}
	return r
}

// Feasible reports whether the conjunction has a rational solution (sound over-approximation of integer
// feasibility; strict inequalities were tightened on construction).
func (s System) Feasible() bool {
	rows := make([]row, 0, len(s))
	for _, i := range s {
		rows = append(rows, toRow(i))
	}
	rows = dedupe(rows)
	// equalities first: a pair r, -r (same coefficients negated, constants negated) fixes a variable; substitute it
	for {
		ei, ej, v := findEquality(rows)
		if ei < 0 {
			break
		}
		eq := rows[ei]
		var next []row
		for k, r := range rows {
			if k == ei || k == ej {
				continue
			}
			next = append(next, substitute(r, eq, v))
		}
		rows = dedupe(next)
		if infeasibleConst(rows) {
			return false
		}
	}
	for {
		if infeasibleConst(rows) {
			return false
		}
		// pick the variable whose elimination creates the fewest rows
		best, bestCost := "", -1
		count := map[string][2]int{}
		for _, r := range rows {
			for v, c := range r.c {
				pc := count[v]
				if c.Sign() > 0 {
					pc[0]++
				} else {
					pc[1]++
				}
				count[v] = pc
			}
		}
		var vs []string
		for v := range count {
			vs = append(vs, v)
		}
		sort.Strings(vs)
		for _, v := range vs {
			pc := count[v]
			cost := pc[0]*pc[1] - pc[0] - pc[1]
			if bestCost == -1 || cost < bestCost {
				best, bestCost = v, cost
			}
		}
		if best == "" {
			break
		}
		v := best
		var pos, neg, zero []row
		for _, r := range rows {
			c := r.c[v]
			switch {
			case c == nil || c.Sign() == 0:
				zero = append(zero, r)
			case c.Sign() > 0:
				pos = append(pos, r)
			default:
				neg = append(neg, r)
			}
		}
		next := zero
		for _, p := range pos {
			for _, n := range neg {
				next = append(next, combine(p, n, v))
			}
		}
		rows = dedupe(next)
		if len(rows) > 4000 {
			return true // give up: treat as feasible (sound for "cannot prove")
		}
	}
	return !infeasibleConst(rows)
}

func infeasibleConst(rows []row) bool {
	for _, r := range rows {
		if len(r.c) == 0 && r.k.Sign() > 0 {
			return true
		}
	}
	return false
}

// combine eliminates v from p (coefficient > 0) and n (coefficient < 0).
func combine(p, n row, v string) row {
	cp, cn := p.c[v], n.c[v]
	a := new(big.Rat).Neg(cn)
	b := new(big.Rat).Set(cp)
	nr := row{c: map[string]*big.Rat{}, k: new(big.Rat)}
	nr.k.Add(new(big.Rat).Mul(a, p.k), new(big.Rat).Mul(b, n.k))
	for s2, c := range p.c {
		if s2 == v {
			continue
		}
		nr.c[s2] = new(big.Rat).Mul(a, c)
	}
	for s2, c := range n.c {
		if s2 == v {
			continue
		}
		if nr.c[s2] == nil {
			nr.c[s2] = new(big.Rat)
		}
		nr.c[s2].Add(nr.c[s2], new(big.Rat).Mul(b, c))
	}
	for s2, c := range nr.c {
		if c.Sign() == 0 {
			delete(nr.c, s2)
		}
	}
	return nr
}

func rowKey(r row) string {
	var ks []string
	for v := range r.c {
		ks = append(ks, v)
	}
	sort.Strings(ks)
	var sb strings.Builder
	for _, v := range ks {
		sb.WriteString(v)
		sb.WriteByte('*')
		sb.WriteString(r.c[v].RatString())
		sb.WriteByte(' ')
	}
	return sb.String()
}

// dedupe drops rows that are trivially true and, among rows with the same left-hand side, keeps the tightest.
func dedupe(rows []row) []row {
	best := map[string]int{}
	var out []row
	for _, r := range rows {
		if len(r.c) == 0 && r.k.Sign() <= 0 {
			continue
		}
		k := rowKey(r)
		if i, ok := best[k]; ok {
			if r.k.Cmp(out[i].k) > 0 {
				out[i] = r
			}
			continue
		}
		best[k] = len(out)
		out = append(out, r)
	}
	return out
}

// findEquality: indices of two rows r, r' with r' = -r (an equality) and a variable to solve for.
func findEquality(rows []row) (int, int, string) {
	idx := map[string]int{}
	for i, r := range rows {
		idx[rowKey(r)] = i
	}
	for i, r := range rows {
		if len(r.c) == 0 {
			continue
		}
		neg := row{c: map[string]*big.Rat{}, k: new(big.Rat).Neg(r.k)}
		for v, c := range r.c {
			neg.c[v] = new(big.Rat).Neg(c)
		}
		j, ok := idx[rowKey(neg)]
		if !ok || j == i || rows[j].k.Cmp(neg.k) != 0 {
			continue
		}
		var vs []string
		for v := range r.c {
			vs = append(vs, v)
		}
		sort.Strings(vs)
		return i, j, vs[0]
	}
	return -1, -1, ""
}

// substitute: eq is Σ c_s s + k == 0; replace v in r by its solution.
func substitute(r, eq row, v string) row {
	cv := r.c[v]
	if cv == nil || cv.Sign() == 0 {
		return r
	}
	// v = -(Σ_{s≠v} c_s s + k) / c_v(eq)
	f := new(big.Rat).Quo(cv, eq.c[v])
	nr := row{c: map[string]*big.Rat{}, k: new(big.Rat).Sub(r.k, new(big.Rat).Mul(f, eq.k))}
	for s2, c := range r.c {
		if s2 != v {
			nr.c[s2] = new(big.Rat).Set(c)
		}
	}
	for s2, c := range eq.c {
		if s2 == v {
			continue
		}
		if nr.c[s2] == nil {
			nr.c[s2] = new(big.Rat)
		}
		nr.c[s2].Sub(nr.c[s2], new(big.Rat).Mul(f, c))
	}
	for s2, c := range nr.c {
		if c.Sign() == 0 {
			delete(nr.c, s2)
		}
	}
	return nr
}

// Implies: premises ⊨ goal (over the integers; sound, may fail to prove).
func (s System) Implies(goal Ineq) bool {
	t := append(System{}, s...)
	t = append(t, goal.Not())
	return !t.Feasible()
}

// ImpliesAll proves every goal.
func (s System) ImpliesAll(goals ...Ineq) bool {
	for _, g := range goals {
		if !s.Implies(g) {
			return false
		}
	}
	return true
}

// With returns s extended.
func (s System) With(more ...Ineq) System {
	t := append(System{}, s...)
	return append(t, more...)
}
