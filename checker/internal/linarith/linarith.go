// Package linarith is a tiny relational abstract domain: conjunctions of linear inequalities over a
// handful of integer symbols, decided by Fourier–Motzkin elimination over the rationals after integer
// tightening of strict inequalities. It is used for bound/overflow obligations on three or four
// variables (cursor, end, handler offset, stack top) — not as a general solver.
package linarith

import (
	"fmt"
	"math/big"
	"sort"
	"strings"
)

// Form is Σ Coef[s]·s + K.
type Form struct {
	Coef map[string]*big.Int
	K    *big.Int
}

func Const(k int64) Form { return Form{Coef: map[string]*big.Int{}, K: big.NewInt(k)} }
func ConstBig(k *big.Int) Form {
	return Form{Coef: map[string]*big.Int{}, K: new(big.Int).Set(k)}
}
func Var(s string) Form {
	return Form{Coef: map[string]*big.Int{s: big.NewInt(1)}, K: big.NewInt(0)}
}

func (f Form) clone() Form {
	g := Form{Coef: map[string]*big.Int{}, K: new(big.Int).Set(f.K)}
	for s, c := range f.Coef {
		g.Coef[s] = new(big.Int).Set(c)
	}
	return g
}

func (f Form) Add(o Form) Form {
	g := f.clone()
	for s, c := range o.Coef {
		if g.Coef[s] == nil {
			g.Coef[s] = new(big.Int)
		}
		g.Coef[s].Add(g.Coef[s], c)
		if g.Coef[s].Sign() == 0 {
			delete(g.Coef, s)
		}
	}
	g.K.Add(g.K, o.K)
	return g
}

func (f Form) Scale(k int64) Form {
	g := Form{Coef: map[string]*big.Int{}, K: new(big.Int).Mul(f.K, big.NewInt(k))}
	if k == 0 {
		return g
	}
	for s, c := range f.Coef {
		g.Coef[s] = new(big.Int).Mul(c, big.NewInt(k))
	}
	return g
}

func (f Form) Neg() Form        { return f.Scale(-1) }
func (f Form) Sub(o Form) Form  { return f.Add(o.Neg()) }
func (f Form) AddK(k int64) Form { return f.Add(Const(k)) }

func (f Form) IsConst() bool { return len(f.Coef) == 0 }

func (f Form) Equal(o Form) bool {
	d := f.Sub(o)
	return d.IsConst() && d.K.Sign() == 0
}

func (f Form) String() string {
	var keys []string
	for s := range f.Coef {
		keys = append(keys, s)
	}
	sort.Strings(keys)
	var parts []string
	for _, s := range keys {
		c := f.Coef[s]
		switch {
		case c.Cmp(big.NewInt(1)) == 0:
			parts = append(parts, "+"+s)
		case c.Cmp(big.NewInt(-1)) == 0:
			parts = append(parts, "-"+s)
		default:
			parts = append(parts, fmt.Sprintf("%+d*%s", c, s))
		}
	}
	if f.K.Sign() != 0 || len(parts) == 0 {
		parts = append(parts, fmt.Sprintf("%+d", f.K))
	}
	return strings.TrimPrefix(strings.Join(parts, ""), "+")
}

// Ineq is F <= 0.
type Ineq struct{ F Form }

// LE: a <= b.
func LE(a, b Form) Ineq { return Ineq{a.Sub(b)} }

// LT over the integers: a < b  <=>  a <= b-1.
func LT(a, b Form) Ineq { return Ineq{a.Sub(b).AddK(1)} }
func GE(a, b Form) Ineq { return LE(b, a) }
func GT(a, b Form) Ineq { return LT(b, a) }

// Not over the integers: ¬(F <= 0) <=> F >= 1 <=> -F+1 <= 0.
func (i Ineq) Not() Ineq { return Ineq{i.F.Neg().AddK(1)} }

func (i Ineq) String() string { return i.F.String() + " <= 0" }

// System is a conjunction.
type System []Ineq

// EQ returns the two inequalities of a == b.
func EQ(a, b Form) []Ineq { return []Ineq{LE(a, b), LE(b, a)} }

type row struct {
	c map[string]*big.Rat
	k *big.Rat
}

func toRow(i Ineq) row {
	r := row{c: map[string]*big.Rat{}, k: new(big.Rat).SetInt(i.F.K)}
	for s, c := range i.F.Coef {
		r.c[s] = new(big.Rat).SetInt(c)
	}
	return r
}

// Feasible reports whether the conjunction has a rational solution (sound over-approximation of integer
// feasibility; strict inequalities were tightened on construction).
func (s System) Feasible() bool {
	rows := make([]row, 0, len(s))
	vars := map[string]bool{}
	for _, i := range s {
		rows = append(rows, toRow(i))
		for v := range i.F.Coef {
			vars[v] = true
		}
	}
	var vs []string
	for v := range vars {
		vs = append(vs, v)
	}
	sort.Strings(vs)
	for _, v := range vs {
		var pos, neg, zero []row
		for _, r := range rows {
			c := r.c[v]
			switch {
			case c == nil || c.Sign() == 0:
				zero = append(zero, r)
			case c.Sign() > 0:
				pos = append(pos, r)
			default:
				neg = append(neg, r)
			}
		}
		next := zero
		for _, p := range pos {
			for _, n := range neg {
				// p: cp*v + P <= 0 (cp>0); n: cn*v + N <= 0 (cn<0)
				// combine: (-cn)*p + cp*n eliminates v
				cp, cn := p.c[v], n.c[v]
				a := new(big.Rat).Neg(cn)
				b := new(big.Rat).Set(cp)
				nr := row{c: map[string]*big.Rat{}, k: new(big.Rat)}
				nr.k.Add(new(big.Rat).Mul(a, p.k), new(big.Rat).Mul(b, n.k))
				for s2, c := range p.c {
					if s2 == v {
						continue
					}
					nr.c[s2] = new(big.Rat).Mul(a, c)
				}
				for s2, c := range n.c {
					if s2 == v {
						continue
					}
					if nr.c[s2] == nil {
						nr.c[s2] = new(big.Rat)
					}
					nr.c[s2].Add(nr.c[s2], new(big.Rat).Mul(b, c))
				}
				for s2, c := range nr.c {
					if c.Sign() == 0 {
						delete(nr.c, s2)
					}
				}
				next = append(next, nr)
			}
		}
		rows = next
		if len(rows) > 4000 {
			return true // give up: treat as feasible (sound for "cannot prove")
		}
	}
	for _, r := range rows {
		if len(r.c) == 0 && r.k.Sign() > 0 {
			return false
		}
	}
	return true
}

// Implies: premises ⊨ goal (over the integers; sound, may fail to prove).
func (s System) Implies(goal Ineq) bool {
	t := append(System{}, s...)
	t = append(t, goal.Not())
	return !t.Feasible()
}

// ImpliesAll proves every goal.
func (s System) ImpliesAll(goals ...Ineq) bool {
	for _, g := range goals {
		if !s.Implies(g) {
			return false
		}
	}
	return true
}

// With returns s extended.
func (s System) With(more ...Ineq) System {
	t := append(System{}, s...)
	return append(t, more...)
}
