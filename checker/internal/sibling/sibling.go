// Package sibling is engine E6: a structure-gated comparison of the arithmetic that internal/fp ported from
// GOROOT/src/strconv. Both functions are normalised (locals alpha-renamed by first use, compound assignments
// expanded, literals by value, float64info fields substituted) and walked in parallel. A difference is reported
// only when the shapes match and a leaf (constant, operator, name) differs at a matched position; if the shapes
// diverge the pair is recorded as not comparable and nothing is reported.
package sibling

import (
	"fmt"
	"go/ast"
	"go/constant"
	"go/parser"
	"go/token"
	"os"
	"os/exec"
	"path/filepath"
	"runtime"
	"strings"

	"rjverif/internal/core"
)

type Diff struct {
	Path, Here, There, Context string
	Pos                        token.Pos
}

type Pair struct {
	Name, Other string
	Comparable  bool
	Why         string
	Positions   int
	Diffs       []Diff
}

type Report struct {
	Pairs      []Pair
	Comparable int
	GoVersion  string
}

type node struct {
	kind string
	val  string
	kids []*node
	pos  token.Pos
}

func goroot() string {
	cmd := exec.Command("go", "env", "GOROOT")
	cmd.Env = append(os.Environ(), "GOTOOLCHAIN=local", "GOFLAGS=")
	if out, err := cmd.Output(); err == nil {
		if d := strings.TrimSpace(string(out)); d != "" {
			return d
		}
	}
	return runtime.GOROOT()
}

// names of the functions compared: fp name -> strconv name ("T.m" for methods).
var pairs = []struct{ here, there string }{
	{"eiselLemire64", "eiselLemire64"},
	{"rightShift", "rightShift"},
	{"leftShift", "leftShift"},
	{"shouldRoundUp", "shouldRoundUp"},
	{"prefixIsLessThan", "prefixIsLessThan"},
	{"trim", "trim"},
	{"decimal.Shift", "decimal.Shift"},
	{"decimal.RoundedInteger", "decimal.RoundedInteger"},
	{"decimal.floatBits", "decimal.floatBits"},
	{"atof64exact", "atof64exact"},
}

// Compare runs the comparison.
func Compare(w *core.World) (*Report, error) {
	root := goroot()
	dir := filepath.Join(root, "src", "strconv")
	fset := token.NewFileSet()
	there := map[string]*ast.FuncDecl{}
	for _, f := range []string{"eisel_lemire.go", "decimal.go", "atof.go"} {
		af, err := parser.ParseFile(fset, filepath.Join(dir, f), nil, parser.SkipObjectResolution)
		if err != nil {
			return nil, fmt.Errorf("cannot parse %s: %v", filepath.Join(dir, f), err)
		}
		for _, d := range af.Decls {
			if fd, ok := d.(*ast.FuncDecl); ok {
				there[core.DeclName(fd)] = fd
			}
		}
	}
	rep := &Report{}
	if b, err := os.ReadFile(filepath.Join(root, "VERSION")); err == nil {
		rep.GoVersion = strings.Fields(string(b))[0]
	}
	for _, p := range pairs {
		pr := Pair{Name: p.here, Other: p.there}
		hd := w.FuncDecl(w.FP, p.here)
		td := there[p.there]
		switch {
		case hd == nil:
			pr.Why = "function not present in internal/fp"
		case td == nil:
			pr.Why = "function not present in this GOROOT's strconv"
		default:
			hn := normFunc(hd, true)
			tn := normFunc(td, false)
			pr.Comparable = true
			cmp(hn, tn, "body", &pr)
		}
		if pr.Comparable {
			rep.Comparable++
		} else {
			pr.Diffs = nil
		}
		rep.Pairs = append(rep.Pairs, pr)
	}
	return rep, nil
}

func cmp(a, b *node, path string, pr *Pair) {
	if !pr.Comparable {
		return
	}
	if a.kind != b.kind || len(a.kids) != len(b.kids) {
		pr.Comparable = false
		pr.Why = fmt.Sprintf("at %s: %s/%d children here, %s/%d in strconv", path, a.kind, len(a.kids), b.kind, len(b.kids))
		return
	}
	pr.Positions++
	if a.val != b.val {
		pr.Diffs = append(pr.Diffs, Diff{Path: path, Here: a.val, There: b.val, Context: a.kind, Pos: a.pos})
	}
	for i := range a.kids {
		cmp(a.kids[i], b.kids[i], fmt.Sprintf("%s/%s[%d]", path, a.kind, i), pr)
	}
}

type normalizer struct {
	names map[string]string // local name -> v<k>
	local map[string]bool
	here  bool
}

func normFunc(fd *ast.FuncDecl, here bool) *node {
	n := &normalizer{names: map[string]string{}, local: map[string]bool{}, here: here}
	// locals: receiver, params, results, := definitions, var declarations, range variables, labels
	addField := func(fl *ast.FieldList) {
		if fl == nil {
			return
		}
		for _, f := range fl.List {
			for _, id := range f.Names {
				n.local[id.Name] = true
			}
		}
	}
	addField(fd.Recv)
	addField(fd.Type.Params)
	addField(fd.Type.Results)
	ast.Inspect(fd.Body, func(x ast.Node) bool {
		switch t := x.(type) {
		case *ast.AssignStmt:
			if t.Tok == token.DEFINE {
				for _, l := range t.Lhs {
					if id, ok := l.(*ast.Ident); ok {
						n.local[id.Name] = true
					}
				}
			}
		case *ast.ValueSpec:
			for _, id := range t.Names {
				n.local[id.Name] = true
			}
		case *ast.RangeStmt:
			for _, e := range []ast.Expr{t.Key, t.Value} {
				if id, ok := e.(*ast.Ident); ok {
					n.local[id.Name] = true
				}
			}
		case *ast.LabeledStmt:
			n.local[t.Label.Name] = true
		}
		return true
	})
	// the float format parameter of strconv (flt *floatInfo) is not a local in the fp port: its fields are constants
	delete(n.local, "flt")
	// pre-assign names to the value parameters in order so that parameter order matters, not spelling
	for _, fl := range []*ast.FieldList{fd.Recv, fd.Type.Params, fd.Type.Results} {
		if fl == nil {
			continue
		}
		for _, f := range fl.List {
			for _, id := range f.Names {
				if id.Name == "flt" {
					continue
				}
				n.rename(id.Name)
			}
		}
	}
	return n.stmt(fd.Body)
}

func (n *normalizer) rename(name string) string {
	if !n.local[name] {
		return name
	}
	if v, ok := n.names[name]; ok {
		return v
	}
	v := fmt.Sprintf("v%d", len(n.names)+1)
	n.names[name] = v
	return v
}

func lit(kind, val string, pos token.Pos) *node { return &node{kind: kind, val: val, pos: pos} }

func (n *normalizer) expr(e ast.Expr) *node {
	switch t := e.(type) {
	case nil:
		return lit("nil", "", token.NoPos)
	case *ast.ParenExpr:
		return n.expr(t.X)
	case *ast.BasicLit:
		v := constant.MakeFromLiteral(t.Value, t.Kind, 0)
		s := v.ExactString()
		if t.Kind == token.CHAR || t.Kind == token.INT {
			s = constant.ToInt(v).ExactString()
		}
		return lit("lit", s, t.Pos())
	case *ast.Ident:
		return lit("id", n.rename(t.Name), t.Pos())
	case *ast.SelectorExpr:
		// flt.mantbits etc. -> the package constants of the fp port
		if id, ok := t.X.(*ast.Ident); ok && (id.Name == "flt" || id.Name == "float64info") {
			return lit("id", t.Sel.Name, t.Pos())
		}
		return &node{kind: "sel", val: t.Sel.Name, kids: []*node{n.expr(t.X)}, pos: t.Pos()}
	case *ast.BinaryExpr:
		return &node{kind: "bin", val: t.Op.String(), kids: []*node{n.expr(t.X), n.expr(t.Y)}, pos: t.OpPos}
	case *ast.UnaryExpr:
		return &node{kind: "un", val: t.Op.String(), kids: []*node{n.expr(t.X)}, pos: t.Pos()}
	case *ast.StarExpr:
		return &node{kind: "star", kids: []*node{n.expr(t.X)}, pos: t.Pos()}
	case *ast.IndexExpr:
		return &node{kind: "index", kids: []*node{n.expr(t.X), n.expr(t.Index)}, pos: t.Pos()}
	case *ast.SliceExpr:
		return &node{kind: "slice", kids: []*node{n.expr(t.X), n.expr(t.Low), n.expr(t.High), n.expr(t.Max)}, pos: t.Pos()}
	case *ast.CallExpr:
		// no-op conversions to the same basic type are kept (they are part of the shape); the one known spelling
		// difference — uint(x) around an already-uint expression — is handled by dropping conversions whose name is a basic type
		if id, ok := t.Fun.(*ast.Ident); ok && len(t.Args) == 1 && isBasicTypeName(id.Name) {
			// conversions between the word-sized integer types are spelling (signed shift counts are legal since Go 1.13;
			// the port dropped some of them): compared transparently. Narrowing conversions stay part of the shape.
			switch id.Name {
			case "int", "uint", "int64", "uint64":
				return n.expr(t.Args[0])
			}
			return &node{kind: "conv", val: id.Name, kids: []*node{n.expr(t.Args[0])}, pos: t.Pos()}
		}
		k := &node{kind: "call", kids: []*node{n.expr(t.Fun)}, pos: t.Pos()}
		for _, a := range t.Args {
			k.kids = append(k.kids, n.expr(a))
		}
		return k
	case *ast.CompositeLit:
		k := &node{kind: "complit", pos: t.Pos()}
		for _, el := range t.Elts {
			k.kids = append(k.kids, n.expr(el))
		}
		return k
	case *ast.KeyValueExpr:
		return &node{kind: "kv", kids: []*node{n.expr(t.Key), n.expr(t.Value)}, pos: t.Pos()}
	}
	return lit(fmt.Sprintf("%T", e), "", e.Pos())
}

func isBasicTypeName(s string) bool {
	switch s {
	case "int", "uint", "int64", "uint64", "int32", "uint32", "byte", "float64", "float32", "uint8", "rune":
		return true
	}
	return false
}

func (n *normalizer) block(list []ast.Stmt) *node {
	k := &node{kind: "block"}
	for _, s := range list {
		if _, ok := s.(*ast.EmptyStmt); ok {
			continue
		}
		k.kids = append(k.kids, n.stmt(s))
	}
	return k
}

func (n *normalizer) stmt(s ast.Stmt) *node {
	switch t := s.(type) {
	case nil:
		return lit("nil", "", token.NoPos)
	case *ast.BlockStmt:
		return n.block(t.List)
	case *ast.ExprStmt:
		return &node{kind: "expr", kids: []*node{n.expr(t.X)}, pos: t.Pos()}
	case *ast.IncDecStmt:
		op := "+"
		if t.Tok == token.DEC {
			op = "-"
		}
		x := n.expr(t.X)
		return &node{kind: "assign", val: "=", kids: []*node{x, {kind: "bin", val: op, kids: []*node{n.expr(t.X), lit("lit", "1", t.Pos())}, pos: t.Pos()}}, pos: t.Pos()}
	case *ast.AssignStmt:
		if t.Tok != token.ASSIGN && t.Tok != token.DEFINE && len(t.Lhs) == 1 && len(t.Rhs) == 1 {
			op := strings.TrimSuffix(t.Tok.String(), "=")
			return &node{kind: "assign", val: "=", kids: []*node{n.expr(t.Lhs[0]), {kind: "bin", val: op, kids: []*node{n.expr(t.Lhs[0]), n.expr(t.Rhs[0])}, pos: t.TokPos}}, pos: t.Pos()}
		}
		k := &node{kind: "assign", val: "=", pos: t.Pos()}
		// right-hand sides first so that first-use numbering follows evaluation order in both versions
		var rhs []*node
		for _, r := range t.Rhs {
			rhs = append(rhs, n.expr(r))
		}
		for _, l := range t.Lhs {
			k.kids = append(k.kids, n.expr(l))
		}
		k.kids = append(k.kids, rhs...)
		return k
	case *ast.DeclStmt:
		k := &node{kind: "decl", pos: t.Pos()}
		if gd, ok := t.Decl.(*ast.GenDecl); ok {
			for _, sp := range gd.Specs {
				if vs, ok := sp.(*ast.ValueSpec); ok {
					for i, id := range vs.Names {
						kk := &node{kind: "var", kids: []*node{lit("id", n.rename(id.Name), id.Pos())}}
						if i < len(vs.Values) {
							kk.kids = append(kk.kids, n.expr(vs.Values[i]))
						} else {
							kk.kids = append(kk.kids, lit("zero", "", id.Pos()))
						}
						k.kids = append(k.kids, kk)
					}
				}
			}
		}
		return k
	case *ast.IfStmt:
		return &node{kind: "if", kids: []*node{n.stmt(t.Init), n.expr(t.Cond), n.stmt(t.Body), n.stmt(t.Else)}, pos: t.Pos()}
	case *ast.ForStmt:
		return &node{kind: "for", kids: []*node{n.stmt(t.Init), n.expr(t.Cond), n.stmt(t.Post), n.stmt(t.Body)}, pos: t.Pos()}
	case *ast.RangeStmt:
		return &node{kind: "range", kids: []*node{n.expr(t.Key), n.expr(t.Value), n.expr(t.X), n.stmt(t.Body)}, pos: t.Pos()}
	case *ast.ReturnStmt:
		k := &node{kind: "return", pos: t.Pos()}
		for _, r := range t.Results {
			k.kids = append(k.kids, n.expr(r))
		}
		return k
	case *ast.BranchStmt:
		lab := ""
		if t.Label != nil {
			lab = n.rename(t.Label.Name)
		}
		return lit("branch", t.Tok.String()+" "+lab, t.Pos())
	case *ast.LabeledStmt:
		return &node{kind: "label", val: n.rename(t.Label.Name), kids: []*node{n.stmt(t.Stmt)}, pos: t.Pos()}
	case *ast.SwitchStmt:
		k := &node{kind: "switch", kids: []*node{n.stmt(t.Init), n.expr(t.Tag)}, pos: t.Pos()}
		for _, c := range t.Body.List {
			cc := c.(*ast.CaseClause)
			ck := &node{kind: "case", pos: cc.Pos()}
			vals := &node{kind: "vals"}
			for _, v := range cc.List {
				vals.kids = append(vals.kids, n.expr(v))
			}
			ck.kids = append(ck.kids, vals, n.block(cc.Body))
			k.kids = append(k.kids, ck)
		}
		return k
	case *ast.EmptyStmt:
		return lit("empty", "", t.Pos())
	}
	return lit(fmt.Sprintf("%T", s), "", s.Pos())
}
