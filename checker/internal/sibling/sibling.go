// Package sibling is engine E6: the arithmetic that internal/fp ported from strconv is compared with the strconv of
// the GOROOT the analysed program is built with, by lockstep co-execution of the two SSA forms (package coexec).
package sibling

import (
	"os"
	"os/exec"
	"runtime"
	"strings"
)

func goroot() string {
	cmd := exec.Command("go", "env", "GOROOT")
	cmd.Env = append(os.Environ(), "GOTOOLCHAIN=local", "GOFLAGS=")
	if out, err := cmd.Output(); err == nil {
		if d := strings.TrimSpace(string(out)); d != "" {
			return d
		}
	}
	return runtime.GOROOT()
}
