package sibling

import (
	"fmt"
	"go/types"
	"os"
	"path/filepath"
	"sort"
	"strings"

	"golang.org/x/tools/go/ssa"

	"rjverif/internal/coexec"
	"rjverif/internal/core"
)

// SSAPair is the outcome of comparing one function of the port with its reference by lockstep co-execution.
type SSAPair struct {
	Name       string
	Here       *ssa.Function
	There      *ssa.Function
	Comparable bool
	Why        string
	WhyPos     string
	Events     int
	Paths      int
	Diffs      []coexec.Diff
	Absent     bool            // not present in the port (inlined away): fine as long as its reference was walked from a caller
	SteppedA   []*ssa.Function // helpers of the port whose bodies were walked as part of this function
}

type SSAReport struct {
	Pairs     []SSAPair
	GoVersion string
}

// roots: the functions internal/fp ported from strconv ("T.m" for methods). Callees met on the way are added.
var ssaRoots = []string{"eiselLemire64", "atof64exact", "decimal.floatBits", "decimal.Shift", "decimal.RoundedInteger", "rightShift", "leftShift",
	"shouldRoundUp", "prefixIsLessThan", "trim"}

func lookupFunc(pkg *ssa.Package, name string) *ssa.Function {
	if i := strings.IndexByte(name, '.'); i >= 0 {
		tn, mn := name[:i], name[i+1:]
		t := pkg.Type(tn)
		if t == nil {
			return nil
		}
		for _, recv := range []types.Type{types.NewPointer(t.Type()), t.Type()} {
			ms := pkg.Prog.MethodSets.MethodSet(recv)
			for k := 0; k < ms.Len(); k++ {
				if ms.At(k).Obj().Name() == mn {
					return pkg.Prog.MethodValue(ms.At(k))
				}
			}
		}
		return nil
	}
	return pkg.Func(name)
}

func funcKey(fn *ssa.Function) string {
	if recv := fn.Signature.Recv(); recv != nil {
		t := recv.Type()
		if p, ok := t.(*types.Pointer); ok {
			t = p.Elem()
		}
		if n, ok := t.(*types.Named); ok {
			return n.Obj().Name() + "." + fn.Name()
		}
	}
	return fn.Name()
}

// CompareSSA compares the float arithmetic of internal/fp with GOROOT's strconv — the very package the analysed
// program links against (it is in the import graph of the library, so its SSA is already built).
// NonNegField, when set, tells the co-execution which fields of the port's structures are never negative (proved by
// the caller as an inductive invariant over every store to the field).
var NonNegField func(fa *ssa.FieldAddr) bool

func CompareSSA(w *core.World, resolve func(name string) *ssa.Function) (*SSAReport, error) {
	ref := w.Prog.ImportedPackage("strconv")
	if ref == nil {
		return nil, fmt.Errorf("package strconv is not in the import graph of the analysed program")
	}
	fp := w.SFP
	rep := &SSAReport{}
	if b, err := os.ReadFile(filepath.Join(goroot(), "VERSION")); err == nil {
		rep.GoVersion = strings.Fields(string(b))[0]
	}
	isFloatInfo := func(t types.Type) bool {
		if p, ok := t.Underlying().(*types.Pointer); ok {
			t = p.Elem()
		}
		n, ok := t.(*types.Named)
		return ok && n.Obj().Name() == "floatInfo" && n.Obj().Pkg() != nil && n.Obj().Pkg().Path() == "strconv"
	}
	cfg := &coexec.Config{
		NonNegField: NonNegField,
		Callee: func(a *ssa.Function) *ssa.Function {
			if a.Pkg != fp {
				return nil
			}
			if resolve != nil {
				for _, n := range ssaRoots {
					if resolve(n) == a {
						return lookupFunc(ref, n)
					}
				}
			}
			return lookupFunc(ref, funcKey(a))
		},
		Steppable: func(fn *ssa.Function) bool {
			return (fn.Pkg == fp || fn.Pkg == ref) && len(fn.Blocks) > 0 && fn.Object() != nil && !fn.Object().Exported()
		},
		SkipParam: func(p *ssa.Parameter) bool { return isFloatInfo(p.Type()) },
		FieldConst: func(v ssa.Value, field string) (int64, bool) {
			g, isG := v.(*ssa.Global)
			if !(isFloatInfo(v.Type()) && (!isG || g.Name() == "float64info")) {
				return 0, false
			}
			switch field {
			case "mantbits":
				return 52, true
			case "expbits":
				return 11, true
			case "bias":
				return -1023, true
			}
			return 0, false
		},
		GlobalName: func(g *ssa.Global) string {
			if g.Pkg == fp || g.Pkg == ref {
				return globalKey(g)
			}
			return ""
		},
	}
	type job struct {
		name        string
		here, there *ssa.Function
	}
	var queue []job
	done := map[*ssa.Function]bool{}
	for _, n := range ssaRoots {
		here := lookupFunc(fp, n)
		if resolve != nil {
			if f := resolve(n); f != nil {
				here = f // the port's function may have been renamed: it is found by its role
			}
		}
		queue = append(queue, job{n, here, lookupFunc(ref, n)})
	}
	walkedRef := map[*ssa.Function]bool{}
	for len(queue) > 0 {
		j := queue[0]
		queue = queue[1:]
		if j.there == nil {
			continue // this GOROOT's strconv has no such function: nothing to compare with
		}
		if j.here == nil {
			rep.Pairs = append(rep.Pairs, SSAPair{Name: j.name, There: j.there, Absent: true, Comparable: true})
			continue
		}
		if done[j.here] {
			continue
		}
		done[j.here] = true
		walkedRef[j.there] = true
		c := *cfg
		res := coexec.Compare(j.here, j.there, &c)
		pr := SSAPair{Name: j.name, Here: j.here, There: j.there, Comparable: res.Comparable, Why: res.Why, Events: res.Events, Paths: res.Paths, Diffs: res.Diffs, SteppedA: res.SteppedA}
		if res.WhyPos.IsValid() {
			pr.WhyPos = w.Pos(res.WhyPos)
		}
		rep.Pairs = append(rep.Pairs, pr)
		for _, cp := range res.Calls {
			queue = append(queue, job{funcKey(cp[0]), cp[0], cp[1]})
		}
		for _, fn := range res.SteppedB {
			walkedRef[fn] = true
		}
	}
	// a root that the port no longer has must have been walked through from a caller (its body was inlined)
	for i := range rep.Pairs {
		p := &rep.Pairs[i]
		if p.Absent && !walkedRef[p.There] {
			p.Comparable = false
			p.Why = "the port has no function " + p.Name + " and no compared caller goes through the reference's " + p.Name
		}
	}
	sort.SliceStable(rep.Pairs, func(i, k int) bool { return rep.Pairs[i].Name < rep.Pairs[k].Name })
	return rep, nil
}

// globalKey: package-level tables correspond by what they are — the type of their elements — when that is unique
// in their package (the one table of [2]uint64 rows, the one []float64, …), else by name. Their contents are
// judged separately (R04a re-derives every row).
func globalKey(g *ssa.Global) string {
	key := func(t types.Type) string {
		if p, ok := t.(*types.Pointer); ok {
			t = p.Elem()
		}
		var shape func(t types.Type, depth int) string
		shape = func(t types.Type, depth int) string {
			if depth > 4 {
				return "…"
			}
			switch u := t.Underlying().(type) {
			case *types.Basic:
				return u.Name()
			case *types.Slice:
				return "[]" + shape(u.Elem(), depth+1)
			case *types.Array:
				return "[n]" + shape(u.Elem(), depth+1) // the length is part of the content, not of the identity
			case *types.Struct:
				s := "struct{"
				for i := 0; i < u.NumFields(); i++ {
					s += shape(u.Field(i).Type(), depth+1) + ";"
				}
				return s + "}"
			case *types.Pointer:
				return "*" + shape(u.Elem(), depth+1)
			}
			return types.TypeString(t, func(*types.Package) string { return "" })
		}
		return shape(t, 0)
	}
	k := key(g.Type())
	n := 0
	for _, m := range g.Pkg.Members {
		if o, ok := m.(*ssa.Global); ok && key(o.Type()) == k {
			n++
		}
	}
	if n == 1 && (strings.HasPrefix(k, "[") || strings.HasPrefix(k, "struct")) {
		return "T:" + k
	}
	return g.Name()
}
