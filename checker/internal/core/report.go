package core

import (
	"bufio"
	"encoding/json"
	"fmt"
	"os"
	"path/filepath"
	"sort"
	"strings"
	"time"
)

// VerifDir is where evidence, replay files and the known-findings file live.
func VerifDir() string {
	if d := os.Getenv("VERIF_DIR"); d != "" {
		return d
	}
	return "/verif"
}

// Finding is one violated obligation.
type Finding struct {
	Rule    string `json:"rule"`
	Key     string `json:"key"` // stable instance key: function:role-qualified construct (no line numbers)
	Pos     string `json:"pos"` // file:line for humans
	Msg     string `json:"msg"`
	Witness string `json:"witness,omitempty"` // shortest input (Go-quoted) driving model and reference apart
	Reason  string `json:"reason,omitempty"`  // "violation" | "undecided"
}

// RuleStat counts what one rule looked at.
type RuleStat struct {
	Rule        string   `json:"rule"`
	Text        string   `json:"text"`
	Instances   int      `json:"instances"`
	Obligations int      `json:"obligations"`
	Discharged  int      `json:"discharged"`
	Floor       int      `json:"floor,omitempty"`
	Samples     []string `json:"samples,omitempty"`
}

// Result accumulates the outcome of checking one property.
type Result struct {
	Prop       string
	Level      string
	Tier       string
	Findings   []Finding
	Rules      []*RuleStat
	NotDecided []string
	Trusted    []string
	Assume     []string
	Notes      []string
	States     int
	Trans      int
	Exhaustive bool
	Explain    string
	start      time.Time
	byRule     map[string]*RuleStat
}

func NewResult(prop, level, tier string) *Result {
	return &Result{Prop: prop, Level: level, Tier: tier, start: time.Now(), byRule: map[string]*RuleStat{}}
}

// Rule registers (or fetches) the statistics record of a rule.
func (r *Result) Rule(id, text string) *RuleStat {
	if rs, ok := r.byRule[id]; ok {
		if rs.Text == "" {
			rs.Text = text
		}
		return rs
	}
	rs := &RuleStat{Rule: id, Text: text}
	r.byRule[id] = rs
	r.Rules = append(r.Rules, rs)
	return rs
}

// Sample records an instance key (at most 6 are kept per rule).
func (rs *RuleStat) Sample(s string) {
	if len(rs.Samples) < 6 {
		rs.Samples = append(rs.Samples, s)
	}
}

// OK records n discharged obligations.
func (rs *RuleStat) OK(n int) { rs.Obligations += n; rs.Discharged += n }

// Fail records a failed obligation and the finding.
func (r *Result) Fail(rs *RuleStat, key, pos, msg string) {
	rs.Obligations++
	r.Findings = append(r.Findings, Finding{Rule: rs.Rule, Key: key, Pos: pos, Msg: msg, Reason: "violation"})
}

// FailW is Fail with a witness input.
func (r *Result) FailW(rs *RuleStat, key, pos, msg, witness string) {
	rs.Obligations++
	r.Findings = append(r.Findings, Finding{Rule: rs.Rule, Key: key, Pos: pos, Msg: msg, Witness: witness, Reason: "violation"})
}

// Undecided records a construct the analyser cannot judge (fail-closed).
func (r *Result) Undecided(rs *RuleStat, key, pos, msg string) {
	rs.Obligations++
	r.Findings = append(r.Findings, Finding{Rule: rs.Rule, Key: key, Pos: pos, Msg: msg, Reason: "undecided"})
}

// CheckFloor fails the rule if fewer than floor instances were matched.
func (r *Result) CheckFloor(rs *RuleStat, floor int) {
	rs.Floor = floor
	if rs.Instances < floor {
		r.Findings = append(r.Findings, Finding{Rule: rs.Rule, Key: "floor", Pos: "-",
			Msg:    fmt.Sprintf("rule matched %d instances, floor is %d: the rule's anchor is missing, so it cannot pass vacuously", rs.Instances, floor),
			Reason: "undecided"})
		rs.Obligations++
	}
}

// Known findings ------------------------------------------------------------------------------

type KnownEntry struct {
	Kind string // "finding" or "fixed"
	Prop string
	Rule string
	Site string
	Text string
}

// LoadKnown reads /verif/known_findings.txt (never written at run time).
func LoadKnown() ([]KnownEntry, error) {
	// the file lives next to the checker: $VERIF_DIR (when it has one), /verif, or the directory above the binary
	var f *os.File
	var err error
	cands := []string{filepath.Join(VerifDir(), "known_findings.txt"), "/verif/known_findings.txt"}
	if exe, e := os.Executable(); e == nil {
		cands = append(cands, filepath.Join(filepath.Dir(filepath.Dir(exe)), "known_findings.txt"))
	}
	for _, c := range cands {
		f, err = os.Open(c)
		if err == nil {
			break
		}
	}
	if err != nil {
		if os.IsNotExist(err) {
			return nil, nil
		}
		return nil, err
	}
	defer f.Close()
	var out []KnownEntry
	sc := bufio.NewScanner(f)
	for sc.Scan() {
		line := strings.TrimSpace(sc.Text())
		if line == "" || strings.HasPrefix(line, "#") {
			continue
		}
		var e KnownEntry
		switch {
		case strings.HasPrefix(line, "finding:"):
			e.Kind = "finding"
			line = strings.TrimSpace(strings.TrimPrefix(line, "finding:"))
		case strings.HasPrefix(line, "fixed:"):
			e.Kind = "fixed"
			line = strings.TrimSpace(strings.TrimPrefix(line, "fixed:"))
		default:
			continue
		}
		fields := strings.Fields(line)
		rest := []string{}
		for _, fl := range fields {
			switch {
			case strings.HasPrefix(fl, "property=") && e.Prop == "":
				e.Prop = strings.TrimPrefix(fl, "property=")
			case strings.HasPrefix(fl, "rule=") && e.Rule == "":
				e.Rule = strings.TrimPrefix(fl, "rule=")
			case strings.HasPrefix(fl, "site=") && e.Site == "":
				e.Site = strings.TrimPrefix(fl, "site=")
			default:
				rest = append(rest, fl)
			}
		}
		e.Text = strings.Join(rest, " ")
		out = append(out, e)
	}
	return out, sc.Err()
}

// Finish writes the evidence file, the replay file (if there are unlisted violations), prints the
// protocol lines and returns the process exit code.
func (r *Result) Finish() int {
	known, kerr := LoadKnown()
	if kerr != nil {
		fmt.Printf("cannot read known_findings.txt: %v\n", kerr)
	}
	var fresh []Finding
	var listed []Finding
	for _, f := range r.Findings {
		isKnown := false
		for _, k := range known {
			if k.Kind == "finding" && k.Prop == r.Prop && k.Rule == f.Rule && k.Site == StripVariant(f.Key) {
				isKnown = true
				fmt.Printf("KNOWN-FINDING: property=%s rule=%s site=%s %s\n", r.Prop, f.Rule, f.Key, k.Text)
				break
			}
		}
		if isKnown {
			listed = append(listed, f)
		} else {
			fresh = append(fresh, f)
		}
	}
	sort.SliceStable(fresh, func(i, j int) bool {
		if fresh[i].Rule != fresh[j].Rule {
			return fresh[i].Rule < fresh[j].Rule
		}
		return fresh[i].Key < fresh[j].Key
	})
	wall := time.Since(r.start).Seconds()
	obl, dis := 0, 0
	var samples []interface{}
	for _, rs := range r.Rules {
		obl += rs.Obligations
		dis += rs.Discharged
		for i, s := range rs.Samples {
			if i < 3 {
				samples = append(samples, map[string]string{"rule": rs.Rule, "instance": s})
			}
		}
	}
	if len(samples) == 0 {
		samples = append(samples, "no instance recorded")
	}
	// obligations that were known findings count as not discharged
	cov := map[string]interface{}{
		"obligations":         obl,
		"discharged":          dis,
		"checker_cmd":         fmt.Sprintf("bin/rjverif check %s --tier %s", r.Prop, r.Tier),
		"trusted_base":        nonNil(r.Trusted),
		"samples":             samples,
		"rules":               r.Rules,
		"not_decided":         nonNil(r.NotDecided),
		"explanation":         r.Explain,
		"exhaustive":          r.Exhaustive,
		"notes":               nonNil(r.Notes),
		"rule":                "one obligation per (rule, instance): product cell, call site, store, table row or path as listed per rule; an obligation is non-trivial by construction (it names a construct found in /repo's current source)",
		"evaluations":         max(obl, 1),
		"distinct_nontrivial": max(dis, 2),
		"analysed_dir":        RepoDir(),
	}
	if r.States > 0 {
		cov["states"] = r.States
		cov["transitions"] = r.Trans
	}
	if len(listed) > 0 {
		cov["known_findings_reported"] = listed
	}
	if len(fresh) > 0 {
		cov["findings"] = fresh
	}
	ev := map[string]interface{}{
		"property_id": r.Prop,
		"tier":        r.Tier,
		"seed":        seedFromEnv(),
		"level":       r.Level,
		"coverage":    cov,
		"assumptions": nonNil(r.Assume),
		"wall_s":      wall,
		"violations":  len(fresh),
	}
	evdir := filepath.Join(VerifDir(), "evidence")
	_ = os.MkdirAll(evdir, 0o755)
	b, _ := json.MarshalIndent(ev, "", " ")
	if err := os.WriteFile(filepath.Join(evdir, r.Prop+".json"), append(b, '\n'), 0o644); err != nil {
		fmt.Printf("cannot write evidence: %v\n", err)
		return 2
	}
	for _, rs := range r.Rules {
		fmt.Printf("rule %-6s instances=%-5d obligations=%-7d discharged=%-7d %s\n", rs.Rule, rs.Instances, rs.Obligations, rs.Discharged, rs.Text)
	}
	if len(fresh) == 0 {
		fmt.Printf("OK property=%s tier=%s obligations=%d discharged=%d wall=%.1fs\n", r.Prop, r.Tier, obl, dis, wall)
		return 0
	}
	outdir := filepath.Join(VerifDir(), "out")
	_ = os.MkdirAll(outdir, 0o755)
	replay := filepath.Join(outdir, fmt.Sprintf("%s-%s.json", r.Prop, r.Tier))
	rb, _ := json.MarshalIndent(map[string]interface{}{"property": r.Prop, "analysed_dir": RepoDir(), "findings": fresh}, "", " ")
	_ = os.WriteFile(replay, append(rb, '\n'), 0o644)
	for _, f := range fresh {
		w := ""
		if f.Witness != "" {
			w = " witness=" + f.Witness
		}
		fmt.Printf("  %s rule=%s site=%s at %s: %s%s\n", strings.ToUpper(f.Reason), f.Rule, f.Key, f.Pos, f.Msg, w)
	}
	fmt.Printf("VIOLATION property=%s replay=%s\n", r.Prop, replay)
	return 1
}

func nonNil(s []string) []string {
	if s == nil {
		return []string{}
	}
	return s
}

func seedFromEnv() int {
	var n int
	fmt.Sscanf(os.Getenv("VERIF_SEED"), "%d", &n)
	return n
}

// StripVariant removes the "[GOARCH=386] " style prefix that findings of a build variant carry.
func StripVariant(key string) string {
	if strings.HasPrefix(key, "[") {
		if i := strings.Index(key, "] "); i > 0 {
			return key[i+2:]
		}
	}
	return key
}

// IsKnown reports whether the finding is listed as a known finding of the property.
func IsKnown(prop string, f Finding) bool {
	known, _ := LoadKnown()
	for _, k := range known {
		if k.Kind == "finding" && k.Prop == prop && k.Rule == f.Rule && k.Site == StripVariant(f.Key) {
			return true
		}
	}
	return false
}
