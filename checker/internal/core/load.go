// Package core holds program loading (engine E0) and the report/evidence plumbing.
package core

import (
	"fmt"
	"go/ast"
	"go/token"
	"go/types"
	"os"
	"path/filepath"
	"sort"
	"strings"

	"golang.org/x/tools/go/callgraph"
	"golang.org/x/tools/go/callgraph/cha"
	"golang.org/x/tools/go/callgraph/vta"
	"golang.org/x/tools/go/packages"
	"golang.org/x/tools/go/ssa"
	"golang.org/x/tools/go/ssa/ssautil"
)

const (
	RootPath = "github.com/willabides/rjson"
	FPPath   = "github.com/willabides/rjson/internal/fp"
)

// World is everything the rules look at: the type-checked syntax of the two
// library packages, their SSA form and a VTA call graph.
type World struct {
	Dir    string
	GOARCH string
	Tags   string
	Fset   *token.FileSet
	Root   *packages.Package
	FP     *packages.Package
	All    []*packages.Package
	Prog   *ssa.Program
	SRoot  *ssa.Package
	SFP    *ssa.Package
	cg     *callgraph.Graph
}

// RepoDir returns the directory that is analysed (default /repo; VERIF_REPO overrides,
// used only by the seeded-fault self test which analyses scratch copies).
func RepoDir() string {
	if d := os.Getenv("VERIF_REPO"); d != "" {
		return d
	}
	return "/repo"
}

// Load type-checks the two packages from dir's working tree and builds SSA.
func Load(dir, goarch, tags string) (*World, error) {
	env := []string{}
	for _, e := range os.Environ() {
		if strings.HasPrefix(e, "GOWORK=") || strings.HasPrefix(e, "GOFLAGS=") || strings.HasPrefix(e, "GOARCH=") ||
			strings.HasPrefix(e, "GOPROXY=") || strings.HasPrefix(e, "GOSUMDB=") || strings.HasPrefix(e, "GOTOOLCHAIN=") {
			continue
		}
		env = append(env, e)
	}
	env = append(env, "GOWORK=off", "GOFLAGS=-mod=mod", "GOPROXY=off", "GOSUMDB=off", "GOTOOLCHAIN=local", "CGO_ENABLED=0")
	if goarch != "" {
		env = append(env, "GOARCH="+goarch)
	}
	cfg := &packages.Config{Mode: packages.LoadAllSyntax, Dir: dir, Env: env, Tests: false}
	if tags != "" {
		cfg.BuildFlags = []string{"-tags=" + tags}
	}
	pkgs, err := packages.Load(cfg, RootPath, FPPath)
	if err != nil {
		return nil, fmt.Errorf("load: %w", err)
	}
	w := &World{Dir: dir, GOARCH: goarch, Tags: tags, All: pkgs}
	for _, p := range pkgs {
		for _, e := range p.Errors {
			return nil, fmt.Errorf("load: package %s: %s", p.PkgPath, e)
		}
		switch p.PkgPath {
		case RootPath:
			w.Root = p
		case FPPath:
			w.FP = p
		}
	}
	if w.Root == nil || w.FP == nil {
		return nil, fmt.Errorf("load: expected 2 packages (%s, %s), got %d", RootPath, FPPath, len(pkgs))
	}
	if len(w.Root.Syntax) == 0 || len(w.FP.Syntax) == 0 {
		return nil, fmt.Errorf("load: no syntax loaded")
	}
	w.Fset = w.Root.Fset
	prog, _ := ssautil.AllPackages(pkgs, ssa.InstantiateGenerics)
	prog.Build()
	w.Prog = prog
	w.SRoot = prog.Package(w.Root.Types)
	w.SFP = prog.Package(w.FP.Types)
	if w.SRoot == nil || w.SFP == nil {
		return nil, fmt.Errorf("load: SSA packages missing")
	}
	return w, nil
}

// CG returns the VTA call graph (built lazily; ~0.5 s).
func (w *World) CG() *callgraph.Graph {
	if w.cg == nil {
		w.cg = vta.CallGraph(ssautil.AllFunctions(w.Prog), cha.CallGraph(w.Prog))
	}
	return w.cg
}

// Pos renders a position relative to the repository directory.
func (w *World) Pos(p token.Pos) string {
	if !p.IsValid() {
		return "-"
	}
	pp := w.Fset.Position(p)
	rel, err := filepath.Rel(w.Dir, pp.Filename)
	if err != nil || strings.HasPrefix(rel, "..") {
		rel = pp.Filename
	}
	return fmt.Sprintf("%s:%d", rel, pp.Line)
}

// Pkgs returns the two library packages.
func (w *World) Pkgs() []*packages.Package { return []*packages.Package{w.Root, w.FP} }

// FuncDecl finds a top-level function or method declaration ("Name" or "(*T).Name"/"T.Name").
func (w *World) FuncDecl(pkg *packages.Package, name string) *ast.FuncDecl {
	for _, f := range pkg.Syntax {
		for _, d := range f.Decls {
			fd, ok := d.(*ast.FuncDecl)
			if !ok {
				continue
			}
			if DeclName(fd) == name {
				return fd
			}
		}
	}
	return nil
}

// DeclName is "f" for functions and "T.f" for methods (pointer-ness dropped).
func DeclName(fd *ast.FuncDecl) string {
	if fd.Recv == nil || len(fd.Recv.List) == 0 {
		return fd.Name.Name
	}
	t := fd.Recv.List[0].Type
	if s, ok := t.(*ast.StarExpr); ok {
		t = s.X
	}
	if id, ok := t.(*ast.Ident); ok {
		return id.Name + "." + fd.Name.Name
	}
	return fd.Name.Name
}

// SSAFunc finds the SSA function for "f" or "T.f" in the given package.
func (w *World) SSAFunc(sp *ssa.Package, name string) *ssa.Function {
	if i := strings.IndexByte(name, '.'); i >= 0 {
		tn, mn := name[:i], name[i+1:]
		obj := sp.Pkg.Scope().Lookup(tn)
		if obj == nil {
			return nil
		}
		named, ok := obj.Type().(*types.Named)
		if !ok {
			return nil
		}
		for _, T := range []types.Type{named, types.NewPointer(named)} {
			ms := w.Prog.MethodSets.MethodSet(T)
			for i := 0; i < ms.Len(); i++ {
				if ms.At(i).Obj().Name() == mn {
					fn := w.Prog.MethodValue(ms.At(i))
					if fn != nil && fn.Synthetic == "" {
						return fn
					}
				}
			}
		}
		return nil
	}
	return sp.Func(name)
}

// SrcFuncs lists all source-level functions (incl. methods and anonymous functions) of the two packages.
func (w *World) SrcFuncs() []*ssa.Function {
	var out []*ssa.Function
	seen := map[*ssa.Function]bool{}
	var add func(fn *ssa.Function)
	add = func(fn *ssa.Function) {
		if fn == nil || seen[fn] {
			return
		}
		seen[fn] = true
		if fn.Blocks != nil {
			out = append(out, fn)
		}
		for _, a := range fn.AnonFuncs {
			add(a)
		}
	}
	for _, sp := range []*ssa.Package{w.SRoot, w.SFP} {
		for _, m := range sp.Members {
			switch m := m.(type) {
			case *ssa.Function:
				add(m)
			case *ssa.Type:
				for _, T := range []types.Type{m.Type(), types.NewPointer(m.Type())} {
					ms := w.Prog.MethodSets.MethodSet(T)
					for i := 0; i < ms.Len(); i++ {
						fn := w.Prog.MethodValue(ms.At(i))
						if fn != nil && fn.Synthetic == "" && fn.Pkg == sp {
							add(fn)
						}
					}
				}
			}
		}
	}
	sort.Slice(out, func(i, j int) bool { return out[i].String() < out[j].String() })
	return out
}

// APIRoots is the exported API of package rjson (functions and methods of exported types).
func (w *World) APIRoots() []*ssa.Function {
	var out []*ssa.Function
	for _, fn := range w.SrcFuncs() {
		if fn.Pkg != w.SRoot || fn.Parent() != nil {
			continue
		}
		if !ast.IsExported(fn.Name()) {
			continue
		}
		if fn.Signature.Recv() != nil {
			t := fn.Signature.Recv().Type()
			if p, ok := t.(*types.Pointer); ok {
				t = p.Elem()
			}
			n, ok := t.(*types.Named)
			if !ok || !n.Obj().Exported() {
				continue
			}
		}
		out = append(out, fn)
	}
	return out
}

// Reachable returns the set of functions reachable from roots over the VTA call graph.
// If cutIface is true, interface-method (invoke) edges to the two handler interfaces are not followed.
func (w *World) Reachable(roots []*ssa.Function, follow func(e *callgraph.Edge) bool) map[*ssa.Function]bool {
	cg := w.CG()
	seen := map[*ssa.Function]bool{}
	var stack []*ssa.Function
	for _, r := range roots {
		if !seen[r] {
			seen[r] = true
			stack = append(stack, r)
		}
	}
	for len(stack) > 0 {
		fn := stack[len(stack)-1]
		stack = stack[:len(stack)-1]
		n := cg.Nodes[fn]
		if n == nil {
			continue
		}
		for _, e := range n.Out {
			if follow != nil && !follow(e) {
				continue
			}
			c := e.Callee.Func
			if c != nil && !seen[c] {
				seen[c] = true
				stack = append(stack, c)
			}
		}
	}
	return seen
}

// InLib reports whether fn belongs to one of the two library packages.
func (w *World) InLib(fn *ssa.Function) bool {
	if fn == nil {
		return false
	}
	p := fn.Pkg
	if p == nil && fn.Parent() != nil {
		p = fn.Parent().Pkg
	}
	if p == nil && fn.Origin() != nil {
		p = fn.Origin().Pkg
	}
	return p == w.SRoot || p == w.SFP
}

// LoadAny loads arbitrary packages from a directory (used for the positive-control snippets under /verif/selftest).
func LoadAny(dir string, patterns ...string) (*ssa.Program, []*ssa.Package, []*packages.Package, error) {
	env := append(os.Environ(), "GOWORK=off", "GOFLAGS=-mod=mod", "GOPROXY=off", "GOSUMDB=off", "GOTOOLCHAIN=local", "CGO_ENABLED=0")
	cfg := &packages.Config{Mode: packages.LoadAllSyntax, Dir: dir, Env: env}
	pkgs, err := packages.Load(cfg, patterns...)
	if err != nil {
		return nil, nil, nil, err
	}
	for _, p := range pkgs {
		for _, e := range p.Errors {
			return nil, nil, nil, fmt.Errorf("selftest package %s: %s", p.PkgPath, e)
		}
	}
	prog, sp := ssautil.AllPackages(pkgs, ssa.InstantiateGenerics)
	prog.Build()
	return prog, sp, pkgs, nil
}

// FuncsOf lists the source functions (incl. methods, closures) of the given SSA packages.
func FuncsOf(prog *ssa.Program, pkgs ...*ssa.Package) []*ssa.Function {
	var out []*ssa.Function
	seen := map[*ssa.Function]bool{}
	var add func(fn *ssa.Function)
	add = func(fn *ssa.Function) {
		if fn == nil || seen[fn] {
			return
		}
		seen[fn] = true
		if fn.Blocks != nil {
			out = append(out, fn)
		}
		for _, a := range fn.AnonFuncs {
			add(a)
		}
	}
	for _, sp := range pkgs {
		if sp == nil {
			continue
		}
		for _, m := range sp.Members {
			switch m := m.(type) {
			case *ssa.Function:
				add(m)
			case *ssa.Type:
				for _, T := range []types.Type{m.Type(), types.NewPointer(m.Type())} {
					ms := prog.MethodSets.MethodSet(T)
					for i := 0; i < ms.Len(); i++ {
						fn := prog.MethodValue(ms.At(i))
						if fn != nil && fn.Synthetic == "" && fn.Pkg == sp {
							add(fn)
						}
					}
				}
			}
		}
	}
	sort.Slice(out, func(i, j int) bool { return out[i].String() < out[j].String() })
	return out
}
