package core

import (
	"go/ast"
	"go/constant"
	"go/token"
	"go/types"

	"golang.org/x/tools/go/packages"
)

// FindVarInit returns the initialiser expression of a package-level variable.
func FindVarInit(pkg *packages.Package, obj types.Object) ast.Expr {
	for _, f := range pkg.Syntax {
		for _, d := range f.Decls {
			gd, ok := d.(*ast.GenDecl)
			if !ok || gd.Tok != token.VAR {
				continue
			}
			for _, sp := range gd.Specs {
				vs := sp.(*ast.ValueSpec)
				for i, n := range vs.Names {
					if pkg.TypesInfo.Defs[n] == obj && i < len(vs.Values) {
						return vs.Values[i]
					}
				}
			}
		}
	}
	return nil
}

// ReadTable256 reads a package-level [256]T composite literal (keyed or positional) into constants;
// unlisted entries are the zero value. Returns nil if any element is not a constant.
func ReadTable256(pkg *packages.Package, obj types.Object) *[256]constant.Value {
	init := FindVarInit(pkg, obj)
	cl, ok := ast.Unparen(init).(*ast.CompositeLit)
	if init == nil || !ok {
		return nil
	}
	arr, ok := obj.Type().Underlying().(*types.Array)
	if !ok || arr.Len() != 256 {
		return nil
	}
	var zero constant.Value
	switch b := arr.Elem().Underlying().(type) {
	case *types.Basic:
		switch {
		case b.Info()&types.IsBoolean != 0:
			zero = constant.MakeBool(false)
		case b.Info()&types.IsInteger != 0:
			zero = constant.MakeInt64(0)
		case b.Info()&types.IsString != 0:
			zero = constant.MakeString("")
		default:
			return nil
		}
	default:
		return nil
	}
	var out [256]constant.Value
	for i := range out {
		out[i] = zero
	}
	idx := int64(0)
	for _, el := range cl.Elts {
		val := el
		if kv, ok := el.(*ast.KeyValueExpr); ok {
			tv, ok := pkg.TypesInfo.Types[kv.Key]
			if !ok || tv.Value == nil {
				return nil
			}
			k, exact := constant.Int64Val(constant.ToInt(tv.Value))
			if !exact {
				return nil
			}
			idx = k
			val = kv.Value
		}
		tv, ok := pkg.TypesInfo.Types[val]
		if !ok || tv.Value == nil || idx < 0 || idx > 255 {
			return nil
		}
		out[idx] = tv.Value
		idx++
	}
	return &out
}
