package main

import (
	"encoding/json"
	"fmt"
	"os"
	"os/exec"
	"path/filepath"
	"sort"
	"strings"

	"rjverif/internal/core"
	"rjverif/internal/props"
)

// variants analysed in the thorough tier in addition to the default build (linux/amd64, no tags).
type variant struct {
	name, goarch, tags string
}

func variantsFor(id string) []variant {
	// (-tags gofuzz only adds the go-fuzz harness fuzz.go, whose exported Fuzz function is not part of the library's
	// API and appends to a harness-only global; it is deliberately not analysed as a variant.)
	_ = id
	return []variant{{"GOARCH=386", "386", ""}}
}

// runVariants re-runs the property's rules on other build configurations and merges the outcome.
func runVariants(id string, p props.Prop, r *core.Result) {
	for _, v := range variantsFor(id) {
		w, err := core.Load(core.RepoDir(), v.goarch, v.tags)
		rs := r.Rule("variant:"+v.name, "the same rules on the build configuration "+v.name)
		rs.Instances++
		if err != nil {
			r.Undecided(rs, "load:"+v.name, "-", err.Error())
			continue
		}
		sub := core.NewResult(id, p.Level, "thorough")
		x := props.NewCtx(w, "variant")
		p.Run(x, sub)
		for _, f := range sub.Findings {
			f.Key = "[" + v.name + "] " + f.Key
			r.Findings = append(r.Findings, f)
			rs.Obligations++
		}
		obl, dis := 0, 0
		for _, s := range sub.Rules {
			obl += s.Obligations
			dis += s.Discharged
		}
		rs.Obligations += dis
		rs.Discharged += dis
		rs.Sample(fmt.Sprintf("%s: %d obligations, %d discharged, %d findings", v.name, obl, dis, len(sub.Findings)))
	}
}

// replaySeeded: the seeded-fault self test. Every change stored under /verif/seeded whose meta.json names this
// property is applied to a scratch copy of /repo (outside /repo and /verif, removed afterwards); the property's
// rules must report at least one finding on it. A patch that no longer applies is counted as skipped.
func replaySeeded(id string, p props.Prop, r *core.Result) {
	rs := r.Rule("selftest:seeded", "seeded-fault self test: each stored property-breaking change (found by independent testers, confirmed to pass the existing suite) must be reported when applied to a scratch copy of the current tree")
	dirs, _ := filepath.Glob(filepath.Join(core.VerifDir(), "seeded", "*", "meta.json"))
	if alt, _ := filepath.Glob("/verif/seeded/*/meta.json"); len(dirs) == 0 {
		dirs = alt
	}
	sort.Strings(dirs)
	detected, total, skipped := 0, 0, 0
	for _, mf := range dirs {
		b, err := os.ReadFile(mf)
		if err != nil {
			continue
		}
		var meta struct {
			Property string   `json:"property"`
			Also     []string `json:"also_detected_by"`
		}
		if json.Unmarshal(b, &meta) != nil {
			continue
		}
		relevant := meta.Property == id
		for _, a := range meta.Also {
			if a == id {
				relevant = true
			}
		}
		if !relevant {
			continue
		}
		name := filepath.Base(filepath.Dir(mf))
		total++
		rs.Instances++
		scratch, err := os.MkdirTemp("", "rjverif-seed-")
		if err != nil {
			r.Undecided(rs, "seed:"+name, "-", "cannot create scratch directory: "+err.Error())
			continue
		}
		ok := func() bool {
			defer os.RemoveAll(scratch)
			cp := exec.Command("cp", "-r", core.RepoDir()+"/.", scratch)
			if out, err := cp.CombinedOutput(); err != nil {
				r.Undecided(rs, "seed:"+name, "-", "copy failed: "+string(out))
				return false
			}
			os.RemoveAll(filepath.Join(scratch, ".git"))
			ap := exec.Command("patch", "-p1", "-s", "-f", "-i", filepath.Join(filepath.Dir(mf), "patch.diff"))
			ap.Dir = scratch
			if out, err := ap.CombinedOutput(); err != nil {
				skipped++
				r.Notes = append(r.Notes, fmt.Sprintf("seed %s: patch no longer applies (%s): skipped", name, strings.TrimSpace(firstLine(string(out)))))
				return false
			}
			w, err := core.Load(scratch, "", "")
			if err != nil {
				// a seed that no longer type-checks is reported by the load rule anyway
				detected++
				rs.OK(1)
				return true
			}
			sub := core.NewResult(id, p.Level, "thorough")
			x := props.NewCtx(w, "seed")
			func() {
				defer func() {
					if rec := recover(); rec != nil {
						sub.Findings = append(sub.Findings, core.Finding{Rule: "internal", Key: "panic", Msg: fmt.Sprint(rec)})
					}
				}()
				p.Run(x, sub)
			}()
			if len(sub.Findings) > 0 {
				detected++
				rs.OK(1)
				f := sub.Findings[0]
				rs.Sample(fmt.Sprintf("%s: reported by %s at %s", name, f.Rule, f.Key))
				return true
			}
			r.Undecided(rs, "seed:"+name, "-", "the stored property-breaking change "+name+" is NOT reported by this property's rules (regression of the checker)")
			return false
		}()
		_ = ok
	}
	r.Notes = append(r.Notes, fmt.Sprintf("seeded faults for %s: %d detected of %d (%d skipped because the patch no longer applies)", id, detected, total, skipped))
}

func firstLine(s string) string {
	if i := strings.IndexByte(s, '\n'); i >= 0 {
		return s[:i]
	}
	return s
}
