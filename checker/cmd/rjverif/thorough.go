package main

import (
	"encoding/json"
	"fmt"
	"os"
	"os/exec"
	"path/filepath"
	"sort"
	"strings"

	"rjverif/internal/core"
	"rjverif/internal/props"
)

// variants analysed in the thorough tier in addition to the default build (linux/amd64, no tags).
type variant struct {
	name, goarch, tags string
}

func variantsFor(id string) []variant {
	// (-tags gofuzz only adds the go-fuzz harness fuzz.go, whose exported Fuzz function is not part of the library's
	// API and appends to a harness-only global; it is deliberately not analysed as a variant.)
	_ = id
	return []variant{{"GOARCH=386", "386", ""}}
}

// runVariants re-runs the property's rules on other build configurations and merges the outcome.
func runVariants(id string, p props.Prop, r *core.Result) {
	for _, v := range variantsFor(id) {
		w, err := core.Load(core.RepoDir(), v.goarch, v.tags)
		rs := r.Rule("variant:"+v.name, "the same rules on the build configuration "+v.name)
		rs.Instances++
		if err != nil {
			r.Undecided(rs, "load:"+v.name, "-", err.Error())
			continue
		}
		sub := core.NewResult(id, p.Level, "thorough")
		x := props.NewCtx(w, "variant")
		p.Run(x, sub)
		for _, f := range sub.Findings {
			f.Key = "[" + v.name + "] " + f.Key
			r.Findings = append(r.Findings, f)
			rs.Obligations++
		}
		obl, dis := 0, 0
		for _, s := range sub.Rules {
			obl += s.Obligations
			dis += s.Discharged
		}
		rs.Obligations += dis
		rs.Discharged += dis
		rs.Sample(fmt.Sprintf("%s: %d obligations, %d discharged, %d findings", v.name, obl, dis, len(sub.Findings)))
	}
}

// replaySeeded: the seeded-fault self test. Every change stored under /verif/seeded whose meta.json names this
// property is applied to a scratch copy of /repo (outside /repo and /verif, removed afterwards); the property's
// rules must report at least one finding on it. A patch that no longer applies is counted as skipped.
func replaySeeded(id string, p props.Prop, r *core.Result) {
	rs := r.Rule("selftest:seeded", "seeded-fault self test: each stored property-breaking change (found by independent testers, confirmed to pass the existing suite) must be reported when applied to a scratch copy of the current tree")
	dirs, _ := filepath.Glob(filepath.Join(core.VerifDir(), "seeded", "*", "meta.json"))
	if alt, _ := filepath.Glob("/verif/seeded/*/meta.json"); len(dirs) == 0 {
		dirs = alt
	}
	sort.Strings(dirs)
	detected, total, skipped := 0, 0, 0
	for _, mf := range dirs {
		b, err := os.ReadFile(mf)
		if err != nil {
			continue
		}
		var meta struct {
			Property string   `json:"property"`
			Also     []string `json:"also_detected_by"`
		}
		if json.Unmarshal(b, &meta) != nil {
			continue
		}
		relevant := meta.Property == id
		for _, a := range meta.Also {
			if a == id {
				relevant = true
			}
		}
		if !relevant {
			continue
		}
		name := filepath.Base(filepath.Dir(mf))
		total++
		rs.Instances++
		scratch, err := os.MkdirTemp("", "rjverif-seed-")
		if err != nil {
			r.Undecided(rs, "seed:"+name, "-", "cannot create scratch directory: "+err.Error())
			continue
		}
		ok := func() bool {
			defer os.RemoveAll(scratch)
			cp := exec.Command("cp", "-r", core.RepoDir()+"/.", scratch)
			if out, err := cp.CombinedOutput(); err != nil {
				r.Undecided(rs, "seed:"+name, "-", "copy failed: "+string(out))
				return false
			}
			os.RemoveAll(filepath.Join(scratch, ".git"))
			ap := exec.Command("patch", "-p1", "-s", "-f", "-i", filepath.Join(filepath.Dir(mf), "patch.diff"))
			ap.Dir = scratch
			if out, err := ap.CombinedOutput(); err != nil {
				skipped++
				r.Notes = append(r.Notes, fmt.Sprintf("seed %s: patch no longer applies (%s): skipped", name, strings.TrimSpace(firstLine(string(out)))))
				return false
			}
			w, err := core.Load(scratch, "", "")
			if err != nil {
				// a seed that no longer type-checks is reported by the load rule anyway
				detected++
				rs.OK(1)
				return true
			}
			sub := core.NewResult(id, p.Level, "thorough")
			x := props.NewCtx(w, "seed")
			func() {
				defer func() {
					if rec := recover(); rec != nil {
						sub.Findings = append(sub.Findings, core.Finding{Rule: "internal", Key: "panic", Msg: fmt.Sprint(rec)})
					}
				}()
				p.Run(x, sub)
			}()
			// a listed known finding is there on every tree: it does not count as detecting the seeded change
			var fresh []core.Finding
			for _, f := range sub.Findings {
				if !core.IsKnown(id, f) {
					fresh = append(fresh, f)
				}
			}
			sub.Findings = fresh
			if len(sub.Findings) > 0 {
				detected++
				rs.OK(1)
				f := sub.Findings[0]
				rs.Sample(fmt.Sprintf("%s: reported by %s at %s", name, f.Rule, f.Key))
				return true
			}
			r.Undecided(rs, "seed:"+name, "-", "the stored property-breaking change "+name+" is NOT reported by this property's rules (regression of the checker)")
			return false
		}()
		_ = ok
	}
	r.Notes = append(r.Notes, fmt.Sprintf("seeded faults for %s: %d detected of %d (%d skipped because the patch no longer applies)", id, detected, total, skipped))
}

func firstLine(s string) string {
	if i := strings.IndexByte(s, '\n'); i >= 0 {
		return s[:i]
	}
	return s
}

// replayBenign: the negative control of the seeded-fault self test. Every behaviour-preserving variant stored under
// /verif/benign (refactorings by independent testers: renames, helper extraction / inlining, restructured control
// flow, each confirmed to build and pass the suite) is applied to a scratch copy of the current tree and the
// property's quick check is run on it in a sub-process; it must stay silent. Only meaningful when the tree itself
// is clean for this property, so it is skipped as soon as the main run has a finding. A variant whose patch no
// longer applies is skipped.
func replayBenign(id string, r *core.Result) {
	for _, f := range r.Findings {
		if !core.IsKnown(id, f) {
			return
		}
	}
	rs := r.Rule("selftest:benign", "negative control: stored behaviour-preserving variants of the current tree (renames, helper extraction/inlining, restructured control flow) must not be reported")
	files, _ := filepath.Glob(filepath.Join(core.VerifDir(), "benign", "*.diff"))
	if alt, _ := filepath.Glob("/verif/benign/*.diff"); len(files) == 0 {
		files = alt
	}
	sort.Strings(files)
	self, err := os.Executable()
	if err != nil || len(files) == 0 {
		return
	}
	type outcome struct {
		name, status, detail string
	}
	results := make([]outcome, len(files))
	sem := make(chan struct{}, 8)
	done := make(chan int, len(files))
	for i, pf := range files {
		go func(i int, pf string) {
			sem <- struct{}{}
			defer func() { <-sem; done <- i }()
			name := strings.TrimSuffix(filepath.Base(pf), ".diff")
			results[i] = outcome{name: name, status: "skipped"}
			scratch, err := os.MkdirTemp("", "rjverif-benign-")
			if err != nil {
				return
			}
			defer os.RemoveAll(scratch)
			src := filepath.Join(scratch, "src")
			if out, err := exec.Command("cp", "-r", core.RepoDir(), src).CombinedOutput(); err != nil {
				results[i].detail = "copy failed: " + string(out)
				return
			}
			os.RemoveAll(filepath.Join(src, ".git"))
			ap := exec.Command("patch", "-p1", "-s", "-f", "-i", pf)
			ap.Dir = src
			if out, err := ap.CombinedOutput(); err != nil {
				results[i].detail = "patch no longer applies: " + strings.TrimSpace(firstLine(string(out)))
				return
			}
			cmd := exec.Command(self, "check", id, "--tier", "quick")
			cmd.Env = append(os.Environ(), "VERIF_REPO="+src, "VERIF_DIR="+filepath.Join(scratch, "out"), "VERIF_TIER=quick")
			out, _ := cmd.CombinedOutput()
			text := string(out)
			switch {
			case strings.Contains(text, "\nOK property=") || strings.HasPrefix(text, "OK property="):
				results[i].status = "silent"
			case strings.Contains(text, "rule=load "):
				// the variant does not type-check on this tree (it was made against another revision): not a verdict
				results[i].detail = "variant does not load on this tree"
			default:
				results[i].status = "alarm"
				for _, ln := range strings.Split(text, "\n") {
					if strings.HasPrefix(ln, "  VIOLATION") || strings.HasPrefix(ln, "  UNDECIDED") {
						results[i].detail = strings.TrimSpace(ln)
						break
					}
				}
			}
		}(i, pf)
	}
	for range files {
		<-done
	}
	silent, skipped := 0, 0
	for _, o := range results {
		switch o.status {
		case "silent":
			rs.Instances++
			rs.OK(1)
			silent++
		case "alarm":
			rs.Instances++
			r.Undecided(rs, "benign:"+o.name, "-", "the behaviour-preserving variant "+o.name+" is reported by this property's rules (false alarm of the checker): "+o.detail)
		default:
			skipped++
		}
	}
	r.Notes = append(r.Notes, fmt.Sprintf("behaviour-preserving variants for %s: %d silent of %d (%d skipped: patch no longer applies)", id, silent, len(files), skipped))
}
