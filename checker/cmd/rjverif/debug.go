package main

import (
	"fmt"

	"rjverif/internal/core"
	"rjverif/internal/props"
)

func debug(args []string) {
	w, err := core.Load(core.RepoDir(), "", "")
	if err != nil {
		fmt.Println(err)
		return
	}
	x := props.NewCtx(w, "quick")
	props.Debug(x, args)
}
