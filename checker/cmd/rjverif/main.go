// Command rjverif decides the properties C01..C20 of WillAbides/rjson by static analysis of /repo's
// current source. Usage: rjverif check <id> [--tier quick|thorough]
package main

import (
	"fmt"
	"os"
	"sort"

	"rjverif/internal/core"
	"rjverif/internal/props"
)

func main() {
	if len(os.Args) < 2 {
		usage()
	}
	switch os.Args[1] {
	case "check":
		if len(os.Args) < 3 {
			usage()
		}
		id := os.Args[2]
		tier := os.Getenv("VERIF_TIER")
		for i := 3; i < len(os.Args); i++ {
			if os.Args[i] == "--tier" && i+1 < len(os.Args) {
				tier = os.Args[i+1]
			}
		}
		if tier != "thorough" {
			tier = "quick"
		}
		os.Exit(runCheck(id, tier))
	case "list":
		var ids []string
		for id := range props.Registry {
			ids = append(ids, id)
		}
		sort.Strings(ids)
		for _, id := range ids {
			fmt.Println(id, props.Registry[id].Level)
		}
	case "debug":
		debug(os.Args[2:])
	default:
		usage()
	}
}

func usage() {
	fmt.Fprintln(os.Stderr, "usage: rjverif check <id> [--tier quick|thorough] | list | debug ...")
	os.Exit(2)
}

func runCheck(id, tier string) (code int) {
	p, ok := props.Registry[id]
	if !ok {
		fmt.Printf("unknown property %s\n", id)
		return 2
	}
	r := core.NewResult(id, p.Level, tier)
	defer func() {
		if rec := recover(); rec != nil {
			// a crash of the analyser is a failed check, never a pass
			rs := r.Rule("internal", "the analyser itself must not fail")
			r.Undecided(rs, "panic", "-", fmt.Sprint("analyser panic: ", rec))
			code = r.Finish()
		}
	}()
	w, err := core.Load(core.RepoDir(), "", "")
	if err != nil {
		rs := r.Rule("load", "the two library packages load and type-check from /repo's working tree")
		r.Undecided(rs, "load", "-", err.Error())
		return r.Finish()
	}
	x := props.NewCtx(w, tier)
	p.Run(x, r)
	if tier == "thorough" {
		runVariants(id, p, r)
		replaySeeded(id, p, r)
		replayBenign(id, r)
	}
	return r.Finish()
}
