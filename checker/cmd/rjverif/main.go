package main

import (
	"fmt"
	"os"

	"rjverif/internal/core"
	"rjverif/internal/machine"
)

func main() {
	w, err := core.Load(core.RepoDir(), "", "")
	if err != nil {
		fmt.Println(err)
		os.Exit(2)
	}
	ms := machine.ExtractAll(w)
	for _, m := range ms {
		fmt.Printf("%s: states=%d edges=%d handlers=%d fcalls=%d frets=%d splices=%d unesc=%d start=%d returns=%s problems=%d\n",
			m.Name, len(m.LTS.States), m.LTS.NumEdges(), len(m.Handlers), len(m.FCalls), len(m.FRets), len(m.Splices), len(m.Unescs), m.LTS.Start, m.Returns, len(m.Problems))
		for i, p := range m.Problems {
			if i < 10 {
				fmt.Printf("   PROBLEM %s %s: %s\n", p.Key, w.Pos(p.Pos), p.Msg)
			}
		}
		if err := m.LTS.CheckTotal(); err != nil {
			fmt.Println("   ", err)
		}
	}
	if len(os.Args) > 1 {
		for _, m := range ms {
			if m.Name == os.Args[1] {
				fmt.Print(m.LTS.Dump())
			}
		}
	}
}
