// D6 (known finding, not repaired): the exponent accumulator of readFloat / decimal.set saturates at 99999.
package main

import (
	"fmt"
	"strconv"
	"strings"

	"github.com/willabides/rjson"
)

func main() {
	for _, n := range []int{50000, 99998, 99999, 150000} {
		lit := "0." + strings.Repeat("0", n) + "1e" + strconv.Itoa(n+1)
		got, _, err := rjson.ReadFloat64([]byte(lit))
		fmt.Printf("0.<%d zeros>1e%d (exact value 1): ReadFloat64 = %v, err = %v\n", n, n+1, got, err)
	}
}
