module d5
go 1.23
require github.com/willabides/rjson v0.0.0
replace github.com/willabides/rjson => /repo
