// D5: integer parts longer than the 800-digit decimal buffer. Compares ReadFloat64 with exact rational arithmetic
// (math/big) on random literals with 801..1100 integer digits and exponents that bring the value into range, and on
// "1 followed by n zeros e-n". Before the fix (and in Go's strconv, which has the same code) the decimal fallback
// placed the decimal point after digit 800 instead of after the last integer digit.
package main

import (
	"fmt"
	"math/big"
	"math/rand"
	"strconv"
	"strings"

	"github.com/willabides/rjson"
)

func exact(lit string) float64 {
	i := strings.IndexByte(lit, 'e')
	m, _ := new(big.Int).SetString(lit[:i], 10)
	e, _ := strconv.Atoi(lit[i+1:])
	r := new(big.Rat).SetInt(m)
	ae := e
	if ae < 0 {
		ae = -ae
	}
	p := new(big.Int).Exp(big.NewInt(10), big.NewInt(int64(ae)), nil)
	if e < 0 {
		r.Quo(r, new(big.Rat).SetInt(p))
	} else {
		r.Mul(r, new(big.Rat).SetInt(p))
	}
	f, _ := r.Float64()
	return f
}

func main() {
	rng := rand.New(rand.NewSource(7))
	bad, badStrconv, n := 0, 0, 20000
	for k := 0; k < n; k++ {
		nd := 801 + rng.Intn(300)
		var sb strings.Builder
		sb.WriteByte(byte('1' + rng.Intn(9)))
		for j := 1; j < nd; j++ {
			sb.WriteByte(byte('0' + rng.Intn(10)))
		}
		e := -(nd - 1) + rng.Intn(600) - 300
		lit := fmt.Sprintf("%se%d", sb.String(), e)
		want := exact(lit)
		got, _, err := rjson.ReadFloat64([]byte(lit))
		if sc, _ := strconv.ParseFloat(lit, 64); sc != want {
			badStrconv++
		}
		if err != nil || got != want {
			bad++
			if bad <= 3 {
				fmt.Printf("MISMATCH digits=%d exp=%d exact=%v rjson=%v err=%v\n", nd, e, want, got, err)
			}
		}
	}
	fmt.Printf("%d random literals with 801..1100 integer digits: rjson wrong on %d, strconv wrong on %d\n", n, bad, badStrconv)
	for _, z := range []int{900, 50000} {
		lit := "1" + strings.Repeat("0", z) + "e-" + strconv.Itoa(z)
		got, _, err := rjson.ReadFloat64([]byte(lit))
		fmt.Printf("1 followed by %d zeros e-%d: rjson %v (err %v), exact 1\n", z, z, got, err)
	}
}
