#!/usr/bin/env python3
"""Regenerates /verif/MANIFEST.json from the list of checks the built checker registers
(bin/rjverif list) and the per-property texts below. Run after building the checker."""
import json, subprocess, sys

ENV = "GOFLAGS=-mod=mod GOPROXY=off GOSUMDB=off GOTOOLCHAIN=local GOWORK=off"
SETUP = f"cd /verif/checker && {ENV} go build -o /verif/bin/rjverif ./cmd/rjverif"

P = {
 "C01": ("proof", "E1+E2+E3 automaton extraction and product construction",
   "Valid's accepted language is proved equal to `ws* RFC-8259-value ws*` (nesting <= 10,000) for ALL byte strings: the Ragel-generated skipValue is read as an exact transition system, the hand-written number-tail helpers and Valid's own tail are modelled by an SSA abstract interpreter, and the composite is compared with a reference recogniser over the whole reachable product (every state x 256 bytes + end of input). Buffer independence by typestate on the same model. A proof is the right level because the space is a finite product that can be enumerated completely.",
   "Trusted: the Go-subset semantics of the extractor/abstract interpreter, the reference recogniser (written from RFC 8259), x/tools; that encoding/json.Valid implements RFC 8259 with the same depth limit is assumed, not re-verified."),
 "C02": ("proof", "E1+E2+E3 product construction with outcomes (verdict, offset)",
   "SkipValue's (success, offset) function is proved equal to the reference maximal-munch recogniser for all inputs, including the exported wrapper and the p-1 convention of the number-tail helpers.",
   "Same trusted base as C01; encoding/json's streaming decoder is assumed to implement the same maximal-munch prefix semantics."),
 "C03": ("other", "SSA dispatch/store/guard rules + results of C02/C04/C06/C07",
   "Decides the structural clauses of generic decoding: token-type dispatch table and sibling agreement, one container store per member on success paths, null rejection guard, depth arithmetic (10,000), offset re-basing. Whole-tree equality with encoding/json is an argument from these plus C04/C06/C07, not a computed fact.",
   "Does not decide equality of whole trees nor number values beyond C04's scope."),
 "C04": ("other", "table re-derivation (math/big), dominance rules on tier guards, E2 grammar product, lockstep SSA co-execution with GOROOT strconv, path rules on decimal-point and exponent bookkeeping",
   "Decides the literal grammar and returned offset of ReadFloat64 exactly (product construction), all 696+61+23 table entries against their big-integer definitions, the tier-dispatch guards, numeric side conditions, that the ported arithmetic (ten functions and what they call) is the same program as the strconv of the GOROOT in use (co-execution of the two SSA forms along every path; anything that cannot be aligned is a failure), and that decimal.set counts every integer digit whether or not it fits the 800-digit buffer. Correct rounding as a mathematical fact is NOT decided: it is inherited from the trusted reference. One known finding (exponent saturation beyond 100 KB literals) is listed in known_findings.txt and printed as KNOWN-FINDING.",
   "Trusted: the published correctness arguments of Eisel-Lemire and of strconv's decimal conversion; GOROOT's strconv (go1.23 line) as reference. Float tier policies that deviate from strconv are reported even when correct."),
 "C05": ("other", "E2 grammar product + interval rules on SSA",
   "Decides exactly the token grammar and success offset of all six integer readers for every input (product construction), the range guards as intervals on success paths (both directions), absence of lossy narrowing on success paths, and the hand-derived side conditions of ReadUint64's two loops. The arithmetic exactness of the wrap-around test is not decided.",
   "The relational fact `val*10+v wrapped <=> newVal < val` is trusted under its checked precondition."),
 "C06": ("proof", "E1+E2+E3 product with emission typestate; path rules on the \\u helpers",
   "Acceptance, offset and the emitted content (raw bytes copied unchanged exactly once, the eight simple escapes, \\u plumbing and the 12-byte skip) of both string readers and of UnescapeStringContent are decided for all inputs on the extracted transition systems; getu4's hex table and accumulation by exact byte-window evaluation; unescapeUnicodeChar by enumeration of its paths (rune encoded, bytes reported, and the result being the destination followed by exactly that rune's encoding).",
   "Trusted: documented semantics of unicode/utf16 and unicode/utf8 (stdlib summaries) for the code-point values."),
 "C07": ("proof", "E1+E3 bisimulation with marks against a marked reference",
   "For all inputs and all well-behaved handler strategies: the handler is invoked exactly on the first byte of each member, once, in order, with data[p:] and the raw key bytes between the quotes; declined values are validated by states bisimilar to the RFC recogniser; accepted values re-synchronise on their last byte; final offset and null handling as stated.",
   "Handler contract as stated in the property (returns 0 or the exact end offset)."),
 "C08": ("other", "SSA linear-form rule on every internal sub-slice call + C02/C04/C05/C06/C07/C13 results",
   "Decides the library-side obligations from which composition follows: every call on a proper sub-slice re-bases the returned offset exactly once, the machines re-synchronise at p+pp-1, and each reader's own (success, offset) is exact. The universally quantified family of user-written decoders is not itself enumerated.",
   "The composition argument (induction on nesting) is stated in DESIGN.md, not computed."),
 "C09": ("proof", "E1 action vocabulary + SSA dominance/value-identity at every handler call site",
   "At each of the handler call sites a non-nil error leads, without any further handler call, to a return of that very error value (no wrap, no conversion); the exported wrappers pass it through in both buffer branches.",
   "Go semantics of interface values (identity preserved by plain return)."),
 "C10": ("other", "overflow-aware linear arithmetic on handler offsets, E1/E2 index and stack obligations, call-graph cycle guards, LTS progress",
   "Decides: handler offsets are range-checked without wrap-around before reaching the cursor; every data[p] read, stack access and key slice of the machines and hand-written scanners is in range; recursion is guarded by a depth check; every machine cycle consumes input; success offsets lie in [0,len]; and (R10i) EVERY index/slice expression in every library function reachable from the API is accounted for by one of: the machine rules, the scanner interpreter, the compiler's own bounds-check elimination, a local Fourier-Motzkin argument over len/cap facts, or identity with strconv. Termination of the shift loops in internal/fp is NOT decided.",
   "Trusted: the compiler's prove pass, strconv's index safety, a short table of stdlib value ranges, no wrap-around in length arithmetic."),
 "C11": ("proof", "E1+E3 inclusion between the two extracted machines with differing stack use",
   "For every input on which the model of skipValue succeeds at offset k, the model of skipValueFast succeeds at k (pushdown product driven by skipValue).",
   "Same trusted base as C01."),
 "C12": ("proof", "SSA dominance / post-dominance / value identity per Decode function",
   "For each Decode function: every store through the target is dominated by the reader's err==nil edge and stores the reader's value; success always stores; error paths store nothing and return exactly what the null fallback yields; the reader matches the target type.",
   "The readers' own behaviour (C04-C06, C13)."),
 "C13": ("proof", "table comparison + E1/E2/E3 product construction + first-byte sets",
   "Both 256-entry tables equal their definitions; NextToken/NextTokenType, ReadNull/ReadBool are bisimilar with outcomes to their references for all inputs; the first-byte set of every typed reader is contained in the bytes classified as its type.",
   "Same trusted base as C01."),
 "C14": ("proof", "E1 depth typestate + SSA wrapper symmetry",
   "top restarts at 0; stack slots are read only after being written in the same call; handlers run only with an empty machine stack; the five wrappers are symmetric in the buffer and store the grown stack back. Hence prior buffer contents cannot influence a result, also under re-entrant sharing.",
   "Go slice semantics."),
 "C15": ("other", "SSA field-discipline rules on ValueReader",
   "Every ValueReader field is re-initialised before it is read, capacity-only, truncated before use, or a Buffer; containers are fresh per call and never written after return. Equality with a fresh reader follows from the discipline (argued, not computed).",
   "sync.Pool semantics."),
 "C16": ("other", "may-alias taint over SSA + compiler escape summaries + destination typestate",
   "No store/append/copy through any alias of an input; results do not alias inputs; destination slices only grow and are written at indices >= original length; scratch buffers are truncated before use.",
   "Flow-insensitive alias closure (no pointer analysis available in x/tools v0.29.0)."),
 "C17": ("other", "SSA structural rules on the StdLibCompatible helpers",
   "Argument immutability; every element stored is the conversion of the element read (inline or through a helper whose returns satisfy the same relation); every trip round the decoding loop appends exactly the encoding of the decoded rune once and advances by its width; append semantics of the bytes variant.",
   "utf8.DecodeRune returns (U+FFFD,1) exactly on invalid bytes (trusted stdlib summary)."),
 "C18": ("proof", "who-may-write analysis over SSA, closed-world callee list",
   "No instruction outside init stores to a package-level variable or through a pointer derived from one; inputs are never written; every external callee is on a list of stateless stdlib functions; no goroutines, unsafe, reflect.",
   "Listed stdlib functions have no observable package-level mutable state."),
 "C19": ("other", "compiler escape diagnostics + SSA allocation-site classification + model walk of the Decode-null path",
   "Every potential heap-allocation site reachable from the listed entry points is error-path-only or capacity-guarded; the slow-path decimal stays on the stack; on `ws* null` the typed reader that fails before the null fallback succeeds returns a sentinel (or a non-allocating constructor), so Decode*(null) allocates nothing either; growth requests stay within the promised spare capacity (len(dst)+len(input)) and are strictly guarded; every exit of a stack-taking machine, failing ones included, hands the stack back, and every wrapper stores it.",
   "Compiler escape analysis output (-gcflags=-m) of the installed toolchains."),
 "C20": ("other", "SSA hint-refresh post-dominance, remainder-size taint, stack-growth bound",
   "Necessary conditions of linear memory: every size hint is refreshed between uses on every path (or only ever holds constants), no allocation is sized by the unconsumed remainder of the input, stack growth is bounded by twice the depth reached plus a constant. The asymptotic bound as such is not decided.",
   "Amortisation of append; sync.Pool misses."),
}

def main():
    out = subprocess.run(["/verif/bin/rjverif", "list"], capture_output=True, text=True)
    if out.returncode != 0:
        print("rjverif list failed", out.stderr); sys.exit(1)
    reg = {}
    for line in out.stdout.split("\n"):
        f = line.split()
        if len(f) == 2:
            reg[f[0]] = f[1]
    checks, na = [], []
    partial = {}
    try:
        partial = json.load(open("/verif/partial.json"))
    except Exception:
        pass
    for pid in sorted(P):
        level, tech, text, note = P[pid]
        if pid in reg:
            lvl = reg[pid]
            t = text
            if pid in partial:
                t = text + " NOT YET IMPLEMENTED IN THIS BUILD: " + partial[pid]
            checks.append({
                "property_id": pid,
                "quick_cmd": f"/verif/bin/rjverif check {pid} --tier quick",
                "thorough_cmd": f"/verif/bin/rjverif check {pid} --tier thorough",
                "evidence_file": f"/verif/evidence/{pid}.json",
                "replay_cmd_template": "cat {path}",
                "engine": "rjverif",
                "level_claimed": {"category": lvl, "text": t, "design_ref": f"DESIGN.md section 4, {pid}"},
                "level_note": note,
                "technique": "static analysis: " + tech,
            })
        else:
            na.append({"property_id": pid, "reason": "deciding engine not built yet in this build of the checker (DESIGN.md section 8 build order); not claimed on a weaker proxy"})
    m = {
        "version": 1,
        "setup_cmd": SETUP,
        "hooks": {"guard": "verif", "enable": "none needed: nothing in /repo is instrumented; checks read /repo's working tree as it is",
                  "baseline_off_cmd": "cd /repo && go test -vet=off -count=1 ./...", "source_commits": [], "add_only": True},
        "engines": [{"name": "rjverif", "path": "/verif/checker", "serves_properties": sorted(reg),
                     "kind_free_text": "Go static analyser: go/packages + go/types + go/ssa; Ragel machine extractor, SSA scanner abstract interpreter, product checker, SSA rule library, table verifier"}],
        "checks": checks,
        "not_applicable": na,
        "notes": "All checks are static: they read /repo's current working tree (syntax, types, SSA, compiler diagnostics) and never execute rjson. See DESIGN.md.",
    }
    json.dump(m, open("/verif/MANIFEST.json", "w"), indent=1)
    print("claimed:", " ".join(sorted(reg)), "| not claimed:", " ".join(x["property_id"] for x in na))

main()
