#!/bin/bash
# usage: seedcheck.sh <Cxx> [verify]   (seed material in /tmp/seed_<Cxx>/, agent worktree /tmp/wt_<Cxx>)
# 1. (verify) confirms in the agent's scratch worktree: suite passes with the change, demo fails with it, passes without
# 2. applies patch.diff to /repo, runs every registered check, restores /repo
export GOFLAGS=-mod=mod GOPROXY=off GOSUMDB=off GOTOOLCHAIN=local
id=$1
sd=${SEEDDIR:-/tmp/seed_$id}
wt=${WTDIR:-/tmp/wt_$id}
if [ "$2" = "verify" ]; then
  cd $wt || exit 1
  # make the worktree match patch.diff exactly (agents shared a stash stack)
  git checkout -q -- . && git apply $sd/patch.diff || { echo "patch.diff does not apply to a clean worktree"; exit 1; }
  for f in $sd/*seed_demo*_test.go; do [ -f "$f" ] && cp $f .; done
  demos=$(ls *seed_demo*_test.go 2>/dev/null)
  mkdir -p /tmp/demo_hold_$id; for d in $demos; do mv $d /tmp/demo_hold_$id/; done
  echo "== suite with change (demo set aside)"; go build ./... && go test -vet=off -count=1 ./... 2>&1 | tail -3
  for d in $demos; do mv /tmp/demo_hold_$id/$d .; done
  if [ -n "$demos" ]; then
    echo "== demo with change (expect FAIL)"; go test -vet=off -count=1 -run 'Seed|seed|Demo' . 2>&1 | tail -4
    git apply -R $sd/patch.diff && echo "== demo without change (expect ok)"; go test -vet=off -count=1 -run 'Seed|seed|Demo' . 2>&1 | tail -3; git apply $sd/patch.diff
  else
    echo "(no in-package demo test; see $sd)"
  fi
fi
cd /repo || exit 1
if ! git diff --quiet; then echo "/repo dirty"; exit 1; fi
git apply $sd/patch.diff || { echo "patch does not apply"; exit 1; }
go build ./... || { echo "does not build"; git checkout -- .; exit 1; }
echo "== checks on patched /repo"
for p in $(/verif/bin/rjverif list | cut -d' ' -f1); do
  out=$(VERIF_DIR=/tmp/seedrun_out /verif/bin/rjverif check $p 2>&1)
  if echo "$out" | grep -q "^VIOLATION"; then
    echo "$p: VIOLATION"; echo "$out" | grep -E "^  (VIOLATION|UNDECIDED)" | head -3 | cut -c1-300
  fi
done
git checkout -- .
git status --short | head -3
